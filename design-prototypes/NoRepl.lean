/-! Prototype C14: `_find_coord` / `_find_random_sample` (after fix F13) -/
namespace NoRepl

/-- (chrom, start, end) — closed interval of base pairs already handed out -/
abbrev Iv := Nat × Nat × Nat

def overlaps (a b : Iv) : Prop := a.1 = b.1 ∧ a.2.1 ≤ b.2.2 ∧ b.2.1 ≤ a.2.2
instance (a b : Iv) : Decidable (overlaps a b) := by unfold overlaps; infer_instance

/-- `_find_coord(cur_hap, chrom, start, end)`: returns (used?, updated list) -/
def findCoord (cur : List Iv) (req : Iv) : Bool × List Iv :=
  if cur.any (fun u => decide (req.1 = u.1) && (decide (req.2.1 ≤ u.2.2) && decide (u.2.1 ≤ req.2.2)))
  then (true, cur) else (false, cur ++ [req])

/-- the pre-fix test -/
def findCoordOld (cur : List Iv) (req : Iv) : Bool × List Iv :=
  if cur.any (fun u => decide (req.1 = u.1) &&
      ((decide (req.2.1 ≤ u.2.1) && decide (u.2.1 < req.2.2)) || (decide (req.2.1 < u.2.2) && decide (u.2.2 ≤ req.2.2))))
  then (true, cur) else (false, cur ++ [req])

def Disjoint (l : List Iv) : Prop := l.Pairwise (fun a b => ¬ overlaps a b)

theorem findCoord_used_iff (cur : List Iv) (req : Iv) :
    (findCoord cur req).1 = true ↔ ∃ u ∈ cur, overlaps req u := by
  unfold findCoord
  split
  · rename_i h
    simp only [true_iff]
    obtain ⟨u, hu, hp⟩ := List.any_eq_true.mp h
    refine ⟨u, hu, ?_⟩
    simpa [overlaps, Bool.and_eq_true, decide_eq_true_eq] using hp
  · rename_i h
    simp only [Bool.false_eq_true, false_iff]
    intro ⟨u, hu, ho⟩
    apply h
    apply List.any_eq_true.mpr
    exact ⟨u, hu, by simpa [overlaps, Bool.and_eq_true, decide_eq_true_eq] using ho⟩

theorem overlaps_symm {a b : Iv} : overlaps a b → overlaps b a := by
  unfold overlaps; intro ⟨h1, h2, h3⟩; exact ⟨h1.symm, h3, h2⟩

/-- the invariant: intervals registered for one reference haplotype stay pairwise disjoint -/
theorem findCoord_disjoint (cur : List Iv) (req : Iv) (h : Disjoint cur) :
    Disjoint (findCoord cur req).2 := by
  unfold findCoord
  split
  · exact h
  · rename_i hn
    unfold Disjoint
    rw [List.pairwise_append]
    refine ⟨h, by simp, ?_⟩
    intro a ha b hb
    simp only [List.mem_singleton] at hb
    subst hb
    intro ho
    apply hn
    apply List.any_eq_true.mpr
    exact ⟨a, ha, by simpa [overlaps, Bool.and_eq_true, decide_eq_true_eq] using overlaps_symm ho⟩

/-- any number of requests, in any order (all shuffles, all simulated haplotypes and blocks) -/
theorem requests_disjoint (reqs : List Iv) (cur : List Iv) (h : Disjoint cur) :
    Disjoint (reqs.foldl (fun c r => (findCoord c r).2) cur) := by
  induction reqs generalizing cur with
  | nil => exact h
  | cons r rs ih => exact ih _ (findCoord_disjoint cur r h)

/-- F13: the old test grants a request nested in a used interval, and one sharing an end point -/
theorem findCoordOld_refuted :
    (findCoordOld [(1,100,200)] (1,120,180)).1 = false ∧ overlaps (1,120,180) (1,100,200) ∧
    (findCoordOld [(1,100,200)] (1,200,300)).1 = false ∧ overlaps (1,200,300) (1,100,200) := by decide

end NoRepl
