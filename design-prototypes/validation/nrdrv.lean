import Proto.NoRepl
open NoRepl
def triples (s : String) : List Iv := (s.splitOn ",").filterMap (fun t =>
  match t.trimAscii.toString.splitOn ":" with
  | [a, b, c] => some (a.toNat!, b.toNat!, c.toNat!) | _ => none)
def main : IO Unit := do
  let stdin ← IO.getStdin
  repeat
    let line ← stdin.getLine
    if line.isEmpty then break
    match (line.trimAscii.toString.splitOn ";") with
    | [u, r] =>
      match triples r with
      | [req] =>
        let res := findCoord (triples u) req
        IO.println s!"{res.1};{String.intercalate "," (res.2.map (fun (p : Iv) => s!"{p.1}:{p.2.1}:{p.2.2}"))}"
      | _ => IO.println "bad"
    | _ => IO.println "bad"
