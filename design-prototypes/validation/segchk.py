import itertools, subprocess
from haptools.sim_genotype import get_segment, start_segment
from haptools.admix_storage import HaplotypeSegment as S
MAX=2**31-1
cases=[]
ends_opts=[()]+[c for r in (1,2,3) for c in itertools.combinations((2,4,6),r)]
for e1 in ends_opts:
  for e2 in [None,(),(3,)]:
    for labs in itertools.product((1,2),repeat=len(e1)+1+(0 if e2 is None else len(e2)+1)):
        segs=[]; li=iter(labs)
        for e in list(e1)+[MAX]: segs.append((next(li),1,e))
        if e2 is not None:
            for e in list(e2)+[MAX]: segs.append((next(li),2,e))
        for chrom in ([1,2] if e2 is not None else [1]):
            for st in range(0,8):
                for en in list(range(st,8))+[MAX]:
                    cases.append((0,chrom,st,en,segs))
print('cases',len(cases))
with open('/tmp/hx/pm_seg.txt','w') as f:
    for p,c,st,en,segs in cases: f.write(f"{p};{c};{st};{en};{','.join(f'{a}:{b}:{e}' for a,b,e in segs)}\n")
out=subprocess.run('cd /tmp/hx/lean/Proto && lake env lean --run segdrv.lean < /tmp/hx/pm_seg.txt',shell=True,capture_output=True,text=True).stdout.splitlines()
bad=0
for (p,c,st,en,segs),ln in zip(cases,out):
    par=[S(a,b,e,0.0) for a,b,e in segs]
    i=start_segment(st,c,par)
    try: r=','.join(f'{s.get_pop()}:{s.get_chrom()}:{s.get_end_coord()}' for s in get_segment(p,0,c,st,en,7.0,[par]))
    except Exception as e: r='ERR'
    if f'{i}|{r}'!=ln:
        bad+=1
        if bad<4: print('MISMATCH',(p,c,st,en,segs),'impl',f'{i}|{r}','model',ln)
print('checked',len(out),'mismatches',bad)
