import numpy as np, subprocess
from haptools.karyogram import GetHaplotypeBlocks
rng=np.random.default_rng(18)
cases=[]; exp=[]
for t in range(600):
    samples=[['S','A_B','x_1','T'][i] for i in rng.permutation(4)[:rng.integers(1,5)]]
    target=str(rng.choice(['S','A_B','x_1','ZZ']))
    chroms=sorted(rng.choice([1,2,7,23],size=rng.integers(1,4),replace=False).tolist())
    lines=[]; txt=[]
    for s in samples:
        for k in (1,2):
            lines.append(f'H {s}'); txt.append(f'{s}_{k}')
            for c in chroms:
                nb=int(rng.integers(1,4)); cms=np.sort(rng.choice(np.arange(1,500),size=nb,replace=False))
                for cm in cms:
                    pop=str(rng.choice(['YRI','CEU'])); cname=('X' if c==23 else str(c)); 
                    if rng.random()<.3: cname='chr'+cname
                    lines.append(f'B {pop} {c} {int(cm)*1000}'); txt.append(f'{pop}\t{cname}\t{int(cm)*7}\t{int(cm)/10}')
    use_ends=rng.random()<.5
    ends={c:int(rng.integers(600,900)) for c in chroms}
    open('/tmp/hx/k.bp','w').write('\n'.join(txt)+'\n')
    if use_ends: open('/tmp/hx/kc.txt','w').write(''.join(f"{'X' if c==23 else c}\t0\t{ends[c]/20}\t{ends[c]/10}\n" for c in chroms))
    r=GetHaplotypeBlocks('/tmp/hx/k.bp',target,'/tmp/hx/kc.txt' if use_ends else None) if not (use_ends and target not in samples) else []
    exp.append('|'.join(','.join(f"{b['pop']}:{b['chrom']}:{round(b['start']*10000)}:{round(b['end']*10000)}" for b in strand) for strand in r))
    cases.append(f"{target};{','.join(f'{c}={ends[c]*1000}' for c in chroms) if use_ends else ''};{'|'.join(lines)}")
open('/tmp/hx/kin.txt','w').write('\n'.join(cases)+'\n')
out=subprocess.run('cd /tmp/hx/lean/Proto && lake env lean --run karydrv.lean < /tmp/hx/kin.txt',shell=True,capture_output=True,text=True).stdout.splitlines()
bad=sum(1 for a,b in zip(out,exp) if a!=b)
for a,b,c in zip(out,exp,cases):
    if a!=b: print('MISMATCH\n in',c,'\n model',a,'\n impl ',b); break
print('cases',len(exp),'nonempty',sum(1 for e in exp if e),'mismatches',bad, 'lines out',len(out))
