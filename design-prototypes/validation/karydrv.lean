import Proto.Karyogram
open Karyogram
/-- input: name ; ends as chrom=val,... (or empty) ; lines separated by '|' : 'H sample' or 'B pop chrom cm'
    output: strands separated by '|', blocks 'pop:chrom:start:stop' -/
def main : IO Unit := do
  let stdin ← IO.getStdin
  repeat
    let line ← stdin.getLine
    if line.isEmpty then break
    match (line.trimAscii.toString.splitOn ";") with
    | [name, endsS, ls] =>
      let klines : List KLine := (ls.splitOn "|").filterMap (fun t =>
        match t.splitOn " " with
        | ["H", s] => some (.header s)
        | ["B", p, c, cm] => some (.block p c.toNat! cm.toInt!)
        | _ => none)
      let ends : List (Nat × Int) := (endsS.splitOn ",").filterMap (fun t =>
        match t.splitOn "=" with | [a, b] => some (a.toNat!, b.toInt!) | _ => none)
      let endOf : Nat → Int := fun c => (ends.lookup c).getD 0
      let r := getBlocks name klines
      let r := if ends.isEmpty then r else r.map (extend endOf)
      IO.println (String.intercalate "|" (r.map (fun strand =>
        String.intercalate "," (strand.map (fun (b : Blk) => s!"{b.pop}:{b.chrom}:{b.start}:{b.stop}")))))
    | _ => IO.println "bad"
