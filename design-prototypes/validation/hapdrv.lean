import Lean.Data.Json
import Proto.HapFormat
open Lean HapFormat
/-- input JSON: {"H":[names],"V":[names],"R":[names],"lines":[[fields]]}; output JSON: list of [owner, [vars]] or null -/
def recJson (r : Rec) : Json :=
  Json.mkObj [("t", r.t.sym), ("mand", toJson r.mand), ("extras", toJson (r.extras.map (fun p => [p.1, p.2])))]
def main : IO Unit := do
  let stdin ← IO.getStdin
  repeat
    let line ← stdin.getLine
    if line.isEmpty then break
    match Json.parse line with
    | .error e => IO.println s!"bad {e}"
    | .ok j =>
      let names (k : String) : List String := ((j.getObjValAs? (List String) k).toOption).getD []
      let lines : List (List String) := ((j.getObjValAs? (List (List String)) "lines").toOption).getD []
      let c : Classes := ⟨fun t => (names t.sym).map (fun n => (n, "", ""))⟩
      match parse c lines with
      | none => IO.println "null"
      | some d => IO.println (Json.arr (d.map (fun hv => Json.arr #[recJson hv.1, Json.arr (hv.2.map recJson).toArray])).toArray).compress
