import numpy as np, logging, json, subprocess, gzip
from dataclasses import dataclass, field
from haptools.data import Haplotypes, Haplotype, Variant, Repeat, Extra
logging.disable(logging.CRITICAL)
@dataclass
class H2(Haplotype):
    anc: str
    beta: float
    cnt: int
    _extras: tuple = field(repr=False, init=False, default=(Extra("anc","s","a"),Extra("beta",".2f","b"),Extra("cnt","d","c")))
@dataclass
class H1(Haplotype):
    beta: float
    _extras: tuple = field(repr=False, init=False, default=(Extra("beta",".2f","b"),))
@dataclass
class V2(Variant):
    score: float
    _extras: tuple = field(repr=False, init=False, default=(Extra("score",".3f","s"),))
@dataclass
class R2(Repeat):
    beta: float
    _extras: tuple = field(repr=False, init=False, default=(Extra("beta",".2f","b"),))
rng=np.random.default_rng(66)
inputs=[]; exp=[]
def canon(h, cls_names):
    out=[]
    for k,o in h.data.items():
        t='H' if isinstance(o,Haplotype) else 'R'
        def ex(obj,tt): return [[n, format(getattr(obj,n), dict(anc='s',beta='.2f',cnt='d',score='.3f')[n])] for n in cls_names[tt]]
        owner={'t':t,'mand':[o.chrom,str(o.start),str(o.end),o.id],'extras':ex(o,t)}
        vs=[{'t':'V','mand':[o.id,str(v.start),str(v.end),v.id,v.allele],'extras':ex(v,'V')} for v in getattr(o,'variants',())]
        out.append([owner,vs])
    return out
for t in range(400):
    hs=Haplotypes('/tmp/hx/w.hap',haplotype=H2,variant=V2,repeat=R2); hs.data={}
    for i in range(int(rng.integers(0,4))):
        h=H2(str(rng.choice(['1','chr2','X'])),int(rng.integers(1,100)),int(rng.integers(100,200)),f'H{i}',str(rng.choice(['YRI','CEU'])),round(float(rng.normal()),2),int(rng.integers(-5,5)))
        h.variants=tuple(V2(int(rng.integers(1,100)),int(rng.integers(100,200)),f'v{rng.integers(0,5)}',str(rng.choice(['A','C','GT'])),round(float(rng.normal()),3)) for _ in range(int(rng.integers(0,4))))
        hs.data[h.id]=h
    for i in range(int(rng.integers(0,3))):
        r=R2(str(rng.choice(['1','chr2'])),int(rng.integers(1,100)),int(rng.integers(100,200)),f'R{i}',round(float(rng.normal()),2)); hs.data[r.id]=r
    if not hs.data: continue
    items=list(hs.data.items()); rng.shuffle(items); hs.data=dict(items); hs.write()
    lines=open('/tmp/hx/w.hap').read().rstrip('\n').split('\n'); head=[l for l in lines if l.startswith('#')]; body=[l for l in lines if not l.startswith('#')]
    rng.shuffle(head); rng.shuffle(body)
    for cm in ['#','# ','#text','#\ttext','# a comment','#H','#H\t','#\tfoo\tbar']:
        if rng.random()<.5:
            pos=int(rng.integers(0,len(head)+len(body)+1))
            if pos<=len(head): head.insert(pos,cm)
            else: body.insert(pos-len(head),cm)
    allines=head+body
    open('/tmp/hx/w3.hap','w').write('\n'.join(allines)+'\n')
    mode=rng.choice(['full','h1','base'])
    kw=dict(full=dict(haplotype=H2,variant=V2,repeat=R2),h1=dict(haplotype=H1),base={})[mode]
    names=dict(full={'H':['anc','beta','cnt'],'V':['score'],'R':['beta']},h1={'H':['beta'],'V':[],'R':[]},base={'H':[],'V':[],'R':[]})[mode]
    r3=Haplotypes('/tmp/hx/w3.hap',**kw); r3.read()
    # the reader keeps file order of H/R lines
    exp.append(json.dumps(canon(r3,names),separators=(',',':')))
    inputs.append(json.dumps({**names,'lines':[l.split('\t') for l in allines]}))
open('/tmp/hx/hin.txt','w').write('\n'.join(inputs)+'\n')
out=subprocess.run('cd /tmp/hx/lean/Proto && lake env lean --run hapdrv.lean < /tmp/hx/hin.txt',shell=True,capture_output=True,text=True)
o=out.stdout.splitlines()
bad=0
for a,b,c in zip(o,exp,inputs):
    if json.loads(a)!=json.loads(b):
        bad+=1
        if bad<3: print('MISMATCH\n in',c,'\n model',a,'\n impl ',b)
print('cases',len(exp),'out',len(o),'mismatches',bad, out.stderr[:300])
