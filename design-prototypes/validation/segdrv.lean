import Proto.GetSeg
open Seg
/-- input: pop ; chrom ; st ; en ; segs as pop:chrom:end,...   output: start index | result segs -/
def main : IO Unit := do
  let stdin ← IO.getStdin
  repeat
    let line ← stdin.getLine
    if line.isEmpty then break
    match (line.trimAscii.toString.splitOn ";") with
    | [p, c, st, en, ss] =>
      let segs : Array Seg := ((ss.splitOn ",").filterMap (fun t =>
        match t.trimAscii.toString.splitOn ":" with
        | [a, b, e] => some (⟨a.toNat!, b.toNat!, e.toNat!, 0⟩ : Seg)
        | _ => none)).toArray
      let i := startSegment st.toNat! c.toNat! segs
      let r := getSegment p.toNat! 0 c.toNat! st.toNat! en.toNat! 7 #[segs]
      let rs := match r with
        | .ok out => String.intercalate "," (out.map (fun (s : Seg) => s!"{s.pop}:{s.chrom}:{s.endc}"))
        | .error _ => "ERR"
      IO.println s!"{i}|{rs}"
    | _ => IO.println "bad"
