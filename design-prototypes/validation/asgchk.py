import numpy as np, subprocess, itertools
from haptools.data import Breakpoints
cases=[]; exp=[]
MAX=2**31-1
for npos in range(0,5):
  for pos in itertools.combinations_with_replacement(range(1,7),npos):
    for k in range(0,4):
      for ends in itertools.combinations(range(1,7),k):
        e=list(ends)+[MAX]
        vp=np.array(pos,dtype=np.uint32); hp=np.array(e,dtype=np.int64)
        bkp=np.searchsorted(vp,hp,side='right'); lens=np.diff(np.insert(bkp,0,0)); rep=np.repeat(np.arange(len(e)),lens)
        fb=Breakpoints._find_blocks(np.array(e,dtype=np.uint32),vp) if npos else np.array([],dtype=int)
        cases.append(f"{','.join(map(str,pos))};{','.join(map(str,e))}"); exp.append(f"{','.join(map(str,rep.tolist()))};{','.join(map(str,np.asarray(fb).tolist()))}")
open('/tmp/hx/ain.txt','w').write('\n'.join(cases)+'\n')
out=subprocess.run('cd /tmp/hx/lean/Proto && lake env lean --run asgdrv.lean < /tmp/hx/ain.txt',shell=True,capture_output=True,text=True).stdout.splitlines()
bad=[(c,a,b) for c,a,b in zip(cases,out,exp) if a!=b]
print('cases',len(cases),'mismatches',len(bad)); print(bad[:3])
