import numpy as np, logging, os, shutil, subprocess, types
import haptools.sim_genotype as sg
logging.disable(logging.CRITICAL); log=logging.getLogger('x')
rng=np.random.default_rng(77); MAX=2**31-1
class RandProxy:
    def __init__(s): s.log=[]
    def __getattr__(s,n): return getattr(np.random,n)
    def randint(s,*a,**k):
        r=np.random.randint(*a,**k); s.log.append(('randint',a,k,r)); return r
    def rand(s,*a):
        r=np.random.rand(*a); s.log.append(('rand',a,{},r)); return r
class NPProxy:
    def __init__(s,rp): s.random=rp
    def __getattr__(s,n): return getattr(np,n)
lines=[]; expected=[]
for t in range(40):
    d=f'/tmp/hx/pm/m{t}'; shutil.rmtree(d,ignore_errors=True); os.makedirs(d)
    chroms=[str(c) for c in sorted(rng.choice(np.arange(1,23),size=rng.integers(1,4),replace=False))]
    if rng.random()<0.3: chroms.append('X')
    maps={}
    for c in chroms:
        nm=int(rng.integers(2,8)); bps=np.sort(rng.choice(np.arange(100,100000),size=nm,replace=False))
        cms=np.cumsum(rng.choice([0,5,40,150,400],size=nm)); cms[0]=0
        maps[c]=list(zip([int(b) for b in bps],[int(m) for m in cms]))
        with open(f'{d}/chr{c}.map','w') as f:
            for b,m in maps[c]: f.write(f"{c} . {m} {b}\n")
    open(f'{d}/model.dat','w').write("2\tAdmixed\tA\tB\n1\t0\t0.5\t0.5\n3\t1\t0\t0\n")
    rp=RandProxy(); calls=[]
    orig_np=sg.np; orig_gs=sg.get_segment
    def rec_gs(pop,hap,chrom,st,en,cm,prev):
        out=orig_gs(pop,hap,chrom,st,en,cm,prev); calls.append((int(pop),int(hap),int(chrom),int(st),int(en),float(cm),len(out))); return out
    sg.np=NPProxy(rp); sg.get_segment=rec_gs
    try:
        n,pd,bps_=sg.simulate_gt(f'{d}/model.dat',d,chroms,None,12,log,int(rng.integers(1,10**6)))
    finally:
        sg.np=orig_np; sg.get_segment=orig_gs
    # reconstruct per-sample tapes from the log: generation = sequence: (pre: randint(size=2*samples), maybe redraws), then per sample: randint(2), rand, randint(2)*
    chromnum=[23 if c=='X' else int(c) for c in chroms]
    log_=rp.log; i=0; ci_calls=0
    gens=3
    popsize=12
    for g in range(gens):
        assert log_[i][0]=='randint' and log_[i][2].get('size')==2*popsize, log_[i][:3]; hapidx=log_[i][3].copy(); i+=1
        # redraws
        parent_is_admixed = g>0
        while i<len(log_) and log_[i][0]=='randint' and log_[i][1]==(popsize,) and not log_[i][2]:
            i+=1  # value was written into haplotypes array in place by the code; hapidx array object is the same
        for s in range(popsize):
            assert log_[i][0]=='randint' and log_[i][1]==(2,), (i,log_[i][:3]); b0=int(log_[i][3]); i+=1
            assert log_[i][0]=='rand'; prob=log_[i][3]; i+=1
            bits=[b0]
            while i<len(log_) and log_[i][0]=='randint' and log_[i][1]==(2,) and not (i+1<len(log_) and log_[i+1][0]=='rand'):
                bits.append(int(log_[i][3])); i+=1
            # events
            evs=[]
            for ci,c in enumerate(chroms):
                mk=maps[c]
                for j in range(len(mk)):
                    dist=(mk[j][1]-mk[j-1][1]) if j>0 else 0
                    p=1-np.exp(-dist/100)
                    if prob[ci,j]<p: evs.append((ci,mk[j][1],mk[j-1][0],mk[j-1][1]))
            evs.sort(key=lambda e:(e[0],e[1]))
            cmend=[maps[c][-1][1] for c in chroms]
            lines.append(f"{len(chroms)};{','.join(map(str,cmend))};{','.join(f'{e[0]}:{e[2]}:{e[3]}' for e in evs)};{','.join(map(str,bits))}")
            # expected calls for this sample: consume calls until chromosomes complete
            mine=[]
            while True:
                c_=calls[ci_calls]; ci_calls+=1; mine.append(c_)
                if c_[2]==chromnum[-1] and c_[4]==MAX: break
            haps=(int(hapidx[2*s]),int(hapidx[2*s+1]))
            expected.append((mine,haps,chromnum))
    shutil.rmtree(d)
open('/tmp/hx/pm/in.txt','w').write('\n'.join(lines)+'\n')
out=subprocess.run('cd /tmp/hx/lean/Proto && lake env lean --run plandrv.lean < /tmp/hx/pm/in.txt',shell=True,capture_output=True,text=True).stdout.splitlines()
assert len(out)==len(expected),(len(out),len(expected))
bad=0; nontriv=0
for ln,(mine,haps,chromnum),inp in zip(out,expected,lines):
    plan=[tuple(int(x) for x in tok.split(':')) for tok in ln.split()]
    got=[(chromnum[p[0]],p[1],p[2],float(p[3])) for p in plan]
    exp=[(m[2],m[3],m[4],m[5]) for m in mine]
    if len(plan)>len(chromnum): nontriv+=1
    ok = got==exp
    # homolog choice only observable for admixed individuals (pop==0)
    if ok and mine[0][0]==0:
        ok = [haps[p[4]] for p in plan]==[m[1] for m in mine]
    if not ok:
        bad+=1
        if bad<4: print('MISMATCH\n in ',inp,'\n got',got,[p[4] for p in plan],'\n exp',exp,[m[1] for m in mine],haps)
print('samples',len(out),'with recombination',nontriv,'mismatches',bad)
