import Proto.Plan
open Plan
/-- input line: n ; cmEnd_0,...,cmEnd_{n-1} ; ci:endBp:endCm,... ; bit,bit,...   (initial homolog is the first bit) -/
def parseInts (s : String) : List Int := (s.splitOn ",").filterMap (fun t => t.trimAscii.toString.toInt?)
def main : IO Unit := do
  let stdin ← IO.getStdin
  repeat
    let line ← stdin.getLine
    if line.isEmpty then break
    match (line.trimAscii.toString.splitOn ";") with
    | [ns, cms, evs, bits] =>
      let n := ns.trimAscii.toString.toNat!
      let cmArr := (parseInts cms).toArray
      let cmEnd : Nat → Int := fun i => cmArr.getD i 0
      let events : List Event := (evs.splitOn ",").filterMap (fun t =>
        match t.trimAscii.toString.splitOn ":" with
        | [a, b, c] => some ⟨a.toNat!, b.toNat!, c.toInt!⟩
        | _ => none)
      let bs := (parseInts bits).map Int.toNat
      match bs with
      | b0 :: rest =>
        let p := plan n cmEnd events 0 0 b0 rest
        IO.println (String.intercalate " " (p.map (fun c => s!"{c.ci}:{c.st}:{c.en}:{c.cm}:{c.hom}")))
      | [] => IO.println "nobits"
    | _ => IO.println "bad"
