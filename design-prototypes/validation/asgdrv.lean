import Proto.Assign
open Assign
def ints (s : String) : List Nat := (s.splitOn ",").filterMap (fun t => t.trimAscii.toString.toNat?)
def main : IO Unit := do
  let stdin ← IO.getStdin
  repeat
    let line ← stdin.getLine
    if line.isEmpty then break
    match (line.trimAscii.toString.splitOn ";") with
    | [a, b] =>
      let r := assignBlocks (ints a) (ints b)
      let f := (ints a).map (firstGE (ints b))
      IO.println (String.intercalate "," (r.map toString) ++ ";" ++ String.intercalate "," (f.map toString))
    | _ => IO.println "bad"
