import itertools, subprocess
from haptools.sim_genotype import _find_coord
ivs=[(c,s,e) for c in (1,2) for s in range(0,5) for e in range(s,5)]
cases=[]; exp=[]
import random; random.seed(14)
for k in range(0,3):
    for used in itertools.combinations(ivs,k):
        if k==2 and random.random()<0.9: continue
        for req in ivs:
            cur=list(used); r=_find_coord(cur,*req)
            cases.append(f"{','.join(f'{a}:{b}:{c}' for a,b,c in used)};{req[0]}:{req[1]}:{req[2]}")
            exp.append(f"{'true' if r else 'false'};{','.join(f'{a}:{b}:{c}' for a,b,c in cur)}")
open('/tmp/hx/nin.txt','w').write('\n'.join(cases)+'\n')
out=subprocess.run('cd /tmp/hx/lean/Proto && lake env lean --run nrdrv.lean < /tmp/hx/nin.txt',shell=True,capture_output=True,text=True).stdout.splitlines()
bad=[(c,a,b) for c,a,b in zip(cases,out,exp) if a!=b]
print('cases',len(cases),'mismatches',len(bad)); print(bad[:2])
