/-!
C10: a run as an *adaptive* user of a random generator.

`Prog` = the program seen from the generator: given everything the generator has answered so far it issues its next request
(a `seed`, a draw, or nothing more).  How many draws a simulation makes, and which, depends on the values drawn before
(a recombination happens or not), which is why the run is not modelled as a fixed list of draws.  The real commands are tied
to this by recording their requests to `np.random` (C10 section `generator_requests`).
-/
namespace Seeded

structure Gen (G Call Val : Type) where
  draw : G → Call → Val × G      -- one draw: the value and the next state
  seed : Nat → G                  -- `np.random.seed(s)`: the new state depends on `s` alone

inductive Req (Call : Type)
  | seed (s : Nat)
  | draw (c : Call)

/-- the answers so far (`none` for a `seed` request, which returns nothing) ↦ the next request -/
abbrev Prog (Call Val : Type) := List (Option Val) → Option (Req Call)

/-- run for at most `fuel` requests from the generator state `g`; returns the answers -/
def run {G Call Val} (gen : Gen G Call Val) (p : Prog Call Val) : Nat → G → List (Option Val) → List (Option Val)
  | 0, _, acc => acc
  | fuel + 1, g, acc =>
    match p acc with
    | none => acc
    | some (.seed s) => run gen p fuel (gen.seed s) (acc ++ [none])
    | some (.draw c) => run gen p fuel (gen.draw g c).2 (acc ++ [some (gen.draw g c).1])

/-- the requests `simulate_gt` makes first: `np.random.seed(seed)` if a seed was given (0 included), else straight to the
    first draw -/
def guard {Call Val} (seed : Option Nat) (body : Prog Call Val) : Prog Call Val :=
  match seed with
  | some s => fun acc => match acc with
    | [] => some (.seed s)
    | _ :: rest => body rest
  | none => body

/-- pre-fix guard `if seed:` -/
def guardOld {Call Val} (seed : Option Nat) (body : Prog Call Val) : Prog Call Val :=
  match seed with
  | some s => if s ≠ 0 then guard (some s) body else body
  | none => body

/-- a program whose first request is `seed s` gets the same answers whatever state the generator was in -/
theorem run_seed_first {G Call Val} (gen : Gen G Call Val) (p : Prog Call Val) (s : Nat) (h : p [] = some (.seed s))
    (fuel : Nat) (g₁ g₂ : G) : run gen p fuel g₁ [] = run gen p fuel g₂ [] := by
  cases fuel with
  | zero => rfl
  | succ n => simp [run, h]

theorem guarded_run_independent_of_history {G Call Val} (gen : Gen G Call Val) (body : Prog Call Val) (s : Nat)
    (fuel : Nat) (g₁ g₂ : G) :
    run gen (guard (some s) body) fuel g₁ [] = run gen (guard (some s) body) fuel g₂ [] :=
  run_seed_first gen _ s rfl fuel g₁ g₂

theorem guard_cons {Call Val} (s : Nat) (body : Prog Call Val) (x : Option Val) (rest : List (Option Val)) :
    guard (some s) body (x :: rest) = body rest := rfl

/-- the answers of a seeded run are those of the body started from `seed s` (the `none` of the seeding in front) -/
theorem run_append {G Call Val} (gen : Gen G Call Val) (body : Prog Call Val) (s : Nat) :
    ∀ (fuel : Nat) (g : G) (acc : List (Option Val)),
      run gen (guard (some s) body) fuel g (none :: acc) = none :: run gen body fuel g acc := by
  intro fuel
  induction fuel with
  | zero => intro g acc; rfl
  | succ n ih =>
    intro g acc
    simp only [run, guard_cons]
    cases h : body acc with
    | none => rfl
    | some r =>
      cases r with
      | seed t => exact ih (gen.seed t) (acc ++ [none])
      | draw c => exact ih (gen.draw g c).2 (acc ++ [some (gen.draw g c).1])

theorem guarded_run_eq {G Call Val} (gen : Gen G Call Val) (body : Prog Call Val) (s : Nat) (fuel : Nat) (g : G) :
    run gen (guard (some s) body) (fuel + 1) g [] = none :: run gen body fuel (gen.seed s) [] := by
  have := run_append gen body s fuel (gen.seed s) []
  have h0 : guard (some s) body ([] : List (Option Val)) = some (.seed s) := rfl
  simp only [run, h0, List.nil_append]
  exact this

/-- a generator whose state is a counter and whose draws return it: enough to tell two histories apart -/
def counter : Gen Nat Unit Nat := { draw := fun g _ => (g, g + 1), seed := fun s => s + 100 }

/-- one draw, then stop -/
def oneDraw : Prog Unit Nat := fun acc => if acc.isEmpty then some (.draw ()) else none

/-- F10 (fixed in /repo): with `if seed:` a run with seed 0 answers differently after different histories -/
theorem seed_zero_depends_on_history_before_fix :
    run counter (guardOld (some 0) oneDraw) 5 1 [] ≠ run counter (guardOld (some 0) oneDraw) 5 2 [] := by
  decide

theorem seed_zero_independent_after_fix :
    run counter (guard (some 0) oneDraw) 5 1 [] = run counter (guard (some 0) oneDraw) 5 2 [] := by
  decide

/-- simphenotype creates a private generator from the seed and never touches the process-wide one: as a user of the global
    generator it is the program that requests nothing, so it neither depends on its state nor changes it -/
def silent {Call Val} : Prog Call Val := fun _ => none

theorem silent_run {G Call Val} (gen : Gen G Call Val) (fuel : Nat) (g : G) : run gen (silent : Prog Call Val) fuel g [] = [] := by
  cases fuel <;> rfl

end Seeded
