import HapModel.Model.SimInv
/-!
# C02: centimorgan ends never decrease

Every tract end written by the simulation is a (bp, cM) pair of the genetic map: a recombination closes a tract at the
marker before the event marker (`prev_coord`), a chromosome is closed at its last marker (whose bp was replaced by the
int32 sentinel).  With `f c bp` the map's cM at that marker, all tracts of all generations lie on the graph of `f`;
since the map's cM never decreases with bp, the cM ends of a (bp-sorted) haplotype never decrease on a chromosome.
-/
namespace Plan
open Seg

/-- where a tract of the output comes from: it closes a copy of the plan, or it is a tract of a parent -/
theorem getSegment_mem (pop hap c st en : Nat) (cm : Int) (prev : Array (Array Seg)) (out : List Seg)
    (h : getSegment pop hap c st en cm prev = .ok out) :
    ∀ s ∈ out, (s.chrom = c ∧ s.endc = en ∧ s.cm = cm) ∨
      (pop = 0 ∧ ∃ segs, prev[hap]? = some segs ∧ s ∈ segs.toList) := by
  unfold getSegment at h
  by_cases hp : pop ≠ 0
  · rw [if_pos hp] at h
    simp only [Except.ok.injEq] at h
    subst h
    intro s hs
    simp only [List.mem_singleton] at hs
    subst hs
    exact .inl ⟨rfl, rfl, rfl⟩
  · rw [if_neg hp] at h
    have hp0 : pop = 0 := by omega
    split at h
    · cases h
    · rename_i segs hsegs
      have hm := copyLoop_mem en c (segs.toList.drop (startSegment st c segs))
      simp only [] at h
      split at h
      · cases h
      · rename_i l hl
        simp only [Except.ok.injEq] at h
        subst h
        intro s hs
        rcases List.mem_append.mp hs with h1 | h1
        · exact .inr ⟨hp0, segs, hsegs, List.mem_of_mem_drop (hm.1 s h1)⟩
        · simp only [List.mem_singleton] at h1
          subst h1
          exact .inl ⟨rfl, rfl, rfl⟩

theorem execP_mem (pop : Nat) (chromOf : Nat → Nat) (haps : Nat → Nat) (prev : Array (Array Seg)) :
    ∀ (cs : List Copy) (out : List Seg), execP pop chromOf haps prev cs = .ok out →
      ∀ s ∈ out, (∃ c ∈ cs, s.chrom = chromOf c.ci ∧ s.endc = c.en ∧ s.cm = c.cm) ∨
        (pop = 0 ∧ ∃ hom segs, prev[haps hom]? = some segs ∧ s ∈ segs.toList)
  | [], out, h => by simp [execP] at h; subst h; simp
  | c :: cs, out, h => by
    unfold execP at h
    split at h
    · cases h
    · rename_i o ho
      split at h
      · cases h
      · rename_i r hr
        simp only [Except.ok.injEq] at h
        subst h
        intro s hs
        rcases List.mem_append.mp hs with h1 | h1
        · rcases getSegment_mem pop _ _ _ _ _ prev o ho s h1 with h2 | ⟨h2, segs, h3, h4⟩
          · exact .inl ⟨c, List.mem_cons_self, h2⟩
          · exact .inr ⟨h2, c.hom, segs, h3, h4⟩
        · rcases execP_mem pop chromOf haps prev cs r hr s h1 with ⟨c', hc', h2⟩ | h2
          · exact .inl ⟨c', List.mem_cons_of_mem _ hc', h2⟩
          · exact .inr h2

/-! ### the copies of a plan end on map markers -/

/-- a tape lies on the map `f`: every event closes its tract at a marker (bp, cM) of its chromosome -/
def EventsOnMap (f : Nat → Nat → Int) (chromOf : Nat → Nat) (evs : List Event) : Prop :=
  ∀ e ∈ evs, e.endCm = f (chromOf e.ci) e.endBp

theorem rollOver_onMap (f : Nat → Nat → Int) (chromOf : Nat → Nat) (cmEnd : Nat → Int)
    (hend : ∀ i, cmEnd i = f (chromOf i) MAX) :
    ∀ (k i st hom : Nat) (bits : List Nat), ∀ c ∈ (rollOver cmEnd k i st hom bits).1,
      c.cm = f (chromOf c.ci) c.en
  | 0, _, _, _, _ => by intro c hc; simp [rollOver] at hc
  | k+1, i, st, hom, bits => by
    intro c hc
    simp only [rollOver, List.mem_cons] at hc
    rcases hc with rfl | hc
    · exact hend i
    · exact rollOver_onMap f chromOf cmEnd hend k (i+1) 0 _ _ c hc

theorem plan_onMap (f : Nat → Nat → Int) (chromOf : Nat → Nat) (n : Nat) (cmEnd : Nat → Int)
    (hend : ∀ i, cmEnd i = f (chromOf i) MAX) :
    ∀ (evs : List Event) (cur st hom : Nat) (bits : List Nat), EventsOnMap f chromOf evs →
      ∀ c ∈ plan n cmEnd evs cur st hom bits, c.cm = f (chromOf c.ci) c.en
  | [], cur, st, hom, bits, _ => by
    intro c hc
    simp only [plan] at hc
    exact rollOver_onMap f chromOf cmEnd hend _ _ _ _ _ c hc
  | e :: es, cur, st, hom, bits, hev => by
    intro c hc
    simp only [plan, List.mem_append, List.mem_cons] at hc
    rcases hc with hc | rfl | hc
    · exact rollOver_onMap f chromOf cmEnd hend _ _ _ _ _ c hc
    · exact hev e List.mem_cons_self
    · exact plan_onMap f chromOf n cmEnd hend es _ _ _ _ (fun x hx => hev x (List.mem_cons_of_mem _ hx)) c hc

/-! ### every tract of every generation lies on the map -/

def GenOnMap (f : Nat → Nat → Int) (g : Array (Array Seg)) : Prop :=
  ∀ segs ∈ g.toList, ∀ s ∈ segs.toList, s.cm = f s.chrom s.endc

theorem generation_onMap (f : Nat → Nat → Int) (n : Nat) (chromOf : Nat → Nat) (cmEnd : Nat → Int)
    (hend : ∀ i, cmEnd i = f (chromOf i) MAX) (prev : Array (Array Seg)) (hprev : GenOnMap f prev) :
    ∀ (tapes : List SampleTape) (g : List (Array Seg)), (∀ t ∈ tapes, EventsOnMap f chromOf t.events) →
      simulateGen n chromOf cmEnd prev tapes = some g → GenOnMap f g.toArray := by
  intro tapes
  induction tapes with
  | nil =>
    intro g _ h
    simp only [simulateGen, Option.some.injEq] at h
    subst h; intro s hs; simp at hs
  | cons t rest ih =>
    intro g hP h
    simp only [simulateGen] at h
    split at h
    · rename_i hd tl h1 h2
      simp only [Option.some.injEq] at h
      subst h
      intro segs hs
      simp only [List.mem_cons] at hs
      rcases hs with rfl | hs
      · intro s hsm
        unfold simulateOne at h1
        split at h1
        · rename_i o ho
          simp only [Option.some.injEq] at h1
          subst h1
          rcases execP_mem t.pop chromOf t.haps prev _ o ho s (by simpa using hsm) with ⟨c, hc, h1, h2, h3⟩ | ⟨_, hom, sg, hsg, hmem⟩
          · rw [h1, h2, h3]
            exact plan_onMap f chromOf n cmEnd hend t.events 0 0 t.hom t.bits (hP t List.mem_cons_self) c hc
          · have : sg ∈ prev.toList := by
              have := Array.mem_of_getElem? hsg
              simpa using this
            exact hprev sg this s hmem
        · cases h1
      · exact ih tl (fun x hx => hP x (List.mem_cons_of_mem _ hx)) h2 segs hs
    · cases h

theorem generations_onMap (f : Nat → Nat → Int) (n : Nat) (chromOf : Nat → Nat) (cmEnd : Nat → Int)
    (hend : ∀ i, cmEnd i = f (chromOf i) MAX) :
    ∀ (gens : List (List SampleTape)) (prev : Array (Array Seg)) (gs : List (Array (Array Seg))),
      GenOnMap f prev → (∀ ts ∈ gens, ∀ t ∈ ts, EventsOnMap f chromOf t.events) →
      simulateAll n chromOf cmEnd prev gens = some gs → ∀ g ∈ gs, GenOnMap f g := by
  intro gens
  induction gens with
  | nil => intro prev gs _ _ h; simp only [simulateAll, Option.some.injEq] at h; subst h; simp
  | cons ts rest ih =>
    intro prev gs hprev hP h
    simp only [simulateAll] at h
    split at h
    · cases h
    · rename_i g hg
      simp only [Option.map_eq_some_iff] at h
      obtain ⟨tl, htl, rfl⟩ := h
      have hgl := generation_onMap f n chromOf cmEnd hend prev hprev ts g (hP ts List.mem_cons_self) hg
      intro x hx
      simp only [List.mem_cons] at hx
      rcases hx with rfl | hx
      · exact hgl
      · exact ih g.toArray tl hgl (fun a ha => hP a (List.mem_cons_of_mem _ ha)) htl x hx

/-- a bp-sorted haplotype on a monotone map has non-decreasing cM ends on every chromosome -/
theorem cm_mono_of_onMap (f : Nat → Nat → Int) (hmono : ∀ c a b, a ≤ b → f c a ≤ f c b) (segs : List Seg)
    (hs : SortedL segs) (hon : ∀ s ∈ segs, s.cm = f s.chrom s.endc) :
    segs.Pairwise (fun a b => a.chrom = b.chrom → a.cm ≤ b.cm) := by
  apply List.Pairwise.imp_of_mem _ hs
  intro a b ha hb hab hc
  rw [hon a ha, hon b hb, hc]
  unfold SegLt at hab
  exact hmono _ _ _ (by omega)

end Plan
