/-! Prototype C18: `karyogram.GetHaplotypeBlocks`. cM values are integers in units of 1e-4 cM. -/
namespace Karyogram

structure Blk where
  pop : String
  chrom : Nat
  start : Int
  stop : Int
deriving Repr, DecidableEq

inductive KLine
  | header (sample : String)                      -- `{sample}_1` / `{sample}_2`
  | block (pop : String) (chrom : Nat) (cm : Int)
deriving Repr

structure St where
  sb : List (List Blk)       -- sample_blocks
  parsing : Bool             -- parsing_sample
  blocks : List Blk
  done : Bool                -- the `break`
deriving Repr

/-- append one block line to the blocks of the strand being parsed -/
def addBlock (blocks : List Blk) (pop : String) (chrom : Nat) (cm : Int) : List Blk :=
  let start : Int := match blocks.getLast? with
    | none => 1
    | some b => if b.chrom ≠ chrom then 1 else b.stop + 1
  blocks ++ [⟨pop, chrom, start, cm⟩]

def stepLine (name : String) (st : St) (l : KLine) : St :=
  if st.done then st else
  match l with
  | .header s =>
    let sb := if st.parsing then st.sb ++ [st.blocks] else st.sb
    if sb.length = 2 then { sb := sb, parsing := false, blocks := st.blocks, done := true }
    else if name = s then { sb := sb, parsing := true, blocks := [], done := false }
    else { sb := sb, parsing := false, blocks := st.blocks, done := false }
  | .block pop chrom cm =>
    if st.parsing then { st with blocks := addBlock st.blocks pop chrom cm } else st

def finish (st : St) : List (List Blk) := if st.parsing then st.sb ++ [st.blocks] else st.sb

def getBlocks (name : String) (lines : List KLine) : List (List Blk) :=
  finish (lines.foldl (stepLine name) ⟨[], false, [], false⟩)

/-! specification over the file seen as a list of (sample, block lines) groups -/

abbrev Group := String × List (String × Nat × Int)

def groupLines (g : Group) : List KLine := .header g.1 :: g.2.map (fun b => .block b.1 b.2.1 b.2.2)

def build (acc : List Blk) : List (String × Nat × Int) → List Blk
  | [] => acc
  | b :: rest => build (addBlock acc b.1 b.2.1 b.2.2) rest

theorem fold_blocks (name : String) : ∀ (bs : List (String × Nat × Int)) (st : St), st.done = false →
    (bs.map (fun b => KLine.block b.1 b.2.1 b.2.2)).foldl (stepLine name) st =
      if st.parsing then { st with blocks := build st.blocks bs } else st
  | [], st, _ => by
    cases st with
    | mk sb parsing blocks done => cases parsing <;> simp [build]
  | b :: rest, st, hd => by
    simp only [List.map_cons, List.foldl_cons]
    have hstep : stepLine name st (.block b.1 b.2.1 b.2.2) =
        if st.parsing then { st with blocks := addBlock st.blocks b.1 b.2.1 b.2.2 } else st := by
      simp [stepLine, hd]
    rw [hstep]
    cases hp : st.parsing with
    | false => simp only [Bool.false_eq_true, ↓reduceIte]; rw [fold_blocks name rest st hd]; simp [hp]
    | true =>
      simp only [↓reduceIte]
      rw [fold_blocks name rest _ (by simpa using hd)]
      simp [hp, build]

/-- a finished run ignores everything that follows -/
theorem fold_done (name : String) : ∀ (ls : List KLine) (st : St), st.done = true →
    ls.foldl (stepLine name) st = st
  | [], _, _ => rfl
  | l :: rest, st, hd => by
    simp only [List.foldl_cons]
    have : stepLine name st l = st := by simp [stepLine, hd]
    rw [this]; exact fold_done name rest st hd

/-- abstract reading of a state: strands already collected, followed by the one being parsed -/
def collected (st : St) : List (List Blk) := if st.parsing then st.sb ++ [st.blocks] else st.sb

/-- main invariant: the result is the first two strands whose header names the sample -/
theorem run_groups (name : String) : ∀ (gs : List Group) (st : St),
    (st.done = true → st.parsing = false ∧ st.sb.length = 2) → (st.done = false → st.sb.length < 2) →
    (collected st).length ≤ 2 →
    finish ((gs.flatMap groupLines).foldl (stepLine name) st) =
      (collected st ++ (gs.filter (fun g => g.1 = name)).map (fun g => build [] g.2)).take 2
  | [], st, hdone, hnd, hlen => by
    simp only [List.flatMap_nil, List.foldl_nil, List.filter_nil, List.map_nil, List.append_nil]
    unfold finish collected at *
    rw [List.take_of_length_le hlen]
  | g :: rest, st, hdone, hnd, hlen => by
    simp only [List.flatMap_cons, List.foldl_append]
    cases hd : st.done with
    | true =>
      obtain ⟨hp, hl⟩ := hdone hd
      rw [fold_done name _ st hd, fold_done name _ st hd]
      simp [finish, collected, hp, List.take_append_of_le_length (Nat.le_of_eq hl.symm), List.take_of_length_le (Nat.le_of_eq hl)]
    | false =>
      have hl := hnd hd
      -- the header line
      rw [show groupLines g = KLine.header g.1 :: g.2.map (fun b => KLine.block b.1 b.2.1 b.2.2) from rfl]
      simp only [List.foldl_cons]
      generalize hsb : (if st.parsing then st.sb ++ [st.blocks] else st.sb) = sb
      have hsbc : sb = collected st := by rw [← hsb]; rfl
      by_cases h2 : sb.length = 2
      · -- two strands collected: done
        have hstep : stepLine name st (.header g.1) = ⟨sb, false, st.blocks, true⟩ := by
          simp [stepLine, hd, hsb, h2]
        rw [hstep, fold_done name (g.2.map _) _ rfl, fold_done name _ _ rfl]
        simp [finish, ← hsbc, List.take_append_of_le_length (Nat.le_of_eq h2.symm), List.take_of_length_le (Nat.le_of_eq h2)]
      · have hsbl : sb.length < 2 := by rw [hsbc]; rw [hsbc] at h2; omega
        by_cases hn : name = g.1
        · have hstep : stepLine name st (.header g.1) = ⟨sb, true, [], false⟩ := by
            simp [stepLine, hd, hsb, h2, hn]
          rw [hstep, fold_blocks name g.2 _ rfl]
          simp only [↓reduceIte]
          rw [run_groups name rest _ (by simp) (by intro _; exact hsbl) (by simp [collected]; omega)]
          simp [collected, hsb, List.filter_cons, hn, List.append_assoc]
        · have hstep : stepLine name st (.header g.1) = ⟨sb, false, st.blocks, false⟩ := by
            simp [stepLine, hd, hsb, h2, hn]
          rw [hstep, fold_blocks name g.2 _ rfl]
          simp only [Bool.false_eq_true, ↓reduceIte]
          rw [run_groups name rest _ (by simp) (by intro _; exact hsbl) (by simp [collected]; omega)]
          have : ¬ g.1 = name := fun h => hn h.symm
          simp [collected, hsb, List.filter_cons, this]

/-- C18: the blocks drawn are the first two strands of the named sample, wherever it sits in the file;
    a sample that is absent gives the empty list (reported as an error by the caller) -/
theorem getBlocks_spec (name : String) (gs : List Group) :
    getBlocks name (gs.flatMap groupLines) =
      ((gs.filter (fun g => g.1 = name)).map (fun g => build [] g.2)).take 2 := by
  unfold getBlocks
  rw [run_groups name gs _ (by simp) (by simp) (by simp [collected])]
  simp [collected]


/-! ### extension of the last block of every chromosome (`centromeres_file`) -/

/-- `sample_blocks[hap][i]["end"] = v` -/
def setStop (l : List Blk) (i : Nat) (v : Int) : List Blk :=
  match l[i]? with
  | some b => l.set i { b with stop := v }
  | none => l

/-- `for tind, tract in enumerate(block)`; `acc` is the list being mutated in place -/
def extLoop (ends : Nat → Int) : List Blk → Nat → Nat → List Blk → List Blk × Nat
  | [], _, prev, acc => (acc, prev)
  | tr :: rest, tind, prev, acc =>
    let acc' := if tr.chrom ≠ prev then setStop acc (tind - 1) (ends prev) else acc
    extLoop ends rest (tind + 1) tr.chrom acc'

/-- after fix F15: the final assignment goes to index `tind` (the last block) -/
def extend (ends : Nat → Int) (blocks : List Blk) : List Blk :=
  match blocks with
  | [] => []
  | b0 :: _ =>
    let r := extLoop ends blocks 0 b0.chrom blocks
    setStop r.1 (blocks.length - 1) (ends r.2)

/-- before the fix: index `tind - 1` -/
def extendOld (ends : Nat → Int) (blocks : List Blk) : List Blk :=
  match blocks with
  | [] => []
  | b0 :: _ =>
    let r := extLoop ends blocks 0 b0.chrom blocks
    setStop r.1 (blocks.length - 1 - 1) (ends r.2)

/-- specification: a block is extended iff it is the last block of its chromosome -/
def extendSpec (ends : Nat → Int) : List Blk → List Blk
  | [] => []
  | [b] => [{ b with stop := ends b.chrom }]
  | b :: b' :: rest =>
    (if b.chrom ≠ b'.chrom then { b with stop := ends b.chrom } else b) :: extendSpec ends (b' :: rest)

theorem setStop_mid (done : List Blk) (last : Blk) (rest : List Blk) (v : Int) :
    setStop (done ++ last :: rest) done.length v = done ++ { last with stop := v } :: rest := by
  unfold setStop
  simp [List.getElem?_append_right, List.set_append_right]

theorem extLoop_spec (ends : Nat → Int) : ∀ (rest done : List Blk) (last : Blk),
    setStop (extLoop ends rest (done.length + 1) last.chrom (done ++ last :: rest)).1
        (done.length + rest.length) (ends (extLoop ends rest (done.length + 1) last.chrom (done ++ last :: rest)).2) =
      done ++ extendSpec ends (last :: rest)
  | [], done, last => by
    simp only [extLoop, List.length_nil, Nat.add_zero, extendSpec]
    exact setStop_mid done last [] _
  | tr :: rest', done, last => by
    simp only [extLoop, Nat.add_sub_cancel, List.length_cons, extendSpec]
    by_cases hc : tr.chrom ≠ last.chrom
    · have hc' : last.chrom ≠ tr.chrom := fun h => hc h.symm
      simp only [hc, hc', ne_eq, not_false_eq_true, ↓reduceIte]
      rw [setStop_mid]
      have ih := extLoop_spec ends rest' (done ++ [{ last with stop := ends last.chrom }]) tr
      simp only [List.length_append, List.length_cons, List.length_nil, List.append_assoc,
        List.cons_append, List.nil_append] at ih
      rw [show done.length + (rest'.length + 1) = done.length + (0 + 1) + rest'.length by omega]
      simpa using ih
    · have hc1 : tr.chrom = last.chrom := by simpa using hc
      simp only [hc1, ne_eq, not_true_eq_false, ↓reduceIte]
      have ih := extLoop_spec ends rest' (done ++ [last]) tr
      simp only [List.length_append, List.length_cons, List.length_nil, List.append_assoc,
        List.cons_append, List.nil_append] at ih
      rw [show done.length + (rest'.length + 1) = done.length + (0 + 1) + rest'.length by omega]
      rw [← hc1]
      simpa using ih

/-- C18: with a chromosome-ends table the last block of every chromosome, and only that block, is extended -/
theorem extend_eq_spec (ends : Nat → Int) (blocks : List Blk) : extend ends blocks = extendSpec ends blocks := by
  cases blocks with
  | nil => rfl
  | cons b0 rest =>
    unfold extend
    simp only [extLoop, ne_eq, not_true_eq_false, ↓reduceIte, List.length_cons, Nat.add_sub_cancel]
    have := extLoop_spec ends rest [] b0
    simpa using this

/-- F15: the old code extends the wrong block -/
theorem extendOld_refuted :
    let blocks : List Blk := [⟨"YRI", 1, 1, 100⟩, ⟨"CEU", 1, 101, 200⟩, ⟨"YRI", 2, 1, 150⟩]
    let ends : Nat → Int := fun c => if c = 1 then 255 else 185
    extendOld ends blocks ≠ extendSpec ends blocks ∧ extend ends blocks = extendSpec ends blocks := by
  decide


/-! ### text level: what `GetHaplotypeBlocks` does with the whitespace-split lines of the file -/

/-- `"X" in chrom` -/
def containsChar (s : String) (c : Char) : Bool := s.toList.contains c

/-- `karyogram.GetChrom` (`int()` of a non-numeric name raises: `none`) -/
def getChrom (chrom : String) : Option Nat :=
  if containsChar chrom 'X' then some 23
  else if containsChar chrom 'Y' then some 24
  else if chrom.startsWith "chr" then (chrom.drop 3).toString.toNat?
  else chrom.toNat?

/-- `"_".join(line[0].split("_")[:-1])` -/
def headerName (tok : String) : String := String.intercalate "_" (tok.splitOn "_").dropLast

inductive KErr | value_error | key_error | index_error | assertion_error
deriving Repr, DecidableEq

/-- one whitespace-split line: a single token is a strand header, otherwise `pop chrom … cM`
    (the cM value arrives as an integer number of 1e-4 cM, parsed by the harness) -/
def parseTok (toks : List String) (cm : Int) : Except KErr (Option KLine) :=
  match toks with
  | [] => .ok none            -- blank line: `line[1]` would raise IndexError only while parsing a sample
  | [h] => if h.endsWith "_1" || h.endsWith "_2" then .ok (some (.header (headerName h))) else .error .assertion_error
  | pop :: chrom :: _ =>
    match getChrom chrom with
    | some c => .ok (some (.block pop c cm))
    | none => .error .value_error

/-- the chromosome-ends table as read from the file: later lines overwrite earlier ones (`dict`) -/
def lookupLast (tbl : List (Nat × Int)) (c : Nat) : Option Int :=
  (tbl.reverse.find? (fun p => p.1 = c)).map (·.2)

/-- the extension with Python's failure modes made explicit: an empty strand is `block[0]` → IndexError,
    a chromosome missing from the table is a KeyError -/
def extendChecked (tbl : List (Nat × Int)) (blocks : List Blk) : Except KErr (List Blk) :=
  if blocks.isEmpty then .error .index_error
  else if blocks.all (fun b => (lookupLast tbl b.chrom).isSome) then
    .ok (extend (fun c => (lookupLast tbl c).getD 0) blocks)
  else .error .key_error

def karyogram (name : String) (lines : List KLine) (tbl : Option (List (Nat × Int))) : Except KErr (List (List Blk)) :=
  let r := getBlocks name lines
  match tbl with
  | none => .ok r
  | some t => r.mapM (extendChecked t)

/-- when the table covers every chromosome drawn, the checked extension is the specification -/
theorem extendChecked_ok (tbl : List (Nat × Int)) (blocks : List Blk) (hne : blocks ≠ [])
    (hcov : ∀ b ∈ blocks, (lookupLast tbl b.chrom).isSome) :
    extendChecked tbl blocks = .ok (extendSpec (fun c => (lookupLast tbl c).getD 0) blocks) := by
  unfold extendChecked
  have h1 : blocks.isEmpty = false := by cases blocks <;> simp_all
  have h2 : blocks.all (fun b => (lookupLast tbl b.chrom).isSome) = true := by
    rw [List.all_eq_true]; exact hcov
  simp [h1, h2, extend_eq_spec]

end Karyogram
