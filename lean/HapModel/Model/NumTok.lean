/-! Acceptor for the decimal tokens `numpy.float64(str)` / Python `float(str)` accepts (ASCII subset used by the
    harness): optional surrounding blanks, sign, digits with optional fraction and exponent, `inf`/`infinity`/`nan`. -/
namespace NumTok

def isDigit (c : Char) : Bool := '0' ≤ c && c ≤ '9'

def digitsOnly (l : List Char) : Bool := !l.isEmpty && l.all isDigit

/-- mantissa: `ddd`, `ddd.`, `.ddd`, `ddd.ddd` -/
def mantissa (l : List Char) : Bool :=
  match l.span (· != '.') with
  | (ip, []) => digitsOnly ip
  | (ip, _ :: fp) => (ip.all isDigit && fp.all isDigit) && (!ip.isEmpty || !fp.isEmpty)

def stripSign (l : List Char) : List Char :=
  match l with
  | '+' :: r => r
  | '-' :: r => r
  | _ => l

def lower (l : List Char) : List Char := l.map Char.toLower

def numeric (s : String) : Bool :=
  let l := stripSign (s.trimAscii.toString.toList)
  let lw := lower l
  if lw = "inf".toList || lw = "infinity".toList || lw = "nan".toList then true
  else
    match lw.span (· != 'e') with
    | (m, []) => mantissa m
    | (m, _ :: ex) => mantissa m && digitsOnly (stripSign ex)

end NumTok
