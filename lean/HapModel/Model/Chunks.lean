/-! Prototype C07/C08: the chunk loops of GenotypesPLINK.read / write
    `for start in range(0, n, chunks): end = min(start + chunks, n)` -/
namespace Chunks

/-- the list of (start, end) pairs visited by the loop, for chunk size `k ≥ 1` -/
def chunksFrom (k n : Nat) (hk : 0 < k) (start : Nat) : List (Nat × Nat) :=
  if h : start < n then
    (start, min (start + k) n) :: chunksFrom k n hk (start + k)
  else []
termination_by n - start
decreasing_by omega

/-- chunk size as computed by the code: `None` or too large ⇒ everything at once;
    (after fix F09) never 0 -/
def chunkSize (requested : Option Nat) (n : Nat) : Nat :=
  match requested with
  | none => max n 1
  | some c => if c > n then max n 1 else c

/-- concatenating the index ranges of all chunks enumerates `start, start+1, …, n-1` exactly once, in order:
    what is read/written does not depend on the chunk size -/
theorem chunks_tile (k n : Nat) (hk : 0 < k) (start : Nat) :
    (chunksFrom k n hk start).flatMap (fun c => (List.range' c.1 (c.2 - c.1))) = List.range' start (n - start) := by
  fun_induction chunksFrom k n hk start with
  | case1 start h ih =>
    simp only [List.flatMap_cons, ih]
    by_cases hle : start + k ≤ n
    · rw [Nat.min_eq_left hle]
      have h1 : start + k - start = k := by omega
      have h2 : n - start = k + (n - (start + k)) := by omega
      rw [h1, h2]
      exact (List.range'_append_1 ..)
    · rw [Nat.min_eq_right (by omega)]
      have : n - (start + k) = 0 := by omega
      simp [this]
  | case2 start h =>
    have : n - start = 0 := by omega
    simp [this]

theorem chunkSize_pos (r : Option Nat) (n : Nat) (hr : ∀ c, r = some c → 0 < c) : 0 < chunkSize r n := by
  unfold chunkSize
  split
  · omega
  · rename_i c
    have := hr c rfl
    split <;> omega

example : chunksFrom 2 5 (by decide) 0 = [(0,2),(2,4),(4,5)] := by
  simp [chunksFrom]

end Chunks
