/-! Prototype C08: the ID filter with early exit of `Genotypes._iterate` / `read` (max_variants = len(variants)). -/
namespace Scan

/-- `for variant in vcf(region): if variant.ID not in variants: if num_seen >= len(variants): break; continue;
     yield ...; num_seen += 1` -/
def scan (ids : List String) : List String → Nat → List String
  | [], _ => []
  | r :: rest, seen =>
    if ids.contains r then r :: scan ids rest (seen + 1)
    else if seen ≥ ids.length then [] else scan ids rest seen

/-- `read(variants=ids)`: preallocates `len(ids)` rows and stops filling after that many -/
def readIds (ids recs : List String) : List String := (scan ids recs 0).take ids.length

/-- distinct elements of `ids` that already matched: if there are at least `|ids|` of them, nothing else can match -/
theorem exhausted (ids : List String) (hids : ids.Nodup) :
    ∀ (seenL : List String), seenL.Nodup → (∀ x ∈ seenL, x ∈ ids) → ids.length ≤ seenL.length →
      ∀ y, y ∈ ids → y ∈ seenL := by
  induction ids with
  | nil => intro _ _ _ _ y hy; simp at hy
  | cons a t ih =>
    intro seenL hnd hsub hlen y hy
    have hnd' := List.nodup_cons.mp hids
    by_cases hyS : y ∈ seenL
    · exact hyS
    · exfalso
      -- remove `a` from seenL: the rest is a nodup sublist of t of length ≥ |t|
      have hsub' : ∀ x ∈ seenL.erase a, x ∈ t := by
        intro x hx
        have hx1 : x ∈ seenL := List.mem_of_mem_erase hx
        have hx2 : x ≠ a := fun h => by subst h; exact (List.Nodup.not_mem_erase hnd) hx
        rcases List.mem_cons.mp (hsub x hx1) with h | h
        · exact absurd h hx2
        · exact h
      have hlen' : t.length ≤ (seenL.erase a).length := by
        by_cases ha : a ∈ seenL
        · rw [List.length_erase_of_mem ha]; simp at hlen; omega
        · rw [List.erase_of_not_mem ha]; simp at hlen; omega
      have hall := ih hnd'.2 (seenL.erase a) (hnd.erase a) hsub' hlen'
      rcases List.mem_cons.mp hy with rfl | hyt
      · -- y = a ∉ seenL: then seenL ⊆ t with |seenL| ≥ |t|+1, but every element of t is in seenL.erase a = seenL
        have hE : seenL.erase y = seenL := List.erase_of_not_mem hyS
        rw [hE] at hsub' hall
        -- pigeonhole on t ∪ ... : t ⊆ seenL ⊆ t and |seenL| ≥ |t| + 1 with both nodup is impossible
        have : seenL.length ≤ t.length := by
          have := List.Nodup.length_le_of_subset (l₁ := seenL) (l₂ := t) hnd (fun x hx => hsub' x hx)
          exact this
        simp at hlen; omega
      · exact hyS (List.mem_of_mem_erase (hall y hyt))


theorem scan_eq_filter (ids : List String) (hids : ids.Nodup) :
    ∀ (rest seenL : List String), (seenL ++ rest).Nodup → (∀ x ∈ seenL, x ∈ ids) →
      scan ids rest seenL.length = rest.filter (fun r => ids.contains r)
  | [], _, _, _ => by simp [scan]
  | r :: rest, seenL, hnd, hsub => by
    unfold scan
    by_cases hm : ids.contains r = true
    · simp only [hm, ↓reduceIte, List.filter_cons]
      congr 1
      have := scan_eq_filter ids hids rest (seenL ++ [r])
        (by simpa [List.append_assoc] using hnd)
        (by
          intro x hx
          rcases List.mem_append.mp hx with h | h
          · exact hsub x h
          · simp only [List.mem_singleton] at h; subst h; simpa using hm)
      simpa using this
    · simp only [hm, Bool.false_eq_true, ↓reduceIte, List.filter_cons]
      by_cases hfull : seenL.length ≥ ids.length
      · simp only [hfull, ↓reduceIte]
        -- every id has been seen; no later record can match
        symm
        apply List.filter_eq_nil_iff.mpr
        intro x hx hcon
        have hxids : x ∈ ids := by simpa using hcon
        have hseenNd : seenL.Nodup := (List.nodup_append.mp hnd).1
        have hxs := exhausted ids hids seenL hseenNd hsub hfull x hxids
        have hdisj := (List.nodup_append.mp hnd).2.2
        exact hdisj x hxs x (List.mem_cons_of_mem _ hx) rfl
      · simp only [hfull, ↓reduceIte]
        have hnd' : (seenL ++ rest).Nodup := by
          have := List.nodup_append.mp hnd
          apply List.nodup_append.mpr
          refine ⟨this.1, (List.nodup_cons.mp this.2.1).2, ?_⟩
          intro a ha b hb
          exact this.2.2 a ha b (List.mem_cons_of_mem _ hb)
        exact scan_eq_filter ids hids rest seenL hnd' hsub

/-- C08 (ID restriction): with unique record IDs, reading with an ID set returns exactly the matching records in
    file order – the early exit and the preallocation drop nothing -/
theorem readIds_eq_filter (ids recs : List String) (hids : ids.Nodup) (hrecs : recs.Nodup) :
    readIds ids recs = recs.filter (fun r => ids.contains r) := by
  unfold readIds
  have h := scan_eq_filter ids hids recs [] (by simpa using hrecs) (by simp)
  simp only [List.length_nil] at h
  rw [h]
  apply List.take_of_length_le
  apply List.Nodup.length_le_of_subset (hrecs.filter _)
  intro x hx
  simpa using (List.mem_filter.mp hx).2

end Scan
