import HapModel.Model.Assign
/-!
# C05 model: ancestry look-up (`Breakpoints._find_blocks`, `population_array`), `encode` / `recode`

`np.searchsorted(ends, p, side='left')` enters by its contract on sorted input: the number of ends `< p`
(`Assign.firstGE`, the same function C03's `assign_eq_firstGE` relates `output_vcf` to).
-/
namespace Breakpoints
open Assign

structure Blk where
  pop : String
  chrom : String
  bp : Nat
  cm : String
deriving Repr, DecidableEq

abbrev Strand := List Blk
abbrev Sample := String × Strand × Strand
abbrev Table := List Sample

inductive Err | value_error | key_error
deriving Repr, DecidableEq

/-- `_find_blocks` for one position -/
def findBlock (ends : List Nat) (pos : Nat) : Option Nat :=
  let i := firstGE ends pos
  if i < ends.length then some i else none

/-- label of (strand, chromosome, position) -/
def labelAt (s : Strand) (chrom : String) (pos : Nat) : Except Err String :=
  let cb := s.filter (fun b => b.chrom == chrom)
  match findBlock (cb.map (·.bp)) pos with
  | none => .error .value_error          -- chromosome absent (cb = []) or position beyond the last block
  | some i => match cb[i]? with
    | some b => .ok b.pop
    | none => .error .value_error

/-- `population_array(variants, samples)`: samples × variants × 2 -/
def populationArray (t : Table) (vars : List (String × Nat)) (samples : Option (List String)) :
    Except Err (List (List (String × String))) := do
  let rows ← match samples with
    | none => pure t
    | some req => req.mapM (fun s => match t.find? (fun x => x.1 == s) with
        | some x => .ok x
        | none => .error .key_error)
  rows.mapM (fun smp => vars.mapM (fun v => do
    let a ← labelAt smp.2.1 v.1 v.2
    let b ← labelAt smp.2.2 v.1 v.2
    pure (a, b)))

/-! ### first block with end ≥ position -/

theorem firstGE_spec : ∀ (ends : List Nat) (pos : Nat), SortedLE ends →
    (∀ k (hk : k < firstGE ends pos), ∃ h : k < ends.length, ends[k] < pos) ∧
    (∀ (h : firstGE ends pos < ends.length), pos ≤ ends[firstGE ends pos])
  | [], pos, _ => by simp [firstGE]
  | e :: t, pos, hs => by
    have hs' : SortedLE t := (List.pairwise_cons.mp hs).2
    have hall : ∀ x ∈ t, e ≤ x := (List.pairwise_cons.mp hs).1
    have ih := firstGE_spec t pos hs'
    unfold firstGE at ih ⊢
    by_cases he : e < pos
    · simp only [List.filter_cons, he, decide_true, ↓reduceIte, List.length_cons]
      constructor
      · intro k hk
        cases k with
        | zero => exact ⟨by simp, by simpa using he⟩
        | succ k =>
          obtain ⟨h1, h2⟩ := ih.1 k (by omega)
          exact ⟨by simp; omega, by simpa using h2⟩
      · intro h
        have := ih.2 (by omega)
        simpa using this
    · -- e ≥ pos: nothing in the (sorted) tail is below pos either
      have hnone : t.filter (fun x => decide (x < pos)) = [] := by
        rw [List.filter_eq_nil_iff]
        intro x hx
        have := hall x hx
        simp only [decide_eq_true_eq]; omega
      simp only [List.filter_cons, he, decide_false, Bool.false_eq_true, ↓reduceIte, hnone,
        List.length_nil, List.length_cons]
      constructor
      · intro k hk; omega
      · intro _; simp only [List.getElem_cons_zero]; omega

/-- the position is rejected iff no block reaches it -/
theorem findBlock_none_iff (ends : List Nat) (pos : Nat) :
    findBlock ends pos = none ↔ ∀ e ∈ ends, e < pos := by
  unfold findBlock firstGE
  simp only
  constructor
  · intro h
    split at h
    · cases h
    · rename_i hlt
      have hle := List.length_filter_le (fun x => decide (x < pos)) ends
      have heq : (ends.filter (fun x => decide (x < pos))).length = ends.length := by omega
      have := List.length_filter_eq_length_iff.mp heq
      intro e he; simpa using this e he
  · intro h
    have : ends.filter (fun x => decide (x < pos)) = ends :=
      List.filter_eq_self.mpr (fun e he => by simpa using h e he)
    rw [this]; simp

/-- an answered position lies in the first block whose end is ≥ it -/
theorem findBlock_some (ends : List Nat) (pos i : Nat) (hs : SortedLE ends) (h : findBlock ends pos = some i) :
    ∃ hi : i < ends.length, pos ≤ ends[i] ∧ ∀ k (hk : k < i), ends[k]'(by omega) < pos := by
  unfold findBlock at h
  simp only at h
  split at h
  · rename_i hlt
    simp only [Option.some.injEq] at h
    subst h
    have sp := firstGE_spec ends pos hs
    exact ⟨hlt, sp.2 hlt, fun k hk => (sp.1 k hk).2⟩
  · cases h

/-! ### encode / recode -/

/-- all labels of a table in the order `encode` visits them -/
def allPops (t : Table) : List String :=
  t.flatMap (fun s => s.2.1.map (·.pop) ++ s.2.2.map (·.pop))

/-- the code table: the labels handed to `encode` followed by newly met labels, in order of discovery;
    a label's code is its position -/
def extend (tbl : List String) : List String → List String
  | [] => tbl
  | p :: ps => if tbl.contains p then extend tbl ps else extend (tbl ++ [p]) ps

def codeTable (labelsArg : List String) (t : Table) : List String := extend labelsArg (allPops t)

def encodeStrand (tbl : List String) (s : Strand) : List Nat := s.map (fun b => tbl.idxOf b.pop)
def recodeStrand (tbl : List String) (codes : List Nat) : List (Option String) := codes.map (fun c => tbl[c]?)

/-- `self.labels` after `encode`: the entries of the table whose label occurs in the data -/
def labelsAfter (labelsArg : List String) (t : Table) : List (String × Nat) :=
  ((codeTable labelsArg t).zipIdx).filter (fun p => (allPops t).contains p.1)

theorem extend_mem_left (tbl ps : List String) : ∀ x ∈ tbl, x ∈ extend tbl ps := by
  induction ps generalizing tbl with
  | nil => intro x hx; exact hx
  | cons p ps ih =>
    intro x hx
    unfold extend
    split
    · exact ih tbl x hx
    · exact ih _ x (List.mem_append_left _ hx)

theorem extend_mem_right (tbl ps : List String) : ∀ x ∈ ps, x ∈ extend tbl ps := by
  induction ps generalizing tbl with
  | nil => intro x hx; cases hx
  | cons p ps ih =>
    intro x hx
    unfold extend
    rcases List.mem_cons.mp hx with rfl | h
    · split
      · rename_i hc; exact extend_mem_left tbl ps x (by simpa using hc)
      · exact extend_mem_left _ ps x (by simp)
    · split
      · exact ih tbl x h
      · exact ih _ x h

theorem extend_nodup (tbl ps : List String) (h : tbl.Nodup) : (extend tbl ps).Nodup := by
  induction ps generalizing tbl with
  | nil => exact h
  | cons p ps ih =>
    unfold extend
    split
    · exact ih tbl h
    · rename_i hc
      apply ih
      rw [List.nodup_append]
      refine ⟨h, by simp, ?_⟩
      intro a ha b hb
      simp only [List.mem_singleton] at hb
      subst hb
      intro heq; subst heq
      exact hc (by simpa using ha)

/-- decoding the code of a label that is in the table gives the label back -/
theorem decode_code (tbl : List String) (p : String) (hp : p ∈ tbl) : tbl[tbl.idxOf p]? = some p := by
  have hlt : tbl.idxOf p < tbl.length := List.idxOf_lt_length_iff.mpr hp
  rw [List.getElem?_eq_getElem hlt]
  simp [List.getElem_idxOf]

/-- **encode then recode restores the labels**, for any label order handed to the encoder -/
theorem recode_encode_strand (labelsArg : List String) (t : Table) (s : Strand)
    (hs : ∀ b ∈ s, b.pop ∈ allPops t) :
    recodeStrand (codeTable labelsArg t) (encodeStrand (codeTable labelsArg t) s) = s.map (fun b => some b.pop) := by
  unfold recodeStrand encodeStrand
  rw [List.map_map]
  apply List.map_congr_left
  intro b hb
  exact decode_code _ _ (extend_mem_right _ _ _ (hs b hb))

/-- distinct labels get distinct codes (so encoded queries return the codes of the same labels, unambiguously) -/
theorem codes_injective (labelsArg : List String) (t : Table) (p q : String)
    (hp : p ∈ allPops t) (hq : q ∈ allPops t)
    (h : (codeTable labelsArg t).idxOf p = (codeTable labelsArg t).idxOf q) : p = q := by
  have h1 := decode_code (codeTable labelsArg t) p (extend_mem_right _ _ _ hp)
  have h2 := decode_code (codeTable labelsArg t) q (extend_mem_right _ _ _ hq)
  rw [h] at h1; rw [h1] at h2; exact Option.some.inj h2

/-- labels handed to the encoder keep the codes of their positions -/
theorem given_labels_keep_order (labelsArg : List String) (t : Table) (h : labelsArg.Nodup) (i : Nat) (p : String)
    (hi : labelsArg[i]? = some p) : (codeTable labelsArg t)[i]? = some p := by
  unfold codeTable
  generalize allPops t = ps
  induction ps generalizing labelsArg with
  | nil => exact hi
  | cons q qs ih =>
    unfold extend
    split
    · exact ih labelsArg h hi
    · rename_i hc
      apply ih
      · rw [List.nodup_append]
        refine ⟨h, by simp, ?_⟩
        intro a ha b hb
        simp only [List.mem_singleton] at hb
        subst hb; intro heq; subst heq
        exact hc (by simpa using ha)
      · have hlt : i < labelsArg.length := by
          rcases Nat.lt_or_ge i labelsArg.length with h' | h'
          · exact h'
          · rw [List.getElem?_eq_none h'] at hi; cases hi
        rw [List.getElem?_append_left hlt]; exact hi

end Breakpoints
