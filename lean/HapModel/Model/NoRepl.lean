/-! Prototype C14: `_find_coord` / `_find_random_sample` (after fix F13) -/
namespace NoRepl

/-- (chrom, start, end) — closed interval of base pairs already handed out -/
abbrev Iv := Nat × Nat × Nat

def overlaps (a b : Iv) : Prop := a.1 = b.1 ∧ a.2.1 ≤ b.2.2 ∧ b.2.1 ≤ a.2.2
instance (a b : Iv) : Decidable (overlaps a b) := by unfold overlaps; infer_instance

/-- `_find_coord(cur_hap, chrom, start, end)`: returns (used?, updated list) -/
def findCoord (cur : List Iv) (req : Iv) : Bool × List Iv :=
  if cur.any (fun u => decide (req.1 = u.1) && (decide (req.2.1 ≤ u.2.2) && decide (u.2.1 ≤ req.2.2)))
  then (true, cur) else (false, cur ++ [req])

/-- the pre-fix test -/
def findCoordOld (cur : List Iv) (req : Iv) : Bool × List Iv :=
  if cur.any (fun u => decide (req.1 = u.1) &&
      ((decide (req.2.1 ≤ u.2.1) && decide (u.2.1 < req.2.2)) || (decide (req.2.1 < u.2.2) && decide (u.2.2 ≤ req.2.2))))
  then (true, cur) else (false, cur ++ [req])

def Disjoint (l : List Iv) : Prop := l.Pairwise (fun a b => ¬ overlaps a b)

theorem findCoord_used_iff (cur : List Iv) (req : Iv) :
    (findCoord cur req).1 = true ↔ ∃ u ∈ cur, overlaps req u := by
  unfold findCoord
  split
  · rename_i h
    simp only [true_iff]
    obtain ⟨u, hu, hp⟩ := List.any_eq_true.mp h
    refine ⟨u, hu, ?_⟩
    simpa [overlaps, Bool.and_eq_true, decide_eq_true_eq] using hp
  · rename_i h
    simp only [Bool.false_eq_true, false_iff]
    intro ⟨u, hu, ho⟩
    apply h
    apply List.any_eq_true.mpr
    exact ⟨u, hu, by simpa [overlaps, Bool.and_eq_true, decide_eq_true_eq] using ho⟩

theorem overlaps_symm {a b : Iv} : overlaps a b → overlaps b a := by
  unfold overlaps; intro ⟨h1, h2, h3⟩; exact ⟨h1.symm, h3, h2⟩

/-- the invariant: intervals registered for one reference haplotype stay pairwise disjoint -/
theorem findCoord_disjoint (cur : List Iv) (req : Iv) (h : Disjoint cur) :
    Disjoint (findCoord cur req).2 := by
  unfold findCoord
  split
  · exact h
  · rename_i hn
    unfold Disjoint
    rw [List.pairwise_append]
    refine ⟨h, by simp, ?_⟩
    intro a ha b hb
    simp only [List.mem_singleton] at hb
    subst hb
    intro ho
    apply hn
    apply List.any_eq_true.mpr
    exact ⟨a, ha, by simpa [overlaps, Bool.and_eq_true, decide_eq_true_eq] using overlaps_symm ho⟩

/-- any number of requests, in any order (all shuffles, all simulated haplotypes and blocks) -/
theorem requests_disjoint (reqs : List Iv) (cur : List Iv) (h : Disjoint cur) :
    Disjoint (reqs.foldl (fun c r => (findCoord c r).2) cur) := by
  induction reqs generalizing cur with
  | nil => exact h
  | cons r rs ih => exact ih _ (findCoord_disjoint cur r h)

/-- F13: the old test grants a request nested in a used interval, and one sharing an end point -/
theorem findCoordOld_refuted :
    (findCoordOld [(1,100,200)] (1,120,180)).1 = false ∧ overlaps (1,120,180) (1,100,200) ∧
    (findCoordOld [(1,100,200)] (1,200,300)).1 = false ∧ overlaps (1,200,300) (1,100,200) := by decide


/-! ### `_find_random_sample` and the request sequence of a whole `output_vcf --no_replacement` run -/

/-- registry of used intervals: one list per reference haplotype, index `2*sample + strand` -/
abbrev Used := List (List Iv)

def Inv (u : Used) : Prop := ∀ l ∈ u, Disjoint l

/-- the inner `for haplotype in range(2)` / outer `for sample in samples` scan of `_find_random_sample`
    flattened to the list of haplotype indices it tries, in order: `[2*s₀, 2*s₀+1, 2*s₁, …]` -/
def candidates (order : List Nat) : List Nat := order.flatMap (fun s => [2*s, 2*s+1])

/-- try the candidates in order; the first haplotype whose registry does not intersect `req` gets it.
    `none` = the Python `raise Exception("No available sample …")`.  Candidates outside the registry
    are an `IndexError` in Python; the model treats them as unavailable (the harness never generates them). -/
def findFirst : List Nat → Used → Iv → Option (Nat × Used)
  | [], _, _ => none
  | h :: hs, u, req =>
    match u[h]? with
    | none => findFirst hs u req
    | some cur =>
      let r := findCoord cur req
      if r.1 then findFirst hs u req else some (h, u.set h r.2)

def findRandomSample (order : List Nat) (u : Used) (req : Iv) : Option (Nat × Used) :=
  findFirst (candidates order) u req

theorem inv_set {u : Used} {h : Nat} {l : List Iv} (hu : Inv u) (hl : Disjoint l) : Inv (u.set h l) := by
  intro x hx
  rcases List.mem_or_eq_of_mem_set hx with h1 | h1
  · exact hu x h1
  · exact h1 ▸ hl

theorem findFirst_spec (cands : List Nat) (u : Used) (req : Iv) (hu : Inv u) :
    match findFirst cands u req with
    | none => ∀ h ∈ cands, ∀ cur, u[h]? = some cur → ∃ x ∈ cur, overlaps req x
    | some (h, u') => h ∈ cands ∧ Inv u' ∧ u'.length = u.length ∧
        ∃ cur, u[h]? = some cur ∧ (∀ x ∈ cur, ¬ overlaps req x) ∧ u' = u.set h (cur ++ [req]) := by
  induction cands with
  | nil => simp [findFirst]
  | cons h hs ih =>
    unfold findFirst
    cases hc : u[h]? with
    | none =>
      simp only
      cases hff : findFirst hs u req with
      | none =>
        rw [hff] at ih; simp only at ih ⊢
        intro h' hh' cur hcur
        rcases List.mem_cons.mp hh' with rfl | hm
        · rw [hc] at hcur; cases hcur
        · exact ih h' hm cur hcur
      | some p =>
        obtain ⟨h2, u2⟩ := p
        rw [hff] at ih; simp only at ih ⊢
        exact ⟨List.mem_cons_of_mem _ ih.1, ih.2⟩
    | some cur =>
      simp only
      by_cases hused : (findCoord cur req).1 = true
      · simp only [hused, if_true]
        have hex := (findCoord_used_iff cur req).mp hused
        cases hff : findFirst hs u req with
        | none =>
          rw [hff] at ih; simp only at ih ⊢
          intro h' hh' cur' hcur'
          rcases List.mem_cons.mp hh' with rfl | hm
          · rw [hc] at hcur'; cases hcur'; exact hex
          · exact ih h' hm cur' hcur'
        | some p =>
          obtain ⟨h2, u2⟩ := p
          rw [hff] at ih; simp only at ih ⊢
          exact ⟨List.mem_cons_of_mem _ ih.1, ih.2⟩
      · have hfalse : (findCoord cur req).1 = false := by simpa using hused
        simp only [hfalse, Bool.false_eq_true, if_false]
        have hno : ∀ x ∈ cur, ¬ overlaps req x := by
          intro x hx ho
          exact hused ((findCoord_used_iff cur req).mpr ⟨x, hx, ho⟩)
        have hlist : (findCoord cur req).2 = cur ++ [req] := by
          unfold findCoord at hfalse ⊢
          split
          · rename_i hany; simp [hany] at hfalse
          · rfl
        have hdis : Disjoint cur := hu cur (List.mem_of_getElem? hc)
        refine ⟨List.mem_cons_self, inv_set hu (findCoord_disjoint cur req hdis), by simp, cur, hc, hno, by rw [hlist]⟩

/-- **C14, per request**: a granted request never intersects what that reference haplotype already gave
    away, the registry stays pairwise disjoint, and a refusal means *every* candidate haplotype intersects. -/
theorem findRandomSample_spec (order : List Nat) (u : Used) (req : Iv) (hu : Inv u) :
    match findRandomSample order u req with
    | none => ∀ h ∈ candidates order, ∀ cur, u[h]? = some cur → ∃ x ∈ cur, overlaps req x
    | some (h, u') => h ∈ candidates order ∧ Inv u' ∧ u'.length = u.length ∧
        ∃ cur, u[h]? = some cur ∧ (∀ x ∈ cur, ¬ overlaps req x) ∧ u' = u.set h (cur ++ [req]) :=
  findFirst_spec _ u req hu

/-- a whole run: any sequence of (shuffled order, request) pairs; stops at the first refusal (the
    exception aborts `output_vcf`).  Returns the grants so far and the final registry. -/
def runRequests : List (List Nat × Iv) → Used → List Nat × Used × Bool
  | [], u => ([], u, true)
  | (order, req) :: rest, u =>
    match findRandomSample order u req with
    | none => ([], u, false)
    | some (h, u') =>
      let r := runRequests rest u'
      (h :: r.1, r.2.1, r.2.2)

/-- **C14, whole run**: after any number of requests (any shuffles, any blocks, nested / abutting / equal /
    overlapping), every reference haplotype's copied intervals are pairwise disjoint. -/
theorem runRequests_inv (reqs : List (List Nat × Iv)) (u : Used) (hu : Inv u) :
    Inv (runRequests reqs u).2.1 := by
  induction reqs generalizing u with
  | nil => exact hu
  | cons r rs ih =>
    obtain ⟨order, req⟩ := r
    unfold runRequests
    have hs := findRandomSample_spec order u req hu
    split
    · exact hu
    · rename_i h u' heq
      rw [heq] at hs
      exact ih u' hs.2.1

theorem inv_init (n : Nat) : Inv (List.replicate n []) := by
  intro l hl
  rw [List.mem_replicate] at hl
  rw [hl.2]; exact List.Pairwise.nil

/-- non-vacuity: a concrete history — the nested request is redirected to the other strand, the abutting
    one too, and a fourth request that intersects both strands is refused -/
example : runRequests [([0], (1,100,200)), ([0], (1,120,180)), ([0], (1,200,300)), ([0], (1,150,250))] (List.replicate 2 [])
    = ([0, 1, 1], [[(1,100,200)], [(1,120,180), (1,200,300)]], false) := by
  decide

end NoRepl
