/-! Prototype C05: the `.bp` reader (`Breakpoints.__iter__`) and writer (`write`) at the level of lines.
    Sample names are `List Char` so that `rsplit("_", 1)` / `[:-2]` are list operations. -/
namespace BpFile

abbrev Name := List Char
/-- a block line: (pop, chrom, bp, cm) tokens -/
abbrev Block := String × String × String × String

inductive BLine
  | header (text : Name)            -- a line with a single field
  | block (b : Block)               -- a line with four fields
deriving Repr

/-- `line.rsplit("_", 1)[-1]`: the part after the last underscore (the whole text if there is none) -/
def afterLastUnderscore (t : Name) : Name :=
  (t.reverse.takeWhile (· ≠ '_')).reverse

structure St where
  out : List (Name × List Block × List Block)     -- samples yielded so far
  samp : Option Name
  b1 : List Block
  b2 : List Block
  strand : Nat                                     -- strand_num (0 or 1)

/-- one line of the loop (all samples requested; comment lines and malformed lines are not generated) -/
def step (st : St) : BLine → St
  | .header t =>
    let sn := afterLastUnderscore t
    if sn = ['1'] then
      -- first strand: yield the previous sample, start a new one
      let out := match st.samp with
        | some s => st.out ++ [(s, st.b1, st.b2)]
        | none => st.out
      { out := out, samp := some (t.take (t.length - 2)), b1 := [], b2 := [], strand := 0 }
    else if sn = ['2'] then { st with strand := 1 }      -- (mismatches are only logged)
    else st                                              -- "Ignoring improperly formatted line"
  | .block b => if st.strand = 0 then { st with b1 := st.b1 ++ [b] } else { st with b2 := st.b2 ++ [b] }

def finish (st : St) : List (Name × List Block × List Block) :=
  match st.samp with
  | some s => st.out ++ [(s, st.b1, st.b2)]
  | none => st.out

def parse (lines : List BLine) : List (Name × List Block × List Block) :=
  finish (lines.foldl step ⟨[], none, [], [], 0⟩)

/-- `write`: `{samp}_1`, blocks of strand 1, `{samp}_2`, blocks of strand 2 -/
def render (data : List (Name × List Block × List Block)) : List BLine :=
  data.flatMap (fun s =>
    .header (s.1 ++ ['_', '1']) :: s.2.1.map .block ++ .header (s.1 ++ ['_', '2']) :: s.2.2.map .block)

theorem after_1 (n : Name) : afterLastUnderscore (n ++ ['_', '1']) = ['1'] := by
  simp [afterLastUnderscore, List.reverse_append, List.takeWhile]
theorem after_2 (n : Name) : afterLastUnderscore (n ++ ['_', '2']) = ['2'] := by
  simp [afterLastUnderscore, List.reverse_append, List.takeWhile]
theorem dropLast2 (n : Name) (a b : Char) : (n ++ [a, b]).take ((n ++ [a, b]).length - 2) = n := by
  simp

theorem fold_blocks (bs : List Block) : ∀ (st : St),
    (bs.map BLine.block).foldl step st =
      if st.strand = 0 then { st with b1 := st.b1 ++ bs } else { st with b2 := st.b2 ++ bs } := by
  induction bs with
  | nil => intro st; cases st; split <;> simp
  | cons b t ih =>
    intro st
    simp only [List.map_cons, List.foldl_cons, step]
    by_cases h : st.strand = 0
    · simp only [h, ↓reduceIte]
      rw [ih]; simp [h, List.append_assoc]
    · simp only [h, ↓reduceIte]
      rw [ih]; simp [h, List.append_assoc]

/-- C05: writing breakpoints and reading them back gives the same samples, order, strands and block tokens
    (sample names may contain underscores) -/
theorem parse_render (data : List (Name × List Block × List Block)) : parse (render data) = data := by
  unfold parse
  -- generalise over the state reached after a prefix
  have key : ∀ (d : List (Name × List Block × List Block)) (st : St),
      finish ((render d).foldl step st) = (finish st) ++ d := by
    intro d
    induction d with
    | nil => intro st; simp [render]
    | cons s rest ih =>
      intro st
      have hr : render (s :: rest) = (.header (s.1 ++ ['_', '1']) :: s.2.1.map .block ++
          .header (s.1 ++ ['_', '2']) :: s.2.2.map .block) ++ render rest := by
        simp [render]
      rw [hr, List.foldl_append, ih]
      simp only [List.cons_append, List.foldl_cons, List.foldl_append]
      -- first header
      have h1 : step st (.header (s.1 ++ ['_', '1'])) =
          ⟨(match st.samp with | some x => st.out ++ [(x, st.b1, st.b2)] | none => st.out), some s.1, [], [], 0⟩ := by
        simp [step, after_1, dropLast2]
      rw [h1, fold_blocks s.2.1]
      simp only [↓reduceIte, List.nil_append]
      have h2 : step ⟨(match st.samp with | some x => st.out ++ [(x, st.b1, st.b2)] | none => st.out), some s.1, s.2.1, [], 0⟩
          (.header (s.1 ++ ['_', '2'])) =
          ⟨(match st.samp with | some x => st.out ++ [(x, st.b1, st.b2)] | none => st.out), some s.1, s.2.1, [], 1⟩ := by
        simp [step, after_2]
      rw [h2, fold_blocks s.2.2]
      simp only [Nat.succ_ne_zero, ↓reduceIte, List.nil_append, finish]
      cases st.samp <;> simp
  have := key data ⟨[], none, [], [], 0⟩
  simpa [finish] using this

end BpFile
