/-! Prototype: greedy clumping loop (clump.py: GetNextIndexVariant / QueryWindow / RemoveClump / clumpstr) -/

structure SVar where
  uid : Nat          -- position in the loaded list (object identity in Python)
  chrom : String
  pos : Int
  pnum : Nat         -- p-value as exact rational pnum/pden
  pden : Nat
deriving Repr, DecidableEq

namespace Clump

def pLt (a b : SVar) : Bool := a.pnum * b.pden < b.pnum * a.pden

/-- `GetNextIndexVariant`: first variant with the strictly smallest p among those with p < p1 (and p < 1). -/
def nextIndex (below : SVar → Bool) : List SVar → Option SVar
  | [] => none
  | v :: vs =>
    match nextIndex below vs with
    | none => if below v then some v else none
    | some b => if below v && !(pLt b v) then some v else some b   -- ties: earlier wins

theorem nextIndex_mem {below : SVar → Bool} : ∀ {vars : List SVar} {idx : SVar},
    nextIndex below vars = some idx → idx ∈ vars
  | [], _, h => by simp [nextIndex] at h
  | v :: vs, idx, h => by
    unfold nextIndex at h
    split at h
    · split at h
      · simp at h; simp [h]
      · simp at h
    · rename_i b hb
      have := nextIndex_mem hb
      split at h
      · simp at h; simp [h]
      · simp at h; subst h; simp [this]

/-- one clump: index + members -/
structure ClumpOut where
  index : SVar
  members : List SVar

/-- one iteration of the `while indexvar is not None` loop of `clumpstr`;
`inLD idx c` is the decision `r2 > clump_r2` (false on NaN) -/
def clumpStep (below : SVar → Bool) (window inLD : SVar → SVar → Bool)
    (vars : List SVar) : Option (ClumpOut × List SVar) :=
  match nextIndex below vars with
  | none => none
  | some idx =>
    let members := (vars.filter (window idx)).filter (inLD idx)
    -- RemoveClump(clumpvars + [indexvar])
    some ({ index := idx, members := members },
          vars.filter (fun v => !(members.contains v) && v != idx))

theorem clumpStep_lt {below window inLD} {vars rest : List SVar} {c : ClumpOut}
    (h : clumpStep below window inLD vars = some (c, rest)) : rest.length < vars.length := by
  unfold clumpStep at h
  split at h
  · simp at h
  · rename_i idx hidx
    simp only [Option.some.injEq, Prod.mk.injEq] at h
    rw [← h.2]
    apply List.length_filter_lt_length_iff_exists.mpr
    exact ⟨idx, nextIndex_mem hidx, by simp⟩

def clumpLoop (below : SVar → Bool) (window inLD : SVar → SVar → Bool)
    (vars : List SVar) : List ClumpOut :=
  match h : clumpStep below window inLD vars with
  | none => []
  | some (c, rest) => c :: clumpLoop below window inLD rest
termination_by vars.length
decreasing_by exact clumpStep_lt h

/-- no variant appears in two clumps (as member or index) -/
theorem clump_members_sub {below window inLD} {vars rest : List SVar} {c : ClumpOut}
    (h : clumpStep below window inLD vars = some (c, rest)) :
    (∀ v ∈ c.members, v ∈ vars ∧ v ∉ rest) ∧ c.index ∈ vars ∧ c.index ∉ rest ∧ (∀ v ∈ rest, v ∈ vars) := by
  unfold clumpStep at h
  split at h
  · simp at h
  · rename_i idx hidx
    simp only [Option.some.injEq, Prod.mk.injEq] at h
    obtain ⟨hc, hr⟩ := h
    subst hc; subst hr
    refine ⟨?_, nextIndex_mem hidx, ?_, ?_⟩
    · intro v hv
      have hv' := hv
      simp only [List.mem_filter] at hv'
      refine ⟨hv'.1.1, ?_⟩
      simp only [List.mem_filter, not_and, Bool.and_eq_true, Bool.not_eq_true', bne_iff_ne]
      intro _ hcon
      have hc2 : (List.filter (inLD idx) (List.filter (window idx) vars)).contains v = true := by
        simpa using hv
      rw [hc2] at hcon; exact absurd hcon (by simp)
    · simp
    · intro v hv; exact (List.mem_filter.mp hv).1

end Clump
