import HapModel.Model.NextIndex
/-!
# C17 model: greedy clumping loop (`clump.py`: `Load`, `GetNextIndexVariant`, `QueryWindow`, `RemoveClump`,
the `while indexvar is not None` loop of `clumpstr`)

p-values are exact integers (numerators over one common denominator `one`); the LD decision
`r² > clump_r2` (false for NaN / no overlapping samples) is a parameter `inLD`.
-/
namespace Clump
open NextIndex

/-- `SummaryStats.Load`: keeps the lines with `p ≤ p2`, in file order -/
def load (p2 : Nat) (vars : List V) : List V := vars.filter (fun v => decide (v.p ≤ p2))

/-- `QueryWindow`: same chromosome and `|Δpos| / 1000 < kb`, with `win = 1000·kb` -/
def window (win : Nat) (idx c : V) : Bool := (c.chrom == idx.chrom) && decide ((c.pos - idx.pos).natAbs < win)

structure ClumpOut where
  index : V
  members : List V
deriving Repr

theorem nextIndex_mem {one p1 : Nat} {vars : List V} {idx : V}
    (h : nextIndex one p1 vars = some idx) : idx ∈ vars := by
  have := nextIndex_spec one p1 vars
  rw [h] at this
  obtain ⟨_, pre, post, hv, _⟩ := this
  rw [hv]; simp

/-- one iteration of the loop; `RemoveClump(clumpvars + [indexvar])` removes by object identity (`uid`) -/
def clumpStep (one p1 win : Nat) (inLD : V → V → Bool) (vars : List V) : Option (ClumpOut × List V) :=
  match nextIndex one p1 vars with
  | none => none
  | some idx =>
    let members := (vars.filter (window win idx)).filter (inLD idx)
    some ({ index := idx, members := members },
          vars.filter (fun v => !(members.contains v) && v != idx))

theorem clumpStep_lt {one p1 win inLD} {vars rest : List V} {c : ClumpOut}
    (h : clumpStep one p1 win inLD vars = some (c, rest)) : rest.length < vars.length := by
  unfold clumpStep at h
  split at h
  · simp at h
  · rename_i idx hidx
    simp only [Option.some.injEq, Prod.mk.injEq] at h
    rw [← h.2]
    apply List.length_filter_lt_length_iff_exists.mpr
    exact ⟨idx, nextIndex_mem hidx, by simp⟩

/-- the whole loop; **terminates for every input** (the index variant is always removed) -/
def clumpLoop (one p1 win : Nat) (inLD : V → V → Bool) (vars : List V) : List ClumpOut :=
  match h : clumpStep one p1 win inLD vars with
  | none => []
  | some (c, rest) => c :: clumpLoop one p1 win inLD rest
termination_by vars.length
decreasing_by exact clumpStep_lt h

def clump (one p1 p2 win : Nat) (inLD : V → V → Bool) (vars : List V) : List ClumpOut :=
  clumpLoop one p1 win inLD (load p2 vars)

/-- what one step does, spelled out -/
theorem clumpStep_spec {one p1 win inLD} {vars rest : List V} {c : ClumpOut}
    (h : clumpStep one p1 win inLD vars = some (c, rest)) :
    nextIndex one p1 vars = some c.index ∧
    c.members = (vars.filter (window win c.index)).filter (inLD c.index) ∧
    rest = vars.filter (fun v => !(c.members.contains v) && v != c.index) := by
  unfold clumpStep at h
  split at h
  · simp at h
  · rename_i idx hidx
    simp only [Option.some.injEq, Prod.mk.injEq] at h
    obtain ⟨hc, hr⟩ := h
    subst hc; subst hr
    exact ⟨hidx, rfl, rfl⟩

/-- nothing that was clumped (member or index) stays in the pool; the pool only shrinks -/
theorem clumpStep_removes {one p1 win inLD} {vars rest : List V} {c : ClumpOut}
    (h : clumpStep one p1 win inLD vars = some (c, rest)) :
    (∀ v ∈ c.members, v ∈ vars ∧ v ∉ rest) ∧ c.index ∈ vars ∧ c.index ∉ rest ∧ (∀ v ∈ rest, v ∈ vars) := by
  obtain ⟨hidx, hm, hr⟩ := clumpStep_spec h
  refine ⟨?_, nextIndex_mem hidx, ?_, ?_⟩
  · intro v hv
    refine ⟨?_, ?_⟩
    · rw [hm] at hv; exact (List.mem_filter.mp (List.mem_filter.mp hv).1).1
    · rw [hr]
      simp only [List.mem_filter, not_and, Bool.and_eq_true, Bool.not_eq_true', bne_iff_ne]
      intro _ hcon
      have : c.members.contains v = true := by simpa using hv
      rw [this] at hcon; exact absurd hcon (by simp)
  · rw [hr]; simp
  · intro v hv; rw [hr] at hv; exact (List.mem_filter.mp hv).1

/-- every variant of every later clump comes from the remaining pool -/
theorem clumpLoop_sub (one p1 win : Nat) (inLD : V → V → Bool) : ∀ (n : Nat) (vars : List V), vars.length ≤ n →
    ∀ c ∈ clumpLoop one p1 win inLD vars, c.index ∈ vars ∧ ∀ v ∈ c.members, v ∈ vars := by
  intro n
  induction n with
  | zero =>
    intro vars hl c hc
    have : vars = [] := List.length_eq_zero_iff.mp (by omega)
    subst this
    rw [clumpLoop] at hc
    simp [clumpStep, nextIndex] at hc
  | succ n ih =>
    intro vars hl c hc
    rw [clumpLoop] at hc
    split at hc
    · cases hc
    · rename_i c0 rest hstep
      have hrm := clumpStep_removes hstep
      rcases List.mem_cons.mp hc with rfl | h
      · exact ⟨hrm.2.1, fun v hv => (hrm.1 v hv).1⟩
      · have hlt := clumpStep_lt hstep
        have := ih rest (by omega) c h
        exact ⟨hrm.2.2.2 _ this.1, fun v hv => hrm.2.2.2 _ (this.2 v hv)⟩

/-- **no variant appears in two clumps** (as member or index): the clump list is pairwise disjoint -/
theorem clumps_disjoint (one p1 win : Nat) (inLD : V → V → Bool) : ∀ (n : Nat) (vars : List V), vars.length ≤ n →
    (clumpLoop one p1 win inLD vars).Pairwise (fun a b =>
      ∀ v, (v = a.index ∨ v ∈ a.members) → ¬ (v = b.index ∨ v ∈ b.members)) := by
  intro n
  induction n with
  | zero =>
    intro vars hl
    have : vars = [] := List.length_eq_zero_iff.mp (by omega)
    subst this
    rw [clumpLoop]; simp [clumpStep, nextIndex]
  | succ n ih =>
    intro vars hl
    rw [clumpLoop]
    split
    · exact List.Pairwise.nil
    · rename_i c0 rest hstep
      have hrm := clumpStep_removes hstep
      have hlt := clumpStep_lt hstep
      refine List.Pairwise.cons ?_ (ih rest (by omega))
      intro b hb v hv hvb
      have hsub := clumpLoop_sub one p1 win inLD n rest (by omega) b hb
      have hvrest : v ∈ rest := by
        rcases hvb with rfl | h
        · exact hsub.1
        · exact hsub.2 v h
      rcases hv with rfl | h
      · exact hrm.2.2.1 hvrest
      · exact (hrm.1 v h).2 hvrest

end Clump
