/-! Prototype C04: single-haplotype and set-wise `transform` agree with the specification
    (all variants and alleles present; the error branches are separate). Strand `k ∈ {0,1}`. -/
namespace Transform

abbrev Key := String × String                       -- (variant ID, allele)

structure Hap where
  id : String
  vars : List Key
deriving Repr

/-- genotypes restricted to what the transform needs: for a variant ID and allele string the allele index
    (`alleles.index(allele)`), and for (sample, variant ID, strand) the stored allele index.
    Both come from the by-ID subset (C12) of the genotype matrix. -/
structure Geno where
  alleleIdx : Key → Nat
  cell : Nat → String → Nat → Nat                   -- sample → variant ID → strand → allele index

/-- specification: the strand carries the listed allele at every variant of the haplotype -/
def carries (g : Geno) (h : Hap) (s k : Nat) : Bool :=
  h.vars.all (fun key => g.cell s key.1 k == g.alleleIdx key)

/-- `Haplotype.transform`: subset to the haplotype's variants in order, compare, AND -/
def single (g : Geno) (h : Hap) (s k : Nat) : Bool :=
  let alleleArr := h.vars.map g.alleleIdx
  let cols := h.vars.map (fun key => g.cell s key.1 k)
  (List.zip alleleArr cols).all (fun p => p.1 == p.2)

/-- `alleles[key] = count` for keys not seen before: insertion-ordered dictionary of distinct keys -/
def addKey (dict : List Key) (key : Key) : List Key := if dict.contains key then dict else dict ++ [key]
def buildDict (haps : List Hap) : List Key := (haps.flatMap (·.vars)).foldl addKey []

/-- `Haplotypes.transform`: one column per distinct (variant, allele), equality array, per-haplotype AND over `idxs[i]` -/
def setwise (g : Geno) (haps : List Hap) (h : Hap) (s k : Nat) : Bool :=
  let dict := buildDict haps
  let equality : List Bool := dict.map (fun key => g.alleleIdx key == g.cell s key.1 k)
  let idxs := h.vars.map (fun key => dict.idxOf key)
  idxs.all (fun i => equality[i]?.getD false)

theorem single_eq_spec (g : Geno) (h : Hap) (s k : Nat) : single g h s k = carries g h s k := by
  unfold single carries
  induction h.vars with
  | nil => rfl
  | cons a t ih =>
    simp only [List.map_cons, List.zip_cons_cons, List.all_cons, ih]
    congr 1
    exact Bool.beq_comm ..

theorem addKey_mono (dict : List Key) (key : Key) : ∀ x ∈ dict, x ∈ addKey dict key := by
  intro x hx; unfold addKey; split
  · exact hx
  · exact List.mem_append_left _ hx

theorem fold_addKey_mem : ∀ (keys dict : List Key), (∀ x ∈ dict, x ∈ keys.foldl addKey dict) ∧
    (∀ x ∈ keys, x ∈ keys.foldl addKey dict)
  | [], dict => by simp
  | a :: t, dict => by
    have ih := fold_addKey_mem t (addKey dict a)
    simp only [List.foldl_cons]
    refine ⟨fun x hx => ih.1 x (addKey_mono dict a x hx), ?_⟩
    intro x hx
    rcases List.mem_cons.mp hx with rfl | hx'
    · apply ih.1
      unfold addKey; split
      · rename_i hc; simpa using hc
      · simp
    · exact ih.2 x hx'

/-- every key of every haplotype has a column in the dictionary -/
theorem key_in_dict (haps : List Hap) (h : Hap) (hh : h ∈ haps) (key : Key) (hk : key ∈ h.vars) :
    key ∈ buildDict haps := by
  unfold buildDict
  exact (fold_addKey_mem _ []).2 key (List.mem_flatMap.mpr ⟨h, hh, hk⟩)

theorem all_congr_mem {α} (f g : α → Bool) : ∀ (l : List α), (∀ a ∈ l, f a = g a) → l.all f = l.all g
  | [], _ => rfl
  | a :: t, h => by
    simp only [List.all_cons, h a (List.mem_cons_self ..),
      all_congr_mem f g t (fun x hx => h x (List.mem_cons_of_mem _ hx))]

/-- C04: the set-wise implementation gives the specified answer for every haplotype of the set;
    with `single_eq_spec` the two implementations agree -/
theorem setwise_eq_spec (g : Geno) (haps : List Hap) (h : Hap) (hh : h ∈ haps) (s k : Nat) :
    setwise g haps h s k = carries g h s k := by
  unfold setwise carries
  simp only [List.all_map]
  apply all_congr_mem
  intro key hk
  have hmem := key_in_dict haps h hh key hk
  have hlt : (buildDict haps).idxOf key < (buildDict haps).length := List.idxOf_lt_length_iff.mpr hmem
  simp only [Function.comp, List.getElem?_map, List.getElem?_eq_getElem hlt, Option.map_some,
    Option.getD_some, List.getElem_idxOf hlt]
  exact Bool.beq_comm ..

/-! ### ancestry-aware transforms (`HaplotypeAncestry.transform`, `HaplotypesAncestry.transform`) -/

/-- genotypes with local ancestry: `anc s v k` is the ancestry code of strand `k` of sample `s` at variant `v` -/
structure GenoA where
  g : Geno
  anc : Nat → String → Nat → Nat

/-- `ancestry == label` for one haplotype: `code = none` is the `-1` sentinel of a label that occurs nowhere in the
    data – it equals no stored (unsigned) code -/
def ancAll (ga : GenoA) (code : Option Nat) (h : Hap) (s k : Nat) : Bool :=
  h.vars.all (fun key => match code with
    | none => false
    | some c => ga.anc s key.1 k == c)

/-- specification with ancestry: all alleles match and the local ancestry at each of the variants is the label -/
def carriesA (ga : GenoA) (code : Option Nat) (h : Hap) (s k : Nat) : Bool :=
  carries ga.g h s k && ancAll ga code h s k

def singleA (ga : GenoA) (code : Option Nat) (h : Hap) (s k : Nat) : Bool :=
  single ga.g h s k && ancAll ga code h s k

/-- set-wise: the ancestry columns are gathered through the same `idxs[i]` as the equality columns -/
def setwiseA (ga : GenoA) (code : Option Nat) (haps : List Hap) (h : Hap) (s k : Nat) : Bool :=
  let dict := buildDict haps
  let ancCols : List Bool := dict.map (fun key => match code with
    | none => false
    | some c => ga.anc s key.1 k == c)
  let idxs := h.vars.map (fun key => dict.idxOf key)
  idxs.all (fun i => ancCols[i]?.getD false) && setwise ga.g haps h s k

theorem singleA_eq_spec (ga : GenoA) (code : Option Nat) (h : Hap) (s k : Nat) :
    singleA ga code h s k = carriesA ga code h s k := by
  unfold singleA carriesA; rw [single_eq_spec]

theorem setwiseA_eq_spec (ga : GenoA) (code : Option Nat) (haps : List Hap) (h : Hap) (hh : h ∈ haps) (s k : Nat) :
    setwiseA ga code haps h s k = carriesA ga code h s k := by
  unfold setwiseA carriesA ancAll
  rw [setwise_eq_spec ga.g haps h hh, Bool.and_comm]
  congr 1
  simp only [List.all_map]
  apply all_congr_mem
  intro key hk
  have hmem := key_in_dict haps h hh key hk
  have hlt : (buildDict haps).idxOf key < (buildDict haps).length := List.idxOf_lt_length_iff.mpr hmem
  simp only [Function.comp, List.getElem?_map, List.getElem?_eq_getElem hlt, Option.map_some,
    Option.getD_some, List.getElem_idxOf hlt]

/-- a label occurring nowhere in the data never matches (and never fails) -/
theorem absent_label_never_matches (ga : GenoA) (h : Hap) (hne : h.vars ≠ []) (s k : Nat) :
    carriesA ga none h s k = false := by
  unfold carriesA ancAll
  cases hv : h.vars with
  | nil => exact absurd hv hne
  | cons a t => simp

end Transform
