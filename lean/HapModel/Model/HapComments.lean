import HapModel.Model.HapFormat
/-! C06: lines starting with '#' that are not header declarations are ignored wherever they appear. -/
namespace HapFormat

theorem checkHeader_insert (xs ys : List Line) (l : Line) (hc : classify l = .comment) :
    checkHeader (xs ++ l :: ys) = checkHeader (xs ++ ys) := by
  unfold checkHeader
  simp only [List.map_append, List.map_cons, List.foldl_append, List.foldl_cons, hc, Header.add]

theorem takeWhile_all {α} (p : α → Bool) : ∀ (a b : List α), (∀ x ∈ a, p x = true) →
    (a ++ b).takeWhile p = a ++ b.takeWhile p
  | [], b, _ => rfl
  | x :: a, b, h => by
    simp only [List.cons_append, List.takeWhile_cons, h x (List.mem_cons_self ..), ↓reduceIte,
      takeWhile_all p a b (fun y hy => h y (List.mem_cons_of_mem _ hy))]

theorem dropWhile_all {α} (p : α → Bool) : ∀ (a b : List α), (∀ x ∈ a, p x = true) →
    (a ++ b).dropWhile p = b.dropWhile p
  | [], b, _ => rfl
  | x :: a, b, h => by
    simp only [List.cons_append, List.dropWhile_cons, h x (List.mem_cons_self ..), ↓reduceIte,
      dropWhile_all p a b (fun y hy => h y (List.mem_cons_of_mem _ hy))]

/-- split a list at its first element failing `p` -/
theorem split_first_fail {α} (p : α → Bool) : ∀ (a : List α), (∃ x ∈ a, p x = false) →
    ∃ pre x post, a = pre ++ x :: post ∧ (∀ y ∈ pre, p y = true) ∧ p x = false
  | [], h => by obtain ⟨x, hx, _⟩ := h; cases hx
  | y :: a, h => by
    cases hp : p y with
    | false => exact ⟨[], y, a, rfl, by simp, hp⟩
    | true =>
      have : ∃ x ∈ a, p x = false := by
        obtain ⟨x, hx, hpx⟩ := h
        rcases List.mem_cons.mp hx with rfl | h'
        · rw [hp] at hpx; cases hpx
        · exact ⟨x, h', hpx⟩
      obtain ⟨pre, x, post, he, hpre, hx⟩ := split_first_fail p a this
      refine ⟨y :: pre, x, post, by rw [he]; rfl, ?_, hx⟩
      intro z hz
      rcases List.mem_cons.mp hz with rfl | h'
      · exact hp
      · exact hpre z h'

/-- **comments are ignored wherever they appear**: inserting a line that starts with `#` and is neither a metadata
    line nor a declaration (`#`, `# `, `#text`, `#<TAB>text`, `#H`, …) at any position leaves the result of
    reading the file unchanged -/
theorem parse_insert_comment (c : Classes) (a b : List Line) (l : Line)
    (hh : isHash l = true) (hc : classify l = .comment) :
    parse c (a ++ l :: b) = parse c (a ++ b) := by
  unfold parse
  by_cases hall : ∀ x ∈ a, isHash x = true
  · -- the comment lands in the header block
    have e1 : (a ++ l :: b).takeWhile isHash = a ++ l :: b.takeWhile isHash := by
      rw [takeWhile_all isHash a _ hall]; simp [List.takeWhile_cons, hh]
    have e2 : (a ++ b).takeWhile isHash = a ++ b.takeWhile isHash := takeWhile_all isHash a b hall
    have e3 : (a ++ l :: b).dropWhile isHash = b.dropWhile isHash := by
      rw [dropWhile_all isHash a _ hall]; simp [List.dropWhile_cons, hh]
    have e4 : (a ++ b).dropWhile isHash = b.dropWhile isHash := dropWhile_all isHash a b hall
    rw [e1, e2, e3, e4, checkHeader_insert _ _ _ hc]
  · -- the comment lands in the body: it is filtered out
    have hex : ∃ x ∈ a, isHash x = false := by
      have := Classical.not_forall.mp hall
      obtain ⟨x, hx⟩ := this
      have hx' := Classical.not_imp.mp hx
      exact ⟨x, hx'.1, by simpa using hx'.2⟩
    obtain ⟨pre, x, post, he, hpre, hx⟩ := split_first_fail isHash a hex
    have t1 : ∀ rest, (pre ++ x :: rest).takeWhile isHash = pre := by
      intro rest
      rw [takeWhile_all isHash pre _ hpre]; simp [List.takeWhile_cons, hx]
    have d1 : ∀ rest, (pre ++ x :: rest).dropWhile isHash = x :: rest := by
      intro rest
      rw [dropWhile_all isHash pre _ hpre]; simp [List.dropWhile_cons, hx]
    have ea : a ++ l :: b = pre ++ x :: (post ++ l :: b) := by rw [he]; simp
    have eb : a ++ b = pre ++ x :: (post ++ b) := by rw [he]; simp
    rw [ea, eb, t1, t1, d1, d1]
    have : (x :: (post ++ l :: b)).filter (fun l => !isHash l) = (x :: (post ++ b)).filter (fun l => !isHash l) := by
      simp [List.filter_cons, List.filter_append, hh]
    rw [this]

end HapFormat
