import HapModel.Model.Cli
/-!
C19: the command line as a function.

* `splitLines` — Python's `str.splitlines()` on the text of a `--samples-file` / `--ids-file`,
* `parse`      — click's option parser restricted to the argument vectors the documentation shows
                 (`--opt value`, `-o value`, flags, positionals); `--opt=value` and clustered short options are not
                 modelled,
* `Decl`       — one row per option of a subcommand; the table itself is not written here, the harness reads it off
                 click's declarations in `haptools/__main__.py` on every run and hands it to the driver.
-/
namespace CliParse

/-! ## files with one name per line -/

/-- the line boundaries of `str.splitlines()` other than the pair "\r\n" (the list files were read with it before fix
    F29) -/
def pyBreak (c : Char) : Bool :=
  c.toNat = 0x0a || c.toNat = 0x0d || c.toNat = 0x0b || c.toNat = 0x0c || c.toNat = 0x1c || c.toNat = 0x1d ||
  c.toNat = 0x1e || c.toNat = 0x85 || c.toNat = 0x2028 || c.toNat = 0x2029

/-- the line boundaries of a text file opened with universal newlines (`for line in file`): "\n", "\r" and the pair -/
def nlBreak (c : Char) : Bool := c.toNat = 0x0a || c.toNat = 0x0d

/-- `acc` = the characters of the line being read, newest first; `afterCR` = the previous character was "\r", so a
    "\n" that follows belongs to the same line end -/
def splitGo (brk : Char → Bool) : List Char → List Char → Bool → List (List Char)
  | [], acc, _ => if acc.isEmpty then [] else [acc.reverse]
  | c :: rest, acc, afterCR =>
    if afterCR && c.toNat = 0x0a then splitGo brk rest acc false
    else if brk c then acc.reverse :: splitGo brk rest [] (c.toNat = 0x0d)
    else splitGo brk rest (c :: acc) false

/-- `text.splitlines()` -/
def splitLines (text : List Char) : List (List Char) := splitGo pyBreak text [] false

/-- `[line.rstrip("\n") for line in file]` on the bytes of the file (current code) -/
def readLines (text : List Char) : List (List Char) := splitGo nlBreak text [] false

/-- a name free of the separators -/
def Clean (brk : Char → Bool) (x : List Char) : Prop := ∀ c ∈ x, brk c = false

/-- what the harness (and any user) writes: every name followed by a newline -/
def fileOf (xs : List (List Char)) : List Char := xs.flatMap (fun x => x ++ ['\n'])

/-- the two facts about a separator set the proofs use -/
structure Breaks (brk : Char → Bool) : Prop where
  lf : brk '\n' = true
  cr : brk '\r' = true
  only_lf : ∀ c : Char, c.toNat = 0x0a → brk c = true

theorem pyBreaks : Breaks pyBreak := ⟨by decide, by decide, fun c h => by simp [pyBreak, h]⟩
theorem nlBreaks : Breaks nlBreak := ⟨by decide, by decide, fun c h => by simp [nlBreak, h]⟩

variable {brk : Char → Bool}

theorem clean_not_lf (hb : Breaks brk) {c : Char} (h : brk c = false) : ¬ c.toNat = 0x0a := by
  intro h'
  rw [hb.only_lf c h'] at h
  cases h

theorem splitGo_clean_prefix (hb : Breaks brk) (x : List Char) (hx : Clean brk x) (rest acc : List Char) (b : Bool)
    (hbx : b = true → x ≠ []) :
    splitGo brk (x ++ rest) acc b = splitGo brk rest (x.reverse ++ acc) (b && x.isEmpty) := by
  induction x generalizing acc b with
  | nil => cases b <;> simp at hbx ⊢
  | cons c x ih =>
    have hc : brk c = false := hx c (by simp)
    rw [List.cons_append, splitGo]
    simp only [clean_not_lf hb hc, decide_false, Bool.and_false, hc]
    rw [ih (fun d hd => hx d (by simp [hd])) (c :: acc) false (by simp)]
    simp

theorem splitGo_clean (hb : Breaks brk) (x : List Char) (hx : Clean brk x) (rest acc : List Char) :
    splitGo brk (x ++ '\n' :: rest) acc false = (acc.reverse ++ x) :: splitGo brk rest [] false := by
  rw [splitGo_clean_prefix hb x hx _ acc false (by simp), splitGo]
  simp [hb.lf]

theorem splitGo_fileOf (hb : Breaks brk) (xs : List (List Char)) (h : ∀ x ∈ xs, Clean brk x) :
    splitGo brk (fileOf xs) [] false = xs := by
  induction xs with
  | nil => simp [fileOf, splitGo]
  | cons x xs ih =>
    have : fileOf (x :: xs) = x ++ '\n' :: fileOf xs := by simp [fileOf]
    rw [this, splitGo_clean hb x (h x (by simp))]
    simp only [List.reverse_nil, List.nil_append]
    rw [ih (fun y hy => h y (by simp [hy]))]

/-- the same list written without the final newline (as `"\n".join(names)` does) reads back the same, provided the
    last name is not empty -/
theorem splitGo_joined (hb : Breaks brk) (xs : List (List Char)) (last : List Char) (h : ∀ x ∈ xs, Clean brk x)
    (hl : Clean brk last) (hne : last ≠ []) : splitGo brk (fileOf xs ++ last) [] false = xs ++ [last] := by
  induction xs with
  | nil =>
    have := splitGo_clean_prefix hb last hl [] [] false (by simp)
    simp only [List.append_nil] at this
    simp only [fileOf, List.flatMap_nil, List.nil_append]
    rw [this, splitGo]
    simp [hne]
  | cons x xs ih =>
    have : fileOf (x :: xs) ++ last = x ++ '\n' :: (fileOf xs ++ last) := by simp [fileOf]
    rw [this, splitGo_clean hb x (h x (by simp))]
    simp only [List.reverse_nil, List.nil_append]
    rw [ih (fun y hy => h y (by simp [hy]))]
    simp

/-- Windows line ends give the same names -/
theorem splitGo_crlf1 (hb : Breaks brk) (x : List Char) (hx : Clean brk x) (rest acc : List Char) :
    splitGo brk (x ++ '\r' :: '\n' :: rest) acc false = (acc.reverse ++ x) :: splitGo brk rest [] false := by
  rw [splitGo_clean_prefix hb x hx _ acc false (by simp), splitGo]
  simp only [Bool.false_and]
  have : splitGo brk ('\n' :: rest) [] true = splitGo brk rest [] false := by
    rw [splitGo]
    simp
  simp [hb.cr, this]

theorem splitGo_crlf (hb : Breaks brk) (xs : List (List Char)) (h : ∀ x ∈ xs, Clean brk x) :
    splitGo brk (xs.flatMap (fun x => x ++ ['\r', '\n'])) [] false = xs := by
  induction xs with
  | nil => simp [splitGo]
  | cons x xs ih =>
    have : (x :: xs).flatMap (fun x => x ++ ['\r', '\n']) = x ++ '\r' :: '\n' :: xs.flatMap (fun x => x ++ ['\r', '\n']) := by
      simp
    rw [this, splitGo_crlf1 hb x (h x (by simp))]
    simp only [List.reverse_nil, List.nil_append]
    rw [ih (fun y hy => h y (by simp [hy]))]

/-- **the final newline is not information**: a text whose last line lacks its newline reads as the same lines as the text with
    the newline added (for a last line that is not empty), whatever the separator set -/
theorem splitGo_final_newline (hb : Breaks brk) (xs : List (List Char)) (last : List Char) (h : ∀ x ∈ xs, Clean brk x)
    (hl : Clean brk last) (hne : last ≠ []) :
    splitGo brk (fileOf xs ++ last) [] false = splitGo brk (fileOf (xs ++ [last])) [] false := by
  rw [splitGo_joined hb xs last h hl hne, splitGo_fileOf hb (xs ++ [last])]
  intro x hx
  rcases List.mem_append.mp hx with hx | hx
  · exact h x hx
  · simp only [List.mem_singleton] at hx
    subst hx
    exact hl

/-! ## option parsing -/

inductive Kind | value | multi | flag
deriving DecidableEq, Repr

/-- one option of a subcommand: `on` = every spelling that names it (short and long), `off` = the `--no-…` spellings
    of a boolean flag -/
structure Decl where
  param : String
  kind : Kind
  on : List String
  off : List String
deriving DecidableEq, Repr

inductive Event
  | set (param value : String)          -- single-valued option: the last one wins
  | add (param value : String)          -- repeatable option: values accumulate in order
  | flag (param : String) (b : Bool)
deriving DecidableEq, Repr

inductive Err
  | noSuchOption (tok : String)
  | missingValue (param : String)
deriving DecidableEq, Repr

def names (d : Decl) (tok : String) : Bool := d.on.contains tok || d.off.contains tok

def lookup (T : List Decl) (tok : String) : Option Decl := T.find? (fun d => names d tok)

/-- click treats every argument that starts with `-` and is longer than that as an option -/
def optLike (tok : String) : Bool := tok.length > 1 && tok.front = '-'

def eventOf (d : Decl) (v : String) : Event :=
  match d.kind with
  | .multi => .add d.param v
  | _ => .set d.param v

/-- `pending` = the option whose value is expected next -/
def parse (T : List Decl) : Option Decl → List String → Except Err (List Event × List String)
  | none, [] => .ok ([], [])
  | some d, [] => .error (.missingValue d.param)
  | some d, v :: rest =>
    match parse T none rest with
    | .ok (ev, pos) => .ok (eventOf d v :: ev, pos)
    | .error e => .error e
  | none, tok :: rest =>
    match lookup T tok with
    | some d =>
      if d.kind = .flag then
        match parse T none rest with
        | .ok (ev, pos) => .ok (.flag d.param (d.on.contains tok) :: ev, pos)
        | .error e => .error e
      else parse T (some d) rest
    | none =>
      if optLike tok then .error (.noSuchOption tok)
      else
        match parse T none rest with
        | .ok (ev, pos) => .ok (ev, tok :: pos)
        | .error e => .error e

/-- what the user means, with the spelling they chose -/
inductive Item
  | opt (d : Decl) (tok : String) (v : String)
  | flag (d : Decl) (tok : String)
  | pos (v : String)
deriving Repr

def Item.toks : Item → List String
  | .opt _ tok v => [tok, v]
  | .flag _ tok => [tok]
  | .pos v => [v]

def render (items : List Item) : List String := items.flatMap Item.toks

/-- the meaning does not mention the spelling (for a flag: only whether it is an `on` or an `off` spelling) -/
def meaning : List Item → List Event × List String
  | [] => ([], [])
  | .opt d _ v :: rest => (eventOf d v :: (meaning rest).1, (meaning rest).2)
  | .flag d tok :: rest => (.flag d.param (d.on.contains tok) :: (meaning rest).1, (meaning rest).2)
  | .pos v :: rest => ((meaning rest).1, v :: (meaning rest).2)

/-- the table is unambiguous: every spelling finds its own row; checked by evaluation on the table read off the
    source -/
def tableOK (T : List Decl) : Bool :=
  T.all (fun d => (d.on ++ d.off).all (fun tok => lookup T tok == some d && optLike tok))

def Item.Valid (T : List Decl) : Item → Prop
  | .opt d tok _ => d ∈ T ∧ tok ∈ d.on ∧ d.kind ≠ .flag
  | .flag d tok => d ∈ T ∧ (tok ∈ d.on ∨ tok ∈ d.off) ∧ d.kind = .flag
  | .pos v => optLike v = false

theorem lookup_of_ok {T : List Decl} (h : tableOK T = true) {d : Decl} (hd : d ∈ T) {tok : String}
    (ht : tok ∈ d.on ∨ tok ∈ d.off) : lookup T tok = some d := by
  unfold tableOK at h
  rw [List.all_eq_true] at h
  have h1 := h d hd
  rw [List.all_eq_true] at h1
  have h2 := h1 tok (by simpa using ht)
  simp only [Bool.and_eq_true, beq_iff_eq] at h2
  exact h2.1

theorem lookup_optLike {T : List Decl} (h : tableOK T = true) {tok : String} {d : Decl} (hl : lookup T tok = some d) :
    optLike tok = true := by
  have hm : d ∈ T := List.mem_of_find?_eq_some hl
  have hn : names d tok = true := by simpa using List.find?_some hl
  unfold tableOK at h
  rw [List.all_eq_true] at h
  have h1 := h d hm
  rw [List.all_eq_true] at h1
  have : tok ∈ d.on ++ d.off := by
    unfold names at hn
    simpa using hn
  have h2 := h1 tok this
  simp only [Bool.and_eq_true] at h2
  exact h2.2

/-- **every spelling parses to its meaning**: whatever mixture of short and long spellings the user chose, click's
    parser (as modelled) returns the options they meant, in order, and the positionals -/
theorem parse_render (T : List Decl) (h : tableOK T = true) (items : List Item) (hv : ∀ it ∈ items, it.Valid T) :
    parse T none (render items) = .ok (meaning items) := by
  induction items with
  | nil => simp [render, parse, meaning]
  | cons it items ih =>
    have ih' := ih (fun x hx => hv x (by simp [hx]))
    have hit := hv it (by simp)
    cases it with
    | opt d tok v =>
      obtain ⟨hd, ht, hk⟩ := hit
      have hl := lookup_of_ok h hd (Or.inl ht)
      have : render (Item.opt d tok v :: items) = tok :: v :: render items := by simp [render, Item.toks]
      rw [this, parse, hl]
      simp only [hk, if_false]
      rw [parse, ih']
      simp [meaning]
    | flag d tok =>
      obtain ⟨hd, ht, hk⟩ := hit
      have hl := lookup_of_ok h hd ht
      have : render (Item.flag d tok :: items) = tok :: render items := by simp [render, Item.toks]
      rw [this, parse, hl]
      simp only [hk, if_true]
      rw [ih']
      simp [meaning]
    | pos v =>
      have hv' : optLike v = false := hit
      have hl : lookup T v = none := by
        cases hq : lookup T v with
        | none => rfl
        | some d =>
          have := lookup_optLike h hq
          rw [hv'] at this
          cases this
      have : render (Item.pos v :: items) = v :: render items := by simp [render, Item.toks]
      rw [this, parse, hl]
      simp only [hv']
      rw [ih']
      simp [meaning]

/-- two command lines that differ only in how the options are spelled mean the same -/
def SameMeaning : Item → Item → Prop
  | .opt d _ v, .opt d' _ v' => d = d' ∧ v = v'
  | .flag d tok, .flag d' tok' => d = d' ∧ d.on.contains tok = d.on.contains tok'
  | .pos v, .pos v' => v = v'
  | _, _ => False

def SameL : List Item → List Item → Prop
  | [], [] => True
  | a :: as, b :: bs => SameMeaning a b ∧ SameL as bs
  | _, _ => False

theorem meaning_congr : ∀ (a b : List Item), SameL a b → meaning a = meaning b
  | [], [], _ => rfl
  | [], _ :: _, h => by simp [SameL] at h
  | _ :: _, [], h => by simp [SameL] at h
  | x :: as, y :: bs, h => by
    obtain ⟨hab, ht⟩ := h
    have ih := meaning_congr as bs ht
    cases x <;> cases y <;> simp only [SameMeaning] at hab
    · obtain ⟨rfl, rfl⟩ := hab
      simp [meaning, ih]
    · obtain ⟨rfl, hb⟩ := hab
      simp only [meaning, ih, hb]
    · subst hab
      simp [meaning, ih]

/-! ## from the parsed options to what the entry point receives -/

def lastSet (p : String) : List Event → Option String
  | [] => none
  | .set q v :: rest => match lastSet p rest with
    | some w => some w
    | none => if q = p then some v else none
  | _ :: rest => lastSet p rest

def allAdded (p : String) : List Event → List String
  | [] => []
  | .add q v :: rest => if q = p then v :: allAdded p rest else allAdded p rest
  | _ :: rest => allAdded p rest

def lastFlag (p : String) : List Event → Option Bool
  | [] => none
  | .flag q b :: rest => match lastFlag p rest with
    | some w => some w
    | none => if q = p then some b else none
  | _ :: rest => lastFlag p rest

/-- transform / simphenotype / ld: the samples the entry point receives; `readFile` = the lines of the named file -/
def samplesArg (readFile : String → List String) (ev : List Event) : Except Cli.UsageError (Option (List String)) :=
  Cli.resolveSamples (allAdded "samples" ev) ((lastSet "samples_file" ev).map readFile)

def idsArg (readFile : String → List String) (ev : List Event) : Option (List String) :=
  Cli.resolveIds (allAdded "ids" ev) ((lastSet "ids_file" ev).map readFile)

end CliParse
