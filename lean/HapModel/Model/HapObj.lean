/-!
# C12: a `Haplotypes` object and its cached `type_ids`

`Haplotypes.data` is an ordered dictionary `ID → Haplotype | Repeat`; `type_ids = {"H": [...], "R": [...]}` caches the
IDs per record type and is what `to_str` (V lines) and `transform` (which haplotypes, in which order) consult after a
call of `index()`, which only rebuilds the cache when it is `None` or when forced.  The model keeps the cache as
explicit state so that staleness is expressible; the theorems show no sequence of operations ever reaches it.
-/
namespace HapObj

/-- a record: ID, is it an `H` line (else `R`), sort key (chrom, start, end – collapsed to a number by the harness) -/
structure Rec where
  id : String
  isH : Bool
  key : Nat
deriving Repr, DecidableEq

structure Obj where
  data : List Rec                                   -- insertion order of the dictionary
  typeIds : Option (List String × List String)      -- (type_ids["H"], type_ids["R"])
deriving Repr

/-- what `index(force=True)` computes from the data -/
def typeIdsOf (data : List Rec) : List String × List String :=
  ((data.filter (·.isH)).map (·.id), (data.filter (fun r => !r.isH)).map (·.id))

/-- `index(force)` -/
def Obj.index (o : Obj) (force : Bool) : Obj :=
  if force || o.typeIds.isNone then { o with typeIds := some (typeIdsOf o.data) } else o

/-- insertion of a list of records into a dictionary: a repeated key keeps its first position (and the last value,
    which is the same record here) -/
def dictOf : List Rec → List Rec
  | [] => []
  | r :: rs => r :: (dictOf rs).filter (fun x => x.id != r.id)

/-- `read(haplotypes=ids)`: the file's records (all, or those whose ID is requested), then `index(force=True)` -/
def Obj.read (_o : Obj) (file : List Rec) (ids : Option (List String)) : Obj :=
  let data := match ids with
    | none => file
    | some l => file.filter (fun r => l.contains r.id)
  { data := data, typeIds := some (typeIdsOf data) }

/-- the records `subset(haplotypes)` keeps: requested IDs that are present, in the requested order -/
def pick (data : List Rec) (req : List String) : List Rec :=
  dictOf (req.filterMap (fun i => data.find? (fun r => r.id == i)))

/-- `subset(haplotypes, inplace)`: new state of `self`, and the returned (or altered) object -/
def Obj.subset (o : Obj) (req : List String) (inplace : Bool) : Obj × Obj :=
  let r : Obj := { data := pick o.data req, typeIds := some (typeIdsOf (pick o.data req)) }
  (if inplace then r else o, r)

/-- insertion sort by key (stable), standing in for `dict(sorted(items))` -/
def insertByKey (r : Rec) : List Rec → List Rec
  | [] => [r]
  | x :: xs => if r.key < x.key then r :: x :: xs else x :: insertByKey r xs
def sortByKey : List Rec → List Rec
  | [] => []
  | r :: rs => insertByKey r (sortByKey rs)

/-- `sort()`: re-orders the dictionary, then `index(force=True)` -/
def Obj.sort (o : Obj) : Obj :=
  { data := sortByKey o.data, typeIds := some (typeIdsOf (sortByKey o.data)) }

/-- `Haplotypes.merge((self, other))` with distinct IDs: a new object, data concatenated, then `index()` on the fresh
    object (whose cache is `None`) -/
def merge (a b : Obj) : Obj :=
  ({ data := a.data ++ b.data, typeIds := none } : Obj).index false

/-- the haplotype IDs a by-ID query (`to_str`, `transform`) works with: `self.index()` then `type_ids["H"]` -/
def Obj.queryH (o : Obj) : List String := ((o.index false).typeIds.getD ([], [])).1

inductive Op
  | read (file : List Rec) (ids : Option (List String))
  | subset (req : List String) (inplace : Bool)
  | sort
  | index (force : Bool)
  | mergeEmpty                       -- merge with an object holding no records (what the harness does)
  | query
deriving Repr

/-- per step: new state, and the observation (IDs held afterwards, IDs the returned copy holds / queries with,
    IDs a query on the object works with) -/
structure Obs where
  ids : List String
  returned : Option (List String × List String)   -- copy: (data IDs, query IDs)
  query : Option (List String)
deriving Repr, DecidableEq

def step (o : Obj) : Op → Obj × Obs
  | .read f ids => let o' := o.read f ids; (o', ⟨o'.data.map (·.id), none, none⟩)
  | .subset req ip =>
    let r := o.subset req ip
    (r.1, ⟨r.1.data.map (·.id), if ip then none else some (r.2.data.map (·.id), r.2.queryH), none⟩)
  | .sort => let o' := o.sort; (o', ⟨o'.data.map (·.id), none, none⟩)
  | .index f => let o' := o.index f; (o', ⟨o'.data.map (·.id), none, none⟩)
  | .mergeEmpty => let o' := merge o ⟨[], none⟩; (o', ⟨o'.data.map (·.id), none, none⟩)
  | .query => let o' := o.index false; (o', ⟨o'.data.map (·.id), none, some o'.queryH⟩)

def run (o : Obj) : List Op → Obj × List Obs
  | [] => (o, [])
  | op :: ops => let r := step o op; let t := run r.1 ops; (t.1, r.2 :: t.2)

/-! ### the cache is never stale -/

def CacheOK (o : Obj) : Prop := ∀ t, o.typeIds = some t → t = typeIdsOf o.data

theorem index_ok (o : Obj) (f : Bool) (h : CacheOK o) : CacheOK (o.index f) := by
  unfold Obj.index
  split
  · intro t ht; simp only [Option.some.injEq] at ht; exact ht.symm
  · exact h

theorem index_data (o : Obj) (f : Bool) : (o.index f).data = o.data := by
  unfold Obj.index; split <;> rfl

theorem step_ok (o : Obj) (op : Op) (h : CacheOK o) : CacheOK (step o op).1 := by
  cases op with
  | read f ids => intro t ht; simp only [step, Obj.read, Option.some.injEq] at ht ⊢; exact ht.symm
  | subset req ip =>
    simp only [step, Obj.subset]
    cases ip
    · exact h
    · intro t ht; simp only [↓reduceIte, Option.some.injEq] at ht ⊢; exact ht.symm
  | sort => intro t ht; simp only [step, Obj.sort, Option.some.injEq] at ht ⊢; exact ht.symm
  | index f => exact index_ok o f h
  | mergeEmpty =>
    simp only [step, merge]
    exact index_ok _ false (by intro t ht; cases ht)
  | query => exact index_ok o false h

theorem run_ok : ∀ (ops : List Op) (o : Obj), CacheOK o → CacheOK (run o ops).1
  | [], _, h => h
  | op :: ops, o, h => run_ok ops _ (step_ok o op h)

/-- with a sound cache a query works with exactly the `H` records the object holds now, in their current order -/
theorem queryH_current (o : Obj) (h : CacheOK o) : o.queryH = (o.data.filter (·.isH)).map (·.id) := by
  unfold Obj.queryH
  have h2 := index_ok o false h
  have hd := index_data o false
  cases ht : (o.index false).typeIds with
  | none =>
    unfold Obj.index at ht
    split at ht
    · cases ht
    · rename_i hc
      simp only [Bool.false_or, Option.isNone_iff_eq_none] at hc
      exact absurd ht hc
  | some t =>
    have := h2 t ht
    rw [hd] at this
    simp [this, typeIdsOf]

/-- a freshly constructed object -/
def fresh : Obj := ⟨[], none⟩
theorem fresh_ok : CacheOK fresh := by intro t ht; cases ht

/-- **every by-ID query of every history sees the current records**: after any sequence of reads, re-reads, in-place or
    copying subsets, sorts, (forced or lazy) index calls and merges, the haplotypes `to_str` / `transform` work with
    are exactly the `H` records the object holds at that moment, in their current order -/
theorem query_after_any_history (ops : List Op) :
    let o := (run fresh ops).1
    CacheOK o ∧ o.queryH = (o.data.filter (·.isH)).map (·.id) := by
  intro o
  have h := run_ok ops fresh fresh_ok
  exact ⟨h, queryH_current o h⟩

/-- the copy returned by `subset` starts with a sound cache of its own -/
theorem subset_copy_ok (o : Obj) (req : List String) (ip : Bool) : CacheOK (o.subset req ip).2 := by
  intro t ht; simp only [Obj.subset, Option.some.injEq] at ht ⊢; exact ht.symm

/-! ### what `subset` keeps -/

theorem mem_dictOf (l : List Rec) (r : Rec) : r ∈ dictOf l → r ∈ l := by
  induction l with
  | nil => simp [dictOf]
  | cons a t ih =>
    simp only [dictOf, List.mem_cons, List.mem_filter]
    rintro (h | ⟨h, _⟩)
    · exact .inl h
    · exact .inr (ih h)

/-- every record a subset keeps is a record the object held, stored under a requested ID: an ID that is not present
    is dropped, never resolved to another record -/
theorem pick_sound (data : List Rec) (req : List String) (r : Rec) (h : r ∈ pick data req) :
    r ∈ data ∧ r.id ∈ req := by
  have := mem_dictOf _ r h
  obtain ⟨i, hi, hf⟩ := List.mem_filterMap.mp this
  have h1 := List.mem_of_find?_eq_some hf
  have h2 := List.find?_some hf
  simp only [beq_iff_eq] at h2
  exact ⟨h1, h2 ▸ hi⟩

end HapObj
