/-! Prototype C19 / C10: option post-processing of the CLI and the seeding guard. -/
namespace Cli

inductive UsageError | both
deriving Repr, DecidableEq

/-- `--sample` / `--samples-file` handling in transform, simphenotype, ld (after fix F16 the same shape is used for ids).
    `opts` = repeated option values, `file` = lines of the file if the file option was given. -/
def resolveSamples (opts : List String) (file : Option (List String)) : Except UsageError (Option (List String)) :=
  match file with
  | some lines => if opts ≠ [] then .error .both else .ok (some lines)
  | none => if opts ≠ [] then .ok (some opts) else .ok none

/-- `--id` / `--ids-file`: the file wins silently if both are given (no usage error in the code) -/
def resolveIds (opts : List String) (file : Option (List String)) : Option (List String) :=
  match file with
  | some lines => some lines
  | none => if opts ≠ [] then some opts else none

theorem samples_file_eq_repeated (xs : List String) (h : xs ≠ []) :
    resolveSamples xs none = resolveSamples [] (some xs) := by
  simp [resolveSamples, h]

theorem ids_file_eq_repeated (xs : List String) (h : xs ≠ []) :
    resolveIds xs none = resolveIds [] (some xs) := by
  simp [resolveIds, h]

theorem samples_both_rejected (xs ys : List String) (h : xs ≠ []) :
    resolveSamples xs (some ys) = .error .both := by
  simp [resolveSamples, h]

theorem nothing_given : resolveSamples [] none = .ok none ∧ resolveIds [] none = none := by
  simp [resolveSamples, resolveIds]

/-! seeding (C10) -/

/-- global generator state after the guard of `simulate_gt`; `seedState` is numpy's seeding function -/
def afterGuard {G} (seedState : Nat → G) (seed : Option Nat) (g : G) : G :=
  match seed with
  | some s => seedState s          -- `if seed is not None`
  | none => g

/-- pre-fix guard `if seed:` -/
def afterGuardOld {G} (seedState : Nat → G) (seed : Option Nat) (g : G) : G :=
  match seed with
  | some s => if s ≠ 0 then seedState s else g
  | none => g

/-- any run that draws all its randomness from the state left by the guard is independent of what ran before -/
theorem seeded_independent_of_history {G Out} (seedState : Nat → G) (run : G → Out) (s : Nat) (g₁ g₂ : G) :
    run (afterGuard seedState (some s) g₁) = run (afterGuard seedState (some s) g₂) := rfl

theorem seed_zero_refuted_before_fix :
    ∃ (run : Nat → Nat) (g₁ g₂ : Nat),
      run (afterGuardOld (fun s => s + 100) (some 0) g₁) ≠ run (afterGuardOld (fun s => s + 100) (some 0) g₂) :=
  ⟨id, 1, 2, by decide⟩

end Cli
