import HapModel.Model.Assign
/-! Prototype C03: the per-haplotype loop of `output_vcf` (after F02/F03), with-replacement branch.
    The reference columns are addressed by the running counter `cur_var`. -/
namespace OutputVcf
open Assign

structure RVar where
  chrom : Nat
  pos : Nat
deriving Repr, DecidableEq

/-- source chosen for one ancestry block: reference sample index, strand, population label -/
structure Src where
  sample : Nat
  strand : Nat
  pop : Nat
deriving Repr, DecidableEq, Inhabited

/-- blocks of one simulated haplotype on one chromosome: strictly increasing ends and their sources -/
structure ChromBlocks where
  ends : List Nat
  srcs : List Src

/-- enumerate with a running column counter (`np.arange(cur_var, end_var)`) -/
def emit {α β} (f : Nat → α → β) : Nat → List α → List β
  | _, [] => []
  | k, x :: xs => f k x :: emit f (k+1) xs

theorem emit_length {α β} (f : Nat → α → β) : ∀ (k : Nat) (l : List α), (emit f k l).length = l.length
  | _, [] => rfl
  | k, _ :: xs => by simp [emit, emit_length f (k+1) xs]

theorem emit_append {α β} (f : Nat → α → β) : ∀ (k : Nat) (a b : List α),
    emit f k (a ++ b) = emit f k a ++ emit f (k + a.length) b
  | k, [], b => by simp [emit]
  | k, x :: xs, b => by
    simp only [List.cons_append, emit, List.length_cons]
    rw [emit_append f (k+1) xs b, show k + 1 + xs.length = k + (xs.length + 1) by omega]

theorem emit_map {α β γ} (f : Nat → β → γ) (g : α → β) : ∀ (k : Nat) (l : List α),
    emit f k (l.map g) = emit (fun c x => f c (g x)) k l
  | _, [] => rfl
  | k, x :: xs => by simp [emit, emit_map f g (k+1) xs]

theorem emit_congr {α β} (f g : Nat → α → β) : ∀ (k : Nat) (l : List α), (∀ c, ∀ x ∈ l, f c x = g c x) →
    emit f k l = emit g k l
  | _, [], _ => rfl
  | k, x :: xs, h => by
    simp only [emit, h k x (List.mem_cons_self ..),
      emit_congr f g (k+1) xs (fun c y hy => h c y (List.mem_cons_of_mem _ hy))]

/-- what the loop writes for one chromosome, starting at reference column `cur`: per variant (genotype, source) -/
def chromOut (ref : Nat → Nat → Nat → Nat) (vars : List RVar) (c : Nat) (b : ChromBlocks) (cur : Nat) : List (Nat × Src) :=
  let posC := (vars.filter (fun v => v.chrom = c)).map (·.pos)
  emit (fun col bi => let src := b.srcs[bi]!; (ref src.sample col src.strand, src)) cur (assignBlocks posC b.ends)

/-- all chromosomes in the requested order, threading `cur_var` -/
def hapOut (ref : Nat → Nat → Nat → Nat) (vars : List RVar) (blocks : Nat → ChromBlocks) : List Nat → Nat → List (Nat × Src)
  | [], _ => []
  | c :: cs, cur =>
    let o := chromOut ref vars c (blocks c) cur
    o ++ hapOut ref vars blocks cs (cur + o.length)

def BlocksOK (vars : List RVar) (c : Nat) (b : ChromBlocks) : Prop :=
  SortedLE ((vars.filter (fun v => v.chrom = c)).map (·.pos)) ∧ StrictInc b.ends ∧
  ∀ p ∈ (vars.filter (fun v => v.chrom = c)).map (·.pos), ∃ e ∈ b.ends, p ≤ e

/-- the value written for reference variant `v` in column `col` -/
def cellOf (ref : Nat → Nat → Nat → Nat) (blocks : Nat → ChromBlocks) (col : Nat) (v : RVar) : Nat × Src :=
  let b := blocks v.chrom
  let src := b.srcs[firstGE b.ends v.pos]!
  (ref src.sample col src.strand, src)

theorem chromOut_spec (ref : Nat → Nat → Nat → Nat) (vars : List RVar) (blocks : Nat → ChromBlocks) (c cur : Nat)
    (h : BlocksOK vars c (blocks c)) :
    chromOut ref vars c (blocks c) cur = emit (cellOf ref blocks) cur (vars.filter (fun v => v.chrom = c)) := by
  unfold chromOut
  obtain ⟨h1, h2, h4⟩ := h
  simp only [assign_eq_firstGE _ _ h1 h2 h4, List.map_map, emit_map]
  apply emit_congr
  intro col v hv
  have : v.chrom = c := by simpa using (List.mem_filter.mp hv).2
  simp [cellOf, this, Function.comp]

theorem hapOut_spec (ref : Nat → Nat → Nat → Nat) (vars : List RVar) (blocks : Nat → ChromBlocks) :
    ∀ (chroms : List Nat) (cur : Nat), (∀ c ∈ chroms, BlocksOK vars c (blocks c)) →
      hapOut ref vars blocks chroms cur =
        emit (cellOf ref blocks) cur (chroms.flatMap (fun c => vars.filter (fun v => v.chrom = c)))
  | [], cur, _ => by simp [hapOut, emit]
  | c :: cs, cur, hok => by
    simp only [hapOut, List.flatMap_cons]
    rw [chromOut_spec ref vars blocks c cur (hok c (List.mem_cons_self ..)), emit_length, emit_append]
    rw [hapOut_spec ref vars blocks cs _ (fun x hx => hok x (List.mem_cons_of_mem _ hx))]

/-- the reference (restricted to the simulated chromosomes) lists its variants chromosome by chromosome,
    in the order of `chroms` -/
def Grouped (vars : List RVar) (chroms : List Nat) : Prop :=
  chroms.flatMap (fun c => vars.filter (fun v => v.chrom = c)) = vars

/-- C03: every output column `k` holds the allele of reference variant `k` on the reference haplotype chosen for the
    block that contains its position (first block end ≥ position), one value per reference variant, none left unset -/
theorem hapOut_cells (ref : Nat → Nat → Nat → Nat) (vars : List RVar) (blocks : Nat → ChromBlocks) (chroms : List Nat)
    (hg : Grouped vars chroms) (hok : ∀ c ∈ chroms, BlocksOK vars c (blocks c)) :
    hapOut ref vars blocks chroms 0 = emit (cellOf ref blocks) 0 vars ∧
    (hapOut ref vars blocks chroms 0).length = vars.length := by
  have := hapOut_spec ref vars blocks chroms 0 hok
  rw [hg] at this
  exact ⟨this, by rw [this, emit_length]⟩

end OutputVcf
