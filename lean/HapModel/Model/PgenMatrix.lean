import HapModel.Model.GenoIO
/-!
C07, whole matrices: `GenotypesPLINK.write` transposes the sample-major matrix, cuts the variants into chunks and appends
each chunk to the file variant by variant; `GenotypesPLINK.read` reads chunks of variants (of a possibly different size) and
fills `data[:, start:end]`.  The file is modelled as its list of variant records (one stored cell per sample).
-/
namespace PgenMatrix
open GenoIO Chunks

abbrev Matrix := List (List Cell)   -- sample-major: `M[s][v]`

def dflt : Cell := ⟨0, 0, true⟩

def cell (M : Matrix) (s v : Nat) : Cell := (M.getD s []).getD v dflt

/-- the variant records appended for the chunk `[c.1, c.2)` -/
def writeChunk (M : Matrix) (c : Nat × Nat) : List (List Cell) :=
  (List.range' c.1 (c.2 - c.1)).map (fun v => (List.range M.length).map (fun s => pgenStore (cell M s v)))

/-- the file written with chunk size `k` for a matrix of `nv` variants -/
def write (k : Nat) (hk : 0 < k) (M : Matrix) (nv : Nat) : List (List Cell) :=
  (chunksFrom k nv hk 0).flatMap (writeChunk M)

/-- the matrix read back with chunk size `k` from a file of `nv` variant records over `ns` samples -/
def read (k : Nat) (hk : 0 < k) (file : List (List Cell)) (ns nv : Nat) : Matrix :=
  (List.range ns).map (fun s =>
    (chunksFrom k nv hk 0).flatMap (fun c => (List.range' c.1 (c.2 - c.1)).map (fun v => (file.getD v []).getD s dflt)))

def Rect (M : Matrix) (nv : Nat) : Prop := ∀ row ∈ M, row.length = nv

theorem flatMap_chunks_map {β} (k n : Nat) (hk : 0 < k) (f : Nat → β) :
    (chunksFrom k n hk 0).flatMap (fun c => (List.range' c.1 (c.2 - c.1)).map f) = (List.range' 0 n).map f := by
  have h := congrArg (List.map f) (Chunks.chunks_tile k n hk 0)
  rw [List.map_flatMap] at h
  simpa using h

/-- the file does not depend on the chunk size used to write it: it is the list of the `nv` variant records -/
theorem write_eq (k : Nat) (hk : 0 < k) (M : Matrix) (nv : Nat) :
    write k hk M nv = (List.range' 0 nv).map (fun v => (List.range M.length).map (fun s => pgenStore (cell M s v))) := by
  unfold write writeChunk
  exact flatMap_chunks_map k nv hk _

theorem read_eq (k : Nat) (hk : 0 < k) (file : List (List Cell)) (ns nv : Nat) :
    read k hk file ns nv = (List.range ns).map (fun s => (List.range' 0 nv).map (fun v => (file.getD v []).getD s dflt)) := by
  unfold read
  congr 1
  funext s
  exact flatMap_chunks_map k nv hk _

/-- **round trip of a whole matrix**, for any chunk size on the way out and any on the way in -/
theorem read_write (kw kr : Nat) (hw : 0 < kw) (hr : 0 < kr) (M : Matrix) (nv : Nat) (hM : Rect M nv) :
    read kr hr (write kw hw M nv) M.length nv = M.map (fun row => row.map pgenStore) := by
  rw [read_eq, write_eq]
  apply List.ext_getElem
  · simp
  · intro s h1 h2
    simp only [List.length_map, List.length_range] at h1
    simp only [List.getElem_map, List.getElem_range]
    have hrow : (M[s]).length = nv := hM _ (List.getElem_mem h1)
    apply List.ext_getElem
    · simp [hrow]
    · intro v hv1 hv2
      simp only [List.length_map, List.length_range'] at hv1
      simp only [List.getElem_map, List.getElem_range', Nat.zero_add, Nat.one_mul]
      have hv : v < (List.range' 0 nv).length := by simpa using hv1
      have : ((List.range' 0 nv).map (fun v => (List.range M.length).map (fun s => pgenStore (cell M s v)))).getD v [] =
          (List.range M.length).map (fun s => pgenStore (cell M s v)) := by
        simp [List.getD, hv1]
      rw [this]
      have h3 : ((List.range M.length).map (fun s => pgenStore (cell M s v))).getD s dflt = pgenStore (cell M s v) := by
        simp [List.getD, h1]
      rw [h3]
      congr 1
      unfold cell
      simp [List.getD, h1, hrow ▸ hv1]

/-- reading what was read and written again changes nothing more (`pgenStore` is idempotent) -/
theorem read_write_twice (k1 k2 k3 k4 : Nat) (h1 : 0 < k1) (h2 : 0 < k2) (h3 : 0 < k3) (h4 : 0 < k4) (M : Matrix) (nv : Nat)
    (hM : Rect M nv) :
    let M1 := read k2 h2 (write k1 h1 M nv) M.length nv
    read k4 h4 (write k3 h3 M1 nv) M1.length nv = M1 := by
  intro M1
  have e1 : M1 = M.map (fun row => row.map pgenStore) := read_write k1 k2 h1 h2 M nv hM
  have hR : Rect M1 nv := by
    rw [e1]
    intro row hrow
    simp only [List.mem_map] at hrow
    obtain ⟨r, hr, rfl⟩ := hrow
    simpa using hM r hr
  rw [read_write k3 k4 h3 h4 M1 nv hR, e1]
  simp [List.map_map, Function.comp_def, pgenStore_idem]

/-! ## Restricted reads: sample subset, variant indices, any chunk size

`GenotypesPLINK.read(region, samples, variants, max_variants)` first turns its restrictions into the list of `.pvar` row
numbers `indices` (Model/Scan, C08) and the list of `.psam` row numbers `sample_idxs`, then loops over *positions* of
`indices` in chunks: `read_alleles_list(indices[start:end], buffer)`, `data[:, start:end] = buffer`.  -/

/-- the matrix a restricted read fills: for every selected sample, chunk after chunk of the selected variant rows -/
def readSel (k : Nat) (hk : 0 < k) (file : List (List Cell)) (sidx vidx : List Nat) : Matrix :=
  sidx.map (fun s =>
    (chunksFrom k vidx.length hk 0).flatMap (fun c =>
      (List.range' c.1 (c.2 - c.1)).map (fun p => (file.getD (vidx.getD p 0) []).getD s dflt)))

theorem map_positions {β} (l : List Nat) (g : Nat → β) :
    (List.range' 0 l.length).map (fun p => g (l.getD p 0)) = l.map g := by
  apply List.ext_getElem
  · simp
  · intro i h1 h2
    simp only [List.length_map, List.length_range'] at h1
    simp [List.getD, h1]

/-- a restricted read is the selection, whatever the chunk size: row `s`, column `v` of the file for the selected `s`, `v`,
    in the order of the selection -/
theorem readSel_eq (k : Nat) (hk : 0 < k) (file : List (List Cell)) (sidx vidx : List Nat) :
    readSel k hk file sidx vidx = sidx.map (fun s => vidx.map (fun v => (file.getD v []).getD s dflt)) := by
  unfold readSel
  congr 1
  funext s
  rw [flatMap_chunks_map k vidx.length hk (fun p => (file.getD (vidx.getD p 0) []).getD s dflt)]
  exact map_positions vidx (fun v => (file.getD v []).getD s dflt)

theorem readSel_chunk_irrelevant (k₁ k₂ : Nat) (h₁ : 0 < k₁) (h₂ : 0 < k₂) (file : List (List Cell)) (sidx vidx : List Nat) :
    readSel k₁ h₁ file sidx vidx = readSel k₂ h₂ file sidx vidx := by
  rw [readSel_eq, readSel_eq]

theorem cell_read (k : Nat) (hk : 0 < k) (file : List (List Cell)) (ns nv s v : Nat) (hs : s < ns) (hv : v < nv) :
    cell (read k hk file ns nv) s v = (file.getD v []).getD s dflt := by
  rw [read_eq]
  unfold cell
  simp [List.getD, hs, hv]

/-- **restricted read = full read + subset** at the level of the matrix: every cell of the restricted read is the cell of the
    full read at the selected (sample row, variant row), for any two chunk sizes -/
theorem readSel_eq_subset_of_read (k k' : Nat) (hk : 0 < k) (hk' : 0 < k') (file : List (List Cell)) (ns nv : Nat)
    (sidx vidx : List Nat) (hs : ∀ s ∈ sidx, s < ns) (hv : ∀ v ∈ vidx, v < nv) :
    readSel k hk file sidx vidx = sidx.map (fun s => vidx.map (fun v => cell (read k' hk' file ns nv) s v)) := by
  rw [readSel_eq]
  apply List.map_congr_left
  intro s hsm
  apply List.map_congr_left
  intro v hvm
  exact (cell_read k' hk' file ns nv s v (hs s hsm) (hv v hvm)).symm

end PgenMatrix
