/-! Prototype C09/C15: case/control thresholding and the unique-name suffixes of `Phenotypes.write`. -/
namespace Pheno

/-! ### case/control (`np.argpartition(-pt, k)[:k]`)
    liabilities are compared only with each other, so they are `Int` here (any order-preserving encoding). -/

/-- contract of `argpartition(-pt, k)`: a permutation of the indices whose first `k` entries carry values
    that are ≥ every value at the remaining entries -/
structure PartitionOK (pt : List Int) (k : Nat) (perm : List Nat) : Prop where
  isPerm : perm.Perm (List.range pt.length)
  top : ∀ i ∈ perm.take k, ∀ j ∈ perm.drop k, pt[j]! ≤ pt[i]!

/-- `bool_pt[max_indices] = True` -/
def cases (n k : Nat) (perm : List Nat) : List Bool :=
  (List.range n).map (fun i => (perm.take k).contains i)

theorem perm_nodup {pt : List Int} {k : Nat} {perm : List Nat} (h : PartitionOK pt k perm) : perm.Nodup :=
  h.isPerm.nodup_iff.mpr List.nodup_range

/-- exactly `k` cases -/
theorem cases_count (pt : List Int) (k : Nat) (perm : List Nat) (h : PartitionOK pt k perm) (hk : k ≤ pt.length) :
    ((cases pt.length k perm).filter id).length = k := by
  unfold cases
  rw [List.filter_map, List.length_map]
  -- the selected indices are exactly the members of `perm.take k`
  have hnd : (perm.take k).Nodup := (perm_nodup h).sublist (List.take_sublist _ _)
  have hsub : ∀ i ∈ perm.take k, i ∈ List.range pt.length :=
    fun i hi => h.isPerm.mem_iff.mp (List.mem_of_mem_take hi)
  have hperm : ((List.range pt.length).filter (id ∘ fun i => (perm.take k).contains i)).Perm (perm.take k) := by
    apply (List.perm_ext_iff_of_nodup ((List.nodup_range).filter _) hnd).mpr
    intro a
    simp only [Function.comp, id, List.mem_filter, List.contains_eq_mem, decide_eq_true_eq]
    exact ⟨fun h' => h'.2, fun h' => ⟨hsub a h', h'⟩⟩
  rw [hperm.length_eq, List.length_take, h.isPerm.length_eq, List.length_range]
  omega

/-- every case's liability is ≥ every control's (ties allowed) -/
theorem cases_dominate (pt : List Int) (k : Nat) (perm : List Nat) (h : PartitionOK pt k perm)
    (i j : Nat) (hi : i < pt.length) (hj : j < pt.length)
    (hci : (cases pt.length k perm)[i]? = some true) (hcj : (cases pt.length k perm)[j]? = some false) :
    pt[j]! ≤ pt[i]! := by
  unfold cases at hci hcj
  simp only [List.getElem?_map, List.getElem?_range hi, List.getElem?_range hj, Option.map_some,
    Option.some.injEq, List.contains_eq_mem, decide_eq_true_eq, decide_eq_false_iff_not] at hci hcj
  have hjperm : j ∈ perm := h.isPerm.mem_iff.mpr (List.mem_range.mpr hj)
  have hjdrop : j ∈ perm.drop k := by
    have := List.take_append_drop k perm
    rw [← this] at hjperm
    rcases List.mem_append.mp hjperm with h1 | h1
    · exact absurd h1 hcj
    · exact h1
  exact h.top i hci j hjdrop

/-! ### unique column names -/

/-- the scheme before fix F27: `Counter`-based suffixing, blind to suffixed forms that are names in their own right -/
def uniqFromOld (seen : List String) : List String → List String
  | [] => []
  | n :: rest =>
    let c := seen.count n
    (if c = 0 then n else n ++ "-" ++ toString c) :: uniqFromOld (n :: seen) rest

def uniqNamesOld (names : List String) : List String := uniqFromOld [] names

/-- F27 (fixed in /repo): the old scheme is not injective when a suffixed form is already a name -/
theorem uniqNamesOld_collision_witness : uniqNamesOld ["a", "a", "a-1"] = ["a", "a-1", "a-1"] := by decide

/-- `uniq_names[name]` of the `Counter` -/
def cnt (c : List (String × Nat)) (n : String) : Nat := (c.lookup n).getD 0

/-- the `while f"{name}-{k}" in taken: k += 1` loop: the least `k ≥ k0` whose suffixed form is free.  A free one
    exists among any `|taken| + 1` consecutive candidates (distinct numbers give distinct strings), so the search is
    bounded; the fall-through value is never produced (`nextFree_fresh`). -/
def nextFree (taken : List String) (n : String) (k0 : Nat) : Nat :=
  match (List.range (taken.length + 1)).find? (fun d => !taken.contains (n ++ "-" ++ toString (k0 + d))) with
  | some d => k0 + d
  | none => k0

/-- `Phenotypes.write`'s loop over the names: the counter, the set of names that are taken (all given names plus every
    suffixed form handed out so far), the names still to do -/
def uniqGo : List (String × Nat) → List String → List String → List String
  | _, _, [] => []
  | c, taken, n :: rest =>
    if cnt c n = 0 then n :: uniqGo ((n, 1) :: c) taken rest
    else
      let k := nextFree taken n (cnt c n)
      (n ++ "-" ++ toString k) :: uniqGo ((n, k + 1) :: c) ((n ++ "-" ++ toString k) :: taken) rest

def uniqNames (names : List String) : List String := uniqGo [] names names

theorem uniqGo_length : ∀ (c : List (String × Nat)) (taken l : List String), (uniqGo c taken l).length = l.length
  | _, _, [] => rfl
  | c, taken, n :: rest => by
    unfold uniqGo
    split
    · simp [uniqGo_length]
    · simp [uniqGo_length]

theorem uniqNames_length (names : List String) : (uniqNames names).length = names.length :=
  uniqGo_length [] names names

example : uniqNames ["h", "bmi", "h", "h"] = ["h", "bmi", "h-1", "h-2"] := by decide
/-- the former collision: the second `a` skips the suffixed form that is a name in its own right -/
example : uniqNames ["a", "a", "a-1"] = ["a", "a-2", "a-1"] := by decide

end Pheno
