/-! # Decimal text of binary64 values (C15: "files round-trip bit-exactly")

`Phenotypes.write` prints every value with Python's `repr`-style shortest formatting and `Phenotypes.read` hands the
token to `float()` (a correctly rounding `strtod`).  Neither Dragon4/Ryu nor `strtod` is modelled.  What is modelled is
the *contract between them*: a decimal token `q` reads back as the double `d` under round-to-nearest, ties-to-even,
iff `q` lies in the rounding interval of `d`, and that relation is **functional** — at most one double qualifies
(`roundsTo_unique`).  So a written token that is checked (exactly, over the integers) to lie in the rounding interval of
the value it stands for is read back to the same bits by *every* correctly rounding reader, not only by the one the
harness happened to call.  The driver decides the interval membership for every (bits, token) pair of the files the real
writer produced (`checkTok`).

Magnitudes are counted in units of `2^-1074` (the smallest subnormal), so every finite non-negative double is the
natural number `m * 2^s` with `m < 2^53` and (`2^52 ≤ m` or `s = 0`); the sign is carried separately.  The exponent
is not bounded above: rounding to the grid without an upper bound agrees with IEEE rounding for every result that is
finite, and the virtual successor `2^1024` of the largest double is exactly the threshold IEEE uses for overflow. -/
namespace FloatText

structure Mag where
  m : Nat
  s : Nat
deriving DecidableEq, Repr

def Mag.val (d : Mag) : Nat := d.m * 2 ^ d.s

/-- canonical representation: 53-bit significand, normalised unless the exponent is minimal -/
def Canon (d : Mag) : Prop := d.m < 2 ^ 53 ∧ (2 ^ 52 ≤ d.m ∨ d.s = 0)

instance (d : Mag) : Decidable (Canon d) := by unfold Canon; infer_instance

/-- next double above -/
def succ (d : Mag) : Mag := if d.m + 1 < 2 ^ 53 then ⟨d.m + 1, d.s⟩ else ⟨2 ^ 52, d.s + 1⟩

/-- next double below (of a non-zero magnitude) -/
def pred (d : Mag) : Mag := if d.m = 2 ^ 52 ∧ 0 < d.s then ⟨2 ^ 53 - 1, d.s - 1⟩ else ⟨d.m - 1, d.s⟩

/-- The non-negative rational `a / b` (in units of `2^-1074`) rounds to `d` under round-to-nearest, ties-to-even:
    it is at most half-way to the next double above and at least half-way from the next double below, a tie being
    admitted only when the significand of `d` is even. -/
def RoundsTo (a b : Nat) (d : Mag) : Prop :=
  (2 * a < b * (d.val + (succ d).val) ∨ (2 * a = b * (d.val + (succ d).val) ∧ d.m % 2 = 0)) ∧
  (d.val = 0 ∨ b * ((pred d).val + d.val) < 2 * a ∨ (b * ((pred d).val + d.val) = 2 * a ∧ d.m % 2 = 0))

instance (a b : Nat) (d : Mag) : Decidable (RoundsTo a b d) := by unfold RoundsTo; infer_instance

/-! ## The grid: successor, predecessor, adjacency -/

theorem two_pow_pos' (s : Nat) : 0 < 2 ^ s := Nat.pow_pos (by decide)

theorem succ_val (d : Mag) (h : Canon d) : (succ d).val = (d.m + 1) * 2 ^ d.s := by
  unfold succ Mag.val
  split
  · rfl
  · have hm : d.m + 1 = 2 ^ 53 := by have := h.1; omega
    show 2 ^ 52 * 2 ^ (d.s + 1) = (d.m + 1) * 2 ^ d.s
    rw [hm, Nat.pow_succ 2 d.s]
    generalize 2 ^ d.s = p
    omega

theorem succ_canon (d : Mag) (h : Canon d) : Canon (succ d) := by
  unfold succ Canon at *
  split
  · simp only; omega
  · simp only; refine ⟨by decide, Or.inl (Nat.le_refl _)⟩

theorem val_lt_succ_val (d : Mag) (h : Canon d) : d.val < (succ d).val := by
  rw [succ_val d h]; unfold Mag.val
  exact Nat.mul_lt_mul_of_pos_right (Nat.lt_succ_self _) (two_pow_pos' _)

theorem succ_parity (d : Mag) (h : Canon d) : (succ d).m % 2 ≠ d.m % 2 := by
  unfold succ
  split
  · simp only; omega
  · have hm : d.m + 1 = 2 ^ 53 := by have := h.1; omega
    have : d.m = 2 ^ 53 - 1 := by omega
    simp only [this]; decide

/-- A canonical magnitude is determined by its value. -/
theorem val_inj_aux (m1 s1 m2 s2 : Nat) (h1 : m1 < 2 ^ 53) (c2 : 2 ^ 52 ≤ m2 ∨ s2 = 0) (hs : s1 < s2)
    (hv : m1 * 2 ^ s1 = m2 * 2 ^ s2) : False := by
  have hm2 : 2 ^ 52 ≤ m2 := by rcases c2 with h | h; exact h; omega
  obtain ⟨k, rfl⟩ : ∃ k, s2 = s1 + (k + 1) := ⟨s2 - s1 - 1, by omega⟩
  have hp := two_pow_pos' s1
  have hv2 : 2 ^ s1 * m1 = 2 ^ s1 * (2 ^ (k + 1) * m2) := by
    rw [Nat.pow_add] at hv
    calc 2 ^ s1 * m1 = m1 * 2 ^ s1 := Nat.mul_comm _ _
      _ = m2 * (2 ^ s1 * 2 ^ (k + 1)) := hv
      _ = 2 ^ s1 * (2 ^ (k + 1) * m2) := by ac_rfl
  have hv' : m1 = 2 ^ (k + 1) * m2 := Nat.eq_of_mul_eq_mul_left hp hv2
  have h2 : 2 ≤ 2 ^ (k + 1) := by
    rw [Nat.pow_succ]; have := two_pow_pos' k; omega
  have : 2 * 2 ^ 52 ≤ 2 ^ (k + 1) * m2 := Nat.mul_le_mul h2 hm2
  have e : (2:Nat) * 2 ^ 52 = 2 ^ 53 := by decide
  omega

theorem val_inj (d1 d2 : Mag) (h1 : Canon d1) (h2 : Canon d2) (hv : d1.val = d2.val) : d1 = d2 := by
  obtain ⟨m1, s1⟩ := d1; obtain ⟨m2, s2⟩ := d2
  unfold Mag.val at hv; unfold Canon at h1 h2; simp only at hv h1 h2
  rcases Nat.lt_trichotomy s1 s2 with hs | hs | hs
  · exact (val_inj_aux m1 s1 m2 s2 h1.1 h2.2 hs hv).elim
  · subst hs
    have := Nat.eq_of_mul_eq_mul_right (two_pow_pos' s1) hv
    subst this; rfl
  · exact (val_inj_aux m2 s2 m1 s1 h2.1 h1.2 hs hv.symm).elim

/-- Nothing lies strictly between a double and its successor. -/
theorem succ_le_of_lt (d d' : Mag) (h : Canon d) (h' : Canon d') (hlt : d.val < d'.val) :
    (succ d).val ≤ d'.val := by
  rw [succ_val d h]
  obtain ⟨m, s⟩ := d; obtain ⟨m', s'⟩ := d'
  unfold Mag.val at *; unfold Canon at h h'; simp only at *
  rcases Nat.lt_or_ge s' s with hs | hs
  · -- the smaller exponent cannot carry the larger value
    exfalso
    obtain ⟨k, rfl⟩ : ∃ k, s = s' + (k + 1) := ⟨s - s' - 1, by omega⟩
    have hm : 2 ^ 52 ≤ m := by rcases h.2 with h | h; exact h; omega
    rw [Nat.pow_add] at hlt
    have e : m * (2 ^ s' * 2 ^ (k + 1)) = (m * 2 ^ (k + 1)) * 2 ^ s' := by ac_rfl
    rw [e] at hlt
    have hlt' : m * 2 ^ (k + 1) < m' := Nat.lt_of_mul_lt_mul_right hlt
    have h2 : 2 ≤ 2 ^ (k + 1) := by
      rw [Nat.pow_succ]; have := two_pow_pos' k; omega
    have : 2 ^ 52 * 2 ≤ m * 2 ^ (k + 1) := Nat.mul_le_mul hm h2
    have e : (2:Nat) ^ 52 * 2 = 2 ^ 53 := by decide
    omega
  · obtain ⟨k, rfl⟩ : ∃ k, s' = s + k := ⟨s' - s, by omega⟩
    rw [Nat.pow_add] at hlt ⊢
    have e : m' * (2 ^ s * 2 ^ k) = (m' * 2 ^ k) * 2 ^ s := by ac_rfl
    rw [e] at hlt ⊢
    have hlt' : m < m' * 2 ^ k := Nat.lt_of_mul_lt_mul_right hlt
    exact Nat.mul_le_mul_right _ hlt'

theorem pred_canon (d : Mag) (h : Canon d) (hpos : 0 < d.val) : Canon (pred d) := by
  have hm : 0 < d.m := by
    unfold Mag.val at hpos; exact Nat.pos_of_mul_pos_right hpos |> fun _ => by
      rcases Nat.eq_zero_or_pos d.m with h0 | h0
      · rw [h0] at hpos; simp at hpos
      · exact h0
  unfold pred Canon at *
  split
  · rename_i hc; simp only; refine ⟨by decide, ?_⟩; left; decide
  · rename_i hc; simp only
    refine ⟨by omega, ?_⟩
    rcases h.2 with h2 | h2
    · rcases Nat.eq_zero_or_pos d.s with hs | hs
      · right; exact hs
      · left; have : d.m ≠ 2 ^ 52 := fun e => hc ⟨e, hs⟩
        omega
    · right; exact h2

theorem succ_pred (d : Mag) (h : Canon d) (hpos : 0 < d.val) : succ (pred d) = d := by
  have hm : 0 < d.m := by
    rcases Nat.eq_zero_or_pos d.m with h0 | h0
    · unfold Mag.val at hpos; rw [h0] at hpos; simp at hpos
    · exact h0
  obtain ⟨m, s⟩ := d
  unfold pred succ; unfold Canon at h; simp only at *
  split
  · rename_i hc
    have e : ¬ (2 ^ 53 - 1 + 1 < 2 ^ 53) := by decide
    simp only [e, if_false]
    have : s - 1 + 1 = s := by omega
    rw [this, hc.1]
  · have : m - 1 + 1 = m := by omega
    simp only [this, h.1, if_true]

/-- Nothing lies strictly between a double and its predecessor. -/
theorem le_pred_of_lt (d d' : Mag) (h : Canon d) (h' : Canon d') (hlt : d'.val < d.val) :
    d'.val ≤ (pred d).val := by
  have hpos : 0 < d.val := Nat.lt_of_le_of_lt (Nat.zero_le _) hlt
  rcases Nat.lt_or_ge (pred d).val d'.val with hc | hc
  · have := succ_le_of_lt (pred d) d' (pred_canon d h hpos) h' hc
    rw [succ_pred d h hpos] at this
    omega
  · exact hc

/-! ## Rounding is a function -/

theorem roundsTo_unique_lt (a b : Nat) (hb : 0 < b) (d1 d2 : Mag) (h1 : Canon d1) (h2 : Canon d2)
    (r1 : RoundsTo a b d1) (r2 : RoundsTo a b d2) (hlt : d1.val < d2.val) : False := by
  have hS := succ_le_of_lt d1 d2 h1 h2 hlt
  have hP := le_pred_of_lt d2 d1 h2 h1 hlt
  have hpos : 0 < d2.val := Nat.lt_of_le_of_lt (Nat.zero_le _) hlt
  have up : 2 * a ≤ b * (d1.val + (succ d1).val) := by
    rcases r1.1 with h | h; exact Nat.le_of_lt h; exact Nat.le_of_eq h.1
  have lo : b * ((pred d2).val + d2.val) ≤ 2 * a := by
    rcases r2.2 with h | h | h
    · omega
    · exact Nat.le_of_lt h
    · exact Nat.le_of_eq h.1
  have mono : b * (d1.val + (succ d1).val) ≤ b * ((pred d2).val + d2.val) :=
    Nat.mul_le_mul_left _ (by omega)
  -- everything is squeezed to equality
  have e1 : 2 * a = b * (d1.val + (succ d1).val) := by omega
  have e2 : b * ((pred d2).val + d2.val) = 2 * a := by omega
  have ev1 : d1.m % 2 = 0 := by
    rcases r1.1 with h | h
    · omega
    · exact h.2
  have ev2 : d2.m % 2 = 0 := by
    rcases r2.2 with h | h | h
    · omega
    · omega
    · exact h.2
  have esum : d1.val + (succ d1).val = (pred d2).val + d2.val :=
    Nat.eq_of_mul_eq_mul_left hb (by omega)
  have es : (succ d1).val = d2.val := by omega
  have := val_inj (succ d1) d2 (succ_canon d1 h1) h2 es
  have hp := succ_parity d1 h1
  rw [this] at hp
  omega

/-- **At most one double is a correctly rounded reading of a decimal value.** -/
theorem roundsTo_unique (a b : Nat) (hb : 0 < b) (d1 d2 : Mag) (h1 : Canon d1) (h2 : Canon d2)
    (r1 : RoundsTo a b d1) (r2 : RoundsTo a b d2) : d1 = d2 := by
  rcases Nat.lt_trichotomy d1.val d2.val with h | h | h
  · exact (roundsTo_unique_lt a b hb d1 d2 h1 h2 r1 r2 h).elim
  · exact val_inj d1 d2 h1 h2 h
  · exact (roundsTo_unique_lt a b hb d2 d1 h2 h1 r2 r1 h).elim

/-- A double read from its own exact value is itself (the interval is never empty). -/
theorem roundsTo_self (d : Mag) (h : Canon d) : RoundsTo d.val 1 d := by
  refine ⟨Or.inl ?_, ?_⟩
  · have := val_lt_succ_val d h; omega
  · rcases Nat.eq_zero_or_pos d.val with h0 | hpos
    · exact Or.inl h0
    · right; left
      have hc := pred_canon d h hpos
      have := val_lt_succ_val (pred d) hc
      rw [succ_pred d h hpos] at this
      omega

/-! ## Bits and tokens (executable; what the driver runs) -/

inductive Val where
  | fin (neg : Bool) (d : Mag)
  | inf (neg : Bool)
  | nan
deriving DecidableEq, Repr

/-- decode an IEEE binary64 bit pattern -/
def ofBits (bits : Nat) : Val :=
  let neg := bits / 2 ^ 63 % 2 = 1
  let e := bits / 2 ^ 52 % 2 ^ 11
  let f := bits % 2 ^ 52
  if e = 2047 then (if f = 0 then .inf neg else .nan)
  else if e = 0 then .fin neg ⟨f, 0⟩
  else .fin neg ⟨2 ^ 52 + f, e - 1⟩

theorem ofBits_canon (bits : Nat) (neg : Bool) (d : Mag) (h : ofBits bits = .fin neg d) : Canon d := by
  unfold ofBits at h
  simp only at h
  split at h
  · split at h <;> cases h
  · split at h
    · cases h
      have := Nat.mod_lt bits (two_pow_pos' 52)
      have e : (2:Nat) ^ 52 < 2 ^ 53 := by decide
      exact ⟨by show bits % 2 ^ 52 < 2 ^ 53; omega, Or.inr rfl⟩
    · cases h
      have := Nat.mod_lt bits (two_pow_pos' 52)
      have e : (2:Nat) ^ 52 + 2 ^ 52 = 2 ^ 53 := by decide
      exact ⟨by show 2 ^ 52 + bits % 2 ^ 52 < 2 ^ 53; omega, Or.inl (Nat.le_add_right _ _)⟩

/-- A decimal token: sign, digit string as a number, power of ten.  `digits * 10^exp10`. -/
structure Dec where
  neg : Bool
  digits : Nat
  exp10 : Int
deriving DecidableEq, Repr

inductive Tok where
  | dec (d : Dec)
  | inf (neg : Bool)
  | nan
deriving DecidableEq, Repr

def digitVal (c : Char) : Nat := c.toNat - '0'.toNat
def isDigit (c : Char) : Bool := '0' ≤ c && c ≤ '9'
def natOfDigits (l : List Char) : Nat := l.foldl (fun acc c => acc * 10 + digitVal c) 0

def parseExp (l : List Char) : Option Int :=
  match l with
  | '-' :: r => if !r.isEmpty && r.all isDigit then some (- (natOfDigits r : Int)) else none
  | '+' :: r => if !r.isEmpty && r.all isDigit then some (natOfDigits r : Int) else none
  | r => if !r.isEmpty && r.all isDigit then some (natOfDigits r : Int) else none

/-- the tokens `float()` accepts that a writer of numbers can produce: `[+-]ddd[.ddd][e[+-]dd]`, `inf`, `nan` -/
def parseTok (s : String) : Option Tok :=
  let l := s.trimAscii.toString.toList
  let (neg, l) := match l with
    | '-' :: r => (true, r)
    | '+' :: r => (false, r)
    | _ => (false, l)
  let lw := l.map Char.toLower
  if lw = "inf".toList || lw = "infinity".toList then some (.inf neg)
  else if lw = "nan".toList then some .nan
  else
    let (mant, ex) := match lw.span (· != 'e') with
      | (m, []) => (m, some (0 : Int))
      | (m, _ :: e) => (m, parseExp e)
    let (ip, fp) := match mant.span (· != '.') with
      | (ip, []) => (ip, [])
      | (ip, _ :: fp) => (ip, fp)
    match ex with
    | none => none
    | some e =>
      if (ip.all isDigit && fp.all isDigit) && (!ip.isEmpty || !fp.isEmpty) then
        some (.dec ⟨neg, natOfDigits (ip ++ fp), e - fp.length⟩)
      else none

/-- the decimal as a fraction `a / b` in units of `2^-1074` -/
def Dec.frac (d : Dec) : Nat × Nat :=
  if 0 ≤ d.exp10 then (d.digits * 10 ^ d.exp10.toNat * 2 ^ 1074, 1)
  else (d.digits * 2 ^ 1074, 10 ^ (-d.exp10).toNat)

theorem Dec.frac_pos (d : Dec) : 0 < d.frac.2 := by
  unfold Dec.frac; split
  · exact Nat.one_pos
  · exact Nat.pow_pos (by decide)

/-- largest finite exponent in this scaling: `(2^53-1) * 2^2045 = DBL_MAX / 2^-1074` -/
def maxS : Nat := 2045

inductive Verdict where
  | reads        -- every correctly rounding reader returns exactly these bits
  | special      -- inf / nan written as inf / nan
  | wrong        -- a correctly rounding reader returns other bits (or the token is not a number)
deriving DecidableEq, Repr

/-- Does the token stand for the value with these bits, for every correctly rounding reader? -/
def checkTok (bits : Nat) (tok : String) : Verdict :=
  match ofBits bits, parseTok tok with
  | .nan, some .nan => .special
  | .inf n, some (.inf n') => if n = n' then .special else .wrong
  | .fin n d, some (.dec t) =>
      if n = t.neg ∧ d.s ≤ maxS ∧ RoundsTo t.frac.1 t.frac.2 d
      then .reads else .wrong
  | _, _ => .wrong

/-- What `checkTok … = reads` means: the token parses to a decimal of the same sign that rounds to the decoded
    magnitude, and hence (by `roundsTo_unique`) to no other. -/
theorem checkTok_reads (bits : Nat) (tok : String) (h : checkTok bits tok = .reads) :
    ∃ n d t, ofBits bits = .fin n d ∧ parseTok tok = some (.dec t) ∧ n = t.neg ∧ Canon d ∧
      RoundsTo t.frac.1 t.frac.2 d ∧
      ∀ d', Canon d' → RoundsTo t.frac.1 t.frac.2 d' → d' = d := by
  unfold checkTok at h
  split at h
  · cases h
  · split at h <;> cases h
  · rename_i n d t ho hp
    split at h
    · rename_i hc
      refine ⟨n, d, t, ho, hp, ?_, ofBits_canon bits n d ho, hc.2.2, ?_⟩
      · exact hc.1
      · intro d' hd' hr'
        exact roundsTo_unique _ _ t.frac_pos d' d hd' (ofBits_canon bits n d ho) hr' hc.2.2
    · cases h
  · cases h

/-! ## Reading: compute a candidate, certify it

`roundDec` computes the double a decimal rounds to (integer division, `log2`); nothing is proved about it.  `readDec` returns
its result only after the decidable certificate `Canon d ∧ RoundsTo a b d` has been evaluated on it, and by
`roundsTo_unique` a certified result is *the* correctly rounded reading.  So the value the driver hands out for a token is
justified by the theorem, not by the arithmetic of `roundDec`. -/

/-- nearest integer to `a / b`, ties to even -/
def roundHalfEven (a b : Nat) : Nat :=
  let q := a / b
  let r := a % b
  if 2 * r < b then q else if b < 2 * r then q + 1 else if q % 2 = 0 then q else q + 1

def roundDec (a b : Nat) : Mag :=
  if a < b * 2 ^ 53 then
    let m := roundHalfEven a b
    if m < 2 ^ 53 then ⟨m, 0⟩ else ⟨2 ^ 52, 1⟩
  else
    let s := Nat.log2 (a / b) - 52
    let m := roundHalfEven a (b * 2 ^ s)
    if m < 2 ^ 53 then ⟨m, s⟩ else ⟨2 ^ 52, s + 1⟩

/-- the certified reading of `a / b` (units of `2^-1074`), if the candidate passes -/
def readDec (a b : Nat) : Option Mag :=
  let d := roundDec a b
  if Canon d ∧ RoundsTo a b d then some d else none

theorem readDec_sound (a b : Nat) (hb : 0 < b) (d : Mag) (h : readDec a b = some d) :
    Canon d ∧ RoundsTo a b d ∧ ∀ d', Canon d' → RoundsTo a b d' → d' = d := by
  unfold readDec at h
  simp only at h
  split at h
  · rename_i hc
    cases h
    exact ⟨hc.1, hc.2, fun d' hd' hr' => roundsTo_unique a b hb d' _ hd' hc.1 hr' hc.2⟩
  · cases h

/-- IEEE bit pattern of a finite value (inverse of `ofBits` on canonical magnitudes) -/
def toBits (neg : Bool) (d : Mag) : Nat :=
  (if neg then 2 ^ 63 else 0) + (if d.m < 2 ^ 52 then d.m else (d.s + 1) * 2 ^ 52 + (d.m - 2 ^ 52))

inductive Read where
  | bits (b : Nat)       -- the one correctly rounded double (finite)
  | inf (neg : Bool)     -- the token says inf, or its value lies at or beyond the overflow threshold
  | nan
  | notANumber           -- the token is not a number at all
  | uncertified          -- the candidate failed its certificate (never observed; reported, not hidden)
deriving DecidableEq, Repr

/-- from the certified magnitude (if any) to the value handed out -/
def finish (neg : Bool) : Option Mag → Read
  | none => .uncertified
  | some d => if d.s ≤ maxS then .bits (toBits neg d) else .inf neg

/-- the reading of the magnitude `a / b` with sign `neg` -/
def readFrac (neg : Bool) (a b : Nat) : Read := finish neg (readDec a b)

/-- the reading of a parsed decimal -/
def readDecTok (t : Dec) : Read := readFrac t.neg t.frac.1 t.frac.2

/-- what a correctly rounding reader returns for a token -/
def readTok (tok : String) : Read :=
  match parseTok tok with
  | none => .notANumber
  | some .nan => .nan
  | some (.inf n) => .inf n
  | some (.dec t) => readDecTok t

theorem finish_bits (neg : Bool) (o : Option Mag) (bits : Nat) (h : finish neg o = .bits bits) :
    ∃ d, o = some d ∧ bits = toBits neg d := by
  cases o with
  | none => exact Read.noConfusion h
  | some d =>
    have h' : (if d.s ≤ maxS then Read.bits (toBits neg d) else Read.inf neg) = .bits bits := h
    by_cases hs : d.s ≤ maxS
    · rw [if_pos hs] at h'; exact ⟨d, rfl, (Read.bits.inj h').symm⟩
    · rw [if_neg hs] at h'; exact Read.noConfusion h'

theorem readFrac_bits (neg : Bool) (a b : Nat) (hb : 0 < b) (bits : Nat) (h : readFrac neg a b = .bits bits) :
    ∃ d, bits = toBits neg d ∧ Canon d ∧ RoundsTo a b d ∧ ∀ d', Canon d' → RoundsTo a b d' → d' = d := by
  obtain ⟨d, hd, hbits⟩ := finish_bits neg (readDec a b) bits h
  obtain ⟨h1, h2, h3⟩ := readDec_sound a b hb d hd
  exact ⟨d, hbits, h1, h2, h3⟩

/-- a value handed out for a decimal token is the one correctly rounded double -/
theorem readDecTok_bits (t : Dec) (bits : Nat) (h : readDecTok t = .bits bits) :
    ∃ d, bits = toBits t.neg d ∧ Canon d ∧ RoundsTo t.frac.1 t.frac.2 d ∧
      ∀ d', Canon d' → RoundsTo t.frac.1 t.frac.2 d' → d' = d :=
  readFrac_bits t.neg t.frac.1 t.frac.2 t.frac_pos bits h

end FloatText
