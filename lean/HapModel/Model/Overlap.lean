/-!
# C17: `GetOverlappingSamples` – the two-pointer walk over the two sorted sample lists

`_SortSamples` pairs every sample name with its row and sorts by name; the loop then advances one counter or both.
Names are represented by their rank in the string order (distinct names ↔ distinct keys); an entry is (key, row).
-/
namespace Overlap

abbrev E := Nat × Nat      -- (key of the sample name, row in the genotype matrix)

/-- the `while` loop: `a` = SNP samples, `b` = STR samples, both sorted by key -/
def walk : List E → List E → List (Nat × Nat)
  | [], _ => []
  | _, [] => []
  | x :: xs, y :: ys =>
    if y.1 < x.1 then walk (x :: xs) ys
    else if y.1 = x.1 then (x.2, y.2) :: walk xs ys
    else walk xs (y :: ys)
termination_by a b => a.length + b.length

def Sorted (l : List E) : Prop := l.Pairwise (fun p q => p.1 < q.1)

theorem sorted_tail {x : E} {xs : List E} (h : Sorted (x :: xs)) : Sorted xs := (List.pairwise_cons.mp h).2
theorem sorted_head {x : E} {xs : List E} (h : Sorted (x :: xs)) : ∀ q ∈ xs, x.1 < q.1 := (List.pairwise_cons.mp h).1

/-- **exactly the common samples, rows aligned**: a pair of rows is returned iff the two rows carry the same sample name -/
theorem walk_spec : ∀ (a b : List E), Sorted a → Sorted b →
    ∀ i j, (i, j) ∈ walk a b ↔ ∃ k, (k, i) ∈ a ∧ (k, j) ∈ b
  | [], b, _, _ => by intro i j; simp [walk]
  | x :: xs, [], _, _ => by intro i j; simp [walk]
  | x :: xs, y :: ys, ha, hb => by
    intro i j
    have hxs := sorted_tail ha
    have hys := sorted_tail hb
    have hx := sorted_head ha
    have hy := sorted_head hb
    unfold walk
    split
    · -- y < x: y matches nothing in a
      rename_i hlt
      rw [walk_spec (x :: xs) ys ha hys i j]
      constructor
      · rintro ⟨k, h1, h2⟩; exact ⟨k, h1, List.mem_cons_of_mem _ h2⟩
      · rintro ⟨k, h1, h2⟩
        rcases List.mem_cons.mp h2 with h2 | h2
        · -- (k, j) = y, but every key in a is ≥ x.1 > y.1
          exfalso
          have hk : k = y.1 := by rw [← h2]
          rcases List.mem_cons.mp h1 with h1 | h1
          · have : k = x.1 := by rw [← h1]
            omega
          · have := hx _ h1; simp only at this; omega
        · exact ⟨k, h1, h2⟩
    · split
      · rename_i hnlt heq
        simp only [List.mem_cons, Prod.mk.injEq]
        rw [walk_spec xs ys hxs hys i j]
        constructor
        · rintro (⟨rfl, rfl⟩ | ⟨k, h1, h2⟩)
          · exact ⟨x.1, .inl rfl, .inl (by rw [← heq])⟩
          · exact ⟨k, .inr h1, .inr h2⟩
        · rintro ⟨k, h1, h2⟩
          rcases h1 with h1 | h1 <;> rcases h2 with h2 | h2
          · left
            have e1 : x = (k, i) := h1.symm
            have e2 : y = (k, j) := h2.symm
            rw [e1, e2]; exact ⟨rfl, rfl⟩
          · exfalso
            have : k = x.1 := by rw [← h1]
            have := hy _ h2; simp only at this; omega
          · exfalso
            have : k = y.1 := by rw [← h2]
            have := hx _ h1; simp only at this; omega
          · right; exact ⟨k, h1, h2⟩
      · -- x < y: x matches nothing in b
        rename_i hnlt hne
        rw [walk_spec xs (y :: ys) hxs hb i j]
        constructor
        · rintro ⟨k, h1, h2⟩; exact ⟨k, List.mem_cons_of_mem _ h1, h2⟩
        · rintro ⟨k, h1, h2⟩
          rcases List.mem_cons.mp h1 with h1 | h1
          · exfalso
            have hk : k = x.1 := by rw [← h1]
            rcases List.mem_cons.mp h2 with h2 | h2
            · have : k = y.1 := by rw [← h2]
              omega
            · have := hy _ h2; simp only at this; omega
          · exact ⟨k, h1, h2⟩
termination_by a b => a.length + b.length

end Overlap
