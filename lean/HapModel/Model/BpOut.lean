import HapModel.Model.Exec
/-!
# C02 model: labels of simulated haplotypes and the framing of `write_breakpoints`
-/
namespace Plan
open Seg

theorem copyLoop_mem (en c : Nat) : ∀ (l : List Seg),
    (∀ s ∈ (copyLoop en c l).1, s ∈ l) ∧ (∀ x, (copyLoop en c l).2 = some x → x ∈ l)
  | [] => by simp [copyLoop]
  | s :: rest => by
    have ih := copyLoop_mem en c rest
    unfold copyLoop
    split
    · simp
    · constructor
      · intro x hx
        rcases List.mem_cons.mp hx with rfl | h
        · exact List.mem_cons_self
        · exact List.mem_cons_of_mem _ (ih.1 x h)
      · intro x hx
        cases hr : (copyLoop en c rest).2 with
        | none => simp only [hr, Option.some.injEq] at hx; subst hx; exact List.mem_cons_self
        | some l => simp only [hr, Option.some.injEq] at hx; subst hx; exact List.mem_cons_of_mem _ (ih.2 _ hr)

/-- every label produced by one `get_segment` call on an admixed parent is a label of that parent -/
theorem getSegment_labels (hap c st en : Nat) (cm : Int) (prev : Array (Array Seg)) (segs : Array Seg)
    (hprev : prev[hap]? = some segs) (out : List Seg) (h : getSegment 0 hap c st en cm prev = .ok out) :
    ∀ s ∈ out, ∃ t ∈ segs.toList, s.pop = t.pop := by
  unfold getSegment at h
  simp only [ne_eq, not_true_eq_false, ↓reduceIte, hprev] at h
  have hm := copyLoop_mem en c (segs.toList.drop (startSegment st c segs))
  split at h
  · cases h
  · rename_i l hl
    simp only [Except.ok.injEq] at h
    subst h
    intro s hs
    rcases List.mem_append.mp hs with h1 | h1
    · exact ⟨s, List.mem_of_mem_drop (hm.1 s h1), rfl⟩
    · simp only [List.mem_singleton] at h1
      subst h1
      exact ⟨l, List.mem_of_mem_drop (hm.2 l hl), rfl⟩

/-- labels of a simulated haplotype: the founding population's label for a source individual, labels of the
    two parental haplotypes for an admixed one — never a new label, never the pseudo-population 0 unless a
    parent carried it -/
theorem execP_labels (pop : Nat) (chromOf : Nat → Nat) (haps : Nat → Nat) (prev : Array (Array Seg)) :
    ∀ (cs : List Copy) (out : List Seg), execP pop chromOf haps prev cs = .ok out →
      ∀ s ∈ out, (pop ≠ 0 ∧ s.pop = pop) ∨
        (pop = 0 ∧ ∃ hom segs, prev[haps hom]? = some segs ∧ ∃ t ∈ segs.toList, s.pop = t.pop)
  | [], out, h => by simp [execP] at h; subst h; simp
  | c :: cs, out, h => by
    unfold execP at h
    split at h
    · cases h
    · rename_i o ho
      split at h
      · cases h
      · rename_i r hr
        simp only [Except.ok.injEq] at h
        subst h
        intro s hs
        rcases List.mem_append.mp hs with h1 | h1
        · by_cases hp : pop = 0
          · subst hp
            right
            refine ⟨rfl, c.hom, ?_⟩
            cases hprev : prev[haps c.hom]? with
            | none => simp [getSegment, hprev] at ho
            | some segs => exact ⟨segs, rfl, getSegment_labels _ _ _ _ _ _ segs hprev o ho s h1⟩
          · left
            simp only [getSegment, ne_eq, hp, not_false_eq_true, ↓reduceIte, Except.ok.injEq] at ho
            subst ho
            simp only [List.mem_singleton] at h1
            exact ⟨hp, by rw [h1]⟩
        · exact execP_labels pop chromOf haps prev cs r hr s h1

/-! ### `write_breakpoints` framing -/

/-- header of the `ind`-th written haplotype: `Sample_{ind//2+1}_{ind%2+1}` -/
def bpHeader (ind : Nat) : String := s!"Sample_{ind / 2 + 1}_{ind % 2 + 1}"

/-- the lines of the file: for each chosen haplotype its header, then its blocks (already rendered) -/
def writeBp (chosen : List (List String)) : List (String × List String) :=
  chosen.zipIdx.map (fun hi => (bpHeader hi.2, hi.1))

theorem writeBp_length (chosen : List (List String)) : (writeBp chosen).length = chosen.length := by
  simp [writeBp]

/-- the file holds exactly `n` samples, each as strand `_1` immediately followed by strand `_2`, numbered
    `Sample_1 … Sample_n`, when `2n` haplotypes were drawn -/
theorem writeBp_framing (chosen : List (List String)) (n : Nat) (hl : chosen.length = 2 * n) :
    ∀ i, i < n →
      ((writeBp chosen)[2*i]?).map (·.1) = some s!"Sample_{i+1}_{1}" ∧
      ((writeBp chosen)[2*i+1]?).map (·.1) = some s!"Sample_{i+1}_{2}" := by
  intro i hi
  unfold writeBp
  have h0 : 2 * i < chosen.length := by omega
  have h1 : 2 * i + 1 < chosen.length := by omega
  constructor
  · simp only [List.getElem?_map, List.getElem?_zipIdx, List.getElem?_eq_getElem h0, Option.map_some,
      bpHeader, Nat.zero_add]
    have e1 : 2 * i / 2 = i := by omega
    have e2 : 2 * i % 2 = 0 := by omega
    simp [e1, e2]
  · simp only [List.getElem?_map, List.getElem?_zipIdx, List.getElem?_eq_getElem h1, Option.map_some,
      bpHeader, Nat.zero_add]
    have e1 : (2 * i + 1) / 2 = i := by omega
    have e2 : (2 * i + 1) % 2 = 1 := by omega
    simp [e1, e2]

end Plan
