/-! Prototype C11: the line order written by `Haplotypes.sort` + `to_str` satisfies what
    `tabix_index(seq_col=1, start_col=2, end_col=3)` requires: lines of one sequence name are contiguous and their
    start positions do not decrease.  Names are encoded as `Nat` by any order-preserving injection. -/
namespace Tabix

structure L where
  seq : Nat
  start : Nat
deriving Repr

/-- what tabix accepts: within a sequence name starts never decrease, and a name never re-appears after another
    name has been seen (both phrased over positions) -/
def TabixOK (l : List L) : Prop :=
  ∀ i k (hi : i < l.length) (hk : k < l.length), i < k → l[i].seq = l[k].seq →
    l[i].start ≤ l[k].start ∧ ∀ j (hj : j < l.length), i < j → j < k → l[j].seq = l[i].seq

/-- H and R lines after `sort()`: ordered by (chrom, start, …) -/
def SortedHR (l : List L) : Prop := l.Pairwise (fun a b => a.seq < b.seq ∨ (a.seq = b.seq ∧ a.start ≤ b.start))

theorem sorted_ok (l : List L) (h : SortedHR l) : TabixOK l := by
  intro i k hi hk hik heq
  have hp := List.pairwise_iff_getElem.mp h
  have hik' := hp i k hi hk hik
  refine ⟨by omega, ?_⟩
  intro j hj hij hjk
  have h1 := hp i j hi hj hij
  have h2 := hp j k hj hk hjk
  omega

/-- two parts whose sequence names are disjoint (haplotype IDs differ from contig names) -/
theorem append_ok (a b : List L) (ha : TabixOK a) (hb : TabixOK b)
    (hdisj : ∀ x ∈ a, ∀ y ∈ b, x.seq ≠ y.seq) : TabixOK (a ++ b) := by
  intro i k hi hk hik heq
  simp only [List.length_append] at hi hk
  by_cases hia : i < a.length
  · by_cases hka : k < a.length
    · -- both in a
      simp only [List.getElem_append_left hia, List.getElem_append_left hka] at heq ⊢
      obtain ⟨h1, h2⟩ := ha i k hia hka hik heq
      refine ⟨h1, ?_⟩
      intro j hj hij hjk
      have hja : j < a.length := by omega
      simp only [List.getElem_append_left hja]
      exact h2 j hja hij hjk
    · exfalso
      have hkb : k - a.length < b.length := by omega
      simp only [List.getElem_append_left hia, List.getElem_append_right (by omega : a.length ≤ k)] at heq
      exact hdisj _ (List.getElem_mem hia) _ (List.getElem_mem hkb) heq
  · -- both in b
    have hia' : a.length ≤ i := by omega
    have hka' : a.length ≤ k := by omega
    simp only [List.getElem_append_right hia', List.getElem_append_right hka'] at heq ⊢
    obtain ⟨h1, h2⟩ := hb (i - a.length) (k - a.length) (by omega) (by omega) (by omega) heq
    refine ⟨h1, ?_⟩
    intro j hj hij hjk
    have hja' : a.length ≤ j := by omega
    simp only [List.getElem_append_right hja']
    exact h2 (j - a.length) (by simp only [List.length_append] at hj; omega) (by omega) (by omega)

/-- V lines: groups in strictly increasing haplotype-ID order, variants of one group sorted by start -/
def SortedV (l : List L) : Prop := l.Pairwise (fun a b => a.seq < b.seq ∨ (a.seq = b.seq ∧ a.start ≤ b.start))

/-- C11: the sorted file is accepted by tabix, for any record set whose haplotype IDs differ from its contig names -/
theorem sorted_file_ok (hr v : List L) (h1 : SortedHR hr) (h2 : SortedV v)
    (hdisj : ∀ x ∈ hr, ∀ y ∈ v, x.seq ≠ y.seq) : TabixOK (hr ++ v) :=
  append_ok hr v (sorted_ok hr h1) (sorted_ok v h2) hdisj


/-! ### region queries on the indexed file -/

structure HRec where
  chrom : Nat
  start : Nat
  stop : Nat
  id : Nat
deriving Repr

/-- contract of `TabixFile.fetch("c:a-b")`: records on `c` that overlap `[a,b]`, in file order -/
def fetch (c a b : Nat) (recs : List HRec) : List HRec :=
  recs.filter (fun r => decide (r.chrom = c) && decide (r.start ≤ b) && decide (a ≤ r.stop))

/-- `_iter_haps` with a `c:a-b` region and an optional ID set -/
def iterRegion (c a b : Nat) (ids : Option (List Nat)) (recs : List HRec) : List HRec :=
  (fetch c a b recs).filter (fun r =>
    (match ids with | none => true | some l => l.contains r.id) &&
    !(decide (r.start < a) || decide (r.stop > b)))

/-- the same records that filtering a full read gives: entirely inside the region, and in the set -/
theorem iterRegion_eq_filter (c a b : Nat) (ids : Option (List Nat)) (recs : List HRec)
    (hwf : ∀ r ∈ recs, r.start ≤ r.stop) :
    iterRegion c a b ids recs = recs.filter (fun r =>
      decide (r.chrom = c) && decide (a ≤ r.start) && decide (r.stop ≤ b) &&
      (match ids with | none => true | some l => l.contains r.id)) := by
  unfold iterRegion fetch
  rw [List.filter_filter]
  apply List.filter_congr
  intro r hr
  have := hwf r hr
  cases ids with
  | none => grind
  | some l => grind

/-! ### all region shapes: `c`, `c:a-`, `c:a-b` -/

def geOpt (lo : Option Nat) (x : Nat) : Bool := match lo with | none => true | some a => decide (a ≤ x)
def leOpt (x : Nat) (hi : Option Nat) : Bool := match hi with | none => true | some b => decide (x ≤ b)

/-- contract of `fetch`: records on `c` overlapping the (possibly open-ended) interval, in file order -/
def fetchG (c : Nat) (lo hi : Option Nat) (recs : List HRec) : List HRec :=
  recs.filter (fun r => decide (r.chrom = c) && leOpt r.start hi && geOpt lo r.stop)

/-- `_iter_haps` with a region of any shape and an optional ID set: the overlap fetch followed by the containment
    filter (`hap.start < region[0] or hap.end > region[1]` → skip) -/
def iterRegionG (c : Nat) (lo hi : Option Nat) (ids : Option (List Nat)) (recs : List HRec) : List HRec :=
  (fetchG c lo hi recs).filter (fun r =>
    (match ids with | none => true | some l => l.contains r.id) && geOpt lo r.start && leOpt r.stop hi)

theorem iterRegionG_eq_filter (c : Nat) (lo hi : Option Nat) (ids : Option (List Nat)) (recs : List HRec)
    (hwf : ∀ r ∈ recs, r.start ≤ r.stop) :
    iterRegionG c lo hi ids recs = recs.filter (fun r =>
      decide (r.chrom = c) && geOpt lo r.start && leOpt r.stop hi &&
      (match ids with | none => true | some l => l.contains r.id)) := by
  unfold iterRegionG fetchG
  rw [List.filter_filter]
  apply List.filter_congr
  intro r hr
  have := hwf r hr
  cases ids <;> cases lo <;> cases hi <;> simp only [geOpt, leOpt] <;> grind

/-- an ID-only query: the H/R records whose ID is requested, in file order -/
def iterIds (ids : List Nat) (recs : List HRec) : List HRec := recs.filter (fun r => ids.contains r.id)

end Tabix
