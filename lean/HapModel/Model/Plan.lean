import HapModel.Model.GetSeg
/-! Prototype C01/C02: the per-sample loop of `_simulate` at the level of the copy instructions it issues.
    Chromosomes are referred to by their index in the (sorted) `chroms` list. -/
namespace Plan
open Seg (MAX)

/-- a recombination event: the tract being closed ends at the marker before the event marker -/
structure Event where
  ci : Nat          -- index of the event's chromosome in `chroms`
  endBp : Nat       -- prev_coord.get_bp_pos()
  endCm : Int       -- prev_coord.get_map_pos()
deriving Repr

/-- one call `get_segment(p_pop, haps[hom], chroms[ci], st, en, cm, prev)` -/
structure Copy where
  ci : Nat
  st : Nat
  en : Nat
  cm : Int
  hom : Nat
deriving Repr, DecidableEq

def nextBit : List Nat → Nat × List Nat
  | [] => (0, [])
  | b :: bs => (b, bs)

/-- the `for i in range(cur_ind - prev_ind)` / `for i in range(len(chroms) - prev_ind)` loops:
    close chromosome `i` (from `st`) and emit chromosomes `i+1 … i+k-1` whole; a fresh homolog is drawn after each -/
def rollOver (cmEnd : Nat → Int) : (k i st hom : Nat) → List Nat → List Copy × Nat × List Nat
  | 0, _, _, hom, bits => ([], hom, bits)
  | k+1, i, st, hom, bits =>
    let b := nextBit bits
    let r := rollOver cmEnd k (i+1) 0 b.1 b.2
    (⟨i, st, MAX, cmEnd i, hom⟩ :: r.1, r.2.1, r.2.2)

/-- all copy instructions issued for one simulated haplotype -/
def plan (n : Nat) (cmEnd : Nat → Int) : List Event → (cur st hom : Nat) → List Nat → List Copy
  | [], cur, st, hom, bits => (rollOver cmEnd (n - cur) cur st hom bits).1
  | e :: es, cur, st, hom, bits =>
    let r := rollOver cmEnd (e.ci - cur) cur st hom bits
    let st' := if e.ci = cur then st else 0
    r.1 ++ ⟨e.ci, st', e.endBp, e.endCm, r.2.1⟩ :: plan n cmEnd es e.ci (e.endBp + 1) (1 - r.2.1) r.2.2

/-- the event tape is sorted by (chromosome, position) and stays inside the requested chromosomes -/
def Valid (n : Nat) : (cur st : Nat) → List Event → Prop
  | cur, _, [] => cur < n
  | cur, st, e :: es =>
    cur ≤ e.ci ∧ e.ci < n ∧ (e.ci = cur → st ≤ e.endBp) ∧ e.endBp < MAX ∧ Valid n e.ci (e.endBp + 1) es

/-- the copies tile chromosome `cur` from `st` to MAX and then chromosomes `cur+1 … n-1` from 0 to MAX,
    consecutively and in order -/
inductive Tiles (n : Nat) : Nat → Nat → List Copy → Prop
  | done : Tiles n n 0 []
  | last {cur st rest} (c : Copy) : cur < n → c.ci = cur → c.st = st → st ≤ MAX → c.en = MAX →
      Tiles n (cur+1) 0 rest → Tiles n cur st (c :: rest)
  | mid {cur st rest} (c : Copy) : cur < n → c.ci = cur → c.st = st → st ≤ c.en → c.en < MAX →
      Tiles n cur (c.en+1) rest → Tiles n cur st (c :: rest)

theorem rollOver_tiles (n : Nat) (cmEnd : Nat → Int) :
    ∀ (k i st hom : Nat) (bits : List Nat) (rest : List Copy), i + k ≤ n →
      Tiles n (i + k) 0 rest → (k = 0 → st = 0) → st ≤ MAX →
      Tiles n i st ((rollOver cmEnd k i st hom bits).1 ++ rest)
  | 0, i, st, hom, bits, rest, _, hrest, hst, _ => by
    have := hst rfl; subst this
    simpa [rollOver] using hrest
  | k+1, i, st, hom, bits, rest, hle, hrest, _, hsm => by
    simp only [rollOver, List.cons_append]
    refine Tiles.last _ (by omega) rfl rfl hsm rfl ?_
    have h2 : i + 1 + k = i + (k + 1) := by omega
    exact rollOver_tiles n cmEnd k (i+1) 0 _ _ rest (by omega) (by rw [h2]; exact hrest) (fun _ => rfl) (by simp [MAX])

/-- C02 core: for every valid event tape and every homolog tape the issued copies tile all chromosomes -/
theorem plan_tiles (n : Nat) (cmEnd : Nat → Int) :
    ∀ (evs : List Event) (cur st hom : Nat) (bits : List Nat), Valid n cur st evs → st ≤ MAX →
      Tiles n cur st (plan n cmEnd evs cur st hom bits)
  | [], cur, st, hom, bits, hv, hst => by
    simp only [Valid] at hv
    simp only [plan]
    have := rollOver_tiles n cmEnd (n - cur) cur st hom bits [] (by omega)
      (by rw [show cur + (n - cur) = n by omega]; exact Tiles.done) (by omega) hst
    simpa using this
  | e :: es, cur, st, hom, bits, hv, hst => by
    obtain ⟨h1, h2, h3, h4, h5⟩ := hv
    simp only [plan]
    have ih := plan_tiles n cmEnd es e.ci (e.endBp + 1)
      (1 - (rollOver cmEnd (e.ci - cur) cur st hom bits).2.1)
      (rollOver cmEnd (e.ci - cur) cur st hom bits).2.2 h5 (by omega)
    by_cases hc : e.ci = cur
    · -- same chromosome: no roll-over
      subst hc
      have hk : e.ci - e.ci = 0 := by omega
      simp only [hk, rollOver, ↓reduceIte, List.nil_append] at ih ⊢
      exact Tiles.mid (n := n) ⟨e.ci, st, e.endBp, e.endCm, hom⟩ h2 rfl rfl (h3 rfl) h4 ih
    · simp only [hc, ↓reduceIte]
      apply rollOver_tiles n cmEnd (e.ci - cur) cur st hom bits _ (by omega)
      · rw [show cur + (e.ci - cur) = e.ci by omega]
        exact Tiles.mid (n := n) ⟨e.ci, 0, e.endBp, e.endCm, _⟩ h2 rfl rfl (by simp) h4 ih
      · intro h0; omega
      · exact hst

end Plan
