import HapModel.Model.LdPlan
import HapModel.Model.Transform
/-!
# C16 model: the value `haptools ld` reports, in exact integers

For two dosage vectors `a`, `b` over the same `n` samples the Pearson correlation is

    R = (n·Σab − Σa·Σb) / √((n·Σa² − (Σa)²)·(n·Σb² − (Σb)²))

The model keeps the three integers (`Stat`) instead of the quotient, so that nothing is rounded: the sign of `R` is the
sign of `num`, `R² = num² / (da·db)`, and `R` is undefined (printed as `nan`) exactly when `da = 0` or `db = 0`.
`printsAs` decides, without a square root, whether a printed value `p/1000` is `R` to three decimals
(`|p/1000 − R| ≤ 1/2000`, with a slack `tol/M` for the floating point evaluation); that it says exactly this about the
real number `R` is `C16R.printsAs_iff` (Mathlib).  `rows` is the whole of `calc_ld`: which names are listed
(`LdPlan`) and the statistic of each against the target, the dosage of a haplotype being the number of strands that
carry all of its alleles (`Transform.carries`).
-/
namespace LdStat

def dot (a b : List Int) : Int := (List.zipWith (· * ·) a b).sum

/-- `n·Σab − Σa·Σb` -/
def num (a b : List Int) : Int := (a.length : Int) * dot a b - a.sum * b.sum

/-- `n·Σa² − (Σa)²` -/
def den (a : List Int) : Int := num a a

structure Stat where
  num : Int
  da : Int
  db : Int
deriving DecidableEq, Repr

/-- `none` = undefined (`nan`) -/
def stat (a b : List Int) : Option Stat :=
  if den a = 0 ∨ den b = 0 then none else some ⟨num a b, den a, den b⟩

/-- `m/M ≤ R` (for `M > 0`, `da·db > 0`) -/
def ratLe (m M : Int) (s : Stat) : Bool :=
  if m ≤ 0 then decide (0 ≤ s.num) || decide (s.num * s.num * (M * M) ≤ m * m * (s.da * s.db))
  else decide (0 ≤ s.num) && decide (m * m * (s.da * s.db) ≤ s.num * s.num * (M * M))

/-- `R ≤ m/M` -/
def leRat (s : Stat) (m M : Int) : Bool :=
  if 0 ≤ m then decide (s.num ≤ 0) || decide (s.num * s.num * (M * M) ≤ m * m * (s.da * s.db))
  else decide (s.num ≤ 0) && decide (m * m * (s.da * s.db) ≤ s.num * s.num * (M * M))

/-- the printed `p/1000` is `R` to three decimals, up to `tol/(2000·K)` of floating point slack:
    `(2p−1)/2000 − tol/(2000K) ≤ R ≤ (2p+1)/2000 + tol/(2000K)` -/
def printsAs (tol K : Int) (p : Int) (s : Stat) : Bool :=
  ratLe ((2 * p - 1) * K - tol) (2000 * K) s && leRat s ((2 * p + 1) * K + tol) (2000 * K)

/-- the thousandths that can be printed for `s`: `⌊1000·|R|⌋ = ⌊√⌊10⁶·num²/(da·db)⌋⌋`, its neighbours, both signs -/
def candidates (s : Stat) : List Int :=
  let c : Int := Nat.sqrt ((1000000 * (s.num * s.num)) / (s.da * s.db)).toNat
  let l := [c - 2, c - 1, c, c + 1, c + 2, c + 3]
  (l.map (fun x => -x)).reverse ++ l

def accepted (tol K : Int) (s : Stat) : List Int := ((candidates s).filter (fun p => printsAs tol K p s)).eraseDups

/-! ## dosages and the rows of the output -/

/-- dosage of a bi-allelic variant: the number of ALT alleles -/
def varDosage (g : Transform.Geno) (v : String) (s : Nat) : Int :=
  (g.cell s v 0 : Int) + (g.cell s v 1 : Int)

/-- dosage of a haplotype: the number of strands carrying all of its alleles -/
def hapDosage (g : Transform.Geno) (h : Transform.Hap) (s : Nat) : Int :=
  (if Transform.carries g h s 0 then 1 else 0) + (if Transform.carries g h s 1 then 1 else 0)

inductive Name where
  | hap (h : Transform.Hap)
  | var (v : String)

def dosage (g : Transform.Geno) (keep : List Nat) : Name → List Int
  | .hap h => keep.map (hapDosage g h)
  | .var v => keep.map (varDosage g v)

/-- one output row per listed name: the statistic of the target against it -/
def rows (g : Transform.Geno) (keep : List Nat) (target : Name) (listed : List (String × Name)) :
    List (String × Option Stat) :=
  listed.map (fun (n, x) => (n, stat (dosage g keep target) (dosage g keep x)))

/-! ## core facts -/

theorem dot_comm : ∀ (a b : List Int), dot a b = dot b a
  | [], [] => rfl
  | [], _ :: _ => rfl
  | _ :: _, [] => rfl
  | x :: a, y :: b => by
    have ih := dot_comm a b
    unfold dot at *
    simp only [List.zipWith_cons_cons, List.sum_cons, ih, Int.mul_comm]

/-- `LD(A,B) = LD(B,A)` at the level of the three integers -/
theorem num_comm (a b : List Int) (h : a.length = b.length) : num a b = num b a := by
  unfold num
  rw [dot_comm a b, h, Int.mul_comm a.sum b.sum]

theorem stat_symm (a b : List Int) (h : a.length = b.length) :
    stat b a = (stat a b).map (fun s => ⟨s.num, s.db, s.da⟩) := by
  unfold stat
  by_cases h1 : den a = 0 ∨ den b = 0
  · have h2 : den b = 0 ∨ den a = 0 := h1.symm
    simp [h1, h2]
  · have h2 : ¬ (den b = 0 ∨ den a = 0) := fun x => h1 x.symm
    simp [h1, h2, num_comm b a h.symm]

/-- swapping the two vectors does not change which printed values are acceptable -/
theorem printsAs_symm (tol K p : Int) (s : Stat) :
    printsAs tol K p ⟨s.num, s.db, s.da⟩ = printsAs tol K p s := by
  unfold printsAs ratLe leRat
  simp only [Int.mul_comm s.db s.da]

theorem rows_names (g : Transform.Geno) (keep : List Nat) (target : Name) (listed : List (String × Name)) :
    (rows g keep target listed).map (·.1) = listed.map (·.1) := by
  unfold rows
  simp [List.map_map, Function.comp_def]

/-! ## `clump`'s `ComputeLD` in Pearson mode: the same statistic over the samples without a missing call -/

/-- a call `(a, b)` of allele indices; `254` and `255` stand for a missing allele -/
def callOK (c : Nat × Nat) : Bool := decide (c.1 < 254) && decide (c.2 < 254)

/-- `_FilterGts`: the samples in which neither variant has a missing allele, as pairs of dosages (sums of the two
    allele indices: ALT counts for SNPs, repeat copy numbers for STRs) -/
def validDosages (cand index : List (Nat × Nat)) : List (Int × Int) :=
  ((cand.zip index).filter (fun p => callOK p.1 && callOK p.2)).map
    (fun p => (((p.1.1 + p.1.2 : Nat) : Int), ((p.2.1 + p.2.2 : Nat) : Int)))

inductive ClumpLd where
  | empty                      -- no sample is left: reported as 0, never in LD
  | undefined                  -- one of the two is constant over the samples left: NaN, never in LD
  | r2 (num2 den : Int)        -- r² = num2 / den with den > 0
deriving DecidableEq, Repr

def clumpLd (cand index : List (Nat × Nat)) : ClumpLd :=
  let v := validDosages cand index
  if v.isEmpty then .empty
  else match stat (v.map (·.1)) (v.map (·.2)) with
    | none => .undefined
    | some s => .r2 (s.num * s.num) (s.da * s.db)

theorem validDosages_swap (cand index : List (Nat × Nat)) :
    validDosages index cand = (validDosages cand index).map (fun p => (p.2, p.1)) := by
  unfold validDosages
  induction cand generalizing index with
  | nil => cases index <;> simp
  | cons c cs ih =>
    cases index with
    | nil => simp
    | cons i is =>
      simp only [List.zip_cons_cons, List.filter_cons]
      rw [Bool.and_comm (callOK i) (callOK c)]
      split
      · simp only [List.map_cons, List.cons.injEq, true_and]
        exact ih is
      · exact ih is

/-- r²(candidate, index) = r²(index, candidate) -/
theorem clumpLd_symm (cand index : List (Nat × Nat)) : clumpLd index cand = clumpLd cand index := by
  unfold clumpLd
  rw [validDosages_swap]
  simp only [List.isEmpty_map, List.map_map, Function.comp_def]
  split
  · rfl
  · have hl : ((validDosages cand index).map (·.1)).length = ((validDosages cand index).map (·.2)).length := by simp
    rw [stat_symm _ _ hl]
    cases stat ((validDosages cand index).map (·.1)) ((validDosages cand index).map (·.2)) with
    | none => rfl
    | some s => simp [Int.mul_comm]

end LdStat
