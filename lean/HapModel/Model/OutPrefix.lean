/-! # Where `simgenotype` writes its breakpoints (C02, C19)

`--out` names the genotype file; the breakpoints go to the same name "without its extension" plus `.bp`.  The command computes the
prefix as `re.split(r"(\.vcf|\.bcf|\.vcf\.gz|\.pgen)$", out)[0]`: the text before the leftmost position from which the rest of the
name *is* one of the four endings.  `bpPrefix` is that scan; `bpPrefix_append` says it gives back any stem whatever – also one that
holds `.vcf`, `.pgen` … somewhere inside – because no ending is a proper suffix of another one with something in front of it. -/
namespace OutPrefix

def endings : List (List Char) :=
  [['.','v','c','f'], ['.','b','c','f'], ['.','v','c','f','.','g','z'], ['.','p','g','e','n']]

/-- the text before the leftmost position whose remainder is exactly an ending (the whole name if there is none) -/
def bpPrefix : List Char → List Char
  | [] => []
  | c :: r => if (c :: r) ∈ endings then [] else c :: bpPrefix r

theorem suffix_of_append_eq {α} (b e t : List α) (h : b ++ e = t) : e = t.drop (t.length - e.length) := by
  subst h
  have : (b ++ e).length - e.length = b.length := by simp
  rw [this, List.drop_left]

/-- an ending with something in front of it is not an ending -/
theorem cons_append_not_ending (c : Char) (b e : List Char) (he : e ∈ endings) : (c :: b) ++ e ∉ endings := by
  intro ht
  have hlen : ((c :: b) ++ e).length = b.length + 1 + e.length := by simp only [List.length_append, List.length_cons]
  have hsuf := suffix_of_append_eq (c :: b) e _ rfl
  generalize hT : (c :: b) ++ e = t at ht hlen hsuf
  simp only [endings, List.mem_cons, List.not_mem_nil, or_false] at he ht
  rcases he with rfl | rfl | rfl | rfl <;> rcases ht with rfl | rfl | rfl | rfl <;>
    first
      | (simp only [List.length_cons, List.length_nil] at hlen; omega)
      | (exact absurd hsuf (by decide))

/-- **the breakpoints prefix of `stem + ending` is `stem`, for every stem** -/
theorem bpPrefix_append (stem e : List Char) (he : e ∈ endings) : bpPrefix (stem ++ e) = stem := by
  induction stem with
  | nil =>
    cases e with
    | nil => simp [endings] at he
    | cons c r => simp [bpPrefix, he]
  | cons c s ih =>
    have hn : c :: (s ++ e) ∉ endings := cons_append_not_ending c s e he
    show bpPrefix (c :: (s ++ e)) = c :: s
    unfold bpPrefix
    rw [if_neg hn, ih]

/-- a name that ends in none of the four endings is its own prefix -/
theorem bpPrefix_id (out : List Char) (h : ∀ a e, e ∈ endings → out ≠ a ++ e) : bpPrefix out = out := by
  induction out with
  | nil => rfl
  | cons c r ih =>
    unfold bpPrefix
    have hn : (c :: r) ∉ endings := fun hm => h [] (c :: r) hm rfl
    rw [if_neg hn, ih]
    intro a e he hr
    exact h (c :: a) e he (by rw [hr]; rfl)

example : bpPrefix "from.pgen.sim.vcf.gz".toList = "from.pgen.sim".toList := by decide
example : bpPrefix "panel.vcf.gz_sims/admixed.pgen".toList = "panel.vcf.gz_sims/admixed".toList := by decide
example : bpPrefix "out.txt".toList = "out.txt".toList := by decide

end OutPrefix
