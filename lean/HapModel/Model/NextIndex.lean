/-! Prototype C17: `GetNextIndexVariant` as the literal left-to-right scan.
    p-values are compared only with each other and with thresholds, so they are modelled as `Nat`
    (any strictly monotone encoding, e.g. the exact decimal scaled by a power of ten). -/
namespace NextIndex

structure V where
  uid : Nat
  p : Nat
  chrom : String := ""
  pos : Int := 0
deriving Repr, DecidableEq

/-- state of the scan: (best_var, best_var_p); `one` is the encoding of 1.0, `p1` of `--clump-p1` -/
def scanStep (one p1 : Nat) (st : Option V × Nat) (v : V) : Option V × Nat :=
  if v.p < st.2 ∧ v.p < p1 then (some v, v.p) else st

def nextIndex (one p1 : Nat) (vars : List V) : Option V :=
  (vars.foldl (scanStep one p1) (none, one)).1

def Cand (one p1 : Nat) (v : V) : Prop := v.p < one ∧ v.p < p1

/-- invariant of the scan over a processed prefix `done` -/
def ScanInv (one p1 : Nat) (done : List V) (st : Option V × Nat) : Prop :=
  match st.1 with
  | none => st.2 = one ∧ ∀ v ∈ done, ¬ Cand one p1 v
  | some b => st.2 = b.p ∧ Cand one p1 b ∧
      ∃ pre post, done = pre ++ b :: post ∧ (∀ v ∈ pre, Cand one p1 v → b.p < v.p) ∧
        (∀ v ∈ post, Cand one p1 v → b.p ≤ v.p)

theorem scan_inv (one p1 : Nat) : ∀ (todo done : List V) (st : Option V × Nat),
    ScanInv one p1 done st → ScanInv one p1 (done ++ todo) (todo.foldl (scanStep one p1) st)
  | [], done, st, h => by simpa using h
  | v :: rest, done, st, h => by
    have key : ScanInv one p1 (done ++ [v]) (scanStep one p1 st v) := by
      unfold scanStep
      by_cases hc : v.p < st.2 ∧ v.p < p1
      · simp only [hc, and_self, ↓reduceIte]
        unfold ScanInv at h ⊢
        simp only
        cases hst : st.1 with
        | none =>
          simp only [hst] at h
          refine ⟨trivial, ⟨by omega, hc.2⟩, done, [], rfl, ?_, by simp⟩
          intro w hw hcw; exact absurd hcw (h.2 w hw)
        | some b =>
          simp only [hst] at h
          obtain ⟨hb2, hbc, pre, post, hd, hpre, hpost⟩ := h
          refine ⟨trivial, ⟨by unfold Cand at hbc; omega, hc.2⟩, done, [], rfl, ?_, by simp⟩
          intro w hw hcw
          rw [hd] at hw
          rcases List.mem_append.mp hw with h1 | h1
          · have := hpre w h1 hcw; omega
          · rcases List.mem_cons.mp h1 with rfl | h2
            · omega
            · have := hpost w h2 hcw; omega
      · simp only [hc, ↓reduceIte]
        unfold ScanInv at h ⊢
        cases hst : st.1 with
        | none =>
          simp only [hst] at h ⊢
          refine ⟨h.1, ?_⟩
          intro w hw
          rcases List.mem_append.mp hw with h1 | h1
          · exact h.2 w h1
          · simp only [List.mem_singleton] at h1; subst h1
            unfold Cand; omega
        | some b =>
          simp only [hst] at h ⊢
          obtain ⟨hb2, hbc, pre, post, hd, hpre, hpost⟩ := h
          refine ⟨hb2, hbc, pre, post ++ [v], by simp [hd], hpre, ?_⟩
          intro w hw hcw
          rcases List.mem_append.mp hw with h1 | h1
          · exact hpost w h1 hcw
          · simp only [List.mem_singleton] at h1; subst h1
            unfold Cand at hcw; omega
    have := scan_inv one p1 rest (done ++ [v]) _ key
    simpa using this

/-- the index variant has the smallest p among candidates, and is the earliest among ties;
    `none` is returned exactly when there is no candidate -/
theorem nextIndex_spec (one p1 : Nat) (vars : List V) :
    match nextIndex one p1 vars with
    | none => ∀ v ∈ vars, ¬ Cand one p1 v
    | some b => Cand one p1 b ∧ ∃ pre post, vars = pre ++ b :: post ∧
        (∀ v ∈ pre, Cand one p1 v → b.p < v.p) ∧ (∀ v ∈ post, Cand one p1 v → b.p ≤ v.p) := by
  have h := scan_inv one p1 vars [] (none, one) (by simp [ScanInv])
  simp only [List.nil_append] at h
  unfold nextIndex
  unfold ScanInv at h
  cases hst : (vars.foldl (scanStep one p1) (none, one)).1 with
  | none => simp only [hst] at h; exact h.2
  | some b => simp only [hst] at h; exact ⟨h.2.1, h.2.2⟩

end NextIndex
