import HapModel.Model.Chunks
import HapModel.Model.Scan
/-!
# C07 / C08 model: what haptools computes around the genotype files

* the VCF cell codec of `GenotypesVCF.write` / `Genotypes._return_data` (`255 ↔ '.'`, phase flag),
* the PGEN cell codec of `GenotypesPLINK.write` / `read` (`255 ↔ -9`) together with the storage contract of the
  PGEN format as observed through pgenlib (an unphased heterozygote is unordered and comes back with ascending
  allele codes; a non-heterozygous call comes back flagged as phased),
* the restricted read (`region`, `samples`, `variants`, `max_variants`) as filters over the records of a file.
-/
namespace GenoIO

structure Cell where
  a : Nat
  b : Nat
  ph : Bool
deriving Repr, DecidableEq

def missing : Nat := 255

/-- VCF text form of a call: allele tokens (`none` = '.') and the separator (`true` = '|') -/
structure VcfGT where
  x : Option Nat
  y : Option Nat
  bar : Bool
deriving Repr, DecidableEq

def encodeVcf (c : Cell) : VcfGT :=
  ⟨if c.a = missing then none else some c.a, if c.b = missing then none else some c.b, c.ph⟩

/-- `cyvcf2`'s `-1` for '.' stored into `uint8` is 255 -/
def decodeVcf (g : VcfGT) : Cell := ⟨g.x.getD missing, g.y.getD missing, g.bar⟩

/-- a storable cell: allele indices below 254 (254/255 are the reserved missing codes) or the missing code 255 -/
def Valid (c : Cell) : Prop := (c.a < 254 ∨ c.a = missing) ∧ (c.b < 254 ∨ c.b = missing)

theorem vcf_roundtrip (c : Cell) : decodeVcf (encodeVcf c) = c := by
  unfold decodeVcf encodeVcf
  cases c with
  | mk a b ph =>
    simp only
    by_cases ha : a = missing <;> by_cases hb : b = missing <;> simp [ha, hb]

/-- what a PGEN file gives back for a stored call (pgenlib): unphased heterozygotes lose their order
    (ascending codes), only heterozygotes keep a phase bit -/
def pgenStore (c : Cell) : Cell :=
  if c.a = c.b then ⟨c.a, c.b, true⟩
  else if c.ph then c
  else ⟨min c.a c.b, max c.a c.b, false⟩

/-- equality up to what PGEN cannot represent: the order of an unphased heterozygote, the phase of a homozygote -/
def pgenEquiv (c d : Cell) : Prop :=
  (c.a = c.b ∧ d.a = c.a ∧ d.b = c.b) ∨
  (c.a ≠ c.b ∧ c.ph = true ∧ d = c) ∨
  (c.a ≠ c.b ∧ c.ph = false ∧ d.ph = false ∧ ((d.a = c.a ∧ d.b = c.b) ∨ (d.a = c.b ∧ d.b = c.a)))

theorem pgen_roundtrip (c : Cell) : pgenEquiv c (pgenStore c) := by
  unfold pgenEquiv pgenStore
  by_cases h : c.a = c.b
  · simp [h]
  · cases hp : c.ph with
    | true => simp [h, hp]
    | false =>
      right; right
      refine ⟨h, rfl, ?_, ?_⟩
      · simp [h, hp]
      · rcases Nat.lt_or_ge c.a c.b with hl | hl
        · left; simp only [h, ↓reduceIte, hp, Bool.false_eq_true]
          exact ⟨Nat.min_eq_left (by omega), Nat.max_eq_right (by omega)⟩
        · right; simp only [h, ↓reduceIte, hp, Bool.false_eq_true]
          exact ⟨Nat.min_eq_right (by omega), Nat.max_eq_left (by omega)⟩

/-- storing twice changes nothing: the read-back value is stable (chunk sizes, re-writes) -/
theorem pgenStore_idem (c : Cell) : pgenStore (pgenStore c) = pgenStore c := by
  unfold pgenStore
  by_cases h : c.a = c.b
  · simp [h]
  · cases hp : c.ph with
    | true => simp [h, hp]
    | false =>
      have hne : min c.a c.b ≠ max c.a c.b := by
        simp only [Nat.min_def, Nat.max_def]; split <;> omega
      simp only [h, ↓reduceIte, hp, Bool.false_eq_true, hne]
      have e1 : min (min c.a c.b) (max c.a c.b) = min c.a c.b := by omega
      have e2 : max (min c.a c.b) (max c.a c.b) = max c.a c.b := by omega
      rw [e1, e2]

/-- the allele count handed to pgenlib for a variant (after F07): the length of its allele list; every stored
    allele index of a valid matrix is below it -/
def alleleCt (alleles : List String) : Nat := alleles.length

/-! ### restricted reads (C08) -/

structure VRec where
  id : String
  chrom : String
  pos : Nat
deriving Repr, DecidableEq

/-- region `chrom`, `chrom:a-`, `chrom:a-b` on single-base records: contig equality and POS bounds -/
def inRegion (chrom : String) (lo hi : Option Nat) (v : VRec) : Bool :=
  (v.chrom == chrom) && (match lo with | none => true | some a => decide (a ≤ v.pos)) &&
  (match hi with | none => true | some b => decide (v.pos ≤ b))

/-- the variants a restricted read keeps, as positions in the file: region filter, then the ID filter, then the
    `max_variants` cut (`len(variants)` when an ID set is given) — in file order -/
def keptPred (region : Option (String × Option Nat × Option Nat)) (ids : Option (List String)) (v : VRec) : Bool :=
  (match region with | none => true | some r => inRegion r.1 r.2.1 r.2.2 v) &&
  (match ids with | none => true | some l => l.contains v.id)

def keptIdx (recs : List VRec) (region : Option (String × Option Nat × Option Nat))
    (ids : Option (List String)) : List Nat :=
  (recs.zipIdx.filter (fun p => keptPred region ids p.1)).map (·.2)

def keptVariants (recs : List VRec) (region : Option (String × Option Nat × Option Nat))
    (ids : Option (List String)) (maxV : Option Nat) : List Nat :=
  match ids, maxV with
  | some l, _ => (keptIdx recs region ids).take l.length
  | none, some m => (keptIdx recs region ids).take m
  | none, none => keptIdx recs region ids

/-- samples are always returned in file order, whatever order (or set) was requested -/
def keptSamples (fileSamples : List String) (req : Option (List String)) : List Nat :=
  (fileSamples.zipIdx.filter (fun p => match req with | none => true | some l => l.contains p.1)).map (·.2)

/-- restricted read = pick the kept rows and columns of the full matrix -/
def readRestricted {α} (full : List (List α)) (rows cols : List Nat) : List (List α) :=
  rows.filterMap (fun i => (full[i]?).map (fun r => cols.filterMap (fun j => r[j]?)))

/-- with unique IDs an ID set never selects more than `|ids|` variants: the preallocation cut drops nothing -/
theorem idcut_drops_nothing (recs : List VRec) (region) (l : List String) (hl : l.Nodup)
    (hu : (recs.map (·.id)).Nodup) :
    keptVariants recs region (some l) none =
      (recs.zipIdx.filter (fun p =>
        (match region with | none => true | some r => inRegion r.1 r.2.1 r.2.2 p.1) && l.contains p.1.id)).map (·.2) := by
  unfold keptVariants keptIdx keptPred
  simp only
  apply List.take_of_length_le
  rw [List.length_map]
  -- the kept records have pairwise distinct IDs, all in `l`
  let kept := recs.zipIdx.filter (fun p =>
        (match region with | none => true | some r => inRegion r.1 r.2.1 r.2.2 p.1) && l.contains p.1.id)
  have hsub : (kept.map (fun p => p.1.id)).Sublist (recs.map (·.id)) := by
    have h1 : (kept.map (fun p => p.1)).Sublist (recs.zipIdx.map (fun p => p.1)) :=
      List.Sublist.map _ List.filter_sublist
    have h2 : recs.zipIdx.map (fun p => p.1) = recs := by simp [List.zipIdx_map_fst]
    rw [h2] at h1
    have := List.Sublist.map (fun v : VRec => v.id) h1
    rw [List.map_map] at this
    exact this
  have hnd : (kept.map (fun p => p.1.id)).Nodup := hu.sublist hsub
  have hin : ∀ x ∈ kept.map (fun p => p.1.id), x ∈ l := by
    intro x hx
    simp only [List.mem_map] at hx
    obtain ⟨p, hp, rfl⟩ := hx
    have := (List.mem_filter.mp hp).2
    simp only [Bool.and_eq_true, List.contains_eq_mem, decide_eq_true_eq] at this
    exact this.2
  have := List.Nodup.length_le_of_subset hnd hin
  rw [List.length_map] at this
  exact this

end GenoIO
