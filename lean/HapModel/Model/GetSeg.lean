import HapModel.Model.Seg
/-! Prototype: get_segment (after fix F01) and the C01 kernel theorem -/
namespace Seg

/-- The `for prev_segment in prev_gen_segments[start_seg:]` loop.
Returns the copied tracts and the value of the loop variable after the loop
(`none` = the slice was empty, Python would raise UnboundLocalError). -/
def copyLoop (en c : Nat) : List Seg → List Seg × Option Seg
  | [] => ([], none)
  | s :: rest =>
    if s.endc ≥ en ∨ s.chrom > c then ([], some s)
    else
      let r := copyLoop en c rest
      (s :: r.1, match r.2 with | none => some s | some l => some l)

inductive Err | index | unbound
deriving Repr, DecidableEq

def getSegment (pop hap c st en : Nat) (cm : Int) (prev : Array (Array Seg)) : Except Err (List Seg) :=
  if pop ≠ 0 then .ok [⟨pop, c, en, cm⟩]
  else
    match prev[hap]? with
    | none => .error .index
    | some segs =>
      let i := startSegment st c segs
      let r := copyLoop en c (segs.toList.drop i)
      match r.2 with
      | none => .error .unbound
      | some l => .ok (r.1 ++ [⟨l.pop, c, en, cm⟩])

/-- ancestry label at a base-pair position: first tract on the chromosome ending at or after it -/
def labelAt (segs : List Seg) (c pos : Nat) : Option Nat :=
  (segs.find? (fun s => decide (s.chrom = c) && decide (pos ≤ s.endc))).map (·.pop)

theorem labelAt_append_of_none {a b : List Seg} {c pos : Nat}
    (h : ∀ s ∈ a, ¬ (s.chrom = c ∧ pos ≤ s.endc)) : labelAt (a ++ b) c pos = labelAt b c pos := by
  unfold labelAt
  rw [List.find?_append]
  have : a.find? (fun s => decide (s.chrom = c) && decide (pos ≤ s.endc)) = none := by
    apply List.find?_eq_none.mpr
    intro s hs
    have := h s hs
    simp only [Bool.and_eq_true, decide_eq_true_eq]
    exact this
  simp [this]

/-- what `copyLoop` does on a list all of whose elements are not `Before c st`,
    that is sorted, and that contains a tract on `c` reaching `en` -/
theorem copyLoop_spec (en c st : Nat) (hse : st ≤ en) :
    ∀ (l : List Seg),
      l.Pairwise (fun a b => a.chrom < b.chrom ∨ (a.chrom = b.chrom ∧ a.endc < b.endc)) →
      (∀ s ∈ l, ¬ Before c st s) →
      (∃ s ∈ l, s.chrom = c ∧ en ≤ s.endc) →
      ∃ brk, (copyLoop en c l).2 = some brk ∧ brk.chrom = c ∧ en ≤ brk.endc ∧
        (∀ s ∈ (copyLoop en c l).1, s.chrom = c ∧ st ≤ s.endc ∧ s.endc < en) ∧
        (∀ pos, st ≤ pos → pos ≤ en →
          labelAt l c pos = labelAt ((copyLoop en c l).1 ++ [⟨brk.pop, c, en, 0⟩]) c pos)
  | [], _, _, hex => by obtain ⟨s, hs, _⟩ := hex; simp at hs
  | s :: rest, hp, hnb, hex => by
    have hs_nb := hnb s (List.mem_cons_self ..)
    rw [List.pairwise_cons] at hp
    obtain ⟨hhead, htail⟩ := hp
    unfold copyLoop
    by_cases hbrk : s.endc ≥ en ∨ s.chrom > c
    · -- the loop breaks here: s must be on chrom c (otherwise nothing on c follows)
      simp only [hbrk, ↓reduceIte]
      have hsc : s.chrom = c ∧ en ≤ s.endc := by
        obtain ⟨x, hx, hxc, hxe⟩ := hex
        rcases List.mem_cons.mp hx with rfl | hxr
        · exact ⟨hxc, hxe⟩
        · have := hhead x hxr
          unfold Before at hs_nb
          constructor <;> omega
      refine ⟨s, rfl, hsc.1, hsc.2, by simp, ?_⟩
      intro pos hp1 hp2
      simp [labelAt, List.find?_cons, hsc.1, show pos ≤ s.endc by omega, hp2]
    · simp only [hbrk, ↓reduceIte]
      have hsc : s.chrom = c ∧ st ≤ s.endc ∧ s.endc < en := by
        unfold Before at hs_nb; omega
      have hex' : ∃ x ∈ rest, x.chrom = c ∧ en ≤ x.endc := by
        obtain ⟨x, hx, hxc, hxe⟩ := hex
        rcases List.mem_cons.mp hx with rfl | hxr
        · omega
        · exact ⟨x, hxr, hxc, hxe⟩
      obtain ⟨brk, hb1, hb2, hb3, hb4, hb5⟩ :=
        copyLoop_spec en c st hse rest htail (fun x hx => hnb x (List.mem_cons_of_mem _ hx)) hex'
      refine ⟨brk, by simp [hb1], hb2, hb3, ?_, ?_⟩
      · intro x hx
        rcases List.mem_cons.mp hx with rfl | hxr
        · exact hsc
        · exact hb4 x hxr
      · intro pos hp1 hp2
        have := hb5 pos hp1 hp2
        by_cases hpos : pos ≤ s.endc
        · simp [labelAt, List.find?_cons, hsc.1, hpos]
        · simp only [labelAt, List.cons_append, List.find?_cons, hsc.1, hpos, decide_true,
            decide_false, Bool.and_false] at this ⊢
          exact this

end Seg

namespace Seg

def SegLt (a b : Seg) : Prop := a.chrom < b.chrom ∨ (a.chrom = b.chrom ∧ a.endc < b.endc)

/-- well-formed parent: sorted by (chrom, end) strictly -/
def SortedL (l : List Seg) : Prop := l.Pairwise SegLt

theorem sorted_of_sortedL {segs : Array Seg} (h : SortedL segs.toList) : Sorted segs := by
  intro i j hi hj hij
  have := (List.pairwise_iff_getElem.mp h) i j (by simpa using hi) (by simpa using hj) hij
  simpa [SegLt] using this

/-- C01 kernel: copying `[st,en]` from an admixed parent reproduces the parental label at every position,
    and the copy consists of parental tract ends inside the interval plus one closing tract at `en`. -/
theorem getSegment_copy (prev : Array (Array Seg)) (hap c st en : Nat) (cm : Int) (segs : Array Seg)
    (hprev : prev[hap]? = some segs) (hs : SortedL segs.toList) (hse : st ≤ en)
    (hcov : ∃ s ∈ segs.toList, s.chrom = c ∧ en ≤ s.endc) :
    ∃ out, getSegment 0 hap c st en cm prev = .ok out ∧
      (∀ pos, st ≤ pos → pos ≤ en → labelAt out c pos = labelAt segs.toList c pos) ∧
      (∃ body lab, out = body ++ [⟨lab, c, en, cm⟩] ∧
          ∀ s ∈ body, s ∈ segs.toList ∧ s.chrom = c ∧ st ≤ s.endc ∧ s.endc < en) := by
  have hsA := sorted_of_sortedL hs
  have hpost := startSegment_post hsA c st
  -- the "not found" alternative is impossible because the parent covers `en ≥ st` on `c`
  rcases hpost with ⟨hi, hnb, hci, hbefore⟩ | ⟨_, hall⟩
  · have hget : getSegment 0 hap c st en cm prev =
        (let r := copyLoop en c (segs.toList.drop (startSegment st c segs))
         match r.2 with
         | none => .error .unbound
         | some l => .ok (r.1 ++ [⟨l.pop, c, en, cm⟩])) := by
      simp [getSegment, hprev]
    generalize startSegment st c segs = i at *
    -- split the list at i
    have hsplit : segs.toList = segs.toList.take i ++ segs.toList.drop i := (List.take_append_drop i _).symm
    have htake : ∀ s ∈ segs.toList.take i, Before c st s := by
      intro s hs'
      obtain ⟨k, hk, rfl⟩ := List.getElem_of_mem hs'
      have hk' : k < i := by
        have := hk; simp only [List.length_take] at this; omega
      have hk2 : k < segs.size := by omega
      have := hbefore k hk2 hk'
      simpa [List.getElem_take] using this
    have hdrop : ∀ s ∈ segs.toList.drop i, ¬ Before c st s := by
      intro s hs'
      obtain ⟨k, hk, rfl⟩ := List.getElem_of_mem hs'
      have hk2 : i + k < segs.size := by
        have := hk; simp only [List.length_drop, Array.length_toList] at this; omega
      have := not_before_up hsA hi hk2 (by omega) hnb
      simpa [List.getElem_drop] using this
    have hpw : (segs.toList.drop i).Pairwise SegLt := by
      have : (segs.toList.take i ++ segs.toList.drop i).Pairwise SegLt := by rw [← hsplit]; exact hs
      exact (List.pairwise_append.mp this).2.1
    have hex : ∃ s ∈ segs.toList.drop i, s.chrom = c ∧ en ≤ s.endc := by
      obtain ⟨s, hs', hsc, hse'⟩ := hcov
      rw [hsplit] at hs'
      rcases List.mem_append.mp hs' with h1 | h2
      · have := htake s h1; unfold Before at this; omega
      · exact ⟨s, h2, hsc, hse'⟩
    obtain ⟨brk, hb1, hb2, hb3, hb4, hb5⟩ := copyLoop_spec en c st hse _ hpw hdrop hex
    refine ⟨(copyLoop en c (segs.toList.drop i)).1 ++ [⟨brk.pop, c, en, cm⟩], ?_, ?_, ?_⟩
    · rw [hget]; simp [hb1]
    · intro pos hp1 hp2
      have h5 := hb5 pos hp1 hp2
      have hpre : labelAt segs.toList c pos = labelAt (segs.toList.drop i) c pos := by
        conv => lhs; rw [hsplit]
        apply labelAt_append_of_none
        intro s hs' hcon
        have := htake s hs'; unfold Before at this; omega
      rw [hpre, h5]
      -- the cM of the closing tract is irrelevant for the label
      simp only [labelAt, List.find?_append, List.find?_cons, List.find?_nil, hp2, decide_true,
        Bool.and_true, Bool.true_and]
      cases List.find? (fun s => decide (s.chrom = c) && decide (pos ≤ s.endc))
        (copyLoop en c (List.drop i segs.toList)).1 <;> simp
    · refine ⟨_, brk.pop, rfl, ?_⟩
      intro s hs'
      have h4 := hb4 s hs'
      refine ⟨?_, h4⟩
      -- copied tracts are members of the parent
      have hsub : ∀ (l : List Seg) (x : Seg), x ∈ (copyLoop en c l).1 → x ∈ l := by
        intro l
        induction l with
        | nil => intro x hx; simp [copyLoop] at hx
        | cons a t ih =>
          intro x hx
          unfold copyLoop at hx
          split at hx
          · simp at hx
          · rcases List.mem_cons.mp hx with rfl | hxt
            · exact List.mem_cons_self ..
            · exact List.mem_cons_of_mem _ (ih x hxt)
      exact List.mem_of_mem_drop (hsub _ s hs')
  · exfalso
    obtain ⟨s, hs', hsc, hse'⟩ := hcov
    obtain ⟨k, hk, rfl⟩ := List.getElem_of_mem hs'
    have hk2 : k < segs.size := by simpa using hk
    have := hall k hk2 (by simpa using hsc)
    have h2 : en ≤ segs[k].endc := by simpa using hse'
    omega

end Seg

namespace Seg
/-- the pre-fix behaviour: closing label taken from the last *copied* tract -/
def getSegmentOld (pop hap c st en : Nat) (cm : Int) (prev : Array (Array Seg)) : Except Err (List Seg) :=
  if pop ≠ 0 then .ok [⟨pop, c, en, cm⟩]
  else
    match prev[hap]? with
    | none => .error .index
    | some segs =>
      let i := startSegment st c segs
      let r := copyLoop en c (segs.toList.drop i)
      match r.2 with
      | none => .error .unbound
      | some l =>
        let outPop := match r.1.getLast? with | none => l.pop | some z => z.pop
        .ok (r.1 ++ [⟨outPop, c, en, cm⟩])

def MAX : Nat := 2147483647
def witnessParent : Array Seg := #[⟨1,1,100,10⟩, ⟨2,1,200,20⟩, ⟨1,1,MAX,30⟩]

/-- F01: on [0,150] the old code labels position 120 with 1 although the parent carries 2 there -/
theorem getSegmentOld_refuted :
    (match getSegmentOld 0 0 1 0 150 15 #[witnessParent] with
     | .ok out => labelAt out 1 120 | .error _ => none) = some 1 ∧
    labelAt witnessParent.toList 1 120 = some 2 := by
  have hstart : startSegment 0 1 witnessParent = 0 := by
    unfold startSegment
    rw [startLoop]; simp [witnessParent]
    rw [startLoop]; simp
  refine ⟨?_, by decide⟩
  have h0 : (#[witnessParent] : Array (Array Seg))[0]? = some witnessParent := rfl
  simp only [getSegmentOld, h0, hstart]
  decide

/-- non-vacuity of `getSegment_copy`: the same input satisfies its hypotheses -/
example : SortedL witnessParent.toList ∧ (0:Nat) ≤ 150 ∧
    ∃ s ∈ witnessParent.toList, s.chrom = 1 ∧ 150 ≤ s.endc := by
  refine ⟨by simp [SortedL, SegLt, witnessParent, MAX], by decide, ⟨⟨1,1,MAX,30⟩, by decide, by decide⟩⟩

end Seg
