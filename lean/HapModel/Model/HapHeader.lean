import HapModel.Model.HapFormat
/-!
# C06: "undeclared-but-required fields are reported"

`Haplotypes.check_header` keeps, per line type, the set of extra-field names its classes require
(`exp_extras[t] = set(cls.extras_order())`), discards a name from the set of *its own* line type for every
declaration line `#t<TAB>name<TAB>fmt<TAB>desc`, and reports (warning, or `ValueError` when `softly=False`) iff some
set is non-empty at the end, naming every `#t name` that is left.
-/
namespace HapFormat

/-- one header line acting on the expected sets: a declaration discards its name from the set of its line type only -/
def discardDecl (exp : T → List String) : HeaderItem → (T → List String)
  | .decl t name => fun t' => if t' = t then (exp t').filter (· != name) else exp t'
  | _ => exp

/-- `exp_extras` after the loop over the header lines -/
def expectedLeft (c : Classes) (lines : List Line) : T → List String :=
  (lines.map classify).foldl discardDecl (fun t => c.names t)

/-- the `#t name` pairs named in the report, by line type in the order H, V, R -/
def missing (c : Classes) (lines : List Line) : List (T × String) :=
  [T.H, T.V, T.R].flatMap (fun t => (expectedLeft c lines t).map (fun n => (t, n)))

/-- `if any(exp_extras.values())` -/
def reported (c : Classes) (lines : List Line) : Bool := !(missing c lines).isEmpty

/-- names declared for line type `t` by a list of classified header lines -/
def declNames (items : List HeaderItem) (t : T) : List String :=
  items.filterMap (fun i => match i with | .decl t' n => if t' = t then some n else none | _ => none)

theorem foldl_add_declared (items : List HeaderItem) : ∀ (h : Header) (t : T),
    (items.foldl Header.add h).declared t = h.declared t ++ declNames items t := by
  induction items with
  | nil => intro h t; simp [declNames]
  | cons i rest ih =>
    intro h t
    rw [List.foldl_cons, ih]
    cases i with
    | decl t' n =>
      by_cases ht : t = t'
      · subst ht; simp [Header.add, declNames, List.filterMap_cons]
      · have : ¬ t' = t := fun h => ht h.symm
        simp [Header.add, declNames, List.filterMap_cons, ht, this]
    | order t' ns => simp [Header.add, declNames, List.filterMap_cons]
    | version v => simp [Header.add, declNames, List.filterMap_cons]
    | comment => simp [Header.add, declNames, List.filterMap_cons]

theorem foldl_discard_mem (items : List HeaderItem) : ∀ (exp : T → List String) (t : T) (n : String),
    n ∈ (items.foldl discardDecl exp) t ↔ n ∈ exp t ∧ n ∉ declNames items t := by
  induction items with
  | nil => intro exp t n; simp [declNames]
  | cons i rest ih =>
    intro exp t n
    rw [List.foldl_cons, ih]
    cases i with
    | decl t' m =>
      by_cases ht : t = t'
      · subst ht
        simp only [discardDecl, ↓reduceIte, List.mem_filter, bne_iff_ne, ne_eq, declNames, List.filterMap_cons,
          List.mem_cons, not_or]
        constructor
        · rintro ⟨⟨a, b⟩, c⟩; exact ⟨a, b, c⟩
        · rintro ⟨a, b, c⟩; exact ⟨⟨a, b⟩, c⟩
      · have h2 : ¬ t' = t := fun h => ht h.symm
        simp [discardDecl, declNames, List.filterMap_cons, ht, h2]
    | order t' ns => simp [discardDecl, declNames, List.filterMap_cons]
    | version v => simp [discardDecl, declNames, List.filterMap_cons]
    | comment => simp [discardDecl, declNames, List.filterMap_cons]

/-- what is left for line type `t`: exactly the required names no line declares **for that line type** -/
theorem expectedLeft_spec (c : Classes) (lines : List Line) (t : T) (n : String) :
    n ∈ expectedLeft c lines t ↔ n ∈ c.names t ∧ n ∉ (checkHeader lines).declared t := by
  unfold expectedLeft checkHeader
  rw [foldl_discard_mem, foldl_add_declared]
  simp [Header.empty]

theorem mem_missing (c : Classes) (lines : List Line) (t : T) (n : String) :
    (t, n) ∈ missing c lines ↔ n ∈ c.names t ∧ n ∉ (checkHeader lines).declared t := by
  unfold missing
  simp only [List.mem_flatMap, List.mem_map, Prod.mk.injEq]
  constructor
  · rintro ⟨t', _, m, hm, rfl, rfl⟩
    exact (expectedLeft_spec c lines _ _).mp hm
  · intro h
    exact ⟨t, by cases t <;> simp, n, (expectedLeft_spec c lines t n).mpr h, rfl, rfl⟩

/-- **a report is issued iff some line type lacks the declaration of a name its class requires** – a declaration of
    the same name for another line type does not count -/
theorem reported_iff (c : Classes) (lines : List Line) :
    reported c lines = true ↔ ∃ t n, n ∈ c.names t ∧ n ∉ (checkHeader lines).declared t := by
  unfold reported
  rw [Bool.not_eq_true', List.isEmpty_eq_false_iff_exists_mem]
  constructor
  · rintro ⟨⟨t, n⟩, h⟩; exact ⟨t, n, (mem_missing c lines t n).mp h⟩
  · rintro ⟨t, n, h⟩; exact ⟨(t, n), (mem_missing c lines t n).mpr h⟩

end HapFormat
