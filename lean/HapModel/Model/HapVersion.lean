/-! C06: `Haplotypes.check_version` as decision logic on (major, minor, patch). -/
namespace HapVersion

inductive Verdict | unsupported | outdated | patched | current
deriving Repr, DecidableEq

/-- `o` = version found in the file, `e` = version the reader implements -/
def check (o e : Nat × Nat × Nat) : Verdict :=
  if o.1 ≠ e.1 ∨ o.2.1 > e.2.1 then .unsupported
  else if o.2.1 < e.2.1 then .outdated
  else if o.2.2 < e.2.2 then .patched
  else .current

end HapVersion
