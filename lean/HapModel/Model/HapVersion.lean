/-! C06: `Haplotypes.check_version` as decision logic on (major, minor, patch). -/
namespace HapVersion

inductive Verdict | unsupported | outdated | patched | current
deriving Repr, DecidableEq

/-- `o` = version found in the file, `e` = version the reader implements -/
def check (o e : Nat × Nat × Nat) : Verdict :=
  if o.1 ≠ e.1 ∨ o.2.1 > e.2.1 then .unsupported
  else if o.2.1 < e.2.1 then .outdated
  else if o.2.2 < e.2.2 then .patched
  else .current

end HapVersion

namespace HapVersion

/-- one component: a non-empty run of ASCII digits (what the format's version strings consist of); anything else is outside
    the model -/
def component (s : String) : Option Nat :=
  if s.isEmpty ∨ ¬ s.all Char.isDigit then none else s.toNat?

/-- `map(int, version.split("."))` unpacked into exactly three components -/
def parse (s : String) : Option (Nat × Nat × Nat) :=
  match s.splitOn "." with
  | [a, b, c] => do pure (← component a, ← component b, ← component c)
  | _ => none

/-- the verdict on a version string as found in a file, against the version string of the reader -/
def checkStr (o e : String) : Option Verdict := do
  pure (check (← parse o) (← parse e))

end HapVersion
