/-!
# C13 model: the quality-control checks of `Genotypes` / `GenotypesAncestry`

`check_missing`, `check_biallelic`, `check_phase`, `check_maf` over list matrices (rows = samples).
`np.nonzero` is modelled literally (row-major list of index pairs), `np.delete(a, idx)` by its contract
("remove the elements whose index occurs in `idx`", repeats allowed).  The ancestry array of
`GenotypesAncestry` is carried in parallel.
-/
namespace QC

structure Cell where
  a : Nat
  b : Nat
  ph : Bool          -- phase flag of the call (ignored when the object has no phase plane)
deriving Repr, DecidableEq, Inhabited

abbrev Mat := List (List Cell)

/-- keep the elements whose index is not dropped -/
def keepIdx {α} (l : List α) (drop : Nat → Bool) : List α :=
  (l.zipIdx.filter (fun p => !drop p.2)).map (·.1)

/-- contract of `np.delete(l, idx)` along the axis of `l` -/
def npDelete {α} (l : List α) (idx : List Nat) : List α := keepIdx l (fun i => idx.contains i)

/-- `np.nonzero(mask)` for `mask[i][j] = p (m[i][j])`: index pairs in row-major order -/
def nonzero (p : Cell → Bool) (m : Mat) : List (Nat × Nat) :=
  m.zipIdx.flatMap (fun ri => (ri.1.zipIdx.filter (fun cj => p cj.1)).map (fun cj => (ri.2, cj.2)))

structure G where
  samples : List String
  vars : List String
  data : Mat
  anc : Option (List (List (Nat × Nat)))
  hasPhase : Bool      -- the third plane is present
  isBool : Bool        -- dtype is bool (after `check_biallelic`)
  ancestryClass : Bool -- `GenotypesAncestry` (missing means `== 255` there, `>= 254` in the base class)
deriving Repr

inductive Out
  | ok (g : G)
  | raised (sample variant : Nat)    -- indices of the sample and variant named in the error message
deriving Repr

def isMissing (g : G) (c : Cell) : Bool :=
  !g.isBool && (if g.ancestryClass then (c.a == 255 || c.b == 255) else (decide (c.a ≥ 254) || decide (c.b ≥ 254)))

def isMulti (c : Cell) : Bool := decide (c.a > 1) || decide (c.b > 1)

def isUnphasedHet (g : G) (c : Cell) : Bool :=
  (c.a != c.b) && (g.isBool || (decide (c.a < 254) && decide (c.b < 254))) && !c.ph

/-- `check_missing(discard_also)` -/
def checkMissing (discard : Bool) (g : G) : Out :=
  match nonzero (isMissing g) g.data with
  | [] => .ok g
  | (i, j) :: rest =>
    if discard then
      let idx := ((i, j) :: rest).map (·.1)
      .ok { g with data := npDelete g.data idx, samples := npDelete g.samples idx,
                   anc := g.anc.map (fun a => npDelete a idx) }
    else .raised i j

def toBool (c : Cell) : Cell := { c with a := if c.a = 0 then 0 else 1, b := if c.b = 0 then 0 else 1 }

/-- `check_biallelic(discard_also)` (also converts the data to booleans) -/
def checkBiallelic (discard : Bool) (g : G) : Out :=
  if g.isBool then .ok g else
  match nonzero isMulti g.data with
  | [] => .ok { g with data := g.data.map (·.map toBool), isBool := true }
  | (i, j) :: rest =>
    if discard then
      let idx := ((i, j) :: rest).map (·.2)
      .ok { g with data := (g.data.map (fun r => npDelete r idx)).map (·.map toBool),
                   vars := npDelete g.vars idx,
                   anc := g.anc.map (fun a => a.map (fun r => npDelete r idx)),
                   isBool := true }
    else .raised i j

/-- `check_phase()` -/
def checkPhase (g : G) : Out :=
  if !g.hasPhase then .ok g else
  match nonzero (isUnphasedHet g) g.data with
  | [] => .ok { g with hasPhase := false }
  | (i, j) :: _ => .raised i j

/-- number of non-reference strands of variant `j` -/
def altCount (m : Mat) (j : Nat) : Nat :=
  (m.map (fun r => match r[j]? with
    | some c => (if c.a = 0 then 0 else 1) + (if c.b = 0 then 0 else 1)
    | none => 0)).sum

/-- `maf < thr` decided in integers: `min(k, 2n-k) / 2n < num/den`; with no samples numpy computes NaN and
    every comparison is false -/
def rare (n : Nat) (k : Nat) (num den : Nat) : Bool :=
  decide (0 < n) && decide (min k (2*n - k) * den < num * (2*n))

/-- `check_maf(threshold = num/den, discard_also, warn_only)`; returns the object and the list of
    minor-allele counts `(min(k,2n-k), 2n)` of the variants that remain -/
def checkMaf (num den : Nat) (discard warnOnly : Bool) (g : G) : Out × List (Nat × Nat) :=
  let n := g.data.length
  let ks := (List.range g.vars.length).map (altCount g.data)
  let mafs := ks.map (fun k => (min k (2*n - k), 2*n))
  let idx := (ks.zipIdx.filter (fun kj => rare n kj.1 num den)).map (·.2)
  match idx with
  | [] => (.ok g, mafs)
  | j :: _ =>
    if discard then
      (.ok { g with data := g.data.map (fun r => npDelete r idx), vars := npDelete g.vars idx,
                    anc := g.anc.map (fun a => a.map (fun r => npDelete r idx)) }, npDelete mafs idx)
    else if warnOnly then (.ok g, mafs)
    else (.raised 0 j, mafs)

/-! ## lemmas -/

theorem mem_nonzero (p : Cell → Bool) (m : Mat) (i j : Nat) :
    (i, j) ∈ nonzero p m ↔ ∃ r c, m[i]? = some r ∧ r[j]? = some c ∧ p c = true := by
  unfold nonzero
  simp only [List.mem_flatMap, List.mem_map, List.mem_filter, Prod.mk.injEq, Prod.exists]
  constructor
  · rintro ⟨r, i', hri, c, j', ⟨hcj, hp⟩, rfl, rfl⟩
    exact ⟨r, c, List.mem_zipIdx_iff_getElem?.mp hri, List.mem_zipIdx_iff_getElem?.mp hcj, hp⟩
  · rintro ⟨r, c, hr, hc, hp⟩
    exact ⟨r, i, List.mem_zipIdx_iff_getElem?.mpr hr, c, j, ⟨List.mem_zipIdx_iff_getElem?.mpr hc, hp⟩, rfl, rfl⟩

theorem nonzero_nil_iff (p : Cell → Bool) (m : Mat) :
    nonzero p m = [] ↔ ∀ r ∈ m, ∀ c ∈ r, p c = false := by
  constructor
  · intro h r hr c hc
    obtain ⟨i, hi, rfl⟩ := List.getElem_of_mem hr
    obtain ⟨j, hj, rfl⟩ := List.getElem_of_mem hc
    cases hp : p (m[i][j]) with
    | false => rfl
    | true =>
      have : (i, j) ∈ nonzero p m :=
        (mem_nonzero p m i j).mpr ⟨m[i], m[i][j], List.getElem?_eq_getElem hi, List.getElem?_eq_getElem hj, hp⟩
      rw [h] at this; cases this
  · intro h
    apply List.eq_nil_iff_forall_not_mem.mpr
    rintro ⟨i, j⟩ hm
    obtain ⟨r, c, hr, hc, hp⟩ := (mem_nonzero p m i j).mp hm
    have := h r (List.mem_of_getElem? hr) c (List.mem_of_getElem? hc)
    rw [this] at hp; cases hp

theorem mem_keepIdx {α} (l : List α) (drop : Nat → Bool) (x : α) :
    x ∈ keepIdx l drop ↔ ∃ i, l[i]? = some x ∧ drop i = false := by
  unfold keepIdx
  simp only [List.mem_map, List.mem_filter, Prod.exists, exists_and_right, exists_eq_right,
    Bool.not_eq_eq_eq_not, Bool.not_true]
  constructor
  · rintro ⟨i, hm, hd⟩; exact ⟨i, List.mem_zipIdx_iff_getElem?.mp hm, hd⟩
  · rintro ⟨i, hm, hd⟩; exact ⟨i, List.mem_zipIdx_iff_getElem?.mpr hm, hd⟩

/-- `keepIdx` is an order-preserving selection: it is the sublist of the kept positions -/
theorem keepIdx_sublist {α} (l : List α) (drop : Nat → Bool) : (keepIdx l drop).Sublist l := by
  unfold keepIdx
  have h1 : ((l.zipIdx.filter (fun p => !drop p.2)).map (·.1)).Sublist (l.zipIdx.map (·.1)) :=
    List.Sublist.map _ List.filter_sublist
  have h2 : l.zipIdx.map (·.1) = l := by
    simp [List.zipIdx_map_fst]
  rw [h2] at h1; exact h1

theorem keepIdx_none {α} (l : List α) (drop : Nat → Bool) (h : ∀ i, i < l.length → drop i = false) :
    keepIdx l drop = l := by
  unfold keepIdx
  have : l.zipIdx.filter (fun p => !drop p.2) = l.zipIdx := by
    apply List.filter_eq_self.mpr
    intro p hp
    obtain ⟨x, i⟩ := p
    have := List.mem_zipIdx_iff_getElem?.mp hp
    have hi : i < l.length := by
      rcases Nat.lt_or_ge i l.length with h' | h'
      · exact h'
      · simp at this; rw [List.getElem?_eq_none h'] at this; cases this
    simp [h i hi]
  rw [this]; simp [List.zipIdx_map_fst]

theorem keepIdx_cons {γ} (x : γ) (xs : List γ) (drop : Nat → Bool) : keepIdx (x :: xs) drop =
    (if drop 0 then [] else [x]) ++ keepIdx xs (fun i => drop (i+1)) := by
  unfold keepIdx
  rw [List.zipIdx_cons]
  simp only [List.filter_cons, Nat.zero_add]
  have hshift : (xs.zipIdx 1).filter (fun p => !drop p.2) =
      (xs.zipIdx.filter (fun p => !drop (p.2 + 1))).map (fun p => (p.1, p.2 + 1)) := by
    rw [show xs.zipIdx 1 = xs.zipIdx.map (fun p => (p.1, p.2 + 1)) from by
      rw [List.zipIdx_succ]]
    rw [List.filter_map]; rfl
  cases hd : drop 0 <;> simp [hshift, List.map_map, Function.comp_def]

/-- two parallel lists filtered with the same index set stay aligned -/
theorem keepIdx_zip {α β} (l : List α) (l' : List β) (drop : Nat → Bool) (h : l.length = l'.length) :
    keepIdx (l.zip l') drop = (keepIdx l drop).zip (keepIdx l' drop) := by
  induction l generalizing l' drop with
  | nil => cases l' <;> simp [keepIdx]
  | cons a t ih =>
    cases l' with
    | nil => simp at h
    | cons b t' =>
      have ht : t.length = t'.length := by simpa using h
      rw [List.zip_cons_cons, keepIdx_cons, keepIdx_cons, keepIdx_cons, ih t' (fun i => drop (i+1)) ht]
      cases hd : drop 0 <;> simp

/-! ## the checks -/

def rowHas (p : Cell → Bool) (m : Mat) (i : Nat) : Prop := ∃ r c, m[i]? = some r ∧ c ∈ r ∧ p c = true
def colHas (p : Cell → Bool) (m : Mat) (j : Nat) : Prop := ∃ r c, r ∈ m ∧ r[j]? = some c ∧ p c = true

theorem contains_fst_nonzero (p : Cell → Bool) (m : Mat) (i : Nat) :
    ((nonzero p m).map (·.1)).contains i = true ↔ rowHas p m i := by
  simp only [List.contains_eq_mem, List.mem_map, Prod.exists, exists_and_right, exists_eq_right,
    decide_eq_true_eq]
  constructor
  · rintro ⟨j, hm⟩
    obtain ⟨r, c, hr, hc, hp⟩ := (mem_nonzero p m i j).mp hm
    exact ⟨r, c, hr, List.mem_of_getElem? hc, hp⟩
  · rintro ⟨r, c, hr, hc, hp⟩
    obtain ⟨j, hj, rfl⟩ := List.getElem_of_mem hc
    exact ⟨j, (mem_nonzero p m i j).mpr ⟨r, r[j], hr, List.getElem?_eq_getElem hj, hp⟩⟩

theorem contains_snd_nonzero (p : Cell → Bool) (m : Mat) (j : Nat) :
    ((nonzero p m).map (·.2)).contains j = true ↔ colHas p m j := by
  simp only [List.contains_eq_mem, List.mem_map, Prod.exists, exists_eq_right, decide_eq_true_eq]
  constructor
  · rintro ⟨i, hm⟩
    obtain ⟨r, c, hr, hc, hp⟩ := (mem_nonzero p m i j).mp hm
    exact ⟨r, c, List.mem_of_getElem? hr, hc, hp⟩
  · rintro ⟨r, c, hr, hc, hp⟩
    obtain ⟨i, hi, rfl⟩ := List.getElem_of_mem hr
    exact ⟨i, (mem_nonzero p m i j).mpr ⟨m[i], c, List.getElem?_eq_getElem hi, hc, hp⟩⟩

/-- shape of a raise/no-raise decision shared by the three `np.nonzero`-based checks -/
theorem nonzero_cases (p : Cell → Bool) (m : Mat) :
    (nonzero p m = [] ∧ ∀ r ∈ m, ∀ c ∈ r, p c = false) ∨
    (∃ i j rest, nonzero p m = (i, j) :: rest ∧ ∃ r c, m[i]? = some r ∧ r[j]? = some c ∧ p c = true) := by
  cases h : nonzero p m with
  | nil => exact .inl ⟨rfl, (nonzero_nil_iff p m).mp h⟩
  | cons x rest =>
    obtain ⟨i, j⟩ := x
    refine .inr ⟨i, j, rest, rfl, ?_⟩
    exact (mem_nonzero p m i j).mp (by rw [h]; exact List.mem_cons_self)

/-! ### check_missing -/

theorem checkMissing_raises_iff (g : G) :
    (∃ i j, checkMissing false g = .raised i j) ↔ ∃ r ∈ g.data, ∃ c ∈ r, isMissing g c = true := by
  unfold checkMissing
  rcases nonzero_cases (isMissing g) g.data with ⟨h, hall⟩ | ⟨i, j, rest, h, r, c, hr, hc, hp⟩
  · rw [h]; simp only [false_iff, reduceCtorEq, exists_false, not_exists, not_and]
    intro r hr c hc hp; rw [hall r hr c hc] at hp; cases hp
  · rw [h]; simp only [Bool.false_eq_true, ↓reduceIte, Out.raised.injEq, exists_and_left, exists_eq',
      and_true, true_iff]
    exact ⟨r, List.mem_of_getElem? hr, c, List.mem_of_getElem? hc, hp⟩

theorem checkMissing_names_offender (g : G) (i j : Nat) (h : checkMissing false g = .raised i j) :
    ∃ r c, g.data[i]? = some r ∧ r[j]? = some c ∧ isMissing g c = true := by
  unfold checkMissing at h
  rcases nonzero_cases (isMissing g) g.data with ⟨h0, _⟩ | ⟨i', j', rest, h0, hex⟩
  · rw [h0] at h; cases h
  · rw [h0] at h; simp only [Bool.false_eq_true, ↓reduceIte, Out.raised.injEq] at h
    obtain ⟨rfl, rfl⟩ := h; exact hex

/-- discard mode: exactly the samples with a missing allele are removed, from the data, the sample list
    and the ancestry array alike; variants are untouched -/
theorem checkMissing_discard (g : G) :
    ∃ g' drop, checkMissing true g = .ok g' ∧ (∀ i, drop i = true ↔ rowHas (isMissing g) g.data i) ∧
      g'.data = keepIdx g.data drop ∧ g'.samples = keepIdx g.samples drop ∧
      g'.anc = g.anc.map (fun a => keepIdx a drop) ∧ g'.vars = g.vars ∧
      g'.isBool = g.isBool ∧ g'.hasPhase = g.hasPhase ∧ g'.ancestryClass = g.ancestryClass := by
  unfold checkMissing
  rcases nonzero_cases (isMissing g) g.data with ⟨h0, hall⟩ | ⟨i, j, rest, h0, _⟩
  · rw [h0]
    refine ⟨g, fun _ => false, rfl, fun i => ?_, ?_, ?_, ?_, rfl, rfl, rfl, rfl⟩
    · simp only [Bool.false_eq_true, false_iff]
      rintro ⟨r, c, hr, hc, hp⟩
      rw [hall r (List.mem_of_getElem? hr) c hc] at hp; cases hp
    · exact (keepIdx_none _ _ (fun _ _ => rfl)).symm
    · exact (keepIdx_none _ _ (fun _ _ => rfl)).symm
    · cases g.anc with
      | none => rfl
      | some a => simp only [Option.map_some]; rw [keepIdx_none _ _ (fun _ _ => rfl)]
  · rw [h0]; simp only [↓reduceIte]
    refine ⟨_, fun i' => (((i, j) :: rest).map (·.1)).contains i', rfl, ?_, rfl, rfl, rfl, rfl, rfl, rfl, rfl⟩
    intro i'; rw [← h0]; exact contains_fst_nonzero _ _ _

/-- postcondition of discard mode: no missing allele is left -/
theorem checkMissing_discard_post (g g' : G) (h : checkMissing true g = .ok g') :
    ∀ r ∈ g'.data, ∀ c ∈ r, isMissing g' c = false := by
  obtain ⟨g'', drop, h1, hdrop, hdata, _, _, _, hb, _, hac⟩ := checkMissing_discard g
  rw [h] at h1; cases h1
  intro r hr c hc
  rw [hdata] at hr
  obtain ⟨i, hi, hd⟩ := (mem_keepIdx _ _ _).mp hr
  cases hp : isMissing g' c with
  | false => rfl
  | true =>
    have hp' : isMissing g c = true := by simpa [isMissing, hb, hac] using hp
    have : drop i = true := (hdrop i).mpr ⟨r, c, hi, hc, hp'⟩
    rw [this] at hd; cases hd

/-! ### check_biallelic -/

theorem checkBiallelic_raises_iff (g : G) (hb : g.isBool = false) :
    (∃ i j, checkBiallelic false g = .raised i j) ↔ ∃ r ∈ g.data, ∃ c ∈ r, isMulti c = true := by
  unfold checkBiallelic
  simp only [hb, Bool.false_eq_true, ↓reduceIte]
  rcases nonzero_cases isMulti g.data with ⟨h, hall⟩ | ⟨i, j, rest, h, r, c, hr, hc, hp⟩
  · rw [h]; simp only [false_iff, reduceCtorEq, exists_false, not_exists, not_and]
    intro r hr c hc hp; rw [hall r hr c hc] at hp; cases hp
  · rw [h]; simp only [Out.raised.injEq, exists_and_left, exists_eq', and_true, true_iff]
    exact ⟨r, List.mem_of_getElem? hr, c, List.mem_of_getElem? hc, hp⟩

theorem checkBiallelic_names_offender (g : G) (i j : Nat) (h : checkBiallelic false g = .raised i j) :
    ∃ r c, g.data[i]? = some r ∧ r[j]? = some c ∧ isMulti c = true := by
  unfold checkBiallelic at h
  cases hb : g.isBool with
  | true => simp [hb] at h
  | false =>
    simp only [hb, Bool.false_eq_true, ↓reduceIte] at h
    rcases nonzero_cases isMulti g.data with ⟨h0, _⟩ | ⟨i', j', rest, h0, hex⟩
    · rw [h0] at h; cases h
    · rw [h0] at h; simp only [Out.raised.injEq] at h
      obtain ⟨rfl, rfl⟩ := h; exact hex

/-- discard mode: exactly the variants with an allele index above 1 are removed — from every data row,
    from the variant list and from every ancestry row — and the remaining data become booleans -/
theorem checkBiallelic_discard (g : G) (hb : g.isBool = false) :
    ∃ g' drop, checkBiallelic true g = .ok g' ∧ (∀ j, drop j = true ↔ colHas isMulti g.data j) ∧
      g'.data = (g.data.map (fun r => keepIdx r drop)).map (·.map toBool) ∧
      g'.vars = keepIdx g.vars drop ∧
      g'.anc = g.anc.map (fun a => a.map (fun r => keepIdx r drop)) ∧
      g'.samples = g.samples ∧ g'.isBool = true := by
  unfold checkBiallelic
  simp only [hb, Bool.false_eq_true, ↓reduceIte]
  rcases nonzero_cases isMulti g.data with ⟨h0, hall⟩ | ⟨i, j, rest, h0, _⟩
  · rw [h0]
    refine ⟨_, fun _ => false, rfl, fun j => ?_, ?_, ?_, ?_, rfl, rfl⟩
    · simp only [Bool.false_eq_true, false_iff]
      rintro ⟨r, c, hr, hc, hp⟩
      rw [hall r hr c (List.mem_of_getElem? hc)] at hp; cases hp
    · simp only [keepIdx_none _ _ (fun _ _ => rfl), List.map_id']
    · exact (keepIdx_none _ _ (fun _ _ => rfl)).symm
    · cases g.anc with
      | none => rfl
      | some a => simp only [Option.map_some, keepIdx_none _ _ (fun _ _ => rfl), List.map_id']
  · rw [h0]; simp only [↓reduceIte]
    refine ⟨_, fun j' => (((i, j) :: rest).map (·.2)).contains j', rfl, ?_, rfl, rfl, rfl, rfl, rfl⟩
    intro j'; rw [← h0]; exact contains_snd_nonzero _ _ _

/-- postcondition (both modes, when no error is raised): every allele is 0 or 1 -/
theorem toBool_le_one (c : Cell) : (toBool c).a ≤ 1 ∧ (toBool c).b ≤ 1 := by
  unfold toBool; constructor <;> (simp only; split <;> omega)

/-! ### check_phase -/

theorem checkPhase_raises_iff (g : G) (hp : g.hasPhase = true) :
    (∃ i j, checkPhase g = .raised i j) ↔ ∃ r ∈ g.data, ∃ c ∈ r, isUnphasedHet g c = true := by
  unfold checkPhase
  simp only [hp, Bool.not_true, Bool.false_eq_true, ↓reduceIte]
  rcases nonzero_cases (isUnphasedHet g) g.data with ⟨h, hall⟩ | ⟨i, j, rest, h, r, c, hr, hc, hpc⟩
  · rw [h]; simp only [false_iff, reduceCtorEq, exists_false, not_exists, not_and]
    intro r hr c hc hp'; rw [hall r hr c hc] at hp'; cases hp'
  · rw [h]; simp only [Out.raised.injEq, exists_and_left, exists_eq', and_true, true_iff]
    exact ⟨r, List.mem_of_getElem? hr, c, List.mem_of_getElem? hc, hpc⟩

theorem checkPhase_names_offender (g : G) (i j : Nat) (h : checkPhase g = .raised i j) :
    ∃ r c, g.data[i]? = some r ∧ r[j]? = some c ∧ isUnphasedHet g c = true := by
  unfold checkPhase at h
  cases hp : g.hasPhase with
  | false => simp [hp] at h
  | true =>
    simp only [hp, Bool.not_true, Bool.false_eq_true, ↓reduceIte] at h
    rcases nonzero_cases (isUnphasedHet g) g.data with ⟨h0, _⟩ | ⟨i', j', rest, h0, hex⟩
    · rw [h0] at h; cases h
    · rw [h0] at h; simp only [Out.raised.injEq] at h
      obtain ⟨rfl, rfl⟩ := h; exact hex

/-- otherwise only the phase plane is stripped: samples, variants, alleles untouched -/
theorem checkPhase_strips (g : G) (hp : g.hasPhase = true)
    (hall : ∀ r ∈ g.data, ∀ c ∈ r, isUnphasedHet g c = false) :
    checkPhase g = .ok { g with hasPhase := false } := by
  unfold checkPhase
  simp only [hp, Bool.not_true, Bool.false_eq_true, ↓reduceIte]
  rw [(nonzero_nil_iff _ _).mpr hall]

/-! ### check_maf -/

/-- the reported frequencies: `min(k, 2n-k)/2n` with `k` the number of non-reference strands -/
theorem checkMaf_formula (num den : Nat) (warnOnly : Bool) (g : G) :
    (checkMaf num den false warnOnly g).2 =
      (List.range g.vars.length).map (fun j => (min (altCount g.data j) (2*g.data.length - altCount g.data j), 2*g.data.length)) := by
  unfold checkMaf
  simp only [List.map_map, Function.comp_def]
  split
  · rfl
  · simp only [Bool.false_eq_true, ↓reduceIte]; split <;> rfl

/-- a variant index is "rare" iff its minor-allele frequency is below the threshold -/
def rareIdx (num den : Nat) (g : G) (j : Nat) : Prop :=
  j < g.vars.length ∧ rare g.data.length (altCount g.data j) num den = true

theorem mem_rare_list (num den : Nat) (g : G) (j : Nat) :
    j ∈ ((((List.range g.vars.length).map (altCount g.data)).zipIdx.filter
        (fun kj => rare g.data.length kj.1 num den)).map (·.2)) ↔ rareIdx num den g j := by
  simp only [List.mem_map, List.mem_filter, Prod.exists, exists_and_right, exists_eq_right, rareIdx]
  constructor
  · rintro ⟨k, hm, hr⟩
    have := List.mem_zipIdx_iff_getElem?.mp hm
    simp only [List.getElem?_map, List.getElem?_range, Option.map_eq_some_iff] at this
    obtain ⟨j', hj', rfl⟩ := this
    by_cases hlt : j < g.vars.length
    · rw [List.getElem?_range hlt] at hj'; cases hj'; exact ⟨hlt, hr⟩
    · rw [List.getElem?_eq_none (by simpa using hlt)] at hj'; cases hj'
  · rintro ⟨hlt, hr⟩
    refine ⟨altCount g.data j, List.mem_zipIdx_iff_getElem?.mpr ?_, hr⟩
    simp [List.getElem?_map, List.getElem?_range hlt]

theorem checkMaf_raises_iff (num den : Nat) (g : G) :
    (∃ i j, (checkMaf num den false false g).1 = .raised i j) ↔ ∃ j, rareIdx num den g j := by
  unfold checkMaf
  simp only
  cases hidx : ((((List.range g.vars.length).map (altCount g.data)).zipIdx.filter
        (fun kj => rare g.data.length kj.1 num den)).map (·.2)) with
  | nil =>
    simp only [reduceCtorEq, exists_false, false_iff, not_exists]
    intro j hj
    have := (mem_rare_list num den g j).mpr hj
    rw [hidx] at this; cases this
  | cons j rest =>
    simp only [Bool.false_eq_true, ↓reduceIte, Out.raised.injEq, exists_and_left, exists_eq',
      and_true, true_iff]
    exact ⟨j, (mem_rare_list num den g j).mp (by rw [hidx]; exact List.mem_cons_self)⟩

theorem checkMaf_names_offender (num den : Nat) (g : G) (i j : Nat)
    (h : (checkMaf num den false false g).1 = .raised i j) : rareIdx num den g j := by
  unfold checkMaf at h
  simp only at h
  cases hidx : ((((List.range g.vars.length).map (altCount g.data)).zipIdx.filter
        (fun kj => rare g.data.length kj.1 num den)).map (·.2)) with
  | nil => rw [hidx] at h; cases h
  | cons j' rest =>
    rw [hidx] at h
    simp only [Bool.false_eq_true, ↓reduceIte, Out.raised.injEq] at h
    obtain ⟨_, rfl⟩ := h
    exact (mem_rare_list num den g j').mp (by rw [hidx]; exact List.mem_cons_self)

/-- discard mode removes exactly the variants below the threshold from data, variants, the returned
    frequencies and the ancestry array -/
theorem checkMaf_discard (num den : Nat) (warnOnly : Bool) (g : G) :
    ∃ g' drop, (checkMaf num den true warnOnly g).1 = .ok g' ∧
      (∀ j, drop j = true ↔ rareIdx num den g j) ∧
      g'.data = g.data.map (fun r => keepIdx r drop) ∧ g'.vars = keepIdx g.vars drop ∧
      g'.anc = g.anc.map (fun a => a.map (fun r => keepIdx r drop)) ∧ g'.samples = g.samples := by
  unfold checkMaf
  simp only
  cases hidx : ((((List.range g.vars.length).map (altCount g.data)).zipIdx.filter
        (fun kj => rare g.data.length kj.1 num den)).map (·.2)) with
  | nil =>
    refine ⟨g, fun _ => false, rfl, fun j => ?_, ?_, ?_, ?_, rfl⟩
    · simp only [Bool.false_eq_true, false_iff]; intro hj
      have := (mem_rare_list num den g j).mpr hj
      rw [hidx] at this; cases this
    · simp only [keepIdx_none _ _ (fun _ _ => rfl), List.map_id']
    · exact (keepIdx_none _ _ (fun _ _ => rfl)).symm
    · cases g.anc with
      | none => rfl
      | some a => simp only [Option.map_some, keepIdx_none _ _ (fun _ _ => rfl), List.map_id']
  | cons j rest =>
    simp only [↓reduceIte]
    refine ⟨_, fun j' => (j :: rest).contains j', rfl, ?_, rfl, rfl, rfl, rfl⟩
    intro j'
    rw [← hidx]
    simp only [List.contains_eq_mem, decide_eq_true_eq]
    exact mem_rare_list num den g j'

end QC
