/-! Prototype C13: `check_missing` (base class; a call is missing when an allele is ≥ 254). -/
namespace QC

abbrev Cell := Nat × Nat            -- the two alleles (phase plane not involved here)
abbrev Row := List Cell             -- one sample
def cellMissing (c : Cell) : Bool := decide (c.1 ≥ 254) || decide (c.2 ≥ 254)
def rowMissing (r : Row) : Bool := r.any cellMissing

/-- variant indices of the missing cells of one row -/
def rowHits (j : Nat) : Row → List Nat
  | [] => []
  | c :: t => if cellMissing c then j :: rowHits (j+1) t else rowHits (j+1) t

/-- `np.nonzero(missing)`: (sample, variant) pairs in row-major order, rows numbered from `k` -/
def nonzeroFrom (k : Nat) : List Row → List (Nat × Nat)
  | [] => []
  | r :: rest => (rowHits 0 r).map (fun j => (k, j)) ++ nonzeroFrom (k+1) rest

/-- `np.delete(a, idx, axis=0)` (repeated indices allowed), elements numbered from `k` -/
def npDeleteFrom {α} (k : Nat) : List α → List Nat → List α
  | [], _ => []
  | a :: t, idx => if idx.contains k then npDeleteFrom (k+1) t idx else a :: npDeleteFrom (k+1) t idx

inductive Res
  | ok (samples : List String) (rows : List Row)
  | raised (sample variant : Nat)        -- indices named in the error message
deriving Repr

def checkMissing (discard : Bool) (samples : List String) (rows : List Row) : Res :=
  match nonzeroFrom 0 rows with
  | [] => .ok samples rows
  | (i, j) :: rest =>
    if discard then
      let idx := ((i, j) :: rest).map (·.1)
      .ok (npDeleteFrom 0 samples idx) (npDeleteFrom 0 rows idx)
    else .raised i j

theorem rowHits_nil_iff (r : Row) (j : Nat) : rowHits j r = [] ↔ rowMissing r = false := by
  induction r generalizing j with
  | nil => simp [rowHits, rowMissing]
  | cons c t ih =>
    unfold rowHits rowMissing
    by_cases hc : cellMissing c
    · simp [hc]
    · simp only [hc, Bool.false_eq_true, ↓reduceIte, List.any_cons, Bool.false_or]
      exact ih (j+1)

theorem nonzeroFrom_ge (k : Nat) (rows : List Row) : ∀ p ∈ nonzeroFrom k rows, k ≤ p.1 := by
  induction rows generalizing k with
  | nil => simp [nonzeroFrom]
  | cons r rest ih =>
    intro p hp
    simp only [nonzeroFrom, List.mem_append, List.mem_map] at hp
    rcases hp with ⟨j, _, rfl⟩ | h
    · exact Nat.le_refl _
    · have := ih (k+1) p h; omega

/-- discard mode removes exactly the samples with a missing allele and keeps the others in order;
    the same index list is applied to any parallel array (`samples`, and the ancestry array of the subclass) -/
theorem delete_eq_filter {α} (k : Nat) : ∀ (rows : List Row) (par : List α) (pre : List Nat),
    par.length = rows.length → (∀ i ∈ pre, i < k) →
    npDeleteFrom k par (pre ++ (nonzeroFrom k rows).map (·.1)) =
      ((par.zip rows).filter (fun pr => !rowMissing pr.2)).map (·.1)
  | [], [], _, _, _ => by simp [npDeleteFrom]
  | [], _ :: _, _, hl, _ => by simp at hl
  | _ :: _, [], _, hl, _ => by simp at hl
  | r :: rest, a :: par, pre, hl, hpre => by
    have hl' : par.length = rest.length := by simpa using hl
    have hcont : (pre ++ (nonzeroFrom k (r :: rest)).map (·.1)).contains k = rowMissing r := by
      simp only [nonzeroFrom, List.map_append, List.map_map]
      cases hm : rowMissing r with
      | false =>
        have := (rowHits_nil_iff r 0).mpr hm
        rw [this]
        simp only [List.map_nil, List.nil_append, List.contains_eq_mem, decide_eq_false_iff_not,
          List.mem_append, List.mem_map, not_or, not_exists, not_and]
        refine ⟨fun h => by have := hpre k h; omega, ?_⟩
        intro p hp heq
        have := nonzeroFrom_ge (k+1) rest p hp
        omega
      | true =>
        have hne : rowHits 0 r ≠ [] := fun h => by
          have := (rowHits_nil_iff r 0).mp h; rw [hm] at this; cases this
        obtain ⟨j, t, hjt⟩ := List.exists_cons_of_ne_nil hne
        simp [hjt]
    unfold npDeleteFrom
    rw [hcont]
    -- recursive call: move this row's own entries into the prefix
    have hrec := delete_eq_filter (k+1) rest par (pre ++ ((rowHits 0 r).map (fun j => (k, j))).map (·.1)) hl'
      (by
        intro i hi
        rcases List.mem_append.mp hi with h | h
        · have := hpre i h; omega
        · simp only [List.map_map, List.mem_map, Function.comp] at h
          obtain ⟨_, _, rfl⟩ := h; omega)
    have hidx : pre ++ (nonzeroFrom k (r :: rest)).map (·.1) =
        (pre ++ ((rowHits 0 r).map (fun j => (k, j))).map (·.1)) ++ (nonzeroFrom (k+1) rest).map (·.1) := by
      simp [nonzeroFrom, List.append_assoc]
    rw [hidx, hrec]
    cases hm : rowMissing r <;> simp [hm]

theorem zip_self_filter {α} (p : α → Bool) : ∀ (l : List α),
    ((l.zip l).filter (fun pr => p pr.2)).map (·.1) = l.filter p
  | [] => by simp
  | a :: t => by
    have ih := zip_self_filter p t
    cases hp : p a <;> simp [List.filter_cons, hp, ih]

theorem discard_exact (samples : List String) (rows : List Row) (h : samples.length = rows.length) :
    ∃ s' r', checkMissing true samples rows = .ok s' r' ∧
      r' = rows.filter (fun r => !rowMissing r) ∧
      s' = ((samples.zip rows).filter (fun pr => !rowMissing pr.2)).map (·.1) := by
  unfold checkMissing
  cases hnz : nonzeroFrom 0 rows with
  | nil =>
    -- nothing is missing: nothing is removed
    have hnone : ∀ r ∈ rows, rowMissing r = false := by
      have : ∀ (k : Nat) (rows : List Row), nonzeroFrom k rows = [] → ∀ r ∈ rows, rowMissing r = false := by
        intro k rows
        induction rows generalizing k with
        | nil => simp
        | cons r rest ih =>
          intro hnil x hx
          simp only [nonzeroFrom, List.append_eq_nil_iff, List.map_eq_nil_iff] at hnil
          rcases List.mem_cons.mp hx with rfl | hx'
          · exact (rowHits_nil_iff _ 0).mp hnil.1
          · exact ih (k+1) hnil.2 x hx'
      exact this 0 rows hnz
    refine ⟨samples, rows, rfl, ?_, ?_⟩
    · exact (List.filter_eq_self.mpr (fun r hr => by simp [hnone r hr])).symm
    · have : (samples.zip rows).filter (fun pr => !rowMissing pr.2) = samples.zip rows :=
        List.filter_eq_self.mpr (fun pr hpr => by simp [hnone pr.2 (List.of_mem_zip hpr).2])
      rw [this, List.map_fst_zip (by omega)]
  | cons p rest =>
    obtain ⟨i, j⟩ := p
    simp only [↓reduceIte]
    have h1 := delete_eq_filter (α := String) 0 rows samples [] h (by simp)
    have h2 := delete_eq_filter (α := Row) 0 rows rows [] rfl (by simp)
    simp only [List.nil_append, hnz] at h1 h2
    refine ⟨_, _, rfl, ?_, h1⟩
    rw [h2]
    exact zip_self_filter (fun r => !rowMissing r) rows

end QC
