import HapModel.Model.Pheno
/-!
# C09 model: the decision logic of `PhenoSimulator.run` in exact rationals

`noiseVar` = the variance handed to `rng.normal(0, sqrt(noise))`; `caseCount` = `int(prevalence * n)`;
`tapeSlice` = which positions of the generator's normal stream replication `r` consumes.
-/
namespace PhenoSim

/-- variance of the noise term.  `sumB2 = Σβ²`, `varG` = variance of the genetic component `Σβ_j Z_j` -/
def noiseVar (sumB2 : Rat) (h2 env : Option Rat) (varG : Rat) : Rat :=
  match h2, env with
  | none, none => 1 - (if sumB2 > 1 then 1 else sumB2)
  | some h, none => (if varG = 0 then 1 else varG) * (1 / h - 1)
  | none, some e => e * (1 / (1/2 : Rat) - 1)
  | some h, some e => e * (1 / h - 1)

/-- `int(prevalence * n)` for `0 ≤ prevalence`: the floor -/
def caseCount (k : Rat) (n : Nat) : Nat := (k * n).floor.toNat

/-- replication `r` of `n` samples consumes positions `[r·n, (r+1)·n)` of the generator's normal stream -/
def tapeSlice (n r : Nat) : List Nat := List.range' (r * n) n

/-- the replications use pairwise disjoint stream positions: they are different draws, never copies -/
theorem tapeSlices_disjoint (n r s : Nat) (h : r < s) : ∀ p ∈ tapeSlice n r, p ∉ tapeSlice n s := by
  intro p hp hq
  unfold tapeSlice at hp hq
  rw [List.mem_range'_1] at hp hq
  have : (r + 1) * n ≤ s * n := Nat.mul_le_mul_right n (by omega)
  have e : (r + 1) * n = r * n + n := by rw [Nat.add_mul]; simp
  omega

/-- … and together they are the first `R·n` positions, in order -/
theorem tapeSlices_cover (n : Nat) : ∀ (R : Nat),
    (List.range R).flatMap (tapeSlice n) = List.range' 0 (R * n)
  | 0 => by simp
  | R + 1 => by
    rw [List.range_succ, List.flatMap_append, tapeSlices_cover n R]
    simp only [List.flatMap_cons, List.flatMap_nil, List.append_nil, tapeSlice]
    rw [show (R + 1) * n = R * n + n by rw [Nat.add_mul]; simp]
    have := List.range'_append_1 (s := 0) (m := R * n) (n := n)
    simpa using this

/-! ## the genetic component with raw dosages (`normalize=False`): `Σ_j β_j · dosage_j`, by ID

`cols` = the dosage columns the genotypes hold, by variant ID; `effects` = the requested causal variables with their betas.
`PhenoSimulator.run` pairs betas and columns *by position* after a by-ID subset; the pairing is by ID only if the subset
returned a column for every effect.  `aligned` is what the repaired code does first (F32): effects whose variant is absent
are dropped, so that positions and IDs agree. -/

abbrev Cols := List (String × List Int)

def aligned (cols : Cols) (effects : List (String × Rat)) : List (String × Rat) :=
  effects.filter (fun e => (cols.lookup e.1).isSome)

/-- dosage of variant `v` in sample `i` (0 where the column is shorter: never the case for a rectangular matrix) -/
def dosageAt (cols : Cols) (v : String) (i : Nat) : Int := ((cols.lookup v).getD []).getD i 0

/-- the genetic component of sample `i` -/
def genetic (cols : Cols) (effects : List (String × Rat)) (i : Nat) : Rat :=
  ((aligned cols effects).map (fun e => e.2 * (dosageAt cols e.1 i : Rat))).sum

/-- before the fix: the columns found, in the order of the effects, multiplied position by position with *all* betas –
    numpy broadcasts a single found column over every beta -/
def geneticOld (cols : Cols) (effects : List (String × Rat)) (i : Nat) : Option Rat :=
  let foundCols := (aligned cols effects).map (fun e => (dosageAt cols e.1 i : Rat))
  let betas := effects.map (·.2)
  if foundCols.length = betas.length then some ((List.zipWith (· * ·) betas foundCols).sum)
  else match foundCols with
    | [d] => some ((betas.map (· * d)).sum)        -- broadcast
    | _ => none                                     -- shape error

theorem aligned_all_found (cols : Cols) (effects : List (String × Rat)) :
    ∀ e ∈ aligned cols effects, (cols.lookup e.1).isSome := by
  intro e he
  unfold aligned at he
  exact (List.mem_filter.mp he).2

/-- an effect whose variant the genotypes do not hold adds nothing, wherever it stands in the list -/
theorem absent_effect_adds_nothing (cols : Cols) (pre post : List (String × Rat)) (x : String) (b : Rat)
    (hx : cols.lookup x = none) (i : Nat) :
    genetic cols (pre ++ (x, b) :: post) i = genetic cols (pre ++ post) i := by
  unfold genetic aligned
  simp [List.filter_append, List.filter_cons, hx]

/-- every effect that is found contributes its own beta times the dosage of the variant bearing its ID -/
theorem genetic_cons_found (cols : Cols) (x : String) (b : Rat) (rest : List (String × Rat))
    (hx : (cols.lookup x).isSome) (i : Nat) :
    genetic cols ((x, b) :: rest) i = b * (dosageAt cols x i : Rat) + genetic cols rest i := by
  unfold genetic aligned
  simp [List.filter_cons, hx]

theorem genetic_nil (cols : Cols) (i : Nat) : genetic cols [] i = 0 := by
  simp [genetic, aligned]

/-- the order in which the effects are listed does not matter (swap of neighbours; any permutation is a sequence of these) -/
theorem genetic_swap (cols : Cols) (pre post : List (String × Rat)) (e f : String × Rat) (i : Nat) :
    genetic cols (pre ++ e :: f :: post) i = genetic cols (pre ++ f :: e :: post) i := by
  unfold genetic aligned
  simp only [List.filter_append, List.filter_cons, List.map_append, List.sum_append]
  congr 1
  by_cases he : (cols.lookup e.1).isSome <;> by_cases hf : (cols.lookup f.1).isSome <;>
    simp [he, hf, Rat.add_comm, Rat.add_left_comm]

end PhenoSim
