import HapModel.Model.Pheno
/-!
# C09 model: the decision logic of `PhenoSimulator.run` in exact rationals

`noiseVar` = the variance handed to `rng.normal(0, sqrt(noise))`; `caseCount` = `int(prevalence * n)`;
`tapeSlice` = which positions of the generator's normal stream replication `r` consumes.
-/
namespace PhenoSim

/-- variance of the noise term.  `sumB2 = Σβ²`, `varG` = variance of the genetic component `Σβ_j Z_j` -/
def noiseVar (sumB2 : Rat) (h2 env : Option Rat) (varG : Rat) : Rat :=
  match h2, env with
  | none, none => 1 - (if sumB2 > 1 then 1 else sumB2)
  | some h, none => (if varG = 0 then 1 else varG) * (1 / h - 1)
  | none, some e => e * (1 / (1/2 : Rat) - 1)
  | some h, some e => e * (1 / h - 1)

/-- `int(prevalence * n)` for `0 ≤ prevalence`: the floor -/
def caseCount (k : Rat) (n : Nat) : Nat := (k * n).floor.toNat

/-- replication `r` of `n` samples consumes positions `[r·n, (r+1)·n)` of the generator's normal stream -/
def tapeSlice (n r : Nat) : List Nat := List.range' (r * n) n

/-- the replications use pairwise disjoint stream positions: they are different draws, never copies -/
theorem tapeSlices_disjoint (n r s : Nat) (h : r < s) : ∀ p ∈ tapeSlice n r, p ∉ tapeSlice n s := by
  intro p hp hq
  unfold tapeSlice at hp hq
  rw [List.mem_range'_1] at hp hq
  have : (r + 1) * n ≤ s * n := Nat.mul_le_mul_right n (by omega)
  have e : (r + 1) * n = r * n + n := by rw [Nat.add_mul]; simp
  omega

/-- … and together they are the first `R·n` positions, in order -/
theorem tapeSlices_cover (n : Nat) : ∀ (R : Nat),
    (List.range R).flatMap (tapeSlice n) = List.range' 0 (R * n)
  | 0 => by simp
  | R + 1 => by
    rw [List.range_succ, List.flatMap_append, tapeSlices_cover n R]
    simp only [List.flatMap_cons, List.flatMap_nil, List.append_nil, tapeSlice]
    rw [show (R + 1) * n = R * n + n by rw [Nat.add_mul]; simp]
    have := List.range'_append_1 (s := 0) (m := R * n) (n := n)
    simpa using this

end PhenoSim
