import HapModel.Model.Breakpoints
/-!
# C05: `Breakpoints.population_array(variants, samples)` cell by cell

The array has one row per requested sample **in the requested order** (all samples of the file, in file order, when none
are requested), one column per variant in the given order, and each cell holds the labels `labelAt` gives the two
strands of *that* sample at *that* variant; any uncovered position or unknown sample makes the whole call fail.
-/
namespace Breakpoints

theorem mapM_ok {α β ε} (f : α → Except ε β) : ∀ (l : List α) (r : List β), l.mapM f = .ok r →
    r.length = l.length ∧ ∀ i (hi : i < l.length) (hr : i < r.length), f l[i] = .ok r[i]
  | [], r, h => by
    simp only [List.mapM_nil, pure, Except.pure, Except.ok.injEq] at h
    subst h; exact ⟨rfl, fun i hi => by simp at hi⟩
  | a :: t, r, h => by
    simp only [List.mapM_cons, bind, Except.bind] at h
    split at h
    · cases h
    · rename_i b hb
      split at h
      · cases h
      · rename_i rt hrt
        simp only [pure, Except.pure, Except.ok.injEq] at h
        subst h
        obtain ⟨hl, hall⟩ := mapM_ok f t rt hrt
        refine ⟨by simp [hl], ?_⟩
        intro i hi hr
        cases i with
        | zero => simpa using hb
        | succ k =>
          have := hall k (by simp at hi; omega) (by simp at hr; omega)
          simpa using this

/-- the rows the call works on: the requested samples in the requested order -/
theorem rows_requested (t : Table) (req : List String) (rows : List Sample)
    (h : req.mapM (fun s => match t.find? (fun x => x.1 == s) with
        | some x => (.ok x : Except Err Sample)
        | none => .error .key_error) = .ok rows) :
    rows.length = req.length ∧ ∀ i (hi : i < req.length) (hr : i < rows.length),
      rows[i] ∈ t ∧ rows[i].1 = req[i] := by
  obtain ⟨hl, hall⟩ := mapM_ok _ req rows h
  refine ⟨hl, ?_⟩
  intro i hi hr
  have := hall i hi hr
  split at this
  · rename_i x hx
    simp only [Except.ok.injEq] at this
    subst this
    have h1 := List.mem_of_find?_eq_some hx
    have h2 := List.find?_some hx
    exact ⟨h1, by simpa using h2⟩
  · cases this

/-- **every cell is the label of the requested sample's strand at that variant, rows in the requested order** -/
theorem populationArray_cells (t : Table) (vars : List (String × Nat)) (req : List String)
    (arr : List (List (String × String))) (h : populationArray t vars (some req) = .ok arr) :
    arr.length = req.length ∧
    ∀ i (hi : i < req.length) (ha : i < arr.length), ∃ smp ∈ t, smp.1 = req[i] ∧
      arr[i].length = vars.length ∧
      ∀ j (hj : j < vars.length) (hr : j < arr[i].length),
        labelAt smp.2.1 vars[j].1 vars[j].2 = .ok arr[i][j].1 ∧
        labelAt smp.2.2 vars[j].1 vars[j].2 = .ok arr[i][j].2 := by
  unfold populationArray at h
  simp only [bind, Except.bind] at h
  split at h
  · cases h
  · rename_i rows hrows
    obtain ⟨hl, hrow⟩ := rows_requested t req rows hrows
    obtain ⟨hal, hcells⟩ := mapM_ok _ rows arr h
    refine ⟨by omega, ?_⟩
    intro i hi ha
    have hir : i < rows.length := by omega
    obtain ⟨hm, hn⟩ := hrow i hi hir
    refine ⟨rows[i], hm, hn, ?_⟩
    have hc := hcells i hir ha
    obtain ⟨hvl, hv⟩ := mapM_ok _ vars arr[i] hc
    refine ⟨hvl, ?_⟩
    intro j hj hr
    have := hv j hj hr
    split at this
    · cases this
    · rename_i a ha'
      split at this
      · cases this
      · rename_i b hb'
        simp only [pure, Except.pure, Except.ok.injEq] at this
        rw [← this]
        exact ⟨ha', hb'⟩

/-- an unknown sample makes the call fail (it is never skipped or replaced) -/
theorem populationArray_unknown_sample (t : Table) (vars : List (String × Nat)) (req : List String) (s : String)
    (hs : s ∈ req) (hnot : ∀ x ∈ t, x.1 ≠ s) : ∀ arr, populationArray t vars (some req) ≠ .ok arr := by
  intro arr h
  unfold populationArray at h
  simp only [bind, Except.bind] at h
  split at h
  · cases h
  · rename_i rows hrows
    obtain ⟨hl, hrow⟩ := rows_requested t req rows hrows
    obtain ⟨i, hi, rfl⟩ := List.mem_iff_getElem.mp hs
    obtain ⟨hm, hn⟩ := hrow i hi (by omega)
    exact hnot _ hm hn

end Breakpoints
