/-! Prototype: model of start_segment / get_segment (sim_genotype.py) -/

structure Seg where
  pop : Nat
  chrom : Nat
  endc : Nat
  cm : Int
deriving Repr, DecidableEq, Inhabited

namespace Seg

/-- `start_segment(start, chrom, segments)`: literal transcription of the Python binary search.
`low`/`high` are Python ints (high may become -1). -/
def startLoop (start chrom : Nat) (segs : Array Seg) (low high : Int) : Nat :=
  if h : low ≤ high ∧ 0 ≤ low ∧ high < segs.size then
    let mid : Int := (high + low) / 2
    let m : Nat := mid.toNat
    have hm : m < segs.size := by omega
    let cur := segs[m]
    if chrom = cur.chrom then
      if cur.endc < start then startLoop start chrom segs (mid + 1) high
      else if hz : m = 0 then m
      else
        have hm1 : m - 1 < segs.size := by omega
        let prev := segs[m-1]
        if prev.chrom < cur.chrom then m
        else if prev.chrom = cur.chrom ∧ prev.endc < start then m
        else startLoop start chrom segs low (mid - 1)
    else if chrom < cur.chrom then startLoop start chrom segs low (mid - 1)
    else startLoop start chrom segs (mid + 1) high
  else segs.size
termination_by (high - low + 1).toNat
decreasing_by all_goals omega

def startSegment (start chrom : Nat) (segs : Array Seg) : Nat :=
  startLoop start chrom segs 0 ((segs.size : Int) - 1)

/-- segment lies strictly before the search key `(chrom, start)` -/
def Before (c st : Nat) (s : Seg) : Prop := s.chrom < c ∨ (s.chrom = c ∧ s.endc < st)

instance (c st : Nat) (s : Seg) : Decidable (Before c st s) := by unfold Before; infer_instance

/-- Parent haplotypes are ordered by (chrom, end) strictly. -/
def Sorted (segs : Array Seg) : Prop :=
  ∀ i j (hi : i < segs.size) (hj : j < segs.size), i < j →
    segs[i].chrom < segs[j].chrom ∨ (segs[i].chrom = segs[j].chrom ∧ segs[i].endc < segs[j].endc)

theorem before_down {segs : Array Seg} (hs : Sorted segs) {c st i j : Nat}
    (hi : i < segs.size) (hj : j < segs.size) (hij : i ≤ j) (hb : Before c st segs[j]) :
    Before c st segs[i] := by
  rcases Nat.lt_or_eq_of_le hij with h | h
  · have := hs i j hi hj h
    unfold Before at *; omega
  · subst h; exact hb

/-- Postcondition of the search. -/
def Post (c st : Nat) (segs : Array Seg) (r : Nat) : Prop :=
  (∃ h : r < segs.size, ¬ Before c st segs[r] ∧ segs[r].chrom = c ∧
      ∀ i (hi : i < segs.size), i < r → Before c st segs[i]) ∨
  (r = segs.size ∧ ∀ i (hi : i < segs.size), segs[i].chrom = c → segs[i].endc < st)


/-- loop invariant -/
def Inv (c st : Nat) (segs : Array Seg) (low high : Int) : Prop :=
  0 ≤ low ∧ high < segs.size ∧
  (∀ i (hi : i < segs.size), (i : Int) < low → Before c st segs[i]) ∧
  (∀ i (hi : i < segs.size), (i : Int) > high →
      ¬ Before c st segs[i] ∧ (segs[i].chrom = c → ∃ h1 : 1 ≤ i, ¬ Before c st (segs[i-1]'(by omega))))

theorem not_before_up {segs : Array Seg} (hs : Sorted segs) {c st i j : Nat}
    (hi : i < segs.size) (hj : j < segs.size) (hij : i ≤ j) (hb : ¬ Before c st segs[i]) :
    ¬ Before c st segs[j] := fun h => hb (before_down hs hi hj hij h)

theorem exit_post {segs : Array Seg} (hs : Sorted segs) {c st : Nat} {low high : Int}
    (hinv : Inv c st segs low high) (hlt : high < low) : Post c st segs segs.size := by
  obtain ⟨h0, hh, hlo, hhi⟩ := hinv
  right
  refine ⟨rfl, ?_⟩
  -- no index is (not Before) on chrom c
  have key : ∀ n i (hi : i < segs.size), i ≤ n → segs[i].chrom = c → Before c st segs[i] := by
    intro n
    induction n with
    | zero =>
      intro i hi hle hc
      have : i = 0 := by omega
      subst this
      by_cases hb : Before c st segs[0]
      · exact hb
      · exfalso
        by_cases hl : ((0:Nat) : Int) < low
        · exact hb (hlo 0 hi hl)
        · have := (hhi 0 hi (by omega)).2 hc
          obtain ⟨h1, _⟩ := this
          omega
    | succ n ih =>
      intro i hi hle hc
      by_cases hb : Before c st segs[i]
      · exact hb
      · exfalso
        by_cases hl : (i : Int) < low
        · exact hb (hlo i hi hl)
        · obtain ⟨h1, hnb⟩ := (hhi i hi (by omega)).2 hc
          have hi1 : i - 1 < segs.size := by omega
          -- segs[i-1] is not Before, so chrom ≥ c; sorted gives chrom ≤ c
          have hsrt := hs (i-1) i hi1 hi (by omega)
          have hc1 : segs[i-1].chrom = c := by
            unfold Before at hnb; omega
          exact hnb (ih (i-1) hi1 (by omega) hc1)
  intro i hi hc
  have := key i i hi (Nat.le_refl _) hc
  unfold Before at this; omega

theorem startLoop_post {segs : Array Seg} (hs : Sorted segs) (c st : Nat)
    (low high : Int) (hinv : Inv c st segs low high) :
      Post c st segs (startLoop st c segs low high) := by
  fun_induction startLoop st c segs low high with
  | case1 low high h mid m hm cur hc hlt ih =>
    simp only [cur] at *
    apply ih
    obtain ⟨h0, hh, hlo, hhi⟩ := hinv
    refine ⟨by omega, hh, ?_, hhi⟩
    intro i hi hil
    have him : i ≤ m := by omega
    exact before_down hs hi hm him (Or.inr ⟨hc.symm, hlt⟩)
  | case2 low high h mid m hm cur hc hge hz =>
    simp only [cur] at *
    left
    refine ⟨hm, ?_, hc.symm, ?_⟩
    · unfold Before; omega
    · intro i hi hlt; omega
  | case3 low high h mid m hm cur hc hge hz hm1 prev hpc =>
    simp only [cur, prev] at *
    left
    refine ⟨hm, ?_, hc.symm, ?_⟩
    · unfold Before; omega
    · intro i hi hlt
      exact before_down hs hi hm1 (by omega) (Or.inl (by omega))
  | case4 low high h mid m hm cur hc hge hz hm1 prev hnpc hp =>
    simp only [cur, prev] at *
    left
    refine ⟨hm, ?_, hc.symm, ?_⟩
    · unfold Before; omega
    · intro i hi hlt
      exact before_down hs hi hm1 (by omega) (Or.inr ⟨by omega, hp.2⟩)
  | case5 low high h mid m hm cur hc hge hz hm1 prev hnpc hnp ih =>
    simp only [cur, prev] at *
    apply ih
    obtain ⟨h0, hh, hlo, hhi⟩ := hinv
    have hsrt := hs (m-1) m hm1 hm (by omega)
    have hprev : ¬ Before c st segs[m-1] := by unfold Before; omega
    have hcur : ¬ Before c st segs[m] := by unfold Before; omega
    refine ⟨h0, by omega, hlo, ?_⟩
    intro i hi hgt
    have hmi : m ≤ i := by omega
    refine ⟨not_before_up hs hm hi hmi hcur, fun _ => ⟨by omega, ?_⟩⟩
    exact not_before_up hs hm1 (by omega) (by omega) hprev
  | case6 low high h mid m hm cur hnc hlt ih =>
    simp only [cur] at *
    apply ih
    obtain ⟨h0, hh, hlo, hhi⟩ := hinv
    have hcur : ¬ Before c st segs[m] := by unfold Before; omega
    refine ⟨h0, by omega, hlo, ?_⟩
    intro i hi hgt
    have hmi : m ≤ i := by omega
    refine ⟨not_before_up hs hm hi hmi hcur, fun hci => ?_⟩
    exfalso
    rcases Nat.lt_or_eq_of_le hmi with hlt' | heq
    · have := hs m i hm hi hlt'; omega
    · subst heq; omega
  | case7 low high h mid m hm cur hnc hnlt ih =>
    simp only [cur] at *
    apply ih
    obtain ⟨h0, hh, hlo, hhi⟩ := hinv
    refine ⟨by omega, hh, ?_, hhi⟩
    intro i hi hil
    exact before_down hs hi hm (by omega) (Or.inl (by omega))
  | case8 low high h =>
    have h0 := hinv.1
    have hh := hinv.2.1
    exact exit_post hs hinv (by omega)

theorem startSegment_post {segs : Array Seg} (hs : Sorted segs) (c st : Nat) :
    Post c st segs (startSegment st c segs) := by
  unfold startSegment
  apply startLoop_post hs
  refine ⟨by omega, by omega, ?_, ?_⟩
  · intro i hi h; omega
  · intro i hi h; omega

end Seg
