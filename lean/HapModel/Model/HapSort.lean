import HapModel.Model.Tabix
/-!
# C11: `Haplotypes.sort()` – the order that `index` writes

`sort()` is `dict(sorted(self.data.items(), key=lambda item: item[1]))`: Python's `sorted` driven by the records'
`__lt__`.  `Haplotype.__lt__` and `Repeat.__lt__` are the same formula – chrom, then start, then end, then ID, each
compared with `<` of its own type (contig names and IDs as strings) – so H and R records sort together consistently.
The model ranks contig names and IDs by their string order (a harness-side, order-preserving renaming) and uses a stable
insertion sort as the stand-in for `sorted` (for a strict total order with distinct keys the sorted list is unique).
-/
namespace Tabix

/-- `Haplotype.__lt__` / `Repeat.__lt__` -/
def hlt (a b : HRec) : Bool :=
  if a.chrom = b.chrom then
    if a.start = b.start then
      if a.stop = b.stop then decide (a.id < b.id) else decide (a.stop < b.stop)
    else decide (a.start < b.start)
  else decide (a.chrom < b.chrom)

def insertH (r : HRec) : List HRec → List HRec
  | [] => [r]
  | x :: xs => if hlt r x then r :: x :: xs else x :: insertH r xs

def sortH : List HRec → List HRec
  | [] => []
  | r :: rs => insertH r (sortH rs)

/-! ### the comparator is a strict total order on records with distinct IDs -/

theorem hlt_irrefl (a : HRec) : hlt a a = false := by simp [hlt]

theorem hlt_trans (a b c : HRec) (h1 : hlt a b = true) (h2 : hlt b c = true) : hlt a c = true := by
  unfold hlt at *
  split at h1 <;> split at h2 <;> (try split at h1) <;> (try split at h2) <;> (try split at h1) <;> (try split at h2) <;>
    simp only [decide_eq_true_eq] at h1 h2 <;> (split <;> (try split) <;> (try split) <;> simp only [decide_eq_true_eq] <;> omega)

theorem hlt_total (a b : HRec) (h : hlt a b = false) (h' : hlt b a = false) :
    a.chrom = b.chrom ∧ a.start = b.start ∧ a.stop = b.stop ∧ a.id = b.id := by
  unfold hlt at *
  split at h <;> split at h' <;> (try split at h) <;> (try split at h') <;> (try split at h) <;> (try split at h') <;>
    simp only [decide_eq_false_iff_not] at h h' <;> omega

/-! ### the sort keeps every record and orders them -/

theorem insertH_perm (r : HRec) : ∀ (l : List HRec), (insertH r l).Perm (r :: l)
  | [] => List.Perm.refl _
  | x :: xs => by
    unfold insertH
    split
    · exact List.Perm.refl _
    · exact ((insertH_perm r xs).cons x).trans (List.Perm.swap r x xs)

/-- **`index` keeps every record**: sorting only permutes -/
theorem sortH_perm : ∀ (l : List HRec), (sortH l).Perm l
  | [] => List.Perm.refl _
  | r :: rs => (insertH_perm r (sortH rs)).trans ((sortH_perm rs).cons r)

def Ordered (l : List HRec) : Prop := l.Pairwise (fun a b => hlt b a = false)

theorem insertH_ordered (r : HRec) : ∀ (l : List HRec), Ordered l → Ordered (insertH r l)
  | [], _ => by simp [insertH, Ordered]
  | x :: xs, h => by
    have hx := (List.pairwise_cons.mp h).1
    have hxs := (List.pairwise_cons.mp h).2
    unfold insertH
    split
    · rename_i hrx
      refine List.pairwise_cons.mpr ⟨?_, h⟩
      intro y hy
      rcases List.mem_cons.mp hy with rfl | hy
      · -- y = x: r < x, so ¬ x < r
        cases hxr : hlt y r with
        | false => rfl
        | true => have := hlt_trans r y r hrx hxr; rw [hlt_irrefl] at this; cases this
      · cases hyr : hlt y r with
        | false => rfl
        | true =>
          have hyx := hlt_trans y r x hyr hrx
          have := hx y hy
          rw [this] at hyx; cases hyx
    · rename_i hrx
      have hrx' : hlt r x = false := by simpa using hrx
      refine List.pairwise_cons.mpr ⟨?_, insertH_ordered r xs hxs⟩
      intro y hy
      have := (insertH_perm r xs).mem_iff.mp hy
      rcases List.mem_cons.mp this with rfl | hy'
      · exact hrx'
      · exact hx y hy'

theorem sortH_ordered : ∀ (l : List HRec), Ordered (sortH l)
  | [] => by simp [sortH, Ordered]
  | r :: rs => insertH_ordered r (sortH rs) (sortH_ordered rs)

def toL (r : HRec) : L := ⟨r.chrom, r.start⟩

/-- an ordered list has the shape tabix accepts: contig by contig, starts never decreasing -/
theorem ordered_sortedHR (l : List HRec) (h : Ordered l) : SortedHR (l.map toL) := by
  unfold SortedHR
  rw [List.pairwise_map]
  apply List.Pairwise.imp _ h
  intro a b hba
  unfold hlt at hba
  simp only [toL]
  split at hba
  · rename_i hc
    split at hba
    · rename_i hs; exact .inr ⟨hc.symm, by omega⟩
    · simp only [decide_eq_false_iff_not] at hba; exact .inr ⟨hc.symm, by omega⟩
  · simp only [decide_eq_false_iff_not] at hba
    rename_i hc
    exact .inl (by omega)

/-- **the H/R part of the file `index` writes is accepted by tabix**, for every set of records, mixed H and R lines
    and any contig names -/
theorem sorted_records_tabix_ok (l : List HRec) : TabixOK ((sortH l).map toL) :=
  sorted_ok _ (ordered_sortedHR _ (sortH_ordered l))

end Tabix
