import HapModel.Model.Cache
/-! Prototype C12 (two axes + data): `Genotypes.subset` through the lazily built caches returns exactly the rows and
    columns that bear the requested IDs (refinement to the cache-free specification). -/
namespace Cache

theorem idxOf_of_getElem? : ∀ (l : List String) (i : Nat) (x : String), l.Nodup → l[i]? = some x → l.idxOf x = i
  | [], i, x, _, h => by simp at h
  | a :: t, 0, x, _, h => by
    simp only [List.getElem?_cons_zero, Option.some.injEq] at h
    subst h; simp [List.idxOf_cons]
  | a :: t, i+1, x, hnd, h => by
    have hnd' := List.nodup_cons.mp hnd
    simp only [List.getElem?_cons_succ] at h
    have hx : x ∈ t := List.mem_of_getElem? h
    have hne : a ≠ x := fun e => hnd'.1 (e ▸ hx)
    have ih := idxOf_of_getElem? t i x hnd'.2 h
    have hb : (a == x) = false := by simpa using hne
    simp [List.idxOf_cons, hb, ih]

/-- specification: positions by scanning the current ID list -/
def specPositions (ids : List String) (req : List String) : List (String × Nat) :=
  req.filterMap (fun id => if ids.contains id then some (id, ids.idxOf id) else none)

/-- refinement: for duplicate-free IDs (what `index()` enforces) the cached lookup equals the scan -/
theorem positions_eq_spec (a : Axis) (h : Inv a) (hnd : a.ids.Nodup) (req : List String) :
    positions a req = specPositions a.ids req := by
  have hi := ensure_inv a h
  have hids : (ensure a).ids = a.ids := by unfold ensure; split <;> rfl
  unfold positions specPositions
  cases hc : (ensure a).cache with
  | none => unfold ensure at hc; split at hc <;> simp_all
  | some m =>
    obtain ⟨hs, hcmp⟩ := hi m hc
    rw [hids] at hs hcmp
    simp only
    -- pointwise on the requested IDs
    have hpt : ∀ id, (get? m id).map (fun i => (id, i)) =
        (if a.ids.contains id then some (id, a.ids.idxOf id) else none) := by
      intro id
      by_cases hin : id ∈ a.ids
      · obtain ⟨i, hgi⟩ := Option.isSome_iff_exists.mp (hcmp id hin)
        have := idxOf_of_getElem? a.ids i id hnd (hs id i hgi)
        simp [hgi, hin, this]
      · have : get? m id = none := by
          cases hg : get? m id with
          | none => rfl
          | some i => exact absurd (List.mem_of_getElem? (hs id i hg)) hin
        simp [this, hin]
    induction req with
    | nil => rfl
    | cons r t ih => simp only [List.filterMap_cons, hpt r, ih]

/-! the object -/

structure Obj where
  rows : Axis                    -- samples
  cols : Axis                    -- variants
  data : List (List Nat)         -- data[sample][variant]

def pickRows (data : List (List Nat)) (idx : List Nat) : List (List Nat) := idx.map (fun i => data[i]!)
def pickCols (data : List (List Nat)) (idx : List Nat) : List (List Nat) := data.map (fun r => idx.map (fun j => r[j]!))

/-- `subset(samples=rs, variants=cs)` (copying form): the returned object -/
def subsetCopy (o : Obj) (rs cs : Option (List String)) : Obj :=
  let rp := match rs with | none => none | some r => some (positions o.rows r)
  let cp := match cs with | none => none | some c => some (positions o.cols c)
  let d1 := match rp with | none => o.data | some p => pickRows o.data (p.map (·.2))
  let d2 := match cp with | none => d1 | some p => pickCols d1 (p.map (·.2))
  { rows := ⟨match rp with | none => o.rows.ids | some p => p.map (·.1), none⟩,
    cols := ⟨match cp with | none => o.cols.ids | some p => p.map (·.1), none⟩,
    data := d2 }

/-- the same through the cache-free specification -/
def subsetSpec (o : Obj) (rs cs : Option (List String)) : Obj :=
  let rp := match rs with | none => none | some r => some (specPositions o.rows.ids r)
  let cp := match cs with | none => none | some c => some (specPositions o.cols.ids c)
  let d1 := match rp with | none => o.data | some p => pickRows o.data (p.map (·.2))
  let d2 := match cp with | none => d1 | some p => pickCols d1 (p.map (·.2))
  { rows := ⟨match rp with | none => o.rows.ids | some p => p.map (·.1), none⟩,
    cols := ⟨match cp with | none => o.cols.ids | some p => p.map (·.1), none⟩,
    data := d2 }

/-- C12: whatever history produced the object (so long as the cache invariants hold, `run_inv`),
    the subset acts on exactly the rows and columns that currently bear the requested IDs -/
theorem subset_refines (o : Obj) (hr : Inv o.rows) (hc : Inv o.cols)
    (hrn : o.rows.ids.Nodup) (hcn : o.cols.ids.Nodup) (rs cs : Option (List String)) :
    subsetCopy o rs cs = subsetSpec o rs cs := by
  unfold subsetCopy subsetSpec
  cases rs <;> cases cs <;> simp [positions_eq_spec _ hr hrn, positions_eq_spec _ hc hcn]

end Cache
