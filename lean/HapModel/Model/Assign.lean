/-! Prototype C03/C05: `np.searchsorted(side='right')` + `np.insert(0)` + `np.diff` + `np.repeat`
    (output_vcf) assigns every variant to the first block whose end is ≥ its position, which is what
    `Breakpoints._find_blocks` (`searchsorted(side='left')` over the block ends) returns. -/
namespace Assign

/-- numpy contract: `searchsorted(xs, v, side='right')` for sorted xs -/
def ssRight (xs : List Nat) (v : Nat) : Nat := (xs.filter (· ≤ v)).length
/-- `np.diff(np.insert(b, 0, prev))` -/
def diffs : Nat → List Nat → List Nat
  | _, [] => []
  | prev, b :: bs => (b - prev) :: diffs b bs
/-- `np.repeat(values, lens)` where values are the block indices i, i+1, … -/
def repeatIdx : Nat → List Nat → List Nat
  | _, [] => []
  | i, n :: ns => List.replicate n i ++ repeatIdx (i+1) ns
/-- per-variant block index as computed by `output_vcf` -/
def assignBlocks (varPos ends : List Nat) : List Nat :=
  repeatIdx 0 (diffs 0 (ends.map (ssRight varPos)))
/-- `_find_blocks`: `searchsorted(ends, p, side='left')` = number of block ends `< p` -/
def firstGE (ends : List Nat) (p : Nat) : Nat := (ends.filter (· < p)).length

def SortedLE (l : List Nat) : Prop := l.Pairwise (· ≤ ·)
def StrictInc (l : List Nat) : Prop := l.Pairwise (· < ·)

theorem split_sorted (e : Nat) : ∀ (vs : List Nat), SortedLE vs →
    vs = vs.filter (· ≤ e) ++ vs.filter (e < ·)
  | [], _ => by simp
  | a :: t, h => by
    have ht : SortedLE t := (List.pairwise_cons.mp h).2
    have ha := (List.pairwise_cons.mp h).1
    have ih := split_sorted e t ht
    by_cases hae : a ≤ e
    · have hea : ¬ e < a := by omega
      simp only [List.filter_cons, hae, hea, decide_true, decide_false, ↓reduceIte,
        Bool.false_eq_true, List.cons_append]
      exact congrArg _ ih
    · have h1 : t.filter (· ≤ e) = [] := by
        apply List.filter_eq_nil_iff.mpr
        intro x hx; have := ha x hx; simp; omega
      have h2 : t.filter (e < ·) = t := by
        apply List.filter_eq_self.mpr
        intro x hx; have := ha x hx; simp; omega
      have hea : e < a := by omega
      simp [List.filter_cons, hae, hea, h1, h2]

theorem ssRight_append (pre vs : List Nat) (e : Nat) (hpre : ∀ p ∈ pre, p ≤ e) :
    ssRight (pre ++ vs) e = pre.length + ssRight vs e := by
  unfold ssRight
  rw [List.filter_append, List.length_append]
  congr 1
  congr 1
  apply List.filter_eq_self.mpr
  intro x hx; simpa using hpre x hx

theorem general : ∀ (ends : List Nat) (i : Nat) (pre vs : List Nat),
    (∀ p ∈ pre, ∀ e ∈ ends, p ≤ e) → SortedLE vs → StrictInc ends →
    (∀ p ∈ vs, ∃ e ∈ ends, p ≤ e) →
    repeatIdx i (diffs pre.length (ends.map (ssRight (pre ++ vs)))) =
      vs.map (fun p => i + firstGE ends p)
  | [], i, pre, vs, _, _, _, hcov => by
    have : vs = [] := by
      cases vs with
      | nil => rfl
      | cons a t => obtain ⟨e, he, _⟩ := hcov a (List.mem_cons_self ..); simp at he
    subst this; simp [diffs, repeatIdx]
  | e :: es, i, pre, vs, hpre, hsv, hinc, hcov => by
    have hes : StrictInc es := (List.pairwise_cons.mp hinc).2
    have he_lt := (List.pairwise_cons.mp hinc).1
    have hsplit := split_sorted e vs hsv
    -- name the two halves
    generalize hv1 : vs.filter (· ≤ e) = vs1 at hsplit
    generalize hv2 : vs.filter (e < ·) = vs2 at hsplit
    have h1le : ∀ p ∈ vs1, p ≤ e := by
      intro p hp; rw [← hv1] at hp; simpa using (List.mem_filter.mp hp).2
    have h2gt : ∀ p ∈ vs2, e < p := by
      intro p hp; rw [← hv2] at hp; simpa using (List.mem_filter.mp hp).2
    have hk : ssRight vs e = vs1.length := by unfold ssRight; rw [hv1]
    have hfirst : ssRight (pre ++ vs) e = pre.length + vs1.length := by
      rw [ssRight_append pre vs e (fun p hp => hpre p hp e (List.mem_cons_self ..)), hk]
    -- induction hypothesis on the remaining ends with pre' = pre ++ vs1, vs' = vs2
    have hsv2 : SortedLE vs2 := by
      rw [← hv2]; exact List.Pairwise.filter _ hsv
    have hpre' : ∀ p ∈ pre ++ vs1, ∀ e' ∈ es, p ≤ e' := by
      intro p hp e' he'
      have hlt := he_lt e' he'
      rcases List.mem_append.mp hp with h | h
      · have := hpre p h e (List.mem_cons_self ..); omega
      · have := h1le p h; omega
    have hcov2 : ∀ p ∈ vs2, ∃ e' ∈ es, p ≤ e' := by
      intro p hp
      have hpv : p ∈ vs := by rw [hsplit]; exact List.mem_append_right _ hp
      obtain ⟨e', he', hle⟩ := hcov p hpv
      rcases List.mem_cons.mp he' with rfl | h
      · have := h2gt p hp; omega
      · exact ⟨e', h, hle⟩
    have ih := general es (i+1) (pre ++ vs1) vs2 hpre' hsv2 hes hcov2
    have happ : pre ++ vs = (pre ++ vs1) ++ vs2 := by rw [hsplit, List.append_assoc]
    simp only [List.map_cons, diffs, repeatIdx, hfirst, Nat.add_sub_cancel_left]
    rw [happ] at *
    rw [show pre.length + vs1.length = (pre ++ vs1).length by simp, ih]
    -- right-hand side: split the map
    conv => rhs; rw [hsplit, List.map_append]
    congr 1
    · -- variants up to e get index i
      apply List.ext_getElem
      · simp
      · intro n h1 h2
        have hn : n < vs1.length := by simpa using h1
        simp only [List.getElem_replicate, List.getElem_map]
        have hp := h1le (vs1[n]'hn) (List.getElem_mem ..)
        have : firstGE (e :: es) (vs1[n]'hn) = 0 := by
          unfold firstGE
          apply List.length_eq_zero_iff.mpr
          apply List.filter_eq_nil_iff.mpr
          intro x hx
          rcases List.mem_cons.mp hx with rfl | hx'
          · simp; omega
          · have := he_lt x hx'; simp; omega
        omega
    · apply List.map_congr_left
      intro p hp
      have := h2gt p hp
      simp only [firstGE, List.filter_cons, this, decide_true, ↓reduceIte, List.length_cons]
      omega

/-- C03 ↔ C05 boundary convention: the genotype writer and the ancestry reader agree -/
theorem assign_eq_firstGE (varPos ends : List Nat) (hv : SortedLE varPos) (he : StrictInc ends)
    (hcov : ∀ p ∈ varPos, ∃ e ∈ ends, p ≤ e) :
    assignBlocks varPos ends = varPos.map (firstGE ends) := by
  have := general ends 0 [] varPos (by simp) hv he hcov
  simpa [assignBlocks] using this

example : assignBlocks [5, 10, 10, 11, 99] [10, 50, 2147483647] = [0, 0, 0, 1, 2] := by decide

end Assign
