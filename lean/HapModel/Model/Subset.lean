/-!
# C08 (and C12): `Genotypes.subset` on a loaded object, with its cached name→row indices

`Genotypes.index()` caches `dict(zip(samples, range(n)))` / `dict(zip(variants["id"], range(p)))` in `_samp_idx` /
`_var_idx`; `subset()` calls `index()` (which only builds what is still `None`), selects rows / columns through the
cached dictionaries and, when `inplace=True`, resets the dictionary of every axis it re-selected.
The model keeps the caches explicitly, so that "a cache that went stale" is a state the model can be in; the theorems
show it never is, and that every subset therefore returns the requested samples / variants in the requested order.
-/
namespace Subset

abbrev Cell := Nat        -- an opaque genotype cell (the harness numbers the cells of the loaded matrix)

structure Contents where
  samples : List String
  variants : List String
  data : List (List Cell)            -- data[i][j]: sample i, variant j
deriving Repr, DecidableEq

structure G extends Contents where
  sampIdx : Option (List (String × Nat))
  varIdx : Option (List (String × Nat))
deriving Repr

/-- `dict(zip(names, range(len(names))))` -/
def mkIdx (names : List String) : List (String × Nat) := names.zipIdx

/-- `name in d` / `d[name]` -/
def lookup (d : List (String × Nat)) (n : String) : Option Nat := (d.find? (fun p => p.1 == n)).map (·.2)

/-- `index(samples=s, variants=v)`: builds only what is still `None` -/
def G.index (g : G) (s v : Bool) : G :=
  { g with sampIdx := if s && g.sampIdx.isNone then some (mkIdx g.samples) else g.sampIdx
           varIdx := if v && g.varIdx.isNone then some (mkIdx g.variants) else g.varIdx }

def selRows (data : List (List Cell)) (idx : List Nat) : List (List Cell) := idx.map (fun i => data.getD i [])
def selCols (data : List (List Cell)) (idx : List Nat) : List (List Cell) := data.map (fun row => idx.map (fun j => row.getD j 0))

/-- the selection `subset` computes through dictionaries `ds`, `dv` (whatever they hold) -/
def selectWith (c : Contents) (ds dv : List (String × Nat)) (rs cs : Option (List String)) : Contents :=
  let (samples, data) := match rs with
    | none => (c.samples, c.data)
    | some req =>
      let kept := req.filter (fun n => (lookup ds n).isSome)
      (kept, selRows c.data (kept.filterMap (lookup ds)))
  match cs with
  | none => ⟨samples, c.variants, data⟩
  | some req =>
    let vidx := req.filterMap (lookup dv)
    ⟨samples, vidx.map (fun j => c.variants.getD j ""), selCols data vidx⟩

/-- `subset(samples, variants, inplace)`: new state of `self` and the contents of the returned / altered object -/
def G.subset (g : G) (rs cs : Option (List String)) (inplace : Bool) : G × Contents :=
  let g1 := g.index rs.isSome cs.isSome
  let out := selectWith g1.toContents (g1.sampIdx.getD []) (g1.varIdx.getD []) rs cs
  if inplace then
    ({ toContents := out, sampIdx := if rs.isSome then none else g1.sampIdx,
       varIdx := if cs.isSome then none else g1.varIdx }, out)
  else (g1, out)

/-- the cache-free specification: select by the names the object holds *now* -/
def select (c : Contents) (rs cs : Option (List String)) : Contents :=
  selectWith c (mkIdx c.samples) (mkIdx c.variants) rs cs

inductive Op
  | index (s v : Bool)
  | subset (rs cs : Option (List String)) (inplace : Bool)
deriving Repr

def step (g : G) : Op → G × Option Contents
  | .index s v => (g.index s v, none)
  | .subset rs cs ip => let r := g.subset rs cs ip; (r.1, some r.2)

def run (g : G) : List Op → G × List (Option Contents)
  | [] => (g, [])
  | op :: ops => let r := step g op; let t := run r.1 ops; (t.1, r.2 :: t.2)

/-- the specification machine has no caches at all -/
def specStep (c : Contents) : Op → Contents × Option Contents
  | .index _ _ => (c, none)
  | .subset rs cs ip => let r := select c rs cs; (if ip then r else c, some r)

def specRun (c : Contents) : List Op → Contents × List (Option Contents)
  | [] => (c, [])
  | op :: ops => let r := specStep c op; let t := specRun r.1 ops; (t.1, r.2 :: t.2)

/-- a cached dictionary, when present, is the dictionary of the current names -/
def CacheOK (g : G) : Prop :=
  (∀ d, g.sampIdx = some d → d = mkIdx g.samples) ∧ (∀ d, g.varIdx = some d → d = mkIdx g.variants)

theorem index_cacheOK (g : G) (s v : Bool) (h : CacheOK g) : CacheOK (g.index s v) := by
  obtain ⟨h1, h2⟩ := h
  refine ⟨?_, ?_⟩
  · intro d hd
    simp only [G.index] at hd ⊢
    split at hd
    · simp only [Option.some.injEq] at hd; exact hd.symm
    · exact h1 d hd
  · intro d hd
    simp only [G.index] at hd ⊢
    split at hd
    · simp only [Option.some.injEq] at hd; exact hd.symm
    · exact h2 d hd

theorem index_contents (g : G) (s v : Bool) : (g.index s v).toContents = g.toContents := rfl

theorem index_samp_some (g : G) (v : Bool) (h : CacheOK g) :
    ((g.index true v).sampIdx).getD [] = mkIdx g.samples := by
  simp only [G.index, Bool.true_and]
  cases hs : g.sampIdx with
  | none => simp
  | some d => simp [h.1 d hs]

theorem index_var_some (g : G) (s : Bool) (h : CacheOK g) :
    ((g.index s true).varIdx).getD [] = mkIdx g.variants := by
  simp only [G.index, Bool.true_and]
  cases hs : g.varIdx with
  | none => simp
  | some d => simp [h.2 d hs]

/-- `selectWith` only consults the dictionary of an axis that is actually re-selected -/
theorem selectWith_congr (c : Contents) (ds ds' dv dv' : List (String × Nat)) (rs cs : Option (List String))
    (h1 : rs.isSome → ds = ds') (h2 : cs.isSome → dv = dv') :
    selectWith c ds dv rs cs = selectWith c ds' dv' rs cs := by
  cases rs with
  | none =>
    cases cs with
    | none => rfl
    | some q => have := h2 rfl; subst this; rfl
  | some r =>
    have := h1 rfl; subst this
    cases cs with
    | none => rfl
    | some q => have := h2 rfl; subst this; rfl

/-- with sound caches, one `subset` returns exactly the cache-free selection of the current contents -/
theorem subset_eq_select (g : G) (h : CacheOK g) (rs cs : Option (List String)) (ip : Bool) :
    (g.subset rs cs ip).2 = select g.toContents rs cs := by
  have hout : selectWith (g.index rs.isSome cs.isSome).toContents ((g.index rs.isSome cs.isSome).sampIdx.getD [])
      ((g.index rs.isSome cs.isSome).varIdx.getD []) rs cs = select g.toContents rs cs := by
    rw [index_contents]
    unfold select
    apply selectWith_congr
    · intro hr; rw [hr]; exact index_samp_some g _ h
    · intro hc; rw [hc]; exact index_var_some g _ h
  unfold G.subset
  simp only []
  split
  · exact hout
  · exact hout

/-- … and leaves the object with sound caches: an in-place subset drops the dictionary of every axis it re-selected,
    whether or not anything was dropped or merely re-ordered -/
theorem subset_cacheOK (g : G) (h : CacheOK g) (rs cs : Option (List String)) (ip : Bool) :
    CacheOK (g.subset rs cs ip).1 := by
  have hi := index_cacheOK g rs.isSome cs.isSome h
  unfold G.subset
  simp only []
  split
  · refine ⟨?_, ?_⟩
    · intro d hd
      simp only at hd
      split at hd
      · cases hd
      · rename_i hn
        have hr : rs = none := by cases rs <;> simp_all
        subst hr
        have := hi.1 d hd
        rw [this, index_contents]
        cases cs <;> rfl
    · intro d hd
      simp only at hd
      split at hd
      · cases hd
      · rename_i hn
        have hc : cs = none := by cases cs <;> simp_all
        subst hc
        have := hi.2 d hd
        rw [this, index_contents]
        cases rs <;> rfl
  · exact hi

theorem subset_self_contents (g : G) (rs cs : Option (List String)) (ip : Bool) :
    (g.subset rs cs ip).1.toContents = if ip then (g.subset rs cs ip).2 else g.toContents := by
  unfold G.subset
  simp only []
  cases ip <;> simp [index_contents]

/-- **refinement**: any sequence of `index` / `subset` calls (in place or not, any requested names in any order,
    unknown names included) behaves like the cache-free specification, and the caches stay sound throughout -/
theorem run_refines : ∀ (ops : List Op) (g : G), CacheOK g →
    (run g ops).2 = (specRun g.toContents ops).2 ∧ (run g ops).1.toContents = (specRun g.toContents ops).1 ∧
      CacheOK (run g ops).1
  | [], g, h => ⟨rfl, rfl, h⟩
  | op :: ops, g, h => by
    cases op with
    | index s v =>
      have ih := run_refines ops (g.index s v) (index_cacheOK g s v h)
      simp only [run, step, specRun, specStep]
      rw [index_contents] at ih
      exact ⟨by rw [ih.1], ih.2.1, ih.2.2⟩
    | subset rs cs ip =>
      have ih := run_refines ops (g.subset rs cs ip).1 (subset_cacheOK g h rs cs ip)
      have hc := subset_self_contents g rs cs ip
      have he := subset_eq_select g h rs cs ip
      simp only [run, step, specRun, specStep]
      rw [hc, he] at ih
      refine ⟨?_, ?_, ih.2.2⟩
      · rw [he, ih.1]
      · exact ih.2.1

/-- a freshly loaded object has no caches -/
def fresh (c : Contents) : G := { toContents := c, sampIdx := none, varIdx := none }
theorem fresh_cacheOK (c : Contents) : CacheOK (fresh c) :=
  And.intro (fun _ h => nomatch h) (fun _ h => nomatch h)

/-! ### what the specification selects -/

theorem lookup_mkIdx_aux (names : List String) (n : String) (k : Nat) :
    ((names.zipIdx k).find? (fun p => p.1 == n)).map (·.2) = (names.idxOf? n).map (· + k) := by
  induction names generalizing k with
  | nil => simp [List.idxOf?]
  | cons a t ih =>
    simp only [List.zipIdx_cons, List.find?_cons]
    by_cases ha : a = n
    · subst ha; simp [List.idxOf?, List.findIdx?_cons]
    · have : (a == n) = false := by simpa using ha
      simp only [this, ih, List.idxOf?, List.findIdx?_cons]
      cases h : List.findIdx? (fun x => x == n) t with
      | none => simp
      | some i => simp; omega

theorem lookup_mkIdx (names : List String) (n : String) : lookup (mkIdx names) n = names.idxOf? n := by
  have := lookup_mkIdx_aux names n 0
  simpa [lookup, mkIdx] using this

theorem lookup_isSome (names : List String) (n : String) : (lookup (mkIdx names) n).isSome = decide (n ∈ names) := by
  rw [lookup_mkIdx]
  by_cases h : n ∈ names
  · simp [h, List.idxOf?, List.findIdx?_isSome]
  · simp [h, List.idxOf?]
    intro x hx hxe
    exact h (hxe ▸ hx)

theorem idxOf_isSome (names : List String) (n : String) : (names.idxOf? n).isSome = decide (n ∈ names) := by
  rw [← lookup_mkIdx]; exact lookup_isSome names n

/-- the selected samples are the requested ones that the object holds, in the requested order -/
theorem select_samples (c : Contents) (req : List String) (cs : Option (List String)) :
    (select c (some req) cs).samples = req.filter (fun n => decide (n ∈ c.samples)) := by
  unfold select selectWith
  have : (fun n => (lookup (mkIdx c.samples) n).isSome) = (fun n => decide (n ∈ c.samples)) := by
    funext n; exact lookup_isSome c.samples n
  cases cs <;> simp [this]

theorem select_samples_none (c : Contents) (cs : Option (List String)) :
    (select c none cs).samples = c.samples := by
  unfold select selectWith
  cases cs <;> rfl

/-- every selected row is the row the object holds under that sample's name: row `k` of the result is row `i` of the
    object, where `i` is the position of the `k`-th selected name -/
theorem select_rows (c : Contents) (req : List String) :
    (select c (some req) none).data =
      ((req.filter (fun n => decide (n ∈ c.samples))).filterMap (fun n => c.samples.idxOf? n)).map
        (fun i => c.data.getD i []) := by
  unfold select selectWith selRows
  have h1 : (fun n => (lookup (mkIdx c.samples) n).isSome) = (fun n => decide (n ∈ c.samples)) := by
    funext n; exact lookup_isSome c.samples n
  have h2 : lookup (mkIdx c.samples) = fun n => c.samples.idxOf? n := by
    funext n; exact lookup_mkIdx c.samples n
  simp [h2, idxOf_isSome]

/-- the selected variants are the requested IDs that the object holds, in the requested order -/
theorem select_variants (c : Contents) (rs : Option (List String)) (req : List String) :
    (select c rs (some req)).variants =
      (req.filterMap (fun n => c.variants.idxOf? n)).map (fun j => c.variants.getD j "") := by
  unfold select selectWith
  have h2 : lookup (mkIdx c.variants) = fun n => c.variants.idxOf? n := by
    funext n; exact lookup_mkIdx c.variants n
  cases rs <;> simp [h2]

theorem idxOf_getD (names : List String) (n : String) (i : Nat) (h : names.idxOf? n = some i) :
    names.getD i "" = n := by
  induction names generalizing i with
  | nil => simp [List.idxOf?] at h
  | cons a t ih =>
    simp only [List.idxOf?, List.findIdx?_cons] at h
    by_cases ha : a = n
    · subst ha; simp at h; subst h; simp
    · have : (a == n) = false := by simpa using ha
      simp only [this] at h
      cases hf : List.findIdx? (fun x => x == n) t with
      | none => simp [hf] at h
      | some j =>
        simp [hf] at h
        subst h
        simpa using ih j (by simpa [List.idxOf?] using hf)

/-- … i.e. literally `req.filter (· ∈ variants)` -/
theorem select_variants_names (c : Contents) (rs : Option (List String)) (req : List String) :
    (select c rs (some req)).variants = req.filter (fun n => decide (n ∈ c.variants)) := by
  rw [select_variants]
  induction req with
  | nil => rfl
  | cons a t ih =>
    simp only [List.filterMap_cons, List.filter_cons]
    cases h : c.variants.idxOf? a with
    | none =>
      have : a ∉ c.variants := by
        intro hm
        have := lookup_isSome c.variants a
        rw [lookup_mkIdx, h] at this
        simp [hm] at this
      simpa [this] using ih
    | some i =>
      have hm : a ∈ c.variants := by
        have := lookup_isSome c.variants a
        rw [lookup_mkIdx, h] at this
        simpa using this.symm
      simp only [hm, decide_true, List.map_cons, ↓reduceIte]
      rw [idxOf_getD c.variants a i h, ih]

end Subset
