/-! Prototype C06: `.hap` files at the level of tab-separated fields.
    A line is the list of its fields; a file is a list of lines.
    Values are already-encoded tokens (the int/float/str codecs of single fields are outside this model). -/
namespace HapFormat

abbrev Line := List String

inductive T | H | V | R
deriving Repr, DecidableEq

def T.sym : T → String
  | .H => "H" | .V => "V" | .R => "R"
def T.ofSym? (s : String) : Option T :=
  if s = "H" then some .H else if s = "V" then some .V else if s = "R" then some .R else none

/-- number of mandatory fields after the line-type symbol (V lines: hap, start, end, id, allele) -/
def T.nMand : T → Nat
  | .H => 4 | .V => 5 | .R => 4

/-- a record: mandatory field tokens and extra-field tokens bound by name -/
structure Rec where
  t : T
  mand : List String
  extras : List (String × String)
deriving Repr, DecidableEq

/-- the Haplotype / Variant / Repeat classes handed to `Haplotypes(...)`: names of their extra fields, in class order,
    with the format string and description used in the declaration -/
structure Classes where
  extras : T → List (String × String × String)     -- (name, fmt, description)
def Classes.names (c : Classes) (t : T) : List String := (c.extras t).map (·.1)

/-! ### writing (`to_str`) -/

def orderLine (c : Classes) (t : T) : List Line :=
  if c.names t = [] then [] else [["#", "order" ++ t.sym] ++ c.names t]
def declLines (c : Classes) (t : T) : List Line :=
  (c.extras t).map (fun e => ["#" ++ t.sym, e.1, e.2.1, e.2.2])
def recLine (r : Rec) : Line := [r.t.sym] ++ r.mand ++ r.extras.map (·.2)

/-- `data`: haplotypes and repeats in dictionary order, each with its variants.
    `declPerm` is the (sorted) order in which the declaration lines of one type come out,
    `vOrder` the (sorted) order of the haplotype IDs for the V lines: both are arbitrary permutations here,
    the reader does not depend on them. -/
def render (c : Classes) (version : String) (declPerm : T → List Line → List Line)
    (vOrder : List (Rec × List Rec) → List (Rec × List Rec)) (data : List (Rec × List Rec)) : List Line :=
  orderLine c .H ++ orderLine c .V ++ orderLine c .R ++ [["#", "version", version]] ++
  declPerm .H (declLines c .H) ++ declPerm .V (declLines c .V) ++ declPerm .R (declLines c .R) ++
  data.map (fun hv => recLine hv.1) ++
  (vOrder (data.filter (fun hv => hv.1.t = .H))).flatMap (fun hv => hv.2.map recLine)

/-! ### reading (`check_header`, `_get_field_types`, `__iter__`, `read`) -/

def isHash (l : Line) : Bool :=
  match l with
  | [] => false              -- (an empty line crashes the real reader; not generated)
  | f :: _ => f.toList.head? == some '#'

inductive HeaderItem
  | order (t : T) (names : List String)
  | version (v : String)
  | decl (t : T) (name : String)
  | comment
deriving Repr

/-- classification of one header line (after fix F06) -/
def classify (l : Line) : HeaderItem :=
  match l with
  | f :: rest =>
    if rest = [] then .comment                      -- no tab on the line
    else if f = "#" then
      match rest with
      | name :: vals =>
        if name = "version" then (match vals with | v :: _ => .version v | [] => .comment)
        else if name = "orderH" then .order .H vals
        else if name = "orderV" then .order .V vals
        else if name = "orderR" then .order .R vals
        else .comment
      | [] => .comment
    else if f = "#H" ∨ f = "#V" ∨ f = "#R" then
      match rest with
      | name :: _fmt :: _desc :: _ =>
        .decl (if f = "#H" then .H else if f = "#V" then .V else .R) name
      | _ => .comment                                -- fails to parse as a declaration: ignored
    else .comment
  | [] => .comment

structure Header where
  order : T → Option (List String)
  declared : T → List String
  version : Option String

def Header.empty : Header := ⟨fun _ => none, fun _ => [], none⟩

def Header.add (h : Header) : HeaderItem → Header
  | .order t names => { h with order := fun t' => if t' = t then some names else h.order t' }
  | .version v => { h with version := some v }
  | .decl t name => { h with declared := fun t' => if t' = t then h.declared t' ++ [name] else h.declared t' }
  | .comment => h

def checkHeader (lines : List Line) : Header := (lines.map classify).foldl Header.add Header.empty

/-- column plan for the extra fields of line type `t`: `some name` = bind to that field, `none` = skip.
    `_get_field_types`: wanted extras that the header does not mention stay in front (class order),
    then the header's order (order line if present, else declaration order). -/
def plan (c : Classes) (h : Header) (t : T) : List (Option String) :=
  let listed := (h.order t).getD (h.declared t)
  ((c.names t).filter (fun n => !listed.contains n)).map some ++
    listed.map (fun n => if (c.names t).contains n then some n else none)

/-- bind the tokens of a data line by position -/
def bind : List (Option String) → List String → Option (List (String × String))
  | [], _ => some []
  | _ :: _, [] => none                               -- IndexError in the real reader
  | some n :: ps, v :: vs => (bind ps vs).map (fun r => (n, v) :: r)
  | none :: ps, _ :: vs => bind ps vs

def parseLine (c : Classes) (h : Header) (l : Line) : Option Rec :=
  match l with
  | f :: rest =>
    match T.ofSym? f with
    | none => none
    | some t =>
      if rest.length < t.nMand then none
      else (bind (plan c h t) (rest.drop t.nMand)).map (fun ex =>
        -- the reader stores extras in class order
        ⟨t, rest.take t.nMand, (c.names t).filterMap (fun n => (ex.lookup n).map (fun v => (n, v)))⟩)
  | [] => none

/-- `read`: haplotypes/repeats in file order, variants attached to their haplotype in file order -/
def parse (c : Classes) (lines : List Line) : Option (List (Rec × List Rec)) :=
  let header := checkHeader (lines.takeWhile isHash)
  let body := (lines.dropWhile isHash).filter (fun l => !isHash l)
  match body.mapM (parseLine c header) with
  | none => none
  | some recs =>
    let owners := recs.filter (fun r => r.t ≠ .V)
    some (owners.map (fun o => (o, (recs.filter (fun r => r.t = .V ∧ r.mand.head? = o.mand[3]?)))))


/-! ### round trip -/

theorem sym_cases (t : T) : t.sym = "H" ∨ t.sym = "V" ∨ t.sym = "R" := by cases t <;> simp [T.sym]

theorem ofSym_sym (t : T) : T.ofSym? t.sym = some t := by cases t <;> decide

theorem isHash_recLine (r : Rec) : isHash (recLine r) = false := by
  unfold recLine
  cases r.t <;> simp [isHash, T.sym] <;> decide

theorem isHash_orderLine (c : Classes) (t : T) : ∀ l ∈ orderLine c t, isHash l = true := by
  intro l hl
  unfold orderLine at hl
  split at hl
  · simp at hl
  · simp only [List.mem_singleton] at hl; subst hl; simp [isHash]

theorem isHash_declLine (c : Classes) (t : T) : ∀ l ∈ declLines c t, isHash l = true := by
  intro l hl
  unfold declLines at hl
  obtain ⟨e, _, rfl⟩ := List.mem_map.mp hl
  cases t <;> simp [isHash, T.sym] <;> decide


/-! header fold -/

def itemOrder (t : T) : HeaderItem → Option (List String)
  | .order t' names => if t' = t then some names else none
  | _ => none
def itemDecl (t : T) : HeaderItem → List String
  | .decl t' n => if t' = t then [n] else []
  | _ => []

/-- items that neither set the order of `t` nor declare an extra of `t` leave the header of `t` alone -/
theorem fold_neutral (t : T) : ∀ (items : List HeaderItem) (h : Header),
    (∀ it ∈ items, itemOrder t it = none ∧ itemDecl t it = []) →
    (items.foldl Header.add h).order t = h.order t ∧ (items.foldl Header.add h).declared t = h.declared t
  | [], h, _ => by simp
  | it :: rest, h, hall => by
    have h1 := hall it (List.mem_cons_self ..)
    have ih := fold_neutral t rest (h.add it) (fun x hx => hall x (List.mem_cons_of_mem _ hx))
    simp only [List.foldl_cons]
    rw [ih.1, ih.2]
    cases it with
    | order t' names =>
      simp only [itemOrder] at h1
      have : t' ≠ t := by intro h'; simp [h'] at h1
      simp [Header.add, Ne.symm this]
    | version v => simp [Header.add]
    | decl t' n =>
      simp only [itemDecl] at h1
      have : t' ≠ t := by intro h'; simp [h'] at h1
      simp [Header.add, Ne.symm this]
    | comment => simp [Header.add]

theorem classify_orderLine (c : Classes) (t : T) :
    (orderLine c t).map classify = if c.names t = [] then [] else [.order t (c.names t)] := by
  unfold orderLine
  split
  · rfl
  · cases t <;> simp [classify, T.sym] <;> decide

theorem classify_declLine (t : T) (n f d : String) : classify ["#" ++ t.sym, n, f, d] = .decl t n := by
  cases t <;> simp [classify, T.sym] <;> decide

theorem classify_version (v : String) : classify ["#", "version", v] = .version v := by
  simp [classify]


theorem fold_order_neutral (t : T) : ∀ (items : List HeaderItem) (h : Header),
    (∀ it ∈ items, itemOrder t it = none) → (items.foldl Header.add h).order t = h.order t
  | [], h, _ => by simp
  | it :: rest, h, hall => by
    have h1 := hall it (List.mem_cons_self ..)
    have ih := fold_order_neutral t rest (h.add it) (fun x hx => hall x (List.mem_cons_of_mem _ hx))
    simp only [List.foldl_cons]
    rw [ih]
    cases it with
    | order t' names =>
      simp only [itemOrder] at h1
      have : t' ≠ t := by intro h'; simp [h'] at h1
      simp [Header.add, Ne.symm this]
    | version v => simp [Header.add]
    | decl t' n => simp [Header.add]
    | comment => simp [Header.add]

theorem fold_decl_neutral (t : T) : ∀ (items : List HeaderItem) (h : Header),
    (∀ it ∈ items, itemDecl t it = []) → (items.foldl Header.add h).declared t = h.declared t
  | [], h, _ => by simp
  | it :: rest, h, hall => by
    have h1 := hall it (List.mem_cons_self ..)
    have ih := fold_decl_neutral t rest (h.add it) (fun x hx => hall x (List.mem_cons_of_mem _ hx))
    simp only [List.foldl_cons]
    rw [ih]
    cases it with
    | order t' names => simp [Header.add]
    | version v => simp [Header.add]
    | decl t' n =>
      simp only [itemDecl] at h1
      have : t' ≠ t := by intro h'; simp [h'] at h1
      simp [Header.add, Ne.symm this]
    | comment => simp [Header.add]

/-- the header part of a rendered file -/
def headerLines (c : Classes) (version : String) (declPerm : T → List Line → List Line) : List Line :=
  orderLine c .H ++ orderLine c .V ++ orderLine c .R ++ [["#", "version", version]] ++
  declPerm .H (declLines c .H) ++ declPerm .V (declLines c .V) ++ declPerm .R (declLines c .R)

theorem decl_items (c : Classes) (dp : T → List Line → List Line) (hdp : ∀ t l, (dp t l).Perm l) (t' : T) :
    ∀ it ∈ (dp t' (declLines c t')).map classify, ∃ n, it = .decl t' n := by
  intro it hit
  obtain ⟨l, hl, rfl⟩ := List.mem_map.mp hit
  have hl' : l ∈ declLines c t' := (hdp t' _).mem_iff.mp hl
  obtain ⟨e, _, rfl⟩ := List.mem_map.mp hl'
  exact ⟨e.1, classify_declLine t' _ _ _⟩

theorem orderItems_other (c : Classes) (t t' : T) (hne : t' ≠ t) :
    ∀ it ∈ (orderLine c t').map classify, itemOrder t it = none := by
  intro it hit
  rw [classify_orderLine] at hit
  split at hit
  · simp at hit
  · simp only [List.mem_singleton] at hit; subst hit; simp [itemOrder, hne]

theorem header_order (c : Classes) (version : String) (dp : T → List Line → List Line)
    (hdp : ∀ t l, (dp t l).Perm l) (t : T) :
    (checkHeader (headerLines c version dp)).order t = if c.names t = [] then none else some (c.names t) := by
  unfold checkHeader headerLines
  simp only [List.map_append, List.foldl_append, List.map_cons, List.map_nil, List.foldl_cons, List.foldl_nil]
  -- the three groups of declaration lines and the version line never touch `order`
  have hd : ∀ t', ∀ it ∈ (dp t' (declLines c t')).map classify, itemOrder t it = none := by
    intro t' it hit
    obtain ⟨n, rfl⟩ := decl_items c dp hdp t' it hit
    rfl
  rw [fold_order_neutral t _ _ (hd .R), fold_order_neutral t _ _ (hd .V), fold_order_neutral t _ _ (hd .H)]
  rw [classify_version]
  simp only [Header.add]
  cases t with
  | H =>
    rw [fold_order_neutral .H _ _ (orderItems_other c .H .R (by decide)),
        fold_order_neutral .H _ _ (orderItems_other c .H .V (by decide))]
    rw [classify_orderLine]
    split <;> simp [Header.add, Header.empty]
  | V =>
    rw [fold_order_neutral .V _ _ (orderItems_other c .V .R (by decide))]
    rw [classify_orderLine c .V]
    split
    · simp only [List.foldl_nil]
      rw [fold_order_neutral .V _ _ (orderItems_other c .V .H (by decide))]
      rfl
    · simp [Header.add]
  | R =>
    rw [classify_orderLine c .R]
    split
    · simp only [List.foldl_nil]
      rw [fold_order_neutral .R _ _ (orderItems_other c .R .V (by decide)),
          fold_order_neutral .R _ _ (orderItems_other c .R .H (by decide))]
      rfl
    · simp [Header.add]


theorem header_declared_nil (c : Classes) (version : String) (dp : T → List Line → List Line)
    (hdp : ∀ t l, (dp t l).Perm l) (t : T) (hnil : c.names t = []) :
    (checkHeader (headerLines c version dp)).declared t = [] := by
  have hall : ∀ it ∈ (headerLines c version dp).map classify, itemDecl t it = [] := by
    intro it hit
    unfold headerLines at hit
    simp only [List.map_append, List.mem_append, List.map_cons, List.map_nil, List.mem_singleton] at hit
    have hord : ∀ t', it ∈ (orderLine c t').map classify → itemDecl t it = [] := by
      intro t' h
      rw [classify_orderLine] at h
      split at h
      · simp at h
      · simp only [List.mem_singleton] at h; subst h; rfl
    have hdecl : ∀ t', it ∈ (dp t' (declLines c t')).map classify → itemDecl t it = [] := by
      intro t' h
      by_cases heq : t' = t
      · subst heq
        have : declLines c t' = [] := by
          unfold declLines; unfold Classes.names at hnil
          simpa using hnil
        rw [this, (hdp t' []).eq_nil] at h
        simp at h
      · obtain ⟨n, rfl⟩ := decl_items c dp hdp t' it h
        simp [itemDecl, heq]
    rcases hit with (((((h | h) | h) | h) | h) | h) | h
    · exact hord _ h
    · exact hord _ h
    · exact hord _ h
    · subst h; rw [classify_version]; rfl
    · exact hdecl _ h
    · exact hdecl _ h
    · exact hdecl _ h
  unfold checkHeader
  rw [fold_decl_neutral t _ _ hall]
  rfl

theorem plan_rendered (c : Classes) (version : String) (dp : T → List Line → List Line)
    (hdp : ∀ t l, (dp t l).Perm l) (t : T) :
    plan c (checkHeader (headerLines c version dp)) t = (c.names t).map some := by
  unfold plan
  rw [header_order c version dp hdp t]
  by_cases hnil : c.names t = []
  · simp [hnil, header_declared_nil c version dp hdp t hnil]
  · simp only [hnil, ↓reduceIte, Option.getD_some]
    have h1 : (c.names t).filter (fun n => !(c.names t).contains n) = [] := by
      apply List.filter_eq_nil_iff.mpr
      intro n hn; simp [hn]
    have h2 : (c.names t).map (fun n => if (c.names t).contains n then some n else none) = (c.names t).map some := by
      apply List.map_congr_left
      intro n hn; simp [hn]
    rw [h1, h2]; simp


/-! data lines -/

theorem bind_all : ∀ (kv : List (String × String)),
    bind ((kv.map (·.1)).map some) (kv.map (·.2)) = some kv
  | [] => by simp [bind]
  | (k, v) :: t => by
    have ih := bind_all t
    simp only [List.map_cons, bind, ih, Option.map_some]

theorem filterMap_congr' {α β} (f g : α → Option β) : ∀ (l : List α), (∀ a ∈ l, f a = g a) →
    l.filterMap f = l.filterMap g
  | [], _ => rfl
  | a :: t, h => by
    have h1 := h a (List.mem_cons_self ..)
    have ih := filterMap_congr' f g t (fun x hx => h x (List.mem_cons_of_mem _ hx))
    simp only [List.filterMap_cons, h1, ih]

theorem lookup_rebuild : ∀ (l : List (String × String)), (l.map (·.1)).Nodup →
    (l.map (·.1)).filterMap (fun n => (l.lookup n).map (fun v => (n, v))) = l
  | [], _ => by simp
  | (k, v) :: t, hnd => by
    have hnd' : k ∉ t.map (·.1) ∧ (t.map (·.1)).Nodup := List.nodup_cons.mp hnd
    have ih := lookup_rebuild t hnd'.2
    simp only [List.map_cons, List.filterMap_cons, List.lookup_cons, beq_self_eq_true, Option.map_some]
    congr 1
    refine Eq.trans (filterMap_congr' _ _ _ ?_) ih
    intro n hn
    have hne : n ≠ k := fun h => hnd'.1 (h ▸ hn)
    have : (n == k) = false := by simpa using hne
    simp [this]

/-- a record as the classes `c` produce it -/
def WFRec (c : Classes) (r : Rec) : Prop :=
  r.mand.length = r.t.nMand ∧ r.extras.map (·.1) = c.names r.t

theorem parseLine_recLine (c : Classes) (hnd : ∀ t, (c.names t).Nodup) (h : Header)
    (hplan : ∀ t, plan c h t = (c.names t).map some) (r : Rec) (hr : WFRec c r) :
    parseLine c h (recLine r) = some r := by
  obtain ⟨hm, hx⟩ := hr
  unfold recLine parseLine
  simp only [List.cons_append, List.nil_append, ofSym_sym]
  have hlen : ¬ (r.mand ++ r.extras.map (·.2)).length < r.t.nMand := by simp [hm]
  simp only [hlen, ↓reduceIte]
  have hdrop : (r.mand ++ r.extras.map (·.2)).drop r.t.nMand = r.extras.map (·.2) := by
    rw [← hm]; simp
  have htake : (r.mand ++ r.extras.map (·.2)).take r.t.nMand = r.mand := by
    rw [← hm]; simp
  rw [hdrop, htake, hplan, ← hx, bind_all]
  simp only [Option.map_some, Option.some.injEq]
  have := lookup_rebuild r.extras (by rw [hx]; exact hnd r.t)
  rw [this]


/-! whole file -/

theorem takeWhile_append_of {α} (p : α → Bool) : ∀ (a b : List α), (∀ x ∈ a, p x = true) → (∀ x ∈ b, p x = false) →
    (a ++ b).takeWhile p = a ∧ (a ++ b).dropWhile p = b
  | [], b, _, hb => by
    cases b with
    | nil => simp
    | cons x t => simp [List.takeWhile, List.dropWhile, hb x (List.mem_cons_self ..)]
  | x :: a, b, ha, hb => by
    have := takeWhile_append_of p a b (fun y hy => ha y (List.mem_cons_of_mem _ hy)) hb
    simp [List.takeWhile, List.dropWhile, ha x (List.mem_cons_self ..), this.1, this.2]

theorem mapM_parse (c : Classes) (h : Header) : ∀ (l : List Rec),
    (∀ r ∈ l, parseLine c h (recLine r) = some r) → (l.map recLine).mapM (parseLine c h) = some l
  | [], _ => by simp
  | r :: t, hall => by
    have h1 := hall r (List.mem_cons_self ..)
    have ih := mapM_parse c h t (fun x hx => hall x (List.mem_cons_of_mem _ hx))
    simp [List.mapM_cons, h1, ih]

theorem flatMap_single {α β} [DecidableEq α] (x : α) (X : List β) : ∀ (L : List α), L.Nodup →
    L.flatMap (fun g => if g = x then X else []) = if x ∈ L then X else []
  | [], _ => by simp
  | a :: t, hnd => by
    have hnd' := List.nodup_cons.mp hnd
    have ih := flatMap_single x X t hnd'.2
    simp only [List.flatMap_cons, ih]
    by_cases hax : a = x
    · subst hax
      simp [hnd'.1]
    · have : ¬ x = a := fun h => hax h.symm
      simp [hax, this]

theorem nodup_of_map {α β} (f : α → β) : ∀ (l : List α), (l.map f).Nodup → l.Nodup
  | [], _ => List.nodup_nil
  | a :: t, h => by
    have h' : f a ∉ t.map f ∧ (t.map f).Nodup := List.nodup_cons.mp h
    exact List.nodup_cons.mpr ⟨fun hm => h'.1 (List.mem_map_of_mem hm), nodup_of_map f t h'.2⟩

theorem inj_of_nodup_map {α β} (f : α → β) : ∀ (l : List α), (l.map f).Nodup →
    ∀ a ∈ l, ∀ b ∈ l, f a = f b → a = b
  | [], _, a, ha, _, _, _ => by simp at ha
  | x :: t, h, a, ha, b, hb, hab => by
    have h' : f x ∉ t.map f ∧ (t.map f).Nodup := List.nodup_cons.mp h
    rcases List.mem_cons.mp ha with rfl | ha'
    · rcases List.mem_cons.mp hb with rfl | hb'
      · rfl
      · exact absurd (hab ▸ List.mem_map_of_mem hb') h'.1
    · rcases List.mem_cons.mp hb with rfl | hb'
      · exact absurd (hab ▸ List.mem_map_of_mem ha') h'.1
      · exact inj_of_nodup_map f t h'.2 a ha' b hb' hab

theorem flatMap_congr' {α β} (f g : α → List β) : ∀ (l : List α), (∀ a ∈ l, f a = g a) →
    l.flatMap f = l.flatMap g
  | [], _ => rfl
  | a :: t, h => by
    simp only [List.flatMap_cons, h a (List.mem_cons_self ..),
      flatMap_congr' f g t (fun x hx => h x (List.mem_cons_of_mem _ hx))]

/-- well-formed data: what `Haplotypes.data` holds when built with the classes `c` -/
structure WFData (c : Classes) (d : List (Rec × List Rec)) : Prop where
  owner : ∀ hv ∈ d, WFRec c hv.1 ∧ hv.1.t ≠ .V ∧ (hv.1.t = .R → hv.2 = [])
  vars : ∀ hv ∈ d, ∀ v ∈ hv.2, WFRec c v ∧ v.t = .V ∧ v.mand.head? = hv.1.mand[3]?
  ids : (d.map (fun hv => hv.1.mand[3]?)).Nodup


theorem render_split (c : Classes) (version : String) (dp : T → List Line → List Line)
    (vo : List (Rec × List Rec) → List (Rec × List Rec)) (d : List (Rec × List Rec)) :
    render c version dp vo d = headerLines c version dp ++
      ((d.map (·.1)) ++ (vo (d.filter (fun hv => hv.1.t = .H))).flatMap (·.2)).map recLine := by
  unfold render headerLines
  simp [List.map_append, List.map_flatMap, List.append_assoc, Function.comp_def]

/-- C06: reading back what was written gives the same records, fields, variant membership and order -/
theorem read_write (c : Classes) (version : String) (dp : T → List Line → List Line)
    (vo : List (Rec × List Rec) → List (Rec × List Rec))
    (hdp : ∀ t l, (dp t l).Perm l) (hvo : ∀ l, (vo l).Perm l) (hnd : ∀ t, (c.names t).Nodup)
    (d : List (Rec × List Rec)) (hd : WFData c d) :
    parse c (render c version dp vo d) = some d := by
  rw [render_split]
  -- abbreviations
  generalize hHs : vo (d.filter (fun hv => hv.1.t = .H)) = Hs
  have hHsperm : Hs.Perm (d.filter (fun hv => hv.1.t = .H)) := by rw [← hHs]; exact hvo _
  have hHsmem : ∀ g ∈ Hs, g ∈ d ∧ g.1.t = .H := by
    intro g hg
    have := hHsperm.mem_iff.mp hg
    simpa using List.mem_filter.mp this
  -- all records, in file order
  generalize hrecs : (d.map (·.1)) ++ Hs.flatMap (·.2) = recs
  have hrecs_wf : ∀ r ∈ recs, WFRec c r := by
    intro r hr
    rw [← hrecs] at hr
    rcases List.mem_append.mp hr with h | h
    · obtain ⟨hv, hhv, rfl⟩ := List.mem_map.mp h
      exact (hd.owner hv hhv).1
    · obtain ⟨g, hg, hrg⟩ := List.mem_flatMap.mp h
      exact (hd.vars g (hHsmem g hg).1 r hrg).1
  -- header and body are separated correctly
  have hsplit := takeWhile_append_of isHash (headerLines c version dp) (recs.map recLine)
    (by
      intro l hl
      unfold headerLines at hl
      simp only [List.mem_append, List.mem_singleton] at hl
      have hperm : ∀ t, l ∈ dp t (declLines c t) → isHash l = true :=
        fun t h => isHash_declLine c t l ((hdp t _).mem_iff.mp h)
      rcases hl with (((((h | h) | h) | h) | h) | h) | h
      · exact isHash_orderLine c _ l h
      · exact isHash_orderLine c _ l h
      · exact isHash_orderLine c _ l h
      · subst h; simp [isHash]
      · exact hperm _ h
      · exact hperm _ h
      · exact hperm _ h)
    (by
      intro l hl
      obtain ⟨r, _, rfl⟩ := List.mem_map.mp hl
      exact isHash_recLine r)
  unfold parse
  simp only [hsplit.1, hsplit.2]
  have hfilter : (recs.map recLine).filter (fun l => !isHash l) = recs.map recLine := by
    apply List.filter_eq_self.mpr
    intro l hl
    obtain ⟨r, _, rfl⟩ := List.mem_map.mp hl
    simp [isHash_recLine]
  rw [hfilter]
  have hplan := plan_rendered c version dp hdp
  rw [mapM_parse c _ recs (fun r hr => parseLine_recLine c hnd _ hplan r (hrecs_wf r hr))]
  simp only [Option.some.injEq]
  -- owners are exactly the H/R records of `d`
  have howners : recs.filter (fun r => r.t ≠ .V) = d.map (·.1) := by
    rw [← hrecs, List.filter_append]
    have h1 : (d.map (·.1)).filter (fun r => r.t ≠ .V) = d.map (·.1) := by
      apply List.filter_eq_self.mpr
      intro r hr
      obtain ⟨hv, hhv, rfl⟩ := List.mem_map.mp hr
      simpa using (hd.owner hv hhv).2.1
    have h2 : (Hs.flatMap (·.2)).filter (fun r => r.t ≠ .V) = [] := by
      apply List.filter_eq_nil_iff.mpr
      intro r hr
      obtain ⟨g, hg, hrg⟩ := List.mem_flatMap.mp hr
      simp [(hd.vars g (hHsmem g hg).1 r hrg).2.1]
    rw [h1, h2]; simp
  rw [howners, List.map_map]
  -- the variants attached to each owner are its own variants
  have hdnd : d.Nodup := nodup_of_map _ d hd.ids
  have hHsnd : Hs.Nodup := hHsperm.nodup_iff.mpr (hdnd.filter _)
  have hattach : ∀ hv ∈ d, recs.filter (fun r => r.t = .V ∧ r.mand.head? = hv.1.mand[3]?) = hv.2 := by
    intro hv hhv
    rw [← hrecs, List.filter_append]
    have h1 : (d.map (·.1)).filter (fun r => r.t = .V ∧ r.mand.head? = hv.1.mand[3]?) = [] := by
      apply List.filter_eq_nil_iff.mpr
      intro r hr
      obtain ⟨g, hg, rfl⟩ := List.mem_map.mp hr
      have := (hd.owner g hg).2.1
      simp [this]
    rw [h1, List.nil_append, List.filter_flatMap]
    -- each group contributes all or nothing
    have hgroup : ∀ g ∈ Hs, g.2.filter (fun r => r.t = .V ∧ r.mand.head? = hv.1.mand[3]?) =
        if g = hv then hv.2 else [] := by
      intro g hg
      have hgd := (hHsmem g hg).1
      by_cases hgv : g = hv
      · subst hgv
        simp only [↓reduceIte]
        apply List.filter_eq_self.mpr
        intro r hr
        have := hd.vars g hgd r hr
        simp [this.2.1, this.2.2]
      · simp only [hgv, ↓reduceIte]
        apply List.filter_eq_nil_iff.mpr
        intro r hr
        have hr' := hd.vars g hgd r hr
        -- ids of distinct members of d differ
        have hne : g.1.mand[3]? ≠ hv.1.mand[3]? := by
          intro heq
          exact hgv (inj_of_nodup_map _ d hd.ids g hgd hv hhv heq)
        simp [hr'.2.1, hr'.2.2, hne]
    have : Hs.flatMap (fun g => g.2.filter (fun r => r.t = .V ∧ r.mand.head? = hv.1.mand[3]?)) =
        Hs.flatMap (fun g => if g = hv then hv.2 else []) := by
      exact flatMap_congr' _ _ Hs hgroup
    rw [this, flatMap_single hv hv.2 Hs hHsnd]
    by_cases hin : hv ∈ Hs
    · simp [hin]
    · simp only [hin, ↓reduceIte]
      -- not among the haplotypes: a repeat, which has no variants
      have hown := hd.owner hv hhv
      have hnotH : hv.1.t ≠ .H := by
        intro hH
        exact hin (hHsperm.mem_iff.mpr (List.mem_filter.mpr ⟨hhv, by simpa using hH⟩))
      have hR : hv.1.t = .R := by
        cases ht : hv.1.t with
        | H => exact absurd ht hnotH
        | V => exact absurd ht hown.2.1
        | R => rfl
      exact (hown.2.2 hR).symm
  -- conclude
  have : d.map ((fun o => (o, recs.filter (fun r => r.t = .V ∧ r.mand.head? = o.mand[3]?))) ∘ (·.1)) = d.map id := by
    apply List.map_congr_left
    intro hv hhv
    simp only [Function.comp, id]
    rw [hattach hv hhv]
  rw [this]; simp

end HapFormat
