import HapModel.Model.Pheno
/-!
# C15 model: `.pheno` / covariate files at token level

`Phenotypes.write` (`renderT`) and `__iter__` / `_iterate` / `read` (`parseT`).  Cell values are an abstract type
`V` with a formatter and a parser (numpy's `array2string(floatmode='unique')` and `float64(token)`): the round
trip is proved under the codec contract `parse (fmt v) = some v`, which the harness checks bitwise.
-/
namespace PhenoFile
open Pheno

structure Table (V : Type) where
  names : List String
  rows : List (String × List V)

def isComment (l : List String) : Bool :=
  match l with
  | [] => false
  | f :: _ => f.startsWith "#" && !f.startsWith "#IID"

def renderT {V} (fmt : V → String) (t : Table V) : List (List String) :=
  ("#IID" :: uniqNames t.names) :: t.rows.map (fun r => r.1 :: r.2.map fmt)

/-- one data row: the sample ID and its cells; a cell that does not parse drops the whole row (an error is logged) -/
def parseRow {V} (parse : String → Option V) (l : List String) : Option (String × List V) :=
  match l with
  | [] => none
  | s :: toks => (toks.mapM parse).map (fun vs => (s, vs))

def parseT {V} (parse : String → Option V) (lines : List (List String)) : Option (Table V) :=
  match lines.dropWhile isComment with
  | [] => none
  | h :: body => if h.length < 2 then none else some ⟨h.tail, body.filterMap (parseRow parse)⟩

theorem mapM_fmt {V} (fmt : V → String) (parse : String → Option V) (hc : ∀ v, parse (fmt v) = some v) :
    ∀ (vs : List V), (vs.map fmt).mapM parse = some vs
  | [] => rfl
  | v :: vs => by
    simp only [List.map_cons, List.mapM_cons, hc v, mapM_fmt fmt parse hc vs]
    rfl

theorem filterMap_rows {V} (fmt : V → String) (parse : String → Option V) (hc : ∀ v, parse (fmt v) = some v) :
    ∀ (rows : List (String × List V)),
      (rows.map (fun r => r.1 :: r.2.map fmt)).filterMap (parseRow parse) = rows
  | [] => rfl
  | r :: rest => by
    simp only [List.map_cons, List.filterMap_cons, parseRow, mapM_fmt fmt parse hc r.2, Option.map_some,
      filterMap_rows fmt parse hc rest]

/-- **write then read** returns the same samples in the same order, the (suffix-uniquified) names and the same
    values, under the codec contract -/
theorem parse_render {V} (fmt : V → String) (parse : String → Option V) (hc : ∀ v, parse (fmt v) = some v)
    (t : Table V) (hn : t.names ≠ []) :
    (parseT parse (renderT fmt t)).map (fun r => (r.names, r.rows)) = some (uniqNames t.names, t.rows) := by
  unfold parseT renderT
  have hcm : isComment ("#IID" :: uniqNames t.names) = false := by
    simp [isComment]
  simp only [List.dropWhile_cons, hcm, Bool.false_eq_true, ↓reduceIte]
  have hlen : ¬ ("#IID" :: uniqNames t.names).length < 2 := by
    have : (uniqNames t.names).length ≥ 1 := by
      cases hnm : t.names with
      | nil => exact absurd hnm hn
      | cons a r => rw [uniqNames_length]; simp
    simp only [List.length_cons]; omega
  simp only [hlen, ↓reduceIte, Option.map_some, List.tail_cons, filterMap_rows fmt parse hc]

/-- rows with a non-numeric entry are skipped, never misparsed or shifted: a parsed row carries the sample ID and
    exactly the cells of its own line -/
theorem parsed_row_is_its_line {V} (parse : String → Option V) (l : List String) (s : String) (vs : List V)
    (h : parseRow parse l = some (s, vs)) :
    ∃ toks, l = s :: toks ∧ toks.mapM parse = some vs := by
  unfold parseRow at h
  cases l with
  | nil => cases h
  | cons a toks =>
    simp only [Option.map_eq_some_iff, Prod.mk.injEq] at h
    obtain ⟨w, hw, rfl, rfl⟩ := h
    exact ⟨toks, rfl, hw⟩

theorem rows_are_the_parsable_rows {V} (parse : String → Option V) (h : List String) (body : List (List String))
    (hh : isComment h = false) (hl : ¬ h.length < 2) :
    (parseT parse (h :: body)).map (·.rows) = some (body.filterMap (parseRow parse)) := by
  unfold parseT
  simp [List.dropWhile_cons, hh, hl]

/-- leading comment lines are ignored -/
theorem leading_comments_ignored {V} (parse : String → Option V) (c : List String) (lines : List (List String))
    (hc : isComment c = true) : parseT parse (c :: lines) = parseT parse lines := by
  unfold parseT
  simp [List.dropWhile_cons, hc]

end PhenoFile
