/-! Prototype C20: `validate_params` (after fix F17) as the literal chain of checks, on pre-tokenised inputs.
    Fractions are exact rationals; the `1e-6` tolerance of the float32 sum is `tol`. -/
namespace Validate

inductive Reason
  | samplesNotInt | fewPops | samplesLt1 | genNotInt | fracNotFloat | fracCount | genOrder | fracSum
  | mapdir | badChrom | noMaps | popsizeNotInt | popsizeNonPos | region | vcfUnreadable
  | sampleNotInVcf | popNotInInfo | tooFewSamples
deriving Repr, DecidableEq

structure GenLine where
  gen : Option Int                 -- `int(cur_gen)` (none = ValueError)
  fracs : Option (List Rat)        -- `np.array(pop_fracs).astype(np.float32)` (none = ValueError)

structure Inputs where
  nSamples : Option Int            -- `int(num_samples)`
  pops : List String               -- header tokens after the first (`Admixed` included)
  gens : List GenLine
  mapdirIsDir : Bool
  chroms : List String
  mapFilesFound : Nat              -- number of `*.map` files whose chr tag is among `chroms`
  popsize : Option Int             -- none = not an `int` instance
  onlyBp : Bool
  region : Option (Nat × Nat)
  vcfSamples : Option (List String)
  sampleInfo : List (String × String)
  noReplacement : Bool

def validChroms : List String :=
  ["1","2","3","4","5","6","7","8","9","10","11","12","13","14","15","16","17","18","19","20","21","22","X"]

def absRat (q : Rat) : Rat := if q < 0 then -q else q

def checkGens (numPops : Nat) (tol : Rat) : Int → List GenLine → Except Reason Unit
  | _, [] => .ok ()
  | prev, g :: rest =>
    match g.gen with
    | none => .error .genNotInt
    | some cur =>
      match g.fracs with
      | none => .error .fracNotFloat
      | some fr =>
        if fr.length ≠ numPops then .error .fracCount
        else if cur - prev < 1 then .error .genOrder
        else if absRat (fr.foldl (· + ·) 0 - 1) > tol then .error .fracSum
        else checkGens numPops tol cur rest

/-- the `for model_pop in pops[1:]` loop: presence first, then (with --no_replacement) the sample count -/
def checkPops (inp : Inputs) (n : Int) : List String → Except Reason Unit
  | [] => .ok ()
  | p :: rest =>
    if !(inp.sampleInfo.map (·.2)).contains p then .error .popNotInInfo
    else if inp.noReplacement && decide (((inp.sampleInfo.filter (fun sp => sp.2 = p)).length : Int) < n)
      then .error .tooFewSamples
    else checkPops inp n rest

def checkInfo (inp : Inputs) (vcf : List String) : Except Reason Unit :=
  match inp.sampleInfo.find? (fun sp => !vcf.contains sp.1 && inp.pops.contains sp.2) with
  | some _ => .error .sampleNotInVcf
  | none =>
    match inp.nSamples with
    | none => .ok ()
    | some n => checkPops inp n (inp.pops.drop 1)

def validate (tol : Rat) (inp : Inputs) : Except Reason Int :=
  match inp.nSamples with
  | none => .error .samplesNotInt
  | some n =>
    if inp.pops.length < 3 then .error .fewPops
    else if n < 1 then .error .samplesLt1
    else match checkGens inp.pops.length tol 0 inp.gens with
      | .error e => .error e
      | .ok () =>
        if !inp.mapdirIsDir then .error .mapdir
        else if inp.chroms.any (fun c => !validChroms.contains c) then .error .badChrom
        else if inp.mapFilesFound = 0 then .error .noMaps
        else match inp.popsize with
          | none => .error .popsizeNotInt
          | some p =>
            if p ≤ 0 then .error .popsizeNonPos
            else
              let p' := max p (10 * n)
              match inp.region with
              | some (s, e) => if s > e then .error .region else rest p'
              | none => rest p'
where
  rest (p' : Int) : Except Reason Int :=
    if inp.onlyBp then .ok p'
    else match inp.vcfSamples with
      | none => .error .vcfUnreadable
      | some vcf => match checkInfo inp vcf with
        | .error e => .error e
        | .ok () => .ok p'

/-- whatever else is true of the input, a region whose start exceeds its end is never accepted –
    with and without `--only_breakpoint` (F17) -/
theorem region_rejected (tol : Rat) (inp : Inputs) (s e : Nat) (hr : inp.region = some (s, e)) (hse : s > e) :
    ∀ p, validate tol inp ≠ .ok p := by
  intro p h
  unfold validate at h
  split at h
  · cases h
  · split at h
    · cases h
    · split at h
      · cases h
      · split at h
        · cases h
        · split at h
          · cases h
          · split at h
            · cases h
            · split at h
              · cases h
              · split at h
                · cases h
                · split at h
                  · cases h
                  · simp only [hr] at h
                    simp [hse] at h

/-- accepted inputs get an effective population size of at least ten times the number of samples -/
theorem popsize_at_least (tol : Rat) (inp : Inputs) (p n : Int) (hn : inp.nSamples = some n)
    (h : validate tol inp = .ok p) : 10 * n ≤ p := by
  unfold validate at h
  simp only [hn] at h
  split at h
  · cases h
  · split at h
    · cases h
    · split at h
      · cases h
      · split at h
        · cases h
        · split at h
          · cases h
          · split at h
            · cases h
            · split at h
              · cases h
              · split at h
                · cases h
                · rename_i p0 _ _
                  have hmax : 10 * n ≤ max p0 (10 * n) := Int.le_max_right ..
                  split at h
                  · split at h
                    · cases h
                    · unfold validate.rest at h
                      split at h
                      · cases h; exact hmax
                      · split at h
                        · cases h
                        · split at h
                          · cases h
                          · cases h; exact hmax
                  · unfold validate.rest at h
                    split at h
                    · cases h; exact hmax
                    · split at h
                      · cases h
                      · split at h
                        · cases h
                        · cases h; exact hmax

/-! ### characterisation of acceptance -/

/-- every generation line meets the documented requirements -/
def GensOK (numPops : Nat) (tol : Rat) : Int → List GenLine → Prop
  | _, [] => True
  | prev, g :: rest => ∃ cur fr, g.gen = some cur ∧ g.fracs = some fr ∧ fr.length = numPops ∧
      1 ≤ cur - prev ∧ absRat (fr.foldl (· + ·) 0 - 1) ≤ tol ∧ GensOK numPops tol cur rest

theorem checkGens_ok_iff (numPops : Nat) (tol : Rat) : ∀ (gens : List GenLine) (prev : Int),
    checkGens numPops tol prev gens = .ok () ↔ GensOK numPops tol prev gens
  | [], prev => by simp [checkGens, GensOK]
  | g :: rest, prev => by
    unfold checkGens GensOK
    cases hg : g.gen with
    | none => simp
    | some cur =>
      cases hf : g.fracs with
      | none => simp
      | some fr =>
        simp only [Option.some.injEq, exists_and_left, exists_eq_left']
        by_cases h1 : fr.length ≠ numPops
        · simp [h1]
        · by_cases h2 : cur - prev < 1
          · simp [h1, h2]; intro _ h; omega
          · by_cases h3 : absRat (fr.foldl (· + ·) 0 - 1) > tol
            · simp [h1, h2, h3]; intro _ _ h; exact absurd h (Rat.not_le.mpr h3)
            · have ih := checkGens_ok_iff numPops tol rest cur
              simp only [h1, h2, h3, ↓reduceIte, ih]
              constructor
              · intro h; exact ⟨by simpa using h1, by omega, Rat.not_lt.mp h3, h⟩
              · intro h; exact h.2.2.2

def PopsOK (inp : Inputs) (n : Int) (ps : List String) : Prop :=
  ∀ p ∈ ps, (inp.sampleInfo.map (·.2)).contains p = true ∧
    (inp.noReplacement = true → n ≤ ((inp.sampleInfo.filter (fun sp => sp.2 = p)).length : Int))

theorem checkPops_ok_iff (inp : Inputs) (n : Int) : ∀ ps, checkPops inp n ps = .ok () ↔ PopsOK inp n ps
  | [] => by simp [checkPops, PopsOK]
  | p :: rest => by
    unfold checkPops
    have ih := checkPops_ok_iff inp n rest
    by_cases h1 : (inp.sampleInfo.map (·.2)).contains p = true
    · by_cases h2 : inp.noReplacement = true ∧ ((inp.sampleInfo.filter (fun sp => sp.2 = p)).length : Int) < n
      · have : (inp.noReplacement && decide (((inp.sampleInfo.filter (fun sp => sp.2 = p)).length : Int) < n)) = true := by
          simp [h2.1, h2.2]
        simp only [h1, Bool.not_true, Bool.false_eq_true, ↓reduceIte, this, reduceCtorEq, false_iff]
        intro h; have := (h p List.mem_cons_self).2 h2.1; omega
      · have : (inp.noReplacement && decide (((inp.sampleInfo.filter (fun sp => sp.2 = p)).length : Int) < n)) = false := by
          cases hb : inp.noReplacement <;> simp_all
        simp only [h1, Bool.not_true, Bool.false_eq_true, ↓reduceIte, this, ih]
        constructor
        · intro h q hq
          rcases List.mem_cons.mp hq with rfl | hq'
          · refine ⟨h1, fun hnr => ?_⟩
            by_cases hlt : ((inp.sampleInfo.filter (fun sp => sp.2 = q)).length : Int) < n
            · exact absurd ⟨hnr, hlt⟩ h2
            · omega
          · exact h q hq'
        · intro h q hq; exact h q (List.mem_cons_of_mem _ hq)
    · have h1' : (inp.sampleInfo.map (·.2)).contains p = false := by simpa using h1
      simp only [h1', Bool.not_false, ↓reduceIte, reduceCtorEq, false_iff]
      intro h; have := (h p List.mem_cons_self).1; rw [h1'] at this; cases this

/-- all requirements, as one predicate (what the documentation asks of an input) -/
def Accepts (tol : Rat) (inp : Inputs) (p : Int) : Prop :=
  ∃ n ps, inp.nSamples = some n ∧ 3 ≤ inp.pops.length ∧ 1 ≤ n ∧
    GensOK inp.pops.length tol 0 inp.gens ∧ inp.mapdirIsDir = true ∧
    (∀ c ∈ inp.chroms, c ∈ validChroms) ∧ inp.mapFilesFound ≠ 0 ∧
    inp.popsize = some ps ∧ 0 < ps ∧ p = max ps (10 * n) ∧
    (∀ s e, inp.region = some (s, e) → s ≤ e) ∧
    (inp.onlyBp = true ∨ ∃ vcf, inp.vcfSamples = some vcf ∧
      (∀ sp ∈ inp.sampleInfo, sp.2 ∈ inp.pops → sp.1 ∈ vcf) ∧
      PopsOK inp n (inp.pops.drop 1))

theorem checkInfo_ok_iff (inp : Inputs) (vcf : List String) (n : Int) (hn : inp.nSamples = some n) :
    checkInfo inp vcf = .ok () ↔
      (∀ sp ∈ inp.sampleInfo, sp.2 ∈ inp.pops → sp.1 ∈ vcf) ∧ PopsOK inp n (inp.pops.drop 1) := by
  unfold checkInfo
  cases hf : inp.sampleInfo.find? (fun sp => !vcf.contains sp.1 && inp.pops.contains sp.2) with
  | some x =>
    simp only [reduceCtorEq, false_iff, not_and]
    intro h
    have hx := List.find?_some hf
    have hm := List.mem_of_find?_eq_some hf
    simp only [Bool.and_eq_true, Bool.not_eq_true', List.contains_eq_mem, decide_eq_false_iff_not,
      decide_eq_true_eq] at hx
    exact absurd (h x hm hx.2) hx.1
  | none =>
    simp only [hn, checkPops_ok_iff]
    constructor
    · intro h
      refine ⟨?_, h⟩
      intro sp hsp hc
      have := List.find?_eq_none.mp hf sp hsp
      simp only [Bool.and_eq_true, Bool.not_eq_true', List.contains_eq_mem, decide_eq_false_iff_not,
        decide_eq_true_eq, not_and, Classical.not_not] at this
      by_cases hv : sp.1 ∈ vcf
      · exact hv
      · exact absurd hc (this hv)
    · intro h; exact h.2

theorem rest_ok_iff (inp : Inputs) (n p p' : Int) (hn : inp.nSamples = some n) :
    validate.rest inp p' = .ok p ↔ (p = p' ∧ (inp.onlyBp = true ∨
      ∃ vcf, inp.vcfSamples = some vcf ∧ (∀ sp ∈ inp.sampleInfo, sp.2 ∈ inp.pops → sp.1 ∈ vcf) ∧
        PopsOK inp n (inp.pops.drop 1))) := by
  unfold validate.rest
  cases hob : inp.onlyBp with
  | true => simp; exact eq_comm
  | false =>
    cases hv : inp.vcfSamples with
    | none => simp
    | some vcf =>
      cases hci : checkInfo inp vcf with
      | error e =>
        have hno : ¬ ((∀ sp ∈ inp.sampleInfo, sp.2 ∈ inp.pops → sp.1 ∈ vcf) ∧ PopsOK inp n (inp.pops.drop 1)) := by
          intro h; rw [← checkInfo_ok_iff inp vcf n hn] at h; rw [hci] at h; cases h
        simp only [Bool.false_eq_true, ↓reduceIte, hci, reduceCtorEq, false_or, Option.some.injEq,
          exists_eq_left', false_iff, not_and]
        intro _ ha hb; exact hno ⟨ha, hb⟩
      | ok u2 =>
        have hyes := (checkInfo_ok_iff inp vcf n hn).mp (by rw [hci])
        simp only [Bool.false_eq_true, ↓reduceIte, hci, Except.ok.injEq, false_or, Option.some.injEq,
          exists_eq_left']
        exact ⟨fun h => ⟨h.symm, hyes⟩, fun h => h.1.symm⟩

/-- **acceptance ⇔ every documented requirement holds** (and the effective population size is
    `max popsize (10·n)`); each `rejects_…` theorem of C20 is a corollary -/
theorem validate_ok_iff (tol : Rat) (inp : Inputs) (p : Int) :
    validate tol inp = .ok p ↔ Accepts tol inp p := by
  unfold validate Accepts
  cases hn : inp.nSamples with
  | none => simp
  | some n =>
    simp only [Option.some.injEq, exists_and_left, exists_eq_left']
    by_cases h1 : inp.pops.length < 3
    · simp only [h1, ↓reduceIte, reduceCtorEq, false_iff]; intro h; omega
    simp only [h1, ↓reduceIte]
    by_cases h2 : n < 1
    · simp only [h2, ↓reduceIte, reduceCtorEq, false_iff]; intro h; omega
    simp only [h2, ↓reduceIte]
    cases hg : checkGens inp.pops.length tol 0 inp.gens with
    | error e =>
      have : ¬ GensOK inp.pops.length tol 0 inp.gens := by
        intro h; rw [← checkGens_ok_iff] at h; rw [hg] at h; cases h
      simp only [reduceCtorEq, false_iff]; intro h; exact this h.2.2.1
    | ok u =>
      have hgok : GensOK inp.pops.length tol 0 inp.gens := by
        rw [← checkGens_ok_iff]; rw [hg]
      simp only
      cases h3 : inp.mapdirIsDir with
      | false => simp
      | true =>
        simp only [Bool.not_true, Bool.false_eq_true, ↓reduceIte]
        by_cases h4 : inp.chroms.any (fun c => !validChroms.contains c) = true
        · simp only [h4, ↓reduceIte, reduceCtorEq, false_iff]
          intro h
          obtain ⟨c, hc, hb⟩ := List.any_eq_true.mp h4
          have := h.2.2.2.2.1 c hc
          simp only [Bool.not_eq_true', List.contains_eq_mem, decide_eq_false_iff_not] at hb
          exact hb this
        · have hall : ∀ c ∈ inp.chroms, c ∈ validChroms := by
            intro c hc
            by_cases hv : c ∈ validChroms
            · exact hv
            · exact absurd (List.any_eq_true.mpr ⟨c, hc, by simpa using hv⟩) h4
          simp only [h4, Bool.false_eq_true, ↓reduceIte]
          by_cases h5 : inp.mapFilesFound = 0
          · simp only [h5, ↓reduceIte, reduceCtorEq, false_iff]; intro h; exact h.2.2.2.2.2.1 rfl
          simp only [h5, ↓reduceIte]
          cases hp : inp.popsize with
          | none => simp
          | some ps =>
            simp only [Option.some.injEq, exists_eq_left']
            by_cases h6 : ps ≤ 0
            · simp only [h6, ↓reduceIte, reduceCtorEq, false_iff]; intro h; have := h.2.2.2.2.2.2.1; omega
            simp only [h6, ↓reduceIte]
            cases hr : inp.region with
            | none =>
              simp only [rest_ok_iff inp n p _ hn]
              constructor
              · intro h; exact ⟨by omega, by omega, hgok, trivial, hall, h5, by omega, h.1, by simp, h.2⟩
              · intro h; exact ⟨h.2.2.2.2.2.2.2.1, h.2.2.2.2.2.2.2.2.2⟩
            | some se =>
              obtain ⟨s, e⟩ := se
              by_cases h7 : s > e
              · simp only [h7, ↓reduceIte, reduceCtorEq, false_iff]
                intro h; have := h.2.2.2.2.2.2.2.2.1 s e rfl; omega
              · simp only [h7, ↓reduceIte, rest_ok_iff inp n p _ hn]
                constructor
                · intro h
                  refine ⟨by omega, by omega, hgok, trivial, hall, h5, by omega, h.1, ?_, h.2⟩
                  intro s' e' hse; cases hse; omega
                · intro h; exact ⟨h.2.2.2.2.2.2.2.1, h.2.2.2.2.2.2.2.2.2⟩

/-! ### what happens between acceptance and the first simulated generation (`_prepare_coords`) -/

inductive PrepReason | missingMap | badMapLine
deriving Repr, DecidableEq

/-- `_prepare_coords`' own refusals: a requested chromosome without map file, a map line without 4 fields -/
def prepare (nChroms mapFilesFound : Nat) (lineFieldCounts : List Nat) : Except PrepReason Unit :=
  if mapFilesFound ≠ nChroms then .error .missingMap
  else if lineFieldCounts.any (· != 4) then .error .badMapLine
  else .ok ()

/-- the whole up-front phase of `simgenotype`: `validate_params`, then `_prepare_coords` -/
def pipeline (tol : Rat) (inp : Inputs) (lineFieldCounts : List Nat) : Except (Sum Reason PrepReason) Int :=
  match validate tol inp with
  | .error e => .error (.inl e)
  | .ok p =>
    match prepare inp.chroms.length inp.mapFilesFound lineFieldCounts with
    | .error e => .error (.inr e)
    | .ok () => .ok p

theorem pipeline_ok_iff (tol : Rat) (inp : Inputs) (lfc : List Nat) (p : Int) :
    pipeline tol inp lfc = .ok p ↔
      Accepts tol inp p ∧ inp.mapFilesFound = inp.chroms.length ∧ ∀ k ∈ lfc, k = 4 := by
  unfold pipeline prepare
  cases hv : validate tol inp with
  | error e =>
    have : ¬ Accepts tol inp p := by
      intro h; rw [← validate_ok_iff] at h; rw [hv] at h; cases h
    simp [this]
  | ok q =>
    have hq : Accepts tol inp q := (validate_ok_iff tol inp q).mp hv
    by_cases h1 : inp.mapFilesFound = inp.chroms.length
    · by_cases h2 : lfc.any (· != 4) = true
      · simp only [h1, ne_eq, not_true_eq_false, ↓reduceIte, h2, reduceCtorEq, false_iff, not_and]
        intro _ _ h
        obtain ⟨k, hk, hb⟩ := List.any_eq_true.mp h2
        have := h k hk
        simp [this] at hb
      · have hall : ∀ k ∈ lfc, k = 4 := by
          intro k hk
          by_cases h4 : k = 4
          · exact h4
          · exact absurd (List.any_eq_true.mpr ⟨k, hk, by simpa using h4⟩) h2
        simp only [h1, ne_eq, not_true_eq_false, ↓reduceIte, h2, Bool.false_eq_true, Except.ok.injEq]
        constructor
        · intro h; subst h; exact ⟨hq, trivial, hall⟩
        · intro h
          have h1' := (validate_ok_iff tol inp p).mpr h.1
          rw [hv] at h1'; exact Except.ok.inj h1'
    · simp only [ne_eq, h1, not_false_eq_true, ↓reduceIte, reduceCtorEq, false_iff]
      intro h; exact h.2.1

end Validate
