/-! Prototype C20: `validate_params` (after fix F17) as the literal chain of checks, on pre-tokenised inputs.
    Fractions are exact rationals; the `1e-6` tolerance of the float32 sum is `tol`. -/
namespace Validate

inductive Reason
  | samplesNotInt | fewPops | samplesLt1 | genNotInt | fracNotFloat | fracCount | genOrder | fracSum
  | mapdir | badChrom | noMaps | popsizeNotInt | popsizeNonPos | region | vcfUnreadable
  | sampleNotInVcf | popNotInInfo | tooFewSamples
deriving Repr, DecidableEq

structure GenLine where
  gen : Option Int                 -- `int(cur_gen)` (none = ValueError)
  fracs : Option (List Rat)        -- `np.array(pop_fracs).astype(np.float32)` (none = ValueError)

structure Inputs where
  nSamples : Option Int            -- `int(num_samples)`
  pops : List String               -- header tokens after the first (`Admixed` included)
  gens : List GenLine
  mapdirIsDir : Bool
  chroms : List String
  mapFilesFound : Nat              -- number of `*.map` files whose chr tag is among `chroms`
  popsize : Option Int             -- none = not an `int` instance
  onlyBp : Bool
  region : Option (Nat × Nat)
  vcfSamples : Option (List String)
  sampleInfo : List (String × String)
  noReplacement : Bool

def validChroms : List String :=
  ["1","2","3","4","5","6","7","8","9","10","11","12","13","14","15","16","17","18","19","20","21","22","X"]

def absRat (q : Rat) : Rat := if q < 0 then -q else q

def checkGens (numPops : Nat) (tol : Rat) : Int → List GenLine → Except Reason Unit
  | _, [] => .ok ()
  | prev, g :: rest =>
    match g.gen with
    | none => .error .genNotInt
    | some cur =>
      match g.fracs with
      | none => .error .fracNotFloat
      | some fr =>
        if fr.length ≠ numPops then .error .fracCount
        else if cur - prev < 1 then .error .genOrder
        else if absRat (fr.foldl (· + ·) 0 - 1) > tol then .error .fracSum
        else checkGens numPops tol cur rest

def checkInfo (inp : Inputs) (vcf : List String) : Except Reason Unit :=
  match inp.sampleInfo.find? (fun sp => !vcf.contains sp.1 && inp.pops.contains sp.2) with
  | some _ => .error .sampleNotInVcf
  | none =>
    match (inp.pops.drop 1).find? (fun p => !(inp.sampleInfo.map (·.2)).contains p) with
    | some _ => .error .popNotInInfo
    | none =>
      match inp.nSamples with
      | none => .ok ()
      | some n =>
        if inp.noReplacement &&
            (inp.pops.drop 1).any (fun p => ((inp.sampleInfo.filter (fun sp => sp.2 = p)).length : Int) < n)
        then .error .tooFewSamples else .ok ()

def validate (tol : Rat) (inp : Inputs) : Except Reason Int :=
  match inp.nSamples with
  | none => .error .samplesNotInt
  | some n =>
    if inp.pops.length < 3 then .error .fewPops
    else if n < 1 then .error .samplesLt1
    else match checkGens inp.pops.length tol 0 inp.gens with
      | .error e => .error e
      | .ok () =>
        if !inp.mapdirIsDir then .error .mapdir
        else if inp.chroms.any (fun c => !validChroms.contains c) then .error .badChrom
        else if inp.mapFilesFound = 0 then .error .noMaps
        else match inp.popsize with
          | none => .error .popsizeNotInt
          | some p =>
            if p ≤ 0 then .error .popsizeNonPos
            else
              let p' := max p (10 * n)
              match inp.region with
              | some (s, e) => if s > e then .error .region else rest p'
              | none => rest p'
where
  rest (p' : Int) : Except Reason Int :=
    if inp.onlyBp then .ok p'
    else match inp.vcfSamples with
      | none => .error .vcfUnreadable
      | some vcf => match checkInfo inp vcf with
        | .error e => .error e
        | .ok () => .ok p'

/-- whatever else is true of the input, a region whose start exceeds its end is never accepted –
    with and without `--only_breakpoint` (F17) -/
theorem region_rejected (tol : Rat) (inp : Inputs) (s e : Nat) (hr : inp.region = some (s, e)) (hse : s > e) :
    ∀ p, validate tol inp ≠ .ok p := by
  intro p h
  unfold validate at h
  split at h
  · cases h
  · split at h
    · cases h
    · split at h
      · cases h
      · split at h
        · cases h
        · split at h
          · cases h
          · split at h
            · cases h
            · split at h
              · cases h
              · split at h
                · cases h
                · split at h
                  · cases h
                  · simp only [hr] at h
                    simp [hse] at h

/-- accepted inputs get an effective population size of at least ten times the number of samples -/
theorem popsize_at_least (tol : Rat) (inp : Inputs) (p n : Int) (hn : inp.nSamples = some n)
    (h : validate tol inp = .ok p) : 10 * n ≤ p := by
  unfold validate at h
  simp only [hn] at h
  split at h
  · cases h
  · split at h
    · cases h
    · split at h
      · cases h
      · split at h
        · cases h
        · split at h
          · cases h
          · split at h
            · cases h
            · split at h
              · cases h
              · split at h
                · cases h
                · rename_i p0 _ _
                  have hmax : 10 * n ≤ max p0 (10 * n) := Int.le_max_right ..
                  split at h
                  · split at h
                    · cases h
                    · unfold validate.rest at h
                      split at h
                      · cases h; exact hmax
                      · split at h
                        · cases h
                        · split at h
                          · cases h
                          · cases h; exact hmax
                  · unfold validate.rest at h
                    split at h
                    · cases h; exact hmax
                    · split at h
                      · cases h
                      · split at h
                        · cases h
                        · cases h; exact hmax

end Validate
