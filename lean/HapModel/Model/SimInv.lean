import HapModel.Model.BpOut
/-!
# C01 / C02: the generation invariant

Chains the kernel theorems: every `get_segment` call on a well-formed parent delivers a `CopyOut`, hence executing
a tiling plan gives a well-formed child (`exec_wf`), for admixed and source individuals alike (`simSample_wf`), hence
every generation of a simulation consists of well-formed haplotypes (`generation_inv`, `generations_inv`).
-/
namespace Plan
open Seg

theorem copyLoop_sublist (en c : Nat) : ∀ (l : List Seg), (copyLoop en c l).1.Sublist l
  | [] => by simp [copyLoop]
  | s :: rest => by
    unfold copyLoop
    split
    · exact List.nil_sublist _
    · exact List.Sublist.cons_cons s (copyLoop_sublist en c rest)

/-- the literal shape of a successful `get_segment` call on an admixed parent -/
theorem getSegment_shape (hap c st en : Nat) (cm : Int) (prev : Array (Array Seg)) (segs : Array Seg)
    (hprev : prev[hap]? = some segs) (out : List Seg) (h : getSegment 0 hap c st en cm prev = .ok out) :
    ∃ l : Seg, out = (copyLoop en c (segs.toList.drop (startSegment st c segs))).1 ++ [⟨l.pop, c, en, cm⟩] := by
  unfold getSegment at h
  simp only [ne_eq, not_true_eq_false, ↓reduceIte, hprev] at h
  split at h
  · cases h
  · rename_i l _
    simp only [Except.ok.injEq] at h
    exact ⟨l, h.symm⟩

/-- one copy from a well-formed parent: strictly sorted output inside `[st,en]`, closed at `en` -/
theorem copyOut_of_getSegment (n : Nat) (chromOf : Nat → Nat) (prev : Array (Array Seg)) (hapIdx : Nat)
    (segs : Array Seg) (hprev : prev[hapIdx]? = some segs) (hwf : ParentWF n chromOf segs)
    (c : Copy) (hci : c.ci < n) (hse : c.st ≤ c.en) (hen : c.en ≤ MAX) :
    ∃ o, getSegment 0 hapIdx (chromOf c.ci) c.st c.en c.cm prev = .ok o ∧ CopyOut chromOf c o := by
  obtain ⟨hs, hcovall⟩ := hwf
  obtain ⟨s0, hs0, hs0c, hs0e⟩ := hcovall c.ci hci
  obtain ⟨out, hout, _, body, lab, hshape, hbody⟩ :=
    getSegment_copy prev hapIdx (chromOf c.ci) c.st c.en c.cm segs hprev hs hse ⟨s0, hs0, hs0c, by omega⟩
  obtain ⟨l, hl⟩ := getSegment_shape hapIdx (chromOf c.ci) c.st c.en c.cm prev segs hprev out hout
  -- the body is the prefix copied by the loop: a sublist of the (sorted) parent
  have hb : body = (copyLoop c.en (chromOf c.ci) (segs.toList.drop (startSegment c.st (chromOf c.ci) segs))).1 := by
    have := hshape.symm.trans hl
    exact (List.append_inj' this rfl).1
  have hsub : body.Sublist segs.toList := by
    rw [hb]
    exact (copyLoop_sublist _ _ _).trans (List.drop_sublist _ _)
  have hbsorted : body.Pairwise SegLt := List.Pairwise.sublist hsub hs
  refine ⟨out, hout, ?_, ?_, ?_⟩
  · intro s hsm
    rw [hshape] at hsm
    rcases List.mem_append.mp hsm with h | h
    · have := hbody s h; exact ⟨this.2.1, this.2.2.1, by omega⟩
    · simp only [List.mem_singleton] at h; subst h; exact ⟨rfl, hse, Nat.le_refl _⟩
  · exact ⟨⟨lab, chromOf c.ci, c.en, c.cm⟩, by rw [hshape]; simp, rfl, rfl⟩
  · rw [hshape, List.pairwise_append]
    refine ⟨hbsorted, by simp, ?_⟩
    intro a ha b hb'
    simp only [List.mem_singleton] at hb'
    subst hb'
    have := hbody a ha
    exact Or.inr ⟨this.2.1, this.2.2.2⟩

/-- executing a tiling plan on well-formed parents: the result is the concatenation of per-copy outputs that each
    satisfy `CopyOut` -/
theorem exec_outs (n : Nat) (chromOf : Nat → Nat) (haps : Nat → Nat) (prev : Array (Array Seg))
    (hpar : ∀ hom, ∃ segs, prev[haps hom]? = some segs ∧ ParentWF n chromOf segs) :
    ∀ {cur st : Nat} {cs : List Copy}, Tiles n cur st cs →
      ∃ outs, exec chromOf haps prev cs = .ok outs.flatten ∧ Outs chromOf cs outs := by
  intro cur st cs ht
  induction ht with
  | done => exact ⟨[], rfl, Outs.nil⟩
  | @last cur st rest c hlt hci hst hsm hen hrest ih =>
    obtain ⟨segs, hprev, hwf⟩ := hpar c.hom
    obtain ⟨o, ho, hco⟩ := copyOut_of_getSegment n chromOf prev (haps c.hom) segs hprev hwf c (by omega) (by omega) (by omega)
    obtain ⟨outs, hex, houts⟩ := ih
    refine ⟨o :: outs, ?_, Outs.cons hco houts⟩
    simp only [exec, ho, hex, List.flatten_cons]
  | @mid cur st rest c hlt hci hst hle hen hrest ih =>
    obtain ⟨segs, hprev, hwf⟩ := hpar c.hom
    obtain ⟨o, ho, hco⟩ := copyOut_of_getSegment n chromOf prev (haps c.hom) segs hprev hwf c (by omega) (by omega) (by omega)
    obtain ⟨outs, hex, houts⟩ := ih
    refine ⟨o :: outs, ?_, Outs.cons hco houts⟩
    simp only [exec, ho, hex, List.flatten_cons]

/-- **the child of two well-formed parents is well formed** (admixed individual) -/
theorem exec_wf (n : Nat) (chromOf : Nat → Nat) (hmono : ∀ a b, a < b → b < n → chromOf a < chromOf b)
    (haps : Nat → Nat) (prev : Array (Array Seg))
    (hpar : ∀ hom, ∃ segs, prev[haps hom]? = some segs ∧ ParentWF n chromOf segs)
    {cs : List Copy} (ht : Tiles n 0 0 cs) :
    ∃ out, exec chromOf haps prev cs = .ok out ∧ ParentWF n chromOf out.toArray := by
  obtain ⟨outs, hex, houts⟩ := exec_outs n chromOf haps prev hpar ht
  obtain ⟨h1, _, h3⟩ := concat_wf n chromOf hmono ht outs houts
  refine ⟨outs.flatten, hex, ?_, ?_⟩
  · simpa [SortedL] using h1
  · intro ci hci
    obtain ⟨s, hs, hc, he⟩ := h3 ci (Nat.zero_le _) hci
    exact ⟨s, by simpa using hs, hc, by omega⟩

/-- per-copy outputs of a source individual -/
theorem source_outs (pop : Nat) (chromOf : Nat → Nat) :
    ∀ {n cur st : Nat} {cs : List Copy}, Tiles n cur st cs →
      Outs chromOf cs (cs.map (fun c => [⟨pop, chromOf c.ci, c.en, c.cm⟩])) := by
  intro n cur st cs ht
  induction ht with
  | done => exact Outs.nil
  | @last cur st rest c hlt hci hst hsm hen hrest ih =>
    refine Outs.cons ⟨?_, ?_, by simp⟩ ih
    · intro s hs; simp only [List.mem_singleton] at hs; subst hs
      exact ⟨rfl, by show c.st ≤ c.en; omega, Nat.le_refl _⟩
    · exact ⟨_, List.mem_singleton_self _, rfl, rfl⟩
  | @mid cur st rest c hlt hci hst hle hen hrest ih =>
    refine Outs.cons ⟨?_, ?_, by simp⟩ ih
    · intro s hs; simp only [List.mem_singleton] at hs; subst hs
      exact ⟨rfl, by show c.st ≤ c.en; omega, Nat.le_refl _⟩
    · exact ⟨_, List.mem_singleton_self _, rfl, rfl⟩

theorem flatten_singletons (pop : Nat) (chromOf : Nat → Nat) (cs : List Copy) :
    (cs.map (fun c => [(⟨pop, chromOf c.ci, c.en, c.cm⟩ : Seg)])).flatten =
      cs.map (fun c => ⟨pop, chromOf c.ci, c.en, c.cm⟩) := by
  induction cs with
  | nil => rfl
  | cons a t ih => simp only [List.map_cons, List.flatten_cons, ih, List.singleton_append]

/-- **every simulated haplotype is well formed**: a source individual (`pop ≠ 0`) needs no parents at all, an
    admixed one (`pop = 0`) needs its two parental haplotypes to be well formed -/
theorem simSample_wf (n : Nat) (chromOf : Nat → Nat) (hmono : ∀ a b, a < b → b < n → chromOf a < chromOf b)
    (pop : Nat) (haps : Nat → Nat) (prev : Array (Array Seg))
    (hpar : pop = 0 → ∀ hom, ∃ segs, prev[haps hom]? = some segs ∧ ParentWF n chromOf segs)
    {cs : List Copy} (ht : Tiles n 0 0 cs) :
    ∃ out, execP pop chromOf haps prev cs = .ok out ∧ ParentWF n chromOf out.toArray := by
  by_cases hp : pop = 0
  · subst hp
    rw [execP_zero]
    exact exec_wf n chromOf hmono haps prev (hpar rfl) ht
  · rw [execP_source pop hp]
    have houts := source_outs pop chromOf ht
    obtain ⟨h1, _, h3⟩ := concat_wf n chromOf hmono ht _ houts
    have hflat := flatten_singletons pop chromOf cs
    rw [hflat] at h1 h3
    refine ⟨_, rfl, ?_, ?_⟩
    · simpa [SortedL] using h1
    · intro ci hci
      obtain ⟨s, hs, hc, he⟩ := h3 ci (Nat.zero_le _) hci
      exact ⟨s, by simpa using hs, hc, by omega⟩

/-! ### generations -/

/-- the tape of one simulated haplotype: founding population, the two parental haplotype indices, the sorted
    recombination events, the initial homolog and the roll-over bits -/
structure SampleTape where
  pop : Nat
  haps : Nat → Nat
  events : List Event
  hom : Nat
  bits : List Nat

def GenWF (n : Nat) (chromOf : Nat → Nat) (g : Array (Array Seg)) : Prop :=
  ∀ segs ∈ g.toList, ParentWF n chromOf segs

def simulateOne (n : Nat) (chromOf : Nat → Nat) (cmEnd : Nat → Int) (prev : Array (Array Seg))
    (t : SampleTape) : Option (Array Seg) :=
  match execP t.pop chromOf t.haps prev (plan n cmEnd t.events 0 0 t.hom t.bits) with
  | .ok o => some o.toArray
  | .error _ => none

/-- one `_simulate` call: every haplotype from its tape; `none` if any copy fails -/
def simulateGen (n : Nat) (chromOf : Nat → Nat) (cmEnd : Nat → Int) (prev : Array (Array Seg)) :
    List SampleTape → Option (List (Array Seg))
  | [] => some []
  | t :: rest =>
    match simulateOne n chromOf cmEnd prev t, simulateGen n chromOf cmEnd prev rest with
    | some h, some hs => some (h :: hs)
    | _, _ => none

/-- a tape is admissible relative to a previous generation of `sz` haplotypes: its events are a valid sorted tape
    and, if the individual is admixed, both parental indices point into the previous generation -/
def TapeOK (n sz : Nat) (t : SampleTape) : Prop :=
  Valid n 0 0 t.events ∧ (t.pop = 0 → ∀ hom, t.haps hom < sz)

/-- **inductive step over generations**: from a well-formed generation (or none at all, when nobody is admixed)
    every admissible tape list yields a generation with one haplotype per tape, all of them well formed -/
theorem generation_inv (n : Nat) (chromOf : Nat → Nat) (hmono : ∀ a b, a < b → b < n → chromOf a < chromOf b)
    (cmEnd : Nat → Int) (prev : Array (Array Seg)) (hprev : GenWF n chromOf prev) :
    ∀ (tapes : List SampleTape), (∀ t ∈ tapes, TapeOK n prev.size t) →
      ∃ g, simulateGen n chromOf cmEnd prev tapes = some g ∧ g.length = tapes.length ∧
        GenWF n chromOf g.toArray := by
  intro tapes
  induction tapes with
  | nil => intro _; exact ⟨[], rfl, rfl, by intro s hs; simp at hs⟩
  | cons t rest ih =>
    intro hok
    obtain ⟨hv, hp⟩ := hok t List.mem_cons_self
    have hpar : t.pop = 0 → ∀ hom, ∃ segs, prev[t.haps hom]? = some segs ∧ ParentWF n chromOf segs := by
      intro h0 hom
      have hlt := hp h0 hom
      refine ⟨prev[t.haps hom], by simp [hlt], hprev _ ?_⟩
      exact Array.getElem_mem_toList hlt
    obtain ⟨out, hout, hwf⟩ := simSample_wf n chromOf hmono t.pop t.haps prev hpar
      (plan_tiles n cmEnd t.events 0 0 t.hom t.bits hv (by simp))
    obtain ⟨g, hg, hlen, hgwf⟩ := ih (fun x hx => hok x (List.mem_cons_of_mem _ hx))
    refine ⟨out.toArray :: g, ?_, by simp [hlen], ?_⟩
    · simp only [simulateGen, simulateOne, hout, hg]
    · intro s hs
      simp only [List.mem_cons] at hs
      rcases hs with rfl | h
      · exact hwf
      · exact hgwf s h

/-- the whole simulation: generation after generation, each from the previous one -/
def simulateAll (n : Nat) (chromOf : Nat → Nat) (cmEnd : Nat → Int) :
    Array (Array Seg) → List (List SampleTape) → Option (List (Array (Array Seg)))
  | _, [] => some []
  | prev, ts :: rest =>
    match simulateGen n chromOf cmEnd prev ts with
    | none => none
    | some g => (simulateAll n chromOf cmEnd g.toArray rest).map (g.toArray :: ·)

/-- admissibility of the tapes of all generations: generation `k+1` draws its parents among the haplotypes of
    generation `k` (the first one among `sz`: with `sz = 0` nobody in the first generation may be admixed, which
    is what `validate_params` enforces on the model file) -/
def TapesOK (n : Nat) : Nat → List (List SampleTape) → Prop
  | _, [] => True
  | sz, ts :: rest => (∀ t ∈ ts, TapeOK n sz t) ∧ TapesOK n ts.length rest

/-- **C01/C02 for any number of generations, any sample counts, any admissible random tapes**: the simulation never
    fails and every haplotype of every generation is strictly sorted by (chromosome, end) and ends every
    chromosome at the open end marker -/
theorem generations_inv (n : Nat) (chromOf : Nat → Nat) (hmono : ∀ a b, a < b → b < n → chromOf a < chromOf b)
    (cmEnd : Nat → Int) :
    ∀ (gens : List (List SampleTape)) (prev : Array (Array Seg)), GenWF n chromOf prev →
      TapesOK n prev.size gens →
      ∃ gs, simulateAll n chromOf cmEnd prev gens = some gs ∧ gs.length = gens.length ∧
        ∀ g ∈ gs, GenWF n chromOf g := by
  intro gens
  induction gens with
  | nil => intro prev _ _; exact ⟨[], rfl, rfl, by simp⟩
  | cons ts rest ih =>
    intro prev hprev hok
    obtain ⟨h1, h2⟩ := hok
    obtain ⟨g, hg, hlen, hgwf⟩ := generation_inv n chromOf hmono cmEnd prev hprev ts h1
    obtain ⟨gs, hgs, hl2, hall⟩ := ih g.toArray hgwf (by simpa [hlen] using h2)
    refine ⟨g.toArray :: gs, ?_, by simp [hl2], ?_⟩
    · simp only [simulateAll, hg, hgs, Option.map_some]
    · intro x hx
      simp only [List.mem_cons] at hx
      rcases hx with rfl | h
      · exact hgwf
      · exact hall x h

/-- the empty generation is well formed, so a simulation may start from nothing -/
theorem genWF_empty (n : Nat) (chromOf : Nat → Nat) : GenWF n chromOf #[] := by
  intro s hs; simp at hs

/-! ### no label is ever invented -/

def GenLabels (P : Nat → Prop) (g : Array (Array Seg)) : Prop :=
  ∀ segs ∈ g.toList, ∀ s ∈ segs.toList, P s.pop

/-- every label of a new generation is the founding population of one of its source individuals or a label
    already present in the previous generation -/
theorem generation_labels (P : Nat → Prop) (n : Nat) (chromOf : Nat → Nat) (cmEnd : Nat → Int)
    (prev : Array (Array Seg)) (hprev : GenLabels P prev) :
    ∀ (tapes : List SampleTape) (g : List (Array Seg)), (∀ t ∈ tapes, t.pop ≠ 0 → P t.pop) →
      simulateGen n chromOf cmEnd prev tapes = some g → GenLabels P g.toArray := by
  intro tapes
  induction tapes with
  | nil =>
    intro g _ h
    simp only [simulateGen, Option.some.injEq] at h
    subst h; intro s hs; simp at hs
  | cons t rest ih =>
    intro g hP h
    simp only [simulateGen] at h
    split at h
    · rename_i hd tl h1 h2
      simp only [Option.some.injEq] at h
      subst h
      intro segs hs
      simp only [List.mem_cons] at hs
      rcases hs with rfl | hs
      · intro s hsm
        unfold simulateOne at h1
        split at h1
        · rename_i o ho
          simp only [Option.some.injEq] at h1
          subst h1
          rcases execP_labels t.pop chromOf t.haps prev _ o ho s (by simpa using hsm) with ⟨hp, he⟩ | ⟨_, hom, sg, hsg, u, hu, he⟩
          · rw [he]; exact hP t List.mem_cons_self hp
          · rw [he]
            have : sg ∈ prev.toList := by
              have := Array.mem_of_getElem? hsg
              simpa using this
            exact hprev sg this u hu
        · cases h1
      · exact ih tl (fun x hx => hP x (List.mem_cons_of_mem _ hx)) h2 segs hs
    · cases h

/-- over any number of generations: every label that ever appears is the founding population of some source
    individual (so never 0 = "admixed", never a label outside the model file) -/
theorem generations_labels (P : Nat → Prop) (n : Nat) (chromOf : Nat → Nat) (cmEnd : Nat → Int) :
    ∀ (gens : List (List SampleTape)) (prev : Array (Array Seg)) (gs : List (Array (Array Seg))),
      GenLabels P prev → (∀ ts ∈ gens, ∀ t ∈ ts, t.pop ≠ 0 → P t.pop) →
      simulateAll n chromOf cmEnd prev gens = some gs → ∀ g ∈ gs, GenLabels P g := by
  intro gens
  induction gens with
  | nil => intro prev gs _ _ h; simp only [simulateAll, Option.some.injEq] at h; subst h; simp
  | cons ts rest ih =>
    intro prev gs hprev hP h
    simp only [simulateAll] at h
    split at h
    · cases h
    · rename_i g hg
      simp only [Option.map_eq_some_iff] at h
      obtain ⟨tl, htl, rfl⟩ := h
      have hgl := generation_labels P n chromOf cmEnd prev hprev ts g (hP ts List.mem_cons_self) hg
      intro x hx
      simp only [List.mem_cons] at hx
      rcases hx with rfl | hx
      · exact hgl
      · exact ih g.toArray tl hgl (fun a ha => hP a (List.mem_cons_of_mem _ ha)) htl x hx

end Plan
