import HapModel.Model.Obj
/-!
# C12 model: an object with two ID axes, lazily built look-up caches and a data matrix

State machine over the public operations of `Genotypes`/`GenotypesPLINK`/`GenotypesAncestry`
(rows = samples, columns = variants) and `Phenotypes`/`Covariates` (rows = samples, columns = names):
`read`, `index`, `subset` (in place or copying), QC discards (`np.delete` of rows / columns), `append`
(phenotypes: the name cache is updated in place).  Look-ups go through the caches exactly as the code does.
-/
namespace Cache

inductive OOp
  | read (rows cols : List String) (data : List (List Nat))   -- the (already restricted) file view
  | index (r c : Bool)
  | subset (rs cs : Option (List String)) (inplace : Bool)
  | dropRows (idx : List Nat)
  | dropCols (idx : List Nat)
  | append (name : String) (col : List Nat)
deriving Repr

def removeIdxA {α} (l : List α) (drop : List Nat) : List α :=
  (l.zipIdx.filter (fun p => !drop.contains p.2)).map (·.1)

/-- the in-place subset: `self.index(...)` builds the caches that are needed, the data are picked through them,
    and the caches of the axes that were subset are dropped -/
def subsetInplace (o : Obj) (rs cs : Option (List String)) : Obj :=
  let r := subsetCopy o rs cs
  { rows := ⟨r.rows.ids, match rs with | none => o.rows.cache | some _ => none⟩,
    cols := ⟨r.cols.ids, match cs with | none => o.cols.cache | some _ => none⟩,
    data := r.data }

/-- after a copying subset the *parent* keeps the caches `index()` built for the axes that were used -/
def afterCopy (o : Obj) (rs cs : Option (List String)) : Obj :=
  { o with rows := match rs with | none => o.rows | some _ => ensure o.rows,
           cols := match cs with | none => o.cols | some _ => ensure o.cols }

/-- `Phenotypes.append`: a new column; an existing name cache is extended in place -/
def appendCol (o : Obj) (name : String) (col : List Nat) : Obj :=
  { rows := o.rows,
    cols := ⟨o.cols.ids ++ [name], o.cols.cache.map (fun m => (name, o.cols.ids.length) :: m)⟩,
    data := (o.data.zip col).map (fun p => p.1 ++ [p.2]) }

/-- one operation: new state and, for a copying subset, the returned object -/
def ostep (o : Obj) : OOp → Obj × Option Obj
  | .read rows cols data => (⟨⟨rows, none⟩, ⟨cols, none⟩, data⟩, none)
  | .index r c => ({ o with rows := if r then ensure o.rows else o.rows,
                            cols := if c then ensure o.cols else o.cols }, none)
  | .subset rs cs true => (subsetInplace o rs cs, none)
  | .subset rs cs false => (afterCopy o rs cs, some (subsetCopy o rs cs))
  | .dropRows idx => (⟨⟨removeIdx o.rows.ids idx, none⟩, o.cols, removeIdxA o.data idx⟩, none)
  | .dropCols idx => (⟨o.rows, ⟨removeIdx o.cols.ids idx, none⟩, o.data.map (fun r => removeIdxA r idx)⟩, none)
  | .append name col => (appendCol o name col, none)

def orun (o : Obj) (ops : List OOp) : Obj := ops.foldl (fun s op => (ostep s op).1) o

def OInv (o : Obj) : Prop := Inv o.rows ∧ Inv o.cols

theorem inv_none (ids : List String) : Inv ⟨ids, none⟩ := by
  intro m hm; cases hm

theorem get?_cons (m : List (String × Nat)) (name id : String) (k : Nat) :
    get? ((name, k) :: m) id = if id = name then some k else get? m id := by
  unfold get?
  simp only [List.lookup_cons]
  by_cases h : id = name
  · simp [h]
  · have : (id == name) = false := by simpa using h
    simp [this, h]

/-- appending a fresh name keeps the name cache sound and complete -/
theorem append_inv (a : Axis) (name : String) (h : Inv a) (hfresh : name ∉ a.ids) :
    Inv ⟨a.ids ++ [name], a.cache.map (fun m => (name, a.ids.length) :: m)⟩ := by
  intro m hm
  cases hc : a.cache with
  | none => rw [hc] at hm; cases hm
  | some m0 =>
    rw [hc] at hm
    simp only [Option.map_some, Option.some.injEq] at hm
    subst hm
    obtain ⟨hs, hcmp⟩ := h m0 hc
    constructor
    · intro id i hg
      rw [get?_cons] at hg
      split at hg
      · rename_i heq
        simp only [Option.some.injEq] at hg
        subst hg; subst heq
        simp
      · have := hs id i hg
        have hi : i < a.ids.length := by
          rcases Nat.lt_or_ge i a.ids.length with h' | h'
          · exact h'
          · rw [List.getElem?_eq_none h'] at this; cases this
        rw [List.getElem?_append_left hi]; exact this
    · intro id hid
      rw [get?_cons]
      split
      · simp
      · rename_i hne
        rcases List.mem_append.mp hid with h1 | h1
        · exact hcmp id h1
        · simp only [List.mem_singleton] at h1; exact absurd h1 hne

/-- every operation preserves the cache invariant of both axes (appended names must be fresh) -/
theorem ostep_inv (o : Obj) (op : OOp) (h : OInv o)
    (hfresh : ∀ name col, op = .append name col → name ∉ o.cols.ids) : OInv (ostep o op).1 := by
  obtain ⟨hr, hc⟩ := h
  cases op with
  | read rows cols data => exact ⟨inv_none _, inv_none _⟩
  | index r c =>
    constructor
    · simp only [ostep]; split
      · exact ensure_inv _ hr
      · exact hr
    · simp only [ostep]; split
      · exact ensure_inv _ hc
      · exact hc
  | subset rs cs inplace =>
    cases inplace with
    | true =>
      simp only [ostep, subsetInplace]
      constructor
      · cases rs with
        | none => simpa [subsetCopy] using hr
        | some r => exact inv_none _
      · cases cs with
        | none => simpa [subsetCopy] using hc
        | some c => exact inv_none _
    | false =>
      simp only [ostep, afterCopy]
      constructor
      · cases rs with
        | none => exact hr
        | some r => exact ensure_inv _ hr
      · cases cs with
        | none => exact hc
        | some c => exact ensure_inv _ hc
  | dropRows idx => exact ⟨inv_none _, hc⟩
  | dropCols idx => exact ⟨hr, inv_none _⟩
  | append name col =>
    exact ⟨hr, append_inv o.cols name hc (hfresh name col rfl)⟩

/-- the object returned by a copying subset starts without caches -/
theorem subsetCopy_inv (o : Obj) (rs cs : Option (List String)) : OInv (subsetCopy o rs cs) :=
  ⟨inv_none _, inv_none _⟩

/-- histories in which appended names are fresh -/
def FreshHist : Obj → List OOp → Prop
  | _, [] => True
  | o, op :: rest => (∀ name col, op = .append name col → name ∉ o.cols.ids) ∧ FreshHist (ostep o op).1 rest

/-- **invariant by induction over operations**: after any finite history the caches are sound and complete -/
theorem orun_inv (ops : List OOp) (o : Obj) (h : OInv o) (hf : FreshHist o ops) : OInv (orun o ops) := by
  induction ops generalizing o with
  | nil => exact h
  | cons op rest ih =>
    exact ih _ (ostep_inv o op h hf.1) hf.2

/-- **refinement**: after any history, a by-ID subset through the caches equals the cache-free
    specification (scan of the current ID lists) whenever the current IDs are duplicate-free -/
theorem query_refines (ops : List OOp) (o : Obj) (h : OInv o) (hf : FreshHist o ops)
    (hrn : (orun o ops).rows.ids.Nodup) (hcn : (orun o ops).cols.ids.Nodup)
    (rs cs : Option (List String)) :
    subsetCopy (orun o ops) rs cs = subsetSpec (orun o ops) rs cs := by
  have hi := orun_inv ops o h hf
  exact subset_refines _ hi.1 hi.2 hrn hcn rs cs

/-- in particular an ID that is no longer present is reported missing, never resolved to another row -/
theorem absent_id_missing (ops : List OOp) (o : Obj) (h : OInv o) (hf : FreshHist o ops) (req : List String) :
    ∀ id ∈ req, id ∉ (orun o ops).rows.ids → ∀ p ∈ positions (orun o ops).rows req, p.1 ≠ id :=
  (positions_current _ (orun_inv ops o h hf).1 req).2.1

/-- F11 at object level: with a `read` that keeps the caches, `read; subset [v2]; read(other); subset [v2]`
    returns another variant's column -/
def readStale (o : Obj) (rows cols : List String) (data : List (List Nat)) : Obj :=
  ⟨⟨rows, o.rows.cache⟩, ⟨cols, o.cols.cache⟩, data⟩

theorem reread_refuted_before_fix :
    let o0 : Obj := ⟨⟨["s"], none⟩, ⟨["v1","v2","v3"], none⟩, [[10, 20, 30]]⟩
    let o1 := (ostep o0 (.subset none (some ["v2"]) false)).1
    let o2 := readStale o1 ["s"] ["v2","v3"] [[20, 30]]
    (subsetCopy o2 none (some ["v2"])).data = [[30]] ∧ (subsetSpec o2 none (some ["v2"])).data = [[20]] := by
  decide

end Cache
