import HapModel.Model.GetSeg
import HapModel.Model.Exec
import HapModel.Model.OutputVcf
/-!
# C03: `_convert_haplotype` – from a simulated haplotype to the per-chromosome blocks `output_vcf` works with

For one haplotype and one chromosome the function collects, from `start_segment(0, chrom, haplotype)` on and while the
segments are on the chromosome, the block ends, the block labels and – per block – a reference sample drawn from the
samples the sample-info file lists for that label's population (`np.random.choice(pop_sample[population])`; the
`--no_replacement` branch draws through `_find_random_sample`, modelled in `NoRepl`).  The draw is a tape input.
-/
namespace Convert
open Seg OutputVcf Assign Plan

/-- the segments collected for chromosome `c` -/
def chromSegs (hap : Array Seg) (c : Nat) : List Seg :=
  (hap.toList.drop (startSegment 0 c hap)).takeWhile (fun s => decide (s.chrom = c))

/-- with replacement: block `k` takes the reference sample number `choices[k]` of its label's population and the
    strand `strands[k]` -/
def convert (hap : Array Seg) (c : Nat) (popSamples : Nat → List Nat) (choices strands : List Nat) : ChromBlocks :=
  let segs := chromSegs hap c
  ⟨segs.map (·.endc),
   segs.mapIdx (fun k s => ⟨(popSamples s.pop).getD (choices.getD k 0) 0, strands.getD k 0, s.pop⟩)⟩

/-! ### the collected segments are exactly the haplotype's segments on that chromosome -/

theorem takeWhile_eq_filter (c : Nat) : ∀ (l : List Seg), l.Pairwise SegLt → (∀ s ∈ l, c ≤ s.chrom) →
    l.takeWhile (fun s => decide (s.chrom = c)) = l.filter (fun s => decide (s.chrom = c))
  | [], _, _ => rfl
  | a :: t, hs, hge => by
    have ht := (List.pairwise_cons.mp hs).2
    have ha := (List.pairwise_cons.mp hs).1
    by_cases hac : a.chrom = c
    · simp only [List.takeWhile_cons, List.filter_cons, hac, decide_true, ↓reduceIte]
      rw [takeWhile_eq_filter c t ht (fun s hs' => hge s (List.mem_cons_of_mem _ hs'))]
    · have hgt : c < a.chrom := by have := hge a List.mem_cons_self; omega
      have : t.filter (fun s => decide (s.chrom = c)) = [] := by
        apply List.filter_eq_nil_iff.mpr
        intro x hx
        have := ha x hx
        unfold SegLt at this
        simp; omega
      simp [List.takeWhile_cons, List.filter_cons, hac, this]

theorem filter_drop_of_before (c : Nat) : ∀ (l : List Seg) (r : Nat),
    (∀ i (hi : i < l.length), i < r → l[i].chrom ≠ c) →
    (l.drop r).filter (fun s => decide (s.chrom = c)) = l.filter (fun s => decide (s.chrom = c))
  | l, 0, _ => by simp
  | [], _ + 1, _ => by simp
  | a :: t, r + 1, h => by
    have ha : a.chrom ≠ c := h 0 (by simp) (by omega)
    simp only [List.drop_succ_cons, List.filter_cons, ha, decide_false, Bool.false_eq_true, ↓reduceIte]
    exact filter_drop_of_before c t r (fun i hi hir => by
      have := h (i + 1) (by simp; omega) (by omega)
      simpa using this)

theorem chromSegs_eq_filter (hap : Array Seg) (c : Nat) (hs : SortedL hap.toList) :
    chromSegs hap c = hap.toList.filter (fun s => decide (s.chrom = c)) := by
  have hS : Sorted hap := sorted_of_sortedL hs
  have hpost := startSegment_post hS c 0
  unfold chromSegs
  rcases hpost with ⟨hr, hnb, hc, hbefore⟩ | ⟨hr, hall⟩
  · -- everything before the start is on a smaller chromosome, everything from it on is on `c` or later
    have hbef : ∀ i (hi : i < hap.toList.length), i < startSegment 0 c hap → hap.toList[i].chrom ≠ c := by
      intro i hi hlt
      have := hbefore i (by simpa using hi) hlt
      unfold Before at this
      have h2 : hap.toList[i] = hap[i]'(by simpa using hi) := by simp
      rw [h2]; omega
    rw [← filter_drop_of_before c hap.toList _ hbef]
    apply takeWhile_eq_filter c _ (List.Pairwise.sublist (List.drop_sublist _ _) hs)
    intro s hsm
    obtain ⟨k, hk, rfl⟩ := List.mem_iff_getElem.mp hsm
    simp only [List.getElem_drop]
    have hk' : startSegment 0 c hap + k < hap.size := by simp at hk; omega
    by_cases hk0 : k = 0
    · subst hk0; simp [hc]
    · have := hS (startSegment 0 c hap) (startSegment 0 c hap + k) hr hk' (by omega)
      have e : hap.toList[startSegment 0 c hap + k] = hap[startSegment 0 c hap + k] := by simp
      rw [e]; omega
  · -- the chromosome is absent
    have hnone : ∀ s ∈ hap.toList, s.chrom ≠ c := by
      intro s hsm hsc
      obtain ⟨i, hi, rfl⟩ := List.mem_iff_getElem.mp hsm
      have := hall i (by simpa using hi) (by simpa using hsc)
      omega
    rw [hr]
    have : hap.toList.filter (fun s => decide (s.chrom = c)) = [] := by
      apply List.filter_eq_nil_iff.mpr
      intro x hx; simpa using hnone x hx
    have hd : hap.toList.drop hap.size = [] := by simp
    rw [hd, this]; rfl

/-! ### the block found for a position carries the label the breakpoints give that position -/

theorem find_eq_getElem_firstGE : ∀ (segs : List Seg) (p : Nat), (segs.map (·.endc)).Pairwise (· < ·) →
    segs.find? (fun s => decide (p ≤ s.endc)) = segs[firstGE (segs.map (·.endc)) p]?
  | [], _, _ => by simp [firstGE]
  | a :: t, p, h => by
    have ht := (List.pairwise_cons.mp h).2
    have ha := (List.pairwise_cons.mp h).1
    have ha' : ∀ x ∈ t.map (·.endc), a.endc < x := ha
    by_cases hp : p ≤ a.endc
    · have hz : firstGE ((a :: t).map (·.endc)) p = 0 := by
        unfold firstGE
        rw [List.length_eq_zero_iff]
        apply List.filter_eq_nil_iff.mpr
        intro x hx
        simp only [List.map_cons, List.mem_cons] at hx
        rcases hx with rfl | hx
        · simp; omega
        · have := ha' x hx; simp; omega
      rw [hz]
      simp [List.find?_cons, hp]
    · have hlt : a.endc < p := by omega
      have ih := find_eq_getElem_firstGE t p ht
      simp only [List.find?_cons, hp, decide_false, firstGE, List.map_cons, List.filter_cons, hlt, decide_true,
        ↓reduceIte, List.length_cons, List.getElem?_cons_succ]
      simpa [firstGE] using ih

theorem ends_strict (hap : List Seg) (c : Nat) (hs : SortedL hap) :
    ((hap.filter (fun s => decide (s.chrom = c))).map (·.endc)).Pairwise (· < ·) := by
  rw [List.pairwise_map]
  apply List.Pairwise.imp_of_mem _ (List.Pairwise.sublist List.filter_sublist hs)
  intro a b ha hb hab
  have h1 : a.chrom = c := by simpa using (List.mem_filter.mp ha).2
  have h2 : b.chrom = c := by simpa using (List.mem_filter.mp hb).2
  unfold SegLt at hab; omega

/-- the label the breakpoints give position `p` of chromosome `c` is the label of block number
    `firstGE ends p` among the collected segments -/
theorem labelAt_eq_block (hap : Array Seg) (c p : Nat) (hs : SortedL hap.toList) :
    labelAt hap.toList c p = ((chromSegs hap c)[firstGE ((chromSegs hap c).map (·.endc)) p]?).map (·.pop) := by
  rw [chromSegs_eq_filter hap c hs]
  unfold labelAt
  rw [← find_eq_getElem_firstGE _ p (ends_strict hap.toList c hs), List.find?_filter]
  congr 2
  funext s
  simp

/-- **POP and SAMPLE state the breakpoints' population**: for a variant whose position some block of the haplotype
    covers, the source written by `output_vcf` (a) carries as population the label the breakpoints give that position
    and (b) is a reference sample that the sample-info file lists for exactly that population -/
theorem source_matches_breakpoints (hap : Array Seg) (c : Nat) (popSamples : Nat → List Nat)
    (choices strands : List Nat) (hs : SortedL hap.toList)
    (hch : ∀ k (hk : k < (chromSegs hap c).length),
      choices.getD k 0 < (popSamples ((chromSegs hap c)[k]).pop).length)
    (p : Nat) (hcov : ∃ s ∈ hap.toList, s.chrom = c ∧ p ≤ s.endc) :
    let b := convert hap c popSamples choices strands
    let src := b.srcs[firstGE b.ends p]!
    labelAt hap.toList c p = some src.pop ∧ src.sample ∈ popSamples src.pop := by
  intro b src
  have hl := labelAt_eq_block hap c p hs
  -- the covering segment makes the label defined, hence the block index is in range
  have hsome : (labelAt hap.toList c p).isSome := by
    obtain ⟨s, hsm, hc, hp⟩ := hcov
    unfold labelAt
    rw [Option.isSome_map, List.find?_isSome]
    exact ⟨s, hsm, by simp [hc, hp]⟩
  rw [hl] at hsome
  cases hget : (chromSegs hap c)[firstGE ((chromSegs hap c).map (·.endc)) p]? with
  | none => rw [hget] at hsome; simp at hsome
  | some sg =>
    obtain ⟨hk, hk2⟩ := List.getElem?_eq_some_iff.mp hget
    have hsrc : src = ⟨(popSamples sg.pop).getD (choices.getD (firstGE ((chromSegs hap c).map (·.endc)) p) 0) 0,
        strands.getD (firstGE ((chromSegs hap c).map (·.endc)) p) 0, sg.pop⟩ := by
      show (convert hap c popSamples choices strands).srcs[firstGE (convert hap c popSamples choices strands).ends p]! = _
      simp only [convert, List.getElem!_eq_getElem?_getD, List.getElem?_mapIdx, hget, Option.map_some, Option.getD_some]
    refine ⟨by rw [hl, hget, hsrc]; rfl, ?_⟩
    rw [hsrc]
    have := hch _ hk
    rw [hk2] at this
    have h' := this
    simp only [List.getD_eq_getElem?_getD] at h' ⊢
    rw [List.getElem?_eq_getElem h', Option.getD_some]
    exact List.getElem_mem h'

/-! ### simulated haplotypes always satisfy the precondition of the output theorem -/

/-- a well-formed haplotype (what `C01.every_generation_wf` establishes for every simulated one) yields, on each
    simulated chromosome, blocks with strictly increasing ends that cover every position up to the int32 maximum –
    the sentinel `_prepare_coords` puts at the end of every chromosome – so no reference variant is left without a block -/
theorem wf_blocksOK (n : Nat) (chromOf : Nat → Nat) (hap : Array Seg) (hwf : ParentWF n chromOf hap)
    (ci : Nat) (hci : ci < n) (popSamples : Nat → List Nat) (choices strands : List Nat) (vars : List RVar)
    (hsorted : SortedLE ((vars.filter (fun v => v.chrom = chromOf ci)).map (·.pos)))
    (hmax : ∀ v ∈ vars, v.pos ≤ MAX) :
    BlocksOK vars (chromOf ci) (convert hap (chromOf ci) popSamples choices strands) := by
  obtain ⟨hs, hcov⟩ := hwf
  refine ⟨hsorted, ?_, ?_⟩
  · show StrictInc ((chromSegs hap (chromOf ci)).map (·.endc))
    rw [chromSegs_eq_filter hap _ hs]
    exact ends_strict hap.toList _ hs
  · intro p hp
    obtain ⟨v, hv, rfl⟩ := List.mem_map.mp hp
    obtain ⟨s, hsm, hsc, hse⟩ := hcov ci hci
    refine ⟨s.endc, ?_, ?_⟩
    · show s.endc ∈ (chromSegs hap (chromOf ci)).map (·.endc)
      rw [chromSegs_eq_filter hap _ hs]
      exact List.mem_map.mpr ⟨s, List.mem_filter.mpr ⟨hsm, by simp [hsc]⟩, rfl⟩
    · have := hmax v (List.mem_filter.mp hv).1
      omega

end Convert

namespace Convert
open Seg OutputVcf Assign Plan

/-! ### `--no_replacement`: the stretches requested from `_find_random_sample` -/

/-- the `(start, end)` pairs `_convert_haplotype` asks `_find_random_sample` for on one chromosome: the first block
    from 0, every later block from the previous block's end + 1 (`hap_pos[-1] + 1`), each up to its own end -/
def requestsFrom : Nat → List Nat → List (Nat × Nat)
  | _, [] => []
  | st, e :: es => (st, e) :: requestsFrom (e + 1) es

def requests (hap : Array Seg) (c : Nat) : List (Nat × Nat) :=
  requestsFrom 0 ((chromSegs hap c).map (·.endc))

theorem requestsFrom_length : ∀ (st : Nat) (es : List Nat), (requestsFrom st es).length = es.length
  | _, [] => rfl
  | st, e :: es => by simp [requestsFrom, requestsFrom_length (e + 1) es]

/-- with strictly increasing ends (and the first end at or after the start) every requested stretch is non-empty,
    starts right after the previous one ends, and later stretches lie strictly beyond earlier ones: the stretches are
    exactly the blocks' extents – pairwise disjoint, without gaps -/
theorem requestsFrom_tile : ∀ (st : Nat) (es : List Nat), es.Pairwise (· < ·) → (∀ e ∈ es, st ≤ e) →
    (requestsFrom st es).Pairwise (fun a b => a.2 < b.1) ∧
    (∀ r ∈ requestsFrom st es, st ≤ r.1 ∧ r.1 ≤ r.2) ∧
    (∀ k (hk : k + 1 < (requestsFrom st es).length),
      ((requestsFrom st es)[k + 1]).1 = ((requestsFrom st es)[k]'(by omega)).2 + 1)
  | _, [], _, _ => by simp [requestsFrom]
  | st, e :: es, hs, hge => by
    have hs' := (List.pairwise_cons.mp hs).2
    have he := (List.pairwise_cons.mp hs).1
    have hst : st ≤ e := hge e List.mem_cons_self
    have ih := requestsFrom_tile (e + 1) es hs' (fun x hx => by have := he x hx; omega)
    refine ⟨?_, ?_, ?_⟩
    · simp only [requestsFrom]
      refine List.pairwise_cons.mpr ⟨?_, ih.1⟩
      intro r hr
      have := (ih.2.1 r hr).1
      simp only; omega
    · intro r hr
      simp only [requestsFrom, List.mem_cons] at hr
      rcases hr with rfl | hr
      · exact ⟨Nat.le_refl _, hst⟩
      · have := ih.2.1 r hr; omega
    · intro k hk
      cases k with
      | zero =>
        cases es with
        | nil => simp [requestsFrom] at hk
        | cons e2 es2 => simp [requestsFrom]
      | succ k =>
        simp only [requestsFrom, List.length_cons] at hk
        have := ih.2.2 k (by omega)
        simpa [requestsFrom] using this

theorem requestsFrom_head : ∀ (st : Nat) (es : List Nat) (h : 0 < (requestsFrom st es).length),
    ((requestsFrom st es)[0]).1 = st
  | _, [], h => by simp [requestsFrom] at h
  | _, _ :: _, _ => by simp [requestsFrom]

/-- **the stretches registered for a well-sorted haplotype on one chromosome are its blocks' extents**: the first
    starts at 0, each next one right after the previous end, the k-th one ends at the k-th block end; hence what
    `_find_coord` records as used is exactly what `output_vcf` copies -/
theorem requests_are_block_extents (hap : Array Seg) (c : Nat) (hs : SortedL hap.toList) :
    (requests hap c).length = (chromSegs hap c).length ∧
    (requests hap c).map (·.2) = (chromSegs hap c).map (·.endc) ∧
    (requests hap c).Pairwise (fun a b => a.2 < b.1) ∧
    (∀ k (hk : k + 1 < (requests hap c).length),
      ((requests hap c)[k + 1]).1 = ((requests hap c)[k]'(by omega)).2 + 1) ∧
    (∀ (h0 : 0 < (requests hap c).length), ((requests hap c)[0]).1 = 0) := by
  have hstrict : ((chromSegs hap c).map (·.endc)).Pairwise (· < ·) := by
    rw [chromSegs_eq_filter hap c hs]; exact ends_strict hap.toList c hs
  have ht := requestsFrom_tile 0 _ hstrict (fun _ _ => Nat.zero_le _)
  refine ⟨by simp [requests, requestsFrom_length], ?_, ht.1, ht.2.2, ?_⟩
  · unfold requests
    generalize ((chromSegs hap c).map (·.endc)) = es
    generalize 0 = st
    induction es generalizing st with
    | nil => rfl
    | cons e t ih => simp [requestsFrom, ih]
  · intro h0
    exact requestsFrom_head 0 _ h0

end Convert
