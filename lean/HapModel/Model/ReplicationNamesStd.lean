import Std.Data.String.ToNat
import Std.Data.String.ToInt
import HapModel.Model.Pheno
open Pheno

#check @Nat.repr_injective
#check @Int.repr_injective

theorem suffix_inj (x : String) (a b : Nat) (h : x ++ "-" ++ toString a = x ++ "-" ++ toString b) : a = b := by
  have h1 : toString a = toString b := by
    have := congrArg String.toList h
    simp only [String.toList_append] at this
    have := List.append_cancel_left this
    exact String.toList_inj.mp this
  simp only [Nat.toString_eq_repr] at h1
  exact Nat.repr_injective h1

theorem ne_suffix (x : String) (a : Nat) : x ≠ x ++ "-" ++ toString a := by
  intro h
  have := congrArg String.length h
  have h1 : "-".length = 1 := by decide
  simp only [String.length_append, h1] at this
  omega

/-- suffixing of a name repeated `R` times (what `simulate_pt` appends for `R` replications) -/
theorem uniqFrom_replicate (x : String) : ∀ (R k : Nat), 0 < k →
    uniqFrom (List.replicate k x) (List.replicate R x) =
      (List.range R).map (fun i => x ++ "-" ++ toString (k + i))
  | 0, _, _ => by simp [uniqFrom]
  | R+1, k, hk => by
    have ih := uniqFrom_replicate x R (k+1) (by omega)
    simp only [List.replicate_succ, uniqFrom, List.count_replicate_self]
    have hk0 : ¬ k = 0 := by omega
    simp only [hk0, ↓reduceIte]
    rw [show x :: List.replicate k x = List.replicate (k+1) x from rfl, ih, List.range_succ_eq_map]
    simp only [List.map_cons, List.map_map, Nat.add_zero, List.cons.injEq, true_and]
    apply List.map_congr_left
    intro i _
    simp only [Function.comp]
    rw [show k + 1 + i = k + (i + 1) by omega]

theorem nodup_map_of_injOn {α β} (f : α → β) : ∀ (l : List α), l.Nodup →
    (∀ a ∈ l, ∀ b ∈ l, f a = f b → a = b) → (l.map f).Nodup
  | [], _, _ => List.nodup_nil
  | a :: t, hnd, hinj => by
    have h' := List.nodup_cons.mp hnd
    simp only [List.map_cons]
    apply List.nodup_cons.mpr
    constructor
    · intro hm
      obtain ⟨b, hb, hfb⟩ := List.mem_map.mp hm
      have := hinj b (List.mem_cons_of_mem _ hb) a (List.mem_cons_self ..) hfb
      subst this; exact h'.1 hb
    · exact nodup_map_of_injOn f t h'.2 (fun x hx y hy => hinj x (List.mem_cons_of_mem _ hx) y (List.mem_cons_of_mem _ hy))

/-- C09: `R` replications of one trait get `R` pairwise distinct column names `x, x-1, …, x-(R-1)` -/
theorem replication_names_distinct (x : String) (R : Nat) : (uniqNames (List.replicate R x)).Nodup := by
  cases R with
  | zero => simp [uniqNames, uniqFrom]
  | succ R =>
    unfold uniqNames
    simp only [List.replicate_succ, uniqFrom, List.count_nil, ↓reduceIte]
    rw [show [x] = List.replicate 1 x from rfl, uniqFrom_replicate x R 1 (by omega)]
    apply List.nodup_cons.mpr
    constructor
    · intro hmem
      obtain ⟨i, _, hi⟩ := List.mem_map.mp hmem
      exact ne_suffix x (1 + i) hi.symm
    · apply nodup_map_of_injOn _ _ List.nodup_range
      intro a _ b _ hab; have := suffix_inj x _ _ hab; omega
#print axioms replication_names_distinct
