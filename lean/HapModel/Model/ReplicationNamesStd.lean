import Std.Data.String.ToNat
import Std.Data.String.ToInt
import HapModel.Model.Pheno
open Pheno

#check @Nat.repr_injective
#check @Int.repr_injective

theorem suffix_inj (x : String) (a b : Nat) (h : x ++ "-" ++ toString a = x ++ "-" ++ toString b) : a = b := by
  have h1 : toString a = toString b := by
    have := congrArg String.toList h
    simp only [String.toList_append] at this
    have := List.append_cancel_left this
    exact String.toList_inj.mp this
  simp only [Nat.toString_eq_repr] at h1
  exact Nat.repr_injective h1

theorem ne_suffix (x : String) (a : Nat) : x ≠ x ++ "-" ++ toString a := by
  intro h
  have := congrArg String.length h
  have h1 : "-".length = 1 := by decide
  simp only [String.length_append, h1] at this
  omega

theorem nodup_map_of_injOn' {α β} (f : α → β) : ∀ (l : List α), l.Nodup →
    (∀ a ∈ l, ∀ b ∈ l, f a = f b → a = b) → (l.map f).Nodup
  | [], _, _ => List.nodup_nil
  | a :: t, hnd, hinj => by
    have h' := List.nodup_cons.mp hnd
    simp only [List.map_cons]
    apply List.nodup_cons.mpr
    constructor
    · intro hm
      obtain ⟨b, hb, hfb⟩ := List.mem_map.mp hm
      have := hinj b (List.mem_cons_of_mem _ hb) a (List.mem_cons_self ..) hfb
      subst this; exact h'.1 hb
    · exact nodup_map_of_injOn' f t h'.2 (fun x hx y hy => hinj x (List.mem_cons_of_mem _ hx) y (List.mem_cons_of_mem _ hy))

/-! ### pigeonhole: among `|taken| + 1` consecutive suffixes one is free -/

theorem nodup_subset_length : ∀ (l₁ l₂ : List String), l₁.Nodup → (∀ x ∈ l₁, x ∈ l₂) → l₁.length ≤ l₂.length
  | [], _, _, _ => Nat.zero_le _
  | a :: t, l₂, hnd, hsub => by
    have h' := List.nodup_cons.mp hnd
    have ha : a ∈ l₂ := hsub a List.mem_cons_self
    have ih := nodup_subset_length t (l₂.erase a) h'.2 (fun x hx => by
      have hx2 := hsub x (List.mem_cons_of_mem _ hx)
      have hne : x ≠ a := fun e => h'.1 (e ▸ hx)
      exact (List.mem_erase_of_ne hne).mpr hx2)
    have := List.length_erase_of_mem ha
    have hpos : 0 < l₂.length := List.length_pos_of_mem ha
    simp only [List.length_cons]
    omega

theorem exists_free (taken : List String) (n : String) (k0 : Nat) :
    ∃ d ∈ List.range (taken.length + 1), (n ++ "-" ++ toString (k0 + d)) ∉ taken := by
  by_cases h : ∃ d ∈ List.range (taken.length + 1), (n ++ "-" ++ toString (k0 + d)) ∉ taken
  · exact h
  · exfalso
    have hall : ∀ d ∈ List.range (taken.length + 1), (n ++ "-" ++ toString (k0 + d)) ∈ taken := by
      intro d hd
      by_cases hm : (n ++ "-" ++ toString (k0 + d)) ∈ taken
      · exact hm
      · exact absurd ⟨d, hd, hm⟩ h
    have hnd : ((List.range (taken.length + 1)).map (fun d => n ++ "-" ++ toString (k0 + d))).Nodup := by
      apply nodup_map_of_injOn' _ _ List.nodup_range
      intro a _ b _ hab
      have := suffix_inj n _ _ hab
      omega
    have := nodup_subset_length _ taken hnd (by
      intro x hx
      obtain ⟨d, hd, rfl⟩ := List.mem_map.mp hx
      exact hall d hd)
    simp only [List.length_map, List.length_range] at this
    omega

/-- the suffix the loop settles on is free -/
theorem nextFree_fresh (taken : List String) (n : String) (k0 : Nat) :
    (n ++ "-" ++ toString (nextFree taken n k0)) ∉ taken := by
  unfold nextFree
  split
  · rename_i d hd
    have := List.find?_some hd
    simpa using this
  · rename_i hnone
    obtain ⟨d, hd, hfree⟩ := exists_free taken n k0
    have := List.find?_eq_none.mp hnone d hd
    simp at this
    exact absurd this hfree

/-! ### every written name is unique -/

/-- the invariant of the loop: the names written so far are distinct, all of them are taken, and one that is a given
    name has been counted (so a later first occurrence of a given name cannot already be among them) -/
structure UInv (orig : List String) (c : List (String × Nat)) (taken out : List String) : Prop where
  nodup : out.Nodup
  taken_of_out : ∀ o ∈ out, o ∈ taken
  counted : ∀ o ∈ out, o ∈ orig → cnt c o ≠ 0
  orig_taken : ∀ o ∈ orig, o ∈ taken

theorem cnt_cons_self (c : List (String × Nat)) (n : String) (k : Nat) : cnt ((n, k) :: c) n = k := by
  simp [cnt, List.lookup]

theorem cnt_cons_ne (c : List (String × Nat)) (n m : String) (k : Nat) (h : m ≠ n) : cnt ((n, k) :: c) m = cnt c m := by
  have : (m == n) = false := by simpa using h
  simp [cnt, List.lookup, this]

theorem uniqGo_inv (orig : List String) : ∀ (rest : List String) (c : List (String × Nat)) (taken pre : List String),
    UInv orig c taken pre.reverse → (∀ n ∈ rest, n ∈ orig) → (pre.reverse ++ uniqGo c taken rest).Nodup
  | [], c, taken, pre, hinv, _ => by simpa [uniqGo] using hinv.nodup
  | n :: rest, c, taken, pre, hinv, horig => by
    have hn : n ∈ orig := horig n List.mem_cons_self
    unfold uniqGo
    split
    · rename_i h0
      -- first occurrence: the name itself
      have hnot : n ∉ pre.reverse := fun hm => hinv.counted n hm hn h0
      have hinv' : UInv orig ((n, 1) :: c) taken (n :: pre).reverse := by
        refine ⟨?_, ?_, ?_, hinv.orig_taken⟩
        · simp only [List.reverse_cons]
          exact List.nodup_append.mpr ⟨hinv.nodup, by simp, by
            intro a ha b hb; simp only [List.mem_singleton] at hb; subst hb; exact fun e => hnot (e ▸ ha)⟩
        · intro o ho
          simp only [List.reverse_cons, List.mem_append, List.mem_singleton] at ho
          rcases ho with ho | rfl
          · exact hinv.taken_of_out o ho
          · exact hinv.orig_taken _ hn
        · intro o ho hoo
          simp only [List.reverse_cons, List.mem_append, List.mem_singleton] at ho
          by_cases hon : o = n
          · subst hon; rw [cnt_cons_self]; omega
          · rw [cnt_cons_ne _ _ _ _ hon]
            rcases ho with ho | ho
            · exact hinv.counted o ho hoo
            · exact absurd ho hon
      have := uniqGo_inv orig rest ((n, 1) :: c) taken (n :: pre) hinv' (fun x hx => horig x (List.mem_cons_of_mem _ hx))
      simpa [List.reverse_cons, List.append_assoc] using this
    · rename_i h0
      -- a repeated name: the least free suffixed form
      have hfresh := nextFree_fresh taken n (cnt c n)
      have hnot : (n ++ "-" ++ toString (nextFree taken n (cnt c n))) ∉ pre.reverse :=
        fun hm => hfresh (hinv.taken_of_out _ hm)
      have hinv' : UInv orig ((n, nextFree taken n (cnt c n) + 1) :: c)
          ((n ++ "-" ++ toString (nextFree taken n (cnt c n))) :: taken)
          ((n ++ "-" ++ toString (nextFree taken n (cnt c n))) :: pre).reverse := by
        refine ⟨?_, ?_, ?_, fun o ho => List.mem_cons_of_mem _ (hinv.orig_taken o ho)⟩
        · simp only [List.reverse_cons]
          exact List.nodup_append.mpr ⟨hinv.nodup, by simp, by
            intro a ha b hb; simp only [List.mem_singleton] at hb; subst hb; exact fun e => hnot (e ▸ ha)⟩
        · intro o ho
          simp only [List.reverse_cons, List.mem_append, List.mem_singleton] at ho
          rcases ho with ho | rfl
          · exact List.mem_cons_of_mem _ (hinv.taken_of_out o ho)
          · exact List.mem_cons_self
        · intro o ho hoo
          simp only [List.reverse_cons, List.mem_append, List.mem_singleton] at ho
          by_cases hon : o = n
          · subst hon; rw [cnt_cons_self]; omega
          · rw [cnt_cons_ne _ _ _ _ hon]
            rcases ho with ho | ho
            · exact hinv.counted o ho hoo
            · -- the fresh form is not a given name (given names are taken)
              exact absurd (hinv.orig_taken o hoo) (ho ▸ hfresh)
      have := uniqGo_inv orig rest _ _ (_ :: pre) hinv' (fun x hx => horig x (List.mem_cons_of_mem _ hx))
      simpa [List.reverse_cons, List.append_assoc] using this

/-- **every list of column names is written with pairwise distinct names** (after fix F27) – whatever repeats it holds
    and whether or not suffixed forms such as `a-1` are names in their own right -/
theorem uniqNames_nodup (names : List String) : (uniqNames names).Nodup := by
  have := uniqGo_inv names names [] names []
    ⟨List.nodup_nil, by simp, by simp, fun o ho => ho⟩ (fun n hn => hn)
  simpa [uniqNames] using this

/-- C09: `R` replications of one trait get `R` pairwise distinct column names -/
theorem replication_names_distinct (x : String) (R : Nat) : (uniqNames (List.replicate R x)).Nodup :=
  uniqNames_nodup _
#print axioms uniqNames_nodup
