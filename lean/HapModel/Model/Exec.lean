import HapModel.Model.Plan
/-! Prototype C01: executing the copy plan with `get_segment` gives a mosaic of the two parents. -/
namespace Plan
open Seg

/-- run the copies in order and concatenate (`segments.extend(get_segment(...))`) -/
def exec (chromOf : Nat → Nat) (haps : Nat → Nat) (prev : Array (Array Seg)) : List Copy → Except Err (List Seg)
  | [] => .ok []
  | c :: cs =>
    match getSegment 0 (haps c.hom) (chromOf c.ci) c.st c.en c.cm prev with
    | .error e => .error e
    | .ok o =>
      match exec chromOf haps prev cs with
      | .error e => .error e
      | .ok r => .ok (o ++ r)

/-- a parental haplotype is well formed: sorted by (chrom, end) and every requested chromosome reaches MAX -/
def ParentWF (n : Nat) (chromOf : Nat → Nat) (segs : Array Seg) : Prop :=
  SortedL segs.toList ∧ ∀ ci, ci < n → ∃ s ∈ segs.toList, s.chrom = chromOf ci ∧ MAX ≤ s.endc

theorem tiles_bounds {n : Nat} : ∀ {cur st : Nat} {cs : List Copy}, Tiles n cur st cs →
    ∀ c ∈ cs, cur ≤ c.ci ∧ c.ci < n ∧ (c.ci = cur → st ≤ c.st) ∧ c.st ≤ c.en ∧ c.en ≤ MAX
  | _, _, _, .done => by intro c hc; simp at hc
  | _, _, _, .last c0 hlt hci hst hsm hen hrest => by
    intro c hc
    rcases List.mem_cons.mp hc with rfl | h
    · exact ⟨by omega, by omega, fun _ => by omega, by omega, by omega⟩
    · have := tiles_bounds hrest c h
      refine ⟨by omega, this.2.1, fun h' => by omega, this.2.2.2⟩
  | _, _, _, .mid c0 hlt hci hst hle hen hrest => by
    intro c hc
    rcases List.mem_cons.mp hc with rfl | h
    · exact ⟨by omega, by omega, fun _ => by omega, by omega, by omega⟩
    · have := tiles_bounds hrest c h
      refine ⟨this.1, this.2.1, fun h' => ?_, this.2.2.2⟩
      have := this.2.2.1 h'; omega

end Plan

namespace Plan
open Seg

theorem labelAt_append_left {a b : List Seg} {c pos : Nat}
    (h : ∃ s ∈ a, s.chrom = c ∧ pos ≤ s.endc) : labelAt (a ++ b) c pos = labelAt a c pos := by
  unfold labelAt
  rw [List.find?_append]
  obtain ⟨s, hs, hc, hp⟩ := h
  have : (a.find? (fun s => decide (s.chrom = c) && decide (pos ≤ s.endc))).isSome := by
    rw [List.find?_isSome]
    exact ⟨s, hs, by simp [hc, hp]⟩
  obtain ⟨x, hx⟩ := Option.isSome_iff_exists.mp this
  simp [hx]

/-- one copy: what `getSegment_copy` gives, in the form needed below -/
theorem copy_ok (n : Nat) (chromOf : Nat → Nat) (prev : Array (Array Seg)) (hapIdx : Nat) (segs : Array Seg)
    (hprev : prev[hapIdx]? = some segs) (hwf : ParentWF n chromOf segs)
    (c : Copy) (hci : c.ci < n) (hse : c.st ≤ c.en) (hen : c.en ≤ MAX) :
    ∃ out, getSegment 0 hapIdx (chromOf c.ci) c.st c.en c.cm prev = .ok out ∧
      (∀ pos, c.st ≤ pos → pos ≤ c.en → labelAt out (chromOf c.ci) pos = labelAt segs.toList (chromOf c.ci) pos) ∧
      (∀ s ∈ out, s.chrom = chromOf c.ci ∧ c.st ≤ s.endc ∧ s.endc ≤ c.en) ∧
      (∃ s ∈ out, s.chrom = chromOf c.ci ∧ s.endc = c.en) := by
  obtain ⟨hs, hcovall⟩ := hwf
  obtain ⟨s0, hs0, hs0c, hs0e⟩ := hcovall c.ci hci
  obtain ⟨out, hout, hlab, body, lab, hshape, hbody⟩ :=
    getSegment_copy prev hapIdx (chromOf c.ci) c.st c.en c.cm segs hprev hs hse ⟨s0, hs0, hs0c, by omega⟩
  refine ⟨out, hout, hlab, ?_, ?_⟩
  · intro s hsm
    rw [hshape] at hsm
    rcases List.mem_append.mp hsm with h | h
    · have := hbody s h; exact ⟨this.2.1, this.2.2.1, by omega⟩
    · simp only [List.mem_singleton] at h; subst h; exact ⟨rfl, hse, Nat.le_refl _⟩
  · exact ⟨⟨lab, chromOf c.ci, c.en, c.cm⟩, by rw [hshape]; simp, rfl, rfl⟩

/-- C01 top level (one simulated haplotype): the concatenated output carries, on every copied interval,
    exactly the label of the parental haplotype chosen for that interval. -/
theorem exec_mosaic (n : Nat) (chromOf : Nat → Nat)
    (hinj : ∀ a b, a < n → b < n → chromOf a = chromOf b → a = b)
    (haps : Nat → Nat) (prev : Array (Array Seg))
    (hpar : ∀ hom, ∃ segs, prev[haps hom]? = some segs ∧ ParentWF n chromOf segs) :
    ∀ {cur st : Nat} {cs : List Copy}, Tiles n cur st cs →
      ∃ out, exec chromOf haps prev cs = .ok out ∧
        (∀ s ∈ out, ∃ ci, cur ≤ ci ∧ ci < n ∧ s.chrom = chromOf ci ∧ (ci = cur → st ≤ s.endc)) ∧
        (∀ c ∈ cs, ∀ pos, c.st ≤ pos → pos ≤ c.en → ∀ segs, prev[haps c.hom]? = some segs →
            labelAt out (chromOf c.ci) pos = labelAt segs.toList (chromOf c.ci) pos) := by
  intro cur st cs ht
  induction ht with
  | done => exact ⟨[], rfl, by simp, by simp⟩
  | @last cur st rest c hlt hci hst hsm hen hrest ih =>
    obtain ⟨segs, hprev, hwf⟩ := hpar c.hom
    obtain ⟨o, ho, hlab, hmem, hclose⟩ := copy_ok n chromOf prev (haps c.hom) segs hprev hwf c (by omega) (by omega) (by omega)
    obtain ⟨r, hr, hrmem, hrlab⟩ := ih
    refine ⟨o ++ r, by simp [exec, ho, hr], ?_, ?_⟩
    · intro s hs
      rcases List.mem_append.mp hs with h | h
      · have := hmem s h
        exact ⟨cur, Nat.le_refl _, hlt, by rw [this.1, hci], fun _ => by omega⟩
      · obtain ⟨ci, h1, h2, h3, _⟩ := hrmem s h
        exact ⟨ci, by omega, h2, h3, fun h' => by omega⟩
    · intro c' hc' pos hp1 hp2 segs' hsegs'
      rcases List.mem_cons.mp hc' with rfl | hin
      · rw [labelAt_append_left]
        · rw [hprev] at hsegs'; cases hsegs'; exact hlab pos hp1 hp2
        · obtain ⟨s, hs, hsc, hse⟩ := hclose
          exact ⟨s, hs, hsc, by omega⟩
      · have hb := tiles_bounds hrest c' hin
        rw [labelAt_append_of_none]
        · exact hrlab c' hin pos hp1 hp2 segs' hsegs'
        · intro s hs hcon
          have := hmem s hs
          have heq : chromOf c.ci = chromOf c'.ci := by rw [← this.1]; exact hcon.1
          have := hinj c.ci c'.ci (by omega) hb.2.1 heq
          omega
  | @mid cur st rest c hlt hci hst hle hen hrest ih =>
    obtain ⟨segs, hprev, hwf⟩ := hpar c.hom
    obtain ⟨o, ho, hlab, hmem, hclose⟩ := copy_ok n chromOf prev (haps c.hom) segs hprev hwf c (by omega) (by omega) (by omega)
    obtain ⟨r, hr, hrmem, hrlab⟩ := ih
    refine ⟨o ++ r, by simp [exec, ho, hr], ?_, ?_⟩
    · intro s hs
      rcases List.mem_append.mp hs with h | h
      · have := hmem s h
        exact ⟨cur, Nat.le_refl _, hlt, by rw [this.1, hci], fun _ => by omega⟩
      · obtain ⟨ci, h1, h2, h3, h4⟩ := hrmem s h
        exact ⟨ci, h1, h2, h3, fun h' => by have := h4 h'; omega⟩
    · intro c' hc' pos hp1 hp2 segs' hsegs'
      rcases List.mem_cons.mp hc' with rfl | hin
      · rw [labelAt_append_left]
        · rw [hprev] at hsegs'; cases hsegs'; exact hlab pos hp1 hp2
        · obtain ⟨s, hs, hsc, hse⟩ := hclose
          exact ⟨s, hs, hsc, by omega⟩
      · have hb := tiles_bounds hrest c' hin
        rw [labelAt_append_of_none]
        · exact hrlab c' hin pos hp1 hp2 segs' hsegs'
        · intro s hs hcon
          have hm := hmem s hs
          have heq : chromOf c.ci = chromOf c'.ci := by rw [← hm.1]; exact hcon.1
          have hsame := hinj c.ci c'.ci (by omega) hb.2.1 heq
          have := hb.2.2.1 (by omega)
          omega

end Plan

namespace Plan
open Seg

/-- what one `get_segment` call must deliver for the concatenation to be well formed -/
def CopyOut (chromOf : Nat → Nat) (c : Copy) (o : List Seg) : Prop :=
  (∀ s ∈ o, s.chrom = chromOf c.ci ∧ c.st ≤ s.endc ∧ s.endc ≤ c.en) ∧
  (∃ s ∈ o, s.chrom = chromOf c.ci ∧ s.endc = c.en) ∧ o.Pairwise SegLt

/-- pointwise relation between the copy instructions and the outputs of their `get_segment` calls -/
inductive Outs (chromOf : Nat → Nat) : List Copy → List (List Seg) → Prop
  | nil : Outs chromOf [] []
  | cons {c o cs os} : CopyOut chromOf c o → Outs chromOf cs os → Outs chromOf (c :: cs) (o :: os)

/-- concatenating per-copy outputs of a tiling plan gives a haplotype that is sorted by (chrom, end)
    and reaches MAX on every chromosome from `cur` on (C02: tiling; also the inductive step of C01) -/
theorem concat_wf (n : Nat) (chromOf : Nat → Nat) (hmono : ∀ a b, a < b → b < n → chromOf a < chromOf b) :
    ∀ {cur st : Nat} {cs : List Copy}, Tiles n cur st cs →
      ∀ (outs : List (List Seg)), Outs chromOf cs outs →
        outs.flatten.Pairwise SegLt ∧
        (∀ s ∈ outs.flatten, ∃ ci, cur ≤ ci ∧ ci < n ∧ s.chrom = chromOf ci ∧ (ci = cur → st ≤ s.endc)) ∧
        (∀ ci, cur ≤ ci → ci < n → ∃ s ∈ outs.flatten, s.chrom = chromOf ci ∧ s.endc = MAX) := by
  intro cur st cs ht
  induction ht with
  | done =>
    intro outs h
    cases h
    exact ⟨by simp, by simp, fun ci h1 h2 => by omega⟩
  | @last cur st rest c hlt hci hst hsm hen hrest ih =>
    intro outs h
    cases h with
    | cons hco hrest' =>
      rename_i o os
      obtain ⟨hpw, hmem, hcov⟩ := ih os hrest'
      obtain ⟨hom, hcl, hopw⟩ := hco
      simp only [List.flatten_cons]
      refine ⟨?_, ?_, ?_⟩
      · rw [List.pairwise_append]
        refine ⟨hopw, hpw, ?_⟩
        intro a ha b hb
        obtain ⟨ci, h1, h2, h3, _⟩ := hmem b hb
        have := hom a ha
        left
        rw [this.1, h3, hci]
        exact hmono cur ci (by omega) h2
      · intro s hs
        rcases List.mem_append.mp hs with h | h
        · have := hom s h
          exact ⟨cur, Nat.le_refl _, hlt, by rw [this.1, hci], fun _ => by omega⟩
        · obtain ⟨ci, h1, h2, h3, _⟩ := hmem s h
          exact ⟨ci, by omega, h2, h3, fun h' => by omega⟩
      · intro ci h1 h2
        by_cases hc : ci = cur
        · obtain ⟨s, hs, hsc, hse⟩ := hcl
          exact ⟨s, List.mem_append_left _ hs, by rw [hsc, hci, hc], by rw [hse, hen]⟩
        · obtain ⟨s, hs, hh⟩ := hcov ci (by omega) h2
          exact ⟨s, List.mem_append_right _ hs, hh⟩
  | @mid cur st rest c hlt hci hst hle hen hrest ih =>
    intro outs h
    cases h with
    | cons hco hrest' =>
      rename_i o os
      obtain ⟨hpw, hmem, hcov⟩ := ih os hrest'
      obtain ⟨hom, hcl, hopw⟩ := hco
      simp only [List.flatten_cons]
      refine ⟨?_, ?_, ?_⟩
      · rw [List.pairwise_append]
        refine ⟨hopw, hpw, ?_⟩
        intro a ha b hb
        obtain ⟨ci, h1, h2, h3, h4⟩ := hmem b hb
        have ha' := hom a ha
        by_cases hc : ci = cur
        · right
          have := h4 hc
          exact ⟨by rw [ha'.1, h3, hci, hc], by omega⟩
        · left
          rw [ha'.1, h3, hci]
          exact hmono cur ci (by omega) h2
      · intro s hs
        rcases List.mem_append.mp hs with h | h
        · have := hom s h
          exact ⟨cur, Nat.le_refl _, hlt, by rw [this.1, hci], fun _ => by omega⟩
        · obtain ⟨ci, h1, h2, h3, h4⟩ := hmem s h
          exact ⟨ci, h1, h2, h3, fun h' => by have := h4 h'; omega⟩
      · intro ci h1 h2
        obtain ⟨s, hs, hh⟩ := hcov ci h1 h2
        exact ⟨s, List.mem_append_right _ hs, hh⟩

end Plan

namespace Plan
open Seg

/-- `exec` for an individual of founding population `pop` (0 = admixed: copy from the parents;
    `pop > 0`: every call returns the single tract `⟨pop, chrom, en, cm⟩`) -/
def execP (pop : Nat) (chromOf : Nat → Nat) (haps : Nat → Nat) (prev : Array (Array Seg)) :
    List Copy → Except Err (List Seg)
  | [] => .ok []
  | c :: cs =>
    match getSegment pop (haps c.hom) (chromOf c.ci) c.st c.en c.cm prev with
    | .error e => .error e
    | .ok o =>
      match execP pop chromOf haps prev cs with
      | .error e => .error e
      | .ok r => .ok (o ++ r)

theorem execP_zero (chromOf : Nat → Nat) (haps : Nat → Nat) (prev : Array (Array Seg)) (cs : List Copy) :
    execP 0 chromOf haps prev cs = exec chromOf haps prev cs := by
  induction cs with
  | nil => rfl
  | cons c cs ih => simp only [execP, exec, ih]

/-- an individual drawn from a source population: one tract per copy, labelled with that population -/
theorem execP_source (pop : Nat) (hp : pop ≠ 0) (chromOf : Nat → Nat) (haps : Nat → Nat)
    (prev : Array (Array Seg)) (cs : List Copy) :
    execP pop chromOf haps prev cs = .ok (cs.map (fun c => ⟨pop, chromOf c.ci, c.en, c.cm⟩)) := by
  induction cs with
  | nil => rfl
  | cons c cs ih => simp [execP, getSegment, hp, ih]

end Plan
