/-!
# C16 model: the bookkeeping of `calc_ld` – which haplotypes / variants are listed, and in which order
-/
namespace LdPlan

/-- order-preserving de-duplication (`tuple(dict.fromkeys(ids))`) -/
def dedup : List String → List String
  | [] => []
  | x :: xs => x :: (dedup xs).filter (· != x)

/-- `.hap` output (no `--from-gts`): the haplotypes of the file (repeats already removed), restricted to `--id`
    when given, without the target haplotype, in file order -/
def listHapMode (haps : List String) (target : String) (ids : Option (List String)) : List String :=
  (haps.filter (fun h => match ids with | none => true | some l => l.contains h)).filter (· != target)

/-- `.ld` output with `--from-gts` and a haplotype target: all variants of the genotype file, or the requested IDs
    (each once, in the requested order, unknown ones dropped) -/
def listGtsHapTarget (fileVars : List String) (ids : Option (List String)) : List String :=
  match ids with
  | none => fileVars
  | some l => (dedup l).filter (fun v => fileVars.contains v)

/-- `.ld` output with `--from-gts` and a variant target: the variants loaded from the file – all of them, or the
    requested IDs together with the target – in file order -/
def listGtsVarTarget (fileVars : List String) (target : String) (ids : Option (List String)) : List String :=
  match ids with
  | none => fileVars
  | some l => fileVars.filter (fun v => l.contains v || v == target)

theorem mem_dedup (l : List String) (x : String) : x ∈ dedup l ↔ x ∈ l := by
  induction l with
  | nil => simp [dedup]
  | cons a t ih =>
    simp only [dedup, List.mem_cons, List.mem_filter, bne_iff_ne, ne_eq, ih]
    constructor
    · rintro (h | ⟨h, _⟩)
      · exact .inl h
      · exact .inr h
    · rintro (h | h)
      · exact .inl h
      · by_cases hx : x = a
        · exact .inl hx
        · exact .inr ⟨h, hx⟩

theorem dedup_nodup (l : List String) : (dedup l).Nodup := by
  induction l with
  | nil => exact List.nodup_nil
  | cons a t ih =>
    simp only [dedup]
    rw [List.nodup_cons]
    exact ⟨by simp, ih.filter _⟩

/-- every requested haplotype of the file is listed exactly once and the target haplotype is never listed -/
theorem listHapMode_spec (haps : List String) (hnd : haps.Nodup) (target : String) (ids : Option (List String)) :
    (listHapMode haps target ids).Nodup ∧ target ∉ listHapMode haps target ids ∧
    ∀ h, h ∈ listHapMode haps target ids ↔
      (h ∈ haps ∧ h ≠ target ∧ (match ids with | none => True | some l => h ∈ l)) := by
  unfold listHapMode
  refine ⟨(hnd.filter _).filter _, by simp, ?_⟩
  intro h
  cases ids with
  | none => simp [and_assoc]
  | some l =>
    simp only [List.mem_filter, List.contains_eq_mem, decide_eq_true_eq, bne_iff_ne, ne_eq]
    constructor
    · rintro ⟨⟨a, b⟩, c⟩; exact ⟨a, c, b⟩
    · rintro ⟨a, c, b⟩; exact ⟨⟨a, b⟩, c⟩

/-- with a haplotype target and `--from-gts --id …` every requested variant present in the file is listed exactly
    once (a repeated `--id` too: F21), in the requested order -/
theorem listGtsHapTarget_spec (fileVars : List String) (hnd : fileVars.Nodup) (ids : Option (List String)) :
    (listGtsHapTarget fileVars ids).Nodup ∧
    ∀ v, v ∈ listGtsHapTarget fileVars ids ↔
      (v ∈ fileVars ∧ (match ids with | none => True | some l => v ∈ l)) := by
  unfold listGtsHapTarget
  cases ids with
  | none => exact ⟨hnd, by simp⟩
  | some l =>
    refine ⟨(dedup_nodup l).filter _, ?_⟩
    intro v
    simp only [List.mem_filter, mem_dedup, List.contains_eq_mem, decide_eq_true_eq]
    exact And.comm

theorem listGtsVarTarget_spec (fileVars : List String) (hnd : fileVars.Nodup) (target : String) (ids : Option (List String)) :
    (listGtsVarTarget fileVars target ids).Nodup ∧
    ∀ v, v ∈ listGtsVarTarget fileVars target ids ↔
      (v ∈ fileVars ∧ (match ids with | none => True | some l => v ∈ l ∨ v = target)) := by
  unfold listGtsVarTarget
  cases ids with
  | none => exact ⟨hnd, by simp⟩
  | some l =>
    refine ⟨hnd.filter _, ?_⟩
    intro v
    simp only [List.mem_filter, List.contains_eq_mem, Bool.or_eq_true, decide_eq_true_eq, beq_iff_eq]

end LdPlan
