/-! Prototype C12: the lazily built ID→position maps of Genotypes/Phenotypes (one axis). -/
namespace Cache

/-- `dict(zip(ids, range(len(ids))))` as an association list; lookups return the LAST position -/
def buildIdx (ids : List String) : List (String × Nat) := ids.zipIdx.reverse
def get? (m : List (String × Nat)) (id : String) : Option Nat := m.lookup id

structure Axis where
  ids : List String
  cache : Option (List (String × Nat))

def Sound (m : List (String × Nat)) (ids : List String) : Prop :=
  ∀ id i, get? m id = some i → ids[i]? = some id
def Complete (m : List (String × Nat)) (ids : List String) : Prop :=
  ∀ id, id ∈ ids → (get? m id).isSome
def Inv (a : Axis) : Prop := ∀ m, a.cache = some m → Sound m a.ids ∧ Complete m a.ids

inductive Op
  | read (newIds : List String) (resets : Bool)   -- `resets = true` is the fixed `read`
  | index
  | subsetInplace (req : List String)
  | discard (drop : List Nat)                     -- np.delete(..., idx): check_missing/biallelic/maf
  deriving Repr

/-- `index()` -/
def ensure (a : Axis) : Axis :=
  match a.cache with
  | some _ => a
  | none => { a with cache := some (buildIdx a.ids) }

/-- positions chosen by `subset(ids=req)` -/
def positions (a : Axis) (req : List String) : List (String × Nat) :=
  match (ensure a).cache with
  | none => []
  | some m => req.filterMap (fun id => (get? m id).map (fun i => (id, i)))

def removeIdx (l : List String) (drop : List Nat) : List String :=
  (l.zipIdx.filter (fun p => !drop.contains p.2)).map (·.1)

def step (a : Axis) : Op → Axis
  | .read newIds resets => { ids := newIds, cache := if resets then none else a.cache }
  | .index => ensure a
  | .subsetInplace req => { ids := (positions a req).map (·.1), cache := none }
  | .discard drop => { ids := removeIdx a.ids drop, cache := none }

theorem lookup_zipIdx_reverse_sound : ∀ (ids : List String) (k : Nat) (id : String) (i : Nat),
    (ids.zipIdx k).reverse.lookup id = some i → k ≤ i ∧ ids[i - k]? = some id := by
  intro ids
  induction ids with
  | nil => intro k id i h; simp at h
  | cons a t ih =>
    intro k id i h
    simp only [List.zipIdx_cons, List.reverse_cons, List.lookup_append] at h
    cases hl : List.lookup id (t.zipIdx (k+1)).reverse with
    | some j =>
      simp only [hl, Option.some_or, Option.some.injEq] at h
      subst h
      have := ih (k+1) id j hl
      refine ⟨by omega, ?_⟩
      have h2 : j - k = (j - (k+1)) + 1 := by omega
      rw [h2]; simpa using this.2
    | none =>
      simp only [hl, Option.none_or, List.lookup_cons, List.lookup_nil] at h
      split at h
      · rename_i heq
        simp only [Option.some.injEq] at h
        subst h
        have : id = a := by simpa using heq
        simp [this]
      · simp at h

theorem buildIdx_sound (ids : List String) : Sound (buildIdx ids) ids := by
  intro id i h
  have := lookup_zipIdx_reverse_sound ids 0 id i (by simpa [buildIdx, get?] using h)
  simpa using this.2

theorem buildIdx_complete (ids : List String) : Complete (buildIdx ids) ids := by
  intro id hid
  unfold get? buildIdx
  rw [Option.isSome_iff_exists]
  -- some pair with key `id` occurs in the list, so lookup succeeds
  have hmem : ∃ i, (id, i) ∈ ids.zipIdx.reverse := by
    obtain ⟨i, hi, rfl⟩ := List.getElem_of_mem hid
    exact ⟨i, by simp [List.mem_zipIdx_iff_getElem?, hi]⟩
  obtain ⟨i, hi⟩ := hmem
  cases h : List.lookup id ids.zipIdx.reverse with
  | some j => exact ⟨j, rfl⟩
  | none =>
    exfalso
    have := List.lookup_eq_none_iff.mp h
    have h2 := this (id, i) hi
    simp at h2

theorem ensure_inv (a : Axis) (h : Inv a) : Inv (ensure a) := by
  unfold ensure
  split
  · exact h
  · intro m hm
    simp only [Option.some.injEq] at hm
    subst hm
    exact ⟨buildIdx_sound _, buildIdx_complete _⟩

/-- with the fixed `read` every operation preserves the invariant -/
theorem step_inv (a : Axis) (op : Op) (hop : ∀ ids, op ≠ .read ids false) (h : Inv a) : Inv (step a op) := by
  cases op with
  | read newIds resets =>
    cases resets with
    | true => intro m hm; simp [step] at hm
    | false => exact absurd rfl (hop newIds)
  | index => exact ensure_inv a h
  | subsetInplace req => intro m hm; simp [step] at hm
  | discard drop => intro m hm; simp [step] at hm

theorem run_inv (ops : List Op) (hops : ∀ op ∈ ops, ∀ ids, op ≠ .read ids false)
    (a : Axis) (h : Inv a) : Inv (ops.foldl step a) := by
  induction ops generalizing a with
  | nil => exact h
  | cons op rest ih =>
    exact ih (fun o ho => hops o (List.mem_cons_of_mem _ ho)) _
      (step_inv a op (hops op (List.mem_cons_self ..)) h)

/-- every position answered for an ID currently bears that ID; an absent ID gets no position -/
theorem positions_current (a : Axis) (h : Inv a) (req : List String) :
    (∀ p ∈ positions a req, a.ids[p.2]? = some p.1) ∧
    (∀ id ∈ req, id ∉ a.ids → ∀ p ∈ positions a req, p.1 ≠ id) ∧
    (∀ id ∈ req, id ∈ a.ids → ∃ p ∈ positions a req, p.1 = id) := by
  have hi := ensure_inv a h
  have hids : (ensure a).ids = a.ids := by unfold ensure; split <;> rfl
  unfold positions
  cases hc : (ensure a).cache with
  | none => unfold ensure at hc; split at hc <;> simp_all
  | some m =>
    obtain ⟨hs, hcmp⟩ := hi m hc
    rw [hids] at hs hcmp
    refine ⟨?_, ?_, ?_⟩
    · intro p hp
      simp only [List.mem_filterMap, Option.map_eq_some_iff] at hp
      obtain ⟨id, _, i, hgi, rfl⟩ := hp
      exact hs id i hgi
    · intro id _ hnot p hp hpid
      simp only [List.mem_filterMap, Option.map_eq_some_iff] at hp
      obtain ⟨id', _, i, hgi, rfl⟩ := hp
      simp only at hpid
      subst hpid
      have := hs id' i hgi
      exact hnot (List.mem_of_getElem? this)
    · intro id hreq hin
      have := hcmp id hin
      obtain ⟨i, hgi⟩ := Option.isSome_iff_exists.mp this
      exact ⟨(id, i), by simp only [List.mem_filterMap, Option.map_eq_some_iff]; exact ⟨id, hreq, i, hgi, rfl⟩, rfl⟩

/-- F11: with the pre-fix `read` (cache kept) a stale answer is produced -/
theorem stale_read_refuted :
    let a0 : Axis := ⟨["v1","v2","v3"], none⟩
    let a1 := [Op.index, Op.read ["v2","v3"] false].foldl step a0
    positions a1 ["v2"] = [("v2", 1)] ∧ a1.ids[1]? = some "v3" := by decide

end Cache
