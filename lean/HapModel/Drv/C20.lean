import HapModel.Drv.Basic
import HapModel.Model.Validate
namespace Drv
open Lean Validate

def reasonName : Reason → String
  | .samplesNotInt => "samplesNotInt" | .fewPops => "fewPops" | .samplesLt1 => "samplesLt1"
  | .genNotInt => "genNotInt" | .fracNotFloat => "fracNotFloat" | .fracCount => "fracCount"
  | .genOrder => "genOrder" | .fracSum => "fracSum" | .mapdir => "mapdir" | .badChrom => "badChrom"
  | .noMaps => "noMaps" | .popsizeNotInt => "popsizeNotInt" | .popsizeNonPos => "popsizeNonPos"
  | .region => "region" | .vcfUnreadable => "vcfUnreadable" | .sampleNotInVcf => "sampleNotInVcf"
  | .popNotInInfo => "popNotInInfo" | .tooFewSamples => "tooFewSamples"

def ratJ (j : Json) : R Rat := do
  match ← arr j with
  | [a, b] => pure (mkRat (← int a) (← nat b))
  | _ => throw "rat expected"

/-- {"op":"validate", …pre-tokenised inputs…} → {"ok":popsize} | {"error":reason} (pipeline incl. _prepare_coords) -/
def hValidate (j : Json) : R Json := do
  let gens ← (← arrF j "gens").mapM (fun g => do
    pure ({ gen := ← optF int g "gen", fracs := ← optF (listOf ratJ) g "fracs" } : GenLine))
  let inp : Inputs := {
    nSamples := ← optF int j "nSamples", pops := ← listF str j "pops", gens := gens,
    mapdirIsDir := ← boolF j "mapdirIsDir", chroms := ← listF str j "chroms",
    mapFilesFound := ← natF j "mapFilesFound", popsize := ← optF int j "popsize",
    onlyBp := ← boolF j "onlyBp",
    region := ← optF (fun r => do match ← arr r with
      | [a, b] => pure (← nat a, ← nat b) | _ => throw "region") j "region",
    vcfSamples := ← optF (listOf str) j "vcfSamples",
    sampleInfo := ← listF (fun p => do match ← arr p with
      | [a, b] => pure (← str a, ← str b) | _ => throw "pair") j "sampleInfo",
    noReplacement := ← boolF j "noReplacement" }
  let lfc ← listF nat j "lineFieldCounts"
  match pipeline (mkRat 1 1000000) inp lfc with
  | .ok p => pure <| jObj [("ok", jInt p)]
  | .error (.inl e) => pure <| jObj [("error", jStr (reasonName e))]
  | .error (.inr .missingMap) => pure <| jObj [("error", jStr "missingMap")]
  | .error (.inr .badMapLine) => pure <| jObj [("error", jStr "badMapLine")]

end Drv
