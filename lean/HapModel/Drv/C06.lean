import HapModel.Drv.Basic
import HapModel.Model.HapFormat
import HapModel.Model.HapHeader
import HapModel.Model.HapVersion
namespace Drv
open Lean HapFormat

def recJ (r : Rec) : Json :=
  jObj [("t", jStr r.t.sym), ("mand", jArr (r.mand.map jStr)),
        ("extras", jArr (r.extras.map (fun p => jArr [jStr p.1, jStr p.2])))]

/-- {"op":"hapParse","H":[names],"V":[names],"R":[names],"lines":[[fields]…]} → [[owner,[variants]]…] | null -/
def hHapParse (j : Json) : R Json := do
  let names := fun (k : String) => (optF (listOf str) j k)
  let h ← names "H"; let v ← names "V"; let r ← names "R"
  let lines ← listF (listOf str) j "lines"
  let c : Classes := ⟨fun t => ((match t with | .H => h | .V => v | .R => r).getD []).map (fun n => (n, "", ""))⟩
  match parse c lines with
  | none => pure <| jObj [("data", Json.null)]
  | some d => pure <| jObj [("data", jArr (d.map (fun hv => jArr [recJ hv.1, jArr (hv.2.map recJ)])))]

/-- {"op":"hapHeader","H":[names],"V":[names],"R":[names],"lines":[[fields]…]} → the `#t name` pairs check_header reports -/
def hHapHeader (j : Json) : R Json := do
  let names := fun (k : String) => (optF (listOf str) j k)
  let h ← names "H"; let v ← names "V"; let r ← names "R"
  let lines ← listF (listOf str) j "lines"
  let c : Classes := ⟨fun t => ((match t with | .H => h | .V => v | .R => r).getD []).map (fun n => (n, "", ""))⟩
  pure <| jObj [("reported", Json.bool (reported c lines)),
                ("missing", jArr ((missing c lines).map (fun p => jArr [jStr p.1.sym, jStr p.2])))]

/-- {"op":"hapVersion","observed":s,"expected":s} → "unsupported" | "outdated" | "patched" | "current" | null (not a
    three-number version string) -/
def hHapVersion (j : Json) : R Json := do
  let o ← strF j "observed"
  let e ← strF j "expected"
  pure <| jObj [("verdict", match HapVersion.checkStr o e with
    | none => Json.null
    | some .unsupported => jStr "unsupported"
    | some .outdated => jStr "outdated"
    | some .patched => jStr "patched"
    | some .current => jStr "current")]

end Drv
