import HapModel.Drv.C14
import HapModel.Drv.C18
namespace Drv
open Lean

def dispatch (op : String) (j : Json) : R Json :=
  match op with
  | "findCoord" => hFindCoord j
  | "noReplRun" => hNoReplRun j
  | "karyogram" => hKaryogram j
  | _ => throw s!"unknown op {op}"

end Drv
