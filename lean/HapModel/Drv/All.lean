import HapModel.Drv.C01
import HapModel.Drv.C03
import HapModel.Drv.C04
import HapModel.Drv.C05
import HapModel.Drv.C06
import HapModel.Drv.C07
import HapModel.Drv.C09
import HapModel.Drv.C10
import HapModel.Drv.C11
import HapModel.Drv.C12
import HapModel.Drv.C13
import HapModel.Drv.C14
import HapModel.Drv.C15
import HapModel.Drv.C16
import HapModel.Drv.C17
import HapModel.Drv.C18
import HapModel.Drv.C19
import HapModel.Drv.C20
namespace Drv
open Lean

def dispatch1 (op : String) (j : Json) : R Json :=
  match op with
  | "findCoord" => hFindCoord j
  | "noReplRun" => hNoReplRun j
  | "karyogram" => hKaryogram j
  | "getSegment" => hGetSegment j
  | "simGen" => hSimGen j
  | "simAll" => hSimAll j
  | "qc" => hQC j
  | "objRun" => hObjRun j
  | "hapObjRun" => hHapObjRun j
  | "bpQuery" => hBpQuery j
  | "bpEncode" => hBpEncode j
  | "bpParse" => hBpParse j
  | "bpRender" => hBpRender j
  | "clump" => hClump j
  | "overlap" => hOverlap j
  | "clumpLd" => hClumpLd j
  | "validate" => hValidate j
  | "outputVcf" => hOutputVcf j
  | "convertHap" => hConvertHap j
  | "transform" => hTransform j
  | "hapParse" => hHapParse j
  | "hapHeader" => hHapHeader j
  | "hapVersion" => hHapVersion j
  | "hapQuery" => hHapQuery j
  | "hapSort" => hHapSort j
  | "gtStore" => hGtStore j
  | "gtRestrict" => hGtRestrict j
  | "subsetRun" => hSubsetRun j
  | "phenoParse" => hPhenoParse j
  | "uniqNames" => hUniqNames j
  | "floatTok" => hFloatTok j
  | "floatRead" => hFloatRead j
  | "noiseVar" => hNoiseVar j
  | "geneticRaw" => hGeneticRaw j
  | "ldPlan" => hLdPlan j
  | "calcLd" => hCalcLd j
  | "ldStat" => hLdStat j
  | "splitLines" => hSplitLines j
  | "seedGuard" => hSeedGuard j
  | "cliParse" => hCliParse j
  | "bpPrefix" => hBpPrefix j
  | _ => throw s!"unknown op {op}"

/-- {"op":"batch","reqs":[…]} → {"resps":[…]} -/
def dispatch (op : String) (j : Json) : R Json :=
  if op = "batch" then do
    let rs ← (← arrF j "reqs").mapM (fun r => do dispatch1 (← strF r "op") r)
    pure <| jObj [("resps", jArr rs)]
  else dispatch1 op j

end Drv
