import HapModel.Drv.C14
namespace Drv
open Lean

def dispatch (op : String) (j : Json) : R Json :=
  match op with
  | "findCoord" => hFindCoord j
  | "noReplRun" => hNoReplRun j
  | _ => throw s!"unknown op {op}"

end Drv
