import HapModel.Drv.Basic
import HapModel.Model.QC
namespace Drv
open Lean QC

def cell (j : Json) : R Cell := do
  match ← arr j with
  | [a, b, p] => pure ⟨← nat a, ← nat b, (← nat p) != 0⟩
  | _ => throw "cell expected"
def pairNN (j : Json) : R (Nat × Nat) := do
  match ← arr j with
  | [a, b] => pure (← nat a, ← nat b)
  | _ => throw "pair expected"
def jCell (c : Cell) : Json := jArr [jNat c.a, jNat c.b, jNat (if c.ph then 1 else 0)]
def jG (g : G) : Json := jObj [
  ("samples", jArr (g.samples.map jStr)), ("vars", jArr (g.vars.map jStr)),
  ("data", jArr (g.data.map (fun r => jArr (r.map jCell)))),
  ("anc", jOpt (fun a => jArr (a.map (fun r => jArr (r.map (fun p => jArr [jNat p.1, jNat p.2]))))) g.anc),
  ("hasPhase", jBool g.hasPhase), ("isBool", jBool g.isBool)]

/-- {"op":"qc","g":{…},"ops":[{"k":"missing","discard":b}|{"k":"biallelic","discard":b}|{"k":"phase"}|
     {"k":"maf","num":n,"den":d,"discard":b,"warn":b}]} → per-op trace, stops at the first raise -/
def hQC (j : Json) : R Json := do
  let gj ← fld j "g"
  let g : G := {
    samples := ← listF str gj "samples", vars := ← listF str gj "vars",
    data := ← listF (listOf cell) gj "data",
    anc := ← optF (listOf (listOf pairNN)) gj "anc",
    hasPhase := ← boolF gj "hasPhase", isBool := ← boolF gj "isBool", ancestryClass := ← boolF gj "ancestryClass" }
  let ops ← arrF j "ops"
  let rec go (g : G) (ops : List Json) (acc : List Json) : R (List Json) :=
    match ops with
    | [] => pure acc.reverse
    | o :: rest => do
      let k ← strF o "k"
      let (out, maf) ← (match k with
        | "missing" => do pure (checkMissing (← boolF o "discard") g, none)
        | "biallelic" => do pure (checkBiallelic (← boolF o "discard") g, none)
        | "phase" => pure (checkPhase g, none)
        | "maf" => do
          let r := checkMaf (← natF o "num") (← natF o "den") (← boolF o "discard") (← boolF o "warn") g
          pure (r.1, some r.2)
        | _ => throw "bad qc op" : R (Out × Option (List (Nat × Nat))))
      match out with
      | .raised i v => pure ((jObj [("raised", jArr [jNat i, jNat v])] :: acc).reverse)
      | .ok g' =>
        let e := jObj ([("state", jG g')] ++ (match maf with
          | some m => [("maf", jArr (m.map (fun p => jArr [jNat p.1, jNat p.2])))] | none => []))
        go g' rest (e :: acc)
  pure <| jObj [("trace", jArr (← go g ops []))]

end Drv
