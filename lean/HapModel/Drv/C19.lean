import HapModel.Drv.Basic
import HapModel.Model.CliParse
import HapModel.Model.OutPrefix
namespace Drv
open Lean CliParse

def kindOf : String → R Kind
  | "value" => pure .value | "multi" => pure .multi | "flag" => pure .flag
  | k => throw s!"unknown kind {k}"

def declOf (j : Json) : R Decl := do
  pure { param := ← strF j "param", kind := ← kindOf (← strF j "kind"), on := ← listF str j "on", off := ← listF str j "off" }

/-- {"op":"splitLines","text":s} → {"lines":[…] (the list file as the commands read it), "py":[…] (`str.splitlines`)} -/
def hSplitLines (j : Json) : R Json := do
  let t ← strF j "text"
  pure <| jObj [("lines", jArr ((readLines t.toList).map (fun l => jStr (String.ofList l)))),
                ("py", jArr ((splitLines t.toList).map (fun l => jStr (String.ofList l))))]

/-- {"op":"cliParse","table":[{"param","kind","on","off"}…],"args":[…],"files":[[name,text]…]}
    → {"tableOK":b,"error":null|[kind,what],"pos":[…],"params":[[param,value]…],"samples":…,"ids":…} where value is a string, a
    list of strings, a bool or null (not given); `samples`/`ids` = what the entry point receives -/
def hCliParse (j : Json) : R Json := do
  let T ← listF declOf j "table"
  let args ← listF str j "args"
  let files ← (← arrF j "files").mapM (fun p => do
    match ← arr p with
    | [a, b] => pure (← str a, ← str b)
    | _ => throw "pair expected")
  let readFile : String → List String := fun name =>
    match files.find? (fun p => p.1 = name) with
    | some p => (readLines p.2.toList).map String.ofList
    | none => []
  match parse T none args with
  | .error (.noSuchOption t) => pure <| jObj [("tableOK", jBool (tableOK T)), ("error", jArr [jStr "no_such_option", jStr t])]
  | .error (.missingValue p) => pure <| jObj [("tableOK", jBool (tableOK T)), ("error", jArr [jStr "missing_value", jStr p])]
  | .ok (ev, pos) =>
    let params := T.map (fun d =>
      let v : Json := match d.kind with
        | .value => jOpt jStr (lastSet d.param ev)
        | .multi => jArr ((allAdded d.param ev).map jStr)
        | .flag => jOpt jBool (lastFlag d.param ev)
      jArr [jStr d.param, v])
    let samples : Json := match samplesArg readFile ev with
      | .error _ => jStr "usage_error"
      | .ok none => Json.null
      | .ok (some l) => jArr (l.map jStr)
    let ids : Json := match idsArg readFile ev with
      | none => Json.null
      | some l => jArr (l.map jStr)
    pure <| jObj [("tableOK", jBool (tableOK T)), ("error", Json.null), ("pos", jArr (pos.map jStr)), ("params", jArr params),
                  ("samples", samples), ("ids", ids)]

/-- {"op":"bpPrefix","out":"…"} → {"prefix":"…"}: the name under which `simgenotype --out …` writes its breakpoints (+ ".bp") -/
def hBpPrefix (j : Json) : R Json := do
  let out ← strF j "out"
  pure <| jObj [("prefix", jStr (String.ofList (OutPrefix.bpPrefix out.toList)))]

end Drv
