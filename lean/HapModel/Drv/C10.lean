import HapModel.Drv.Basic
import HapModel.Model.Seeded
namespace Drv
open Lean Seeded

/-- {"op":"seedGuard","seed":null|n} → {"simgenotype_first":["seed",n]|["draw"], "simphenotype_global_requests":0}:
    what the two commands ask of the process-wide generator first -/
def hSeedGuard (j : Json) : R Json := do
  let seed ← optF nat j "seed"
  let first : Json := match (guard seed oneDraw) [] with
    | some (.seed s) => jArr [jStr "seed", jNat s]
    | some (.draw _) => jArr [jStr "draw"]
    | none => jArr [jStr "nothing"]
  let silentReqs := (run counter (silent : Prog Unit Nat) 10 0 []).length
  pure <| jObj [("simgenotype_first", first), ("simphenotype_global_requests", jNat silentReqs)]

end Drv
