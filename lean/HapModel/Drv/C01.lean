import HapModel.Drv.Basic
import HapModel.Model.Exec
import HapModel.Model.SimInv
namespace Drv
open Lean Seg Plan

def seg (j : Json) : R Seg := do
  match ← arr j with
  | [p, c, e, m] => pure ⟨← nat p, ← nat c, ← nat e, ← int m⟩
  | _ => throw "seg expected"
def jSeg (s : Seg) : Json := jArr [jNat s.pop, jNat s.chrom, jNat s.endc, jInt s.cm]
def errName : Err → String
  | .index => "index_error" | .unbound => "name_error"

/-- {"op":"getSegment","pop","chrom","st","en","cm","segs":[[pop,chrom,end,cm]…]} -/
def hGetSegment (j : Json) : R Json := do
  let segs := (← listF seg j "segs").toArray
  let pop ← natF j "pop"; let c ← natF j "chrom"; let st ← natF j "st"; let en ← natF j "en"
  let cm ← intF j "cm"
  let i := startSegment st c segs
  let out := match getSegment pop 0 c st en cm #[segs] with
    | .ok o => jArr (o.map jSeg)
    | .error e => jErr (errName e)
  pure <| jObj [("start", jNat i), ("out", out)]

def event (j : Json) : R Event := do
  match ← arr j with
  | [a, b, c] => pure ⟨← nat a, ← nat b, ← int c⟩
  | _ => throw "event expected"
def jCopy (c : Copy) : Json := jArr [jNat c.ci, jNat c.st, jNat c.en, jInt c.cm, jNat c.hom]

/-- {"op":"simGen","chroms":[…],"cmEnd":[…],"prev":[[seg…]…],
     "samples":[{"pop":p,"haps":[h0,h1],"events":[[ci,endBp,endCm]…],"bits":[b0,…]}…]}
    → per sample the plan (get_segment calls) and the resulting haplotype -/
def hSimGen (j : Json) : R Json := do
  let chroms := (← listF nat j "chroms").toArray
  let cmEndA := (← listF int j "cmEnd").toArray
  let prev := ((← arrF j "prev").mapM (fun h => do pure (← listOf seg h).toArray))
  let prev := (← prev).toArray
  let n := chroms.size
  let chromOf : Nat → Nat := fun i => chroms.getD i 0
  let cmEnd : Nat → Int := fun i => cmEndA.getD i 0
  let outs ← (← arrF j "samples").mapM (fun s => do
    let pop ← natF s "pop"
    let haps := (← listF nat s "haps").toArray
    let evs ← listF event s "events"
    let bits ← listF nat s "bits"
    match bits with
    | [] => throw "no bits"
    | b0 :: rest =>
      let p := plan n cmEnd evs 0 0 b0 rest
      let child := match execP pop chromOf (fun h => haps.getD h 0) prev p with
        | .ok o => jArr (o.map jSeg)
        | .error e => jErr (errName e)
      pure <| jObj [("plan", jArr (p.map jCopy)), ("child", child)])
  pure <| jObj [("samples", jArr outs)]

def sampleTape (s : Json) : R SampleTape := do
  let pop ← natF s "pop"
  let haps := (← listF nat s "haps").toArray
  let evs ← listF event s "events"
  match ← listF nat s "bits" with
  | [] => throw "no bits"
  | b0 :: rest => pure ⟨pop, fun h => haps.getD h 0, evs, b0, rest⟩

/-- {"op":"simAll","chroms":[…],"cmEnd":[…],"gens":[[sample…]…]} → every generation of `Plan.simulateAll`, each
    one computed from the model's own previous generation (starting from nothing) -/
def hSimAll (j : Json) : R Json := do
  let chroms := (← listF nat j "chroms").toArray
  let cmEndA := (← listF int j "cmEnd").toArray
  let gens ← (← arrF j "gens").mapM (fun g => do (← arr g).mapM sampleTape)
  match simulateAll chroms.size (fun i => chroms.getD i 0) (fun i => cmEndA.getD i 0) #[] gens with
  | none => pure <| jObj [("gens", jErr "failed")]
  | some gs => pure <| jObj [("gens", jArr (gs.map (fun g => jArr (g.toList.map (fun h => jArr (h.toList.map jSeg))))))]

end Drv
