import HapModel.Drv.Basic
import HapModel.Model.GenoIO
namespace Drv
open Lean GenoIO

def gcell (j : Json) : R Cell := do
  match ← arr j with
  | [a, b, p] => pure ⟨← nat a, ← nat b, (← nat p) != 0⟩
  | _ => throw "cell"
def jGCell (c : Cell) : Json := jArr [jNat c.a, jNat c.b, jNat (if c.ph then 1 else 0)]

/-- {"op":"gtStore","fmt":"vcf"|"pgen","data":[[[a,b,ph]…]…]} → the matrix a reader must return -/
def hGtStore (j : Json) : R Json := do
  let fmt ← strF j "fmt"
  let data ← listF (listOf gcell) j "data"
  let f : Cell → Cell := if fmt = "pgen" then pgenStore else (fun c => decodeVcf (encodeVcf c))
  pure <| jObj [("data", jArr (data.map (fun r => jArr (r.map (fun c => jGCell (f c))))))]

/-- {"op":"gtRestrict","samples":[…],"variants":[[id,chrom,pos]…],"region":null|[chrom,lo|null,hi|null],
     "req_samples":null|[…],"ids":null|[…],"max":null|n} → kept row / column indices -/
def hGtRestrict (j : Json) : R Json := do
  let samples ← listF str j "samples"
  let vars ← listF (fun v => do match ← arr v with
    | [i, c, p] => pure (⟨← str i, ← str c, ← nat p⟩ : VRec) | _ => throw "vrec") j "variants"
  let region ← optF (fun r => do match ← arr r with
    | [c, lo, hi] => pure (← str c, (match lo with | .null => none | x => x.getNat?.toOption),
                           (match hi with | .null => none | x => x.getNat?.toOption))
    | _ => throw "region") j "region"
  let req ← optF (listOf str) j "req_samples"
  let ids ← optF (listOf str) j "ids"
  let mx ← optF nat j "max"
  pure <| jObj [("rows", jArr ((keptSamples samples req).map jNat)),
                ("cols", jArr ((keptVariants vars region ids mx).map jNat))]

end Drv
