import HapModel.Drv.Basic
import HapModel.Model.GenoIO
import HapModel.Model.PgenMatrix
import HapModel.Model.Subset
namespace Drv
open Lean GenoIO

def gcell (j : Json) : R Cell := do
  match ← arr j with
  | [a, b, p] => pure ⟨← nat a, ← nat b, (← nat p) != 0⟩
  | _ => throw "cell"
def jGCell (c : Cell) : Json := jArr [jNat c.a, jNat c.b, jNat (if c.ph then 1 else 0)]

/-- {"op":"gtStore","fmt":"vcf"|"pgen","data":[[[a,b,ph]…]…],"nv":n,"wchunk":null|k,"rchunk":null|k} → the matrix a reader
    must return; for PGEN the matrix goes through the chunked writer and the chunked reader of `PgenMatrix` with the chunk
    sizes the code computes from the requested ones -/
def hGtStore (j : Json) : R Json := do
  let fmt ← strF j "fmt"
  let data ← listF (listOf gcell) j "data"
  if fmt = "pgen" then
    let nv := (← optF nat j "nv").getD ((data.head?.map List.length).getD 0)
    let kw := Chunks.chunkSize (← optF nat j "wchunk") nv
    let kr := Chunks.chunkSize (← optF nat j "rchunk") nv
    if hw : 0 < kw then
      if hr : 0 < kr then
        let out := PgenMatrix.read kr hr (PgenMatrix.write kw hw data nv) data.length nv
        pure <| jObj [("data", jArr (out.map (fun r => jArr (r.map jGCell))))]
      else throw "read chunk size 0"
    else throw "write chunk size 0"
  else
    let f : Cell → Cell := fun c => decodeVcf (encodeVcf c)
    pure <| jObj [("data", jArr (data.map (fun r => jArr (r.map (fun c => jGCell (f c))))))]

/-- {"op":"gtRestrict","samples":[…],"variants":[[id,chrom,pos]…],"region":null|[chrom,lo|null,hi|null],
     "req_samples":null|[…],"ids":null|[…],"max":null|n} → kept row / column indices -/
def hGtRestrict (j : Json) : R Json := do
  let samples ← listF str j "samples"
  let vars ← listF (fun v => do match ← arr v with
    | [i, c, p] => pure (⟨← str i, ← str c, ← nat p⟩ : VRec) | _ => throw "vrec") j "variants"
  let region ← optF (fun r => do match ← arr r with
    | [c, lo, hi] => pure (← str c, (match lo with | .null => none | x => x.getNat?.toOption),
                           (match hi with | .null => none | x => x.getNat?.toOption))
    | _ => throw "region") j "region"
  let req ← optF (listOf str) j "req_samples"
  let ids ← optF (listOf str) j "ids"
  let mx ← optF nat j "max"
  let rows := keptSamples samples req
  let cols := keptVariants vars region ids mx
  -- with "data" (sample-major cells of the whole file): the matrix the PGEN reader fills for this restriction – the file is
  -- the matrix written variant by variant, read back for the kept sample rows and variant rows in chunks of the size the code
  -- computes from "chunk" (PgenMatrix.readSel)
  match ← optF (listOf (listOf gcell)) j "data" with
  | none => pure <| jObj [("rows", jArr (rows.map jNat)), ("cols", jArr (cols.map jNat))]
  | some data =>
    let file := PgenMatrix.write 1 (by decide) data vars.length
    let k := Chunks.chunkSize (← optF nat j "chunk") cols.length
    if hk : 0 < k then
      let out := PgenMatrix.readSel k hk file rows cols
      pure <| jObj [("rows", jArr (rows.map jNat)), ("cols", jArr (cols.map jNat)),
                    ("data", jArr (out.map (fun r => jArr (r.map jGCell))))]
    else throw "chunk size 0"

def jContents (c : Subset.Contents) : Json :=
  jObj [("samples", jArr (c.samples.map jStr)), ("variants", jArr (c.variants.map jStr)),
        ("data", jArr (c.data.map (fun r => jArr (r.map jNat))))]

def subsetOp (j : Json) : R Subset.Op := do
  let k ← strF j "k"
  if k = "index" then pure (.index (← boolF j "s") (← boolF j "v"))
  else pure (.subset (← optF (listOf str) j "rs") (← optF (listOf str) j "cs") (← boolF j "inplace"))

/-- {"op":"subsetRun","samples":[…],"variants":[ids…],"data":[[cell…]…],"ops":[{"k":"index","s","v"}|{"k":"subset","rs","cs","inplace"}]}
    → per op the contents of the returned / altered object (null for index) and the final contents of the object -/
def hSubsetRun (j : Json) : R Json := do
  let c : Subset.Contents := ⟨← listF str j "samples", ← listF str j "variants", ← listF (listOf nat) j "data"⟩
  let ops ← listF subsetOp j "ops"
  let r := Subset.run (Subset.fresh c) ops
  pure <| jObj [("outs", jArr (r.2.map (fun o => match o with | none => Json.null | some x => jContents x))),
                ("final", jContents r.1.toContents)]

end Drv
