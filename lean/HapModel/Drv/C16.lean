import HapModel.Drv.Basic
import HapModel.Model.LdPlan
namespace Drv
open Lean LdPlan

/-- {"op":"ldPlan","mode":"hap"|"gts_hap"|"gts_var","haps":[…],"fileVars":[…],"target":s,"ids":null|[…]} -/
def hLdPlan (j : Json) : R Json := do
  let mode ← strF j "mode"
  let haps ← listF str j "haps"
  let fv ← listF str j "fileVars"
  let target ← strF j "target"
  let ids ← optF (listOf str) j "ids"
  let r := match mode with
    | "hap" => listHapMode haps target ids
    | "gts_hap" => listGtsHapTarget fv ids
    | _ => listGtsVarTarget fv target ids
  pure <| jObj [("listed", jArr (r.map jStr))]

end Drv
