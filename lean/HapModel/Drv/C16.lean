import HapModel.Drv.Basic
import HapModel.Model.LdPlan
import HapModel.Model.LdStat
namespace Drv
open Lean LdPlan

/-- {"op":"ldPlan","mode":"hap"|"gts_hap"|"gts_var","haps":[…],"fileVars":[…],"target":s,"ids":null|[…]} -/
def hLdPlan (j : Json) : R Json := do
  let mode ← strF j "mode"
  let haps ← listF str j "haps"
  let fv ← listF str j "fileVars"
  let target ← strF j "target"
  let ids ← optF (listOf str) j "ids"
  let r := match mode with
    | "hap" => listHapMode haps target ids
    | "gts_hap" => listGtsHapTarget fv ids
    | _ => listGtsVarTarget fv target ids
  pure <| jObj [("listed", jArr (r.map jStr))]

def jStat (tol K : Int) : Option LdStat.Stat → Json
  | none => Json.null
  | some s => jObj [("num", jInt s.num), ("da", jInt s.da), ("db", jInt s.db),
      ("accepted", jArr ((LdStat.accepted tol K s).map jInt))]

/-- {"op":"calcLd","variants":[{"id":s,"alleles":[…]}…],"data":[[[a,b]…]…] (sample-major),"keep":[sample index…],
     "haps":[{"id":s,"vars":[[id,allele]…]}…],"mode":"hap"|"gts_hap"|"gts_var","target":s,"tgtHap":bool,
     "ids":null|[…],"tol":t,"K":k}
    → the listed names (`LdPlan`) and, per row, the integer statistic of the target against it (`LdStat.rows`) with the
      thousandths that may be printed for it -/
def hCalcLd (j : Json) : R Json := do
  let vars ← (← arrF j "variants").mapM (fun v => do pure (← strF v "id", ← listF str v "alleles"))
  let data := (← listF (listOf (fun c => do match ← arr c with
    | [a, b] => pure (← nat a, ← nat b) | _ => throw "cell")) j "data")
  let keep ← listF nat j "keep"
  let colOf : String → Nat := fun id => (vars.map (·.1)).idxOf id
  let g : Transform.Geno := {
    alleleIdx := fun key => match vars.lookup key.1 with
      | some al => al.idxOf key.2
      | none => 0,
    cell := fun s id k => match (data.getD s []).getD (colOf id) (0, 0) with
      | (a, b) => if k = 0 then a else b }
  let haps ← (← arrF j "haps").mapM (fun h => do
    let vs ← listF (fun p => do match ← arr p with
      | [a, b] => pure ((← str a, ← str b) : Transform.Key) | _ => throw "key") h "vars"
    pure (⟨← strF h "id", vs⟩ : Transform.Hap))
  let mode ← strF j "mode"
  let target ← strF j "target"
  let tgtHap ← boolF j "tgtHap"
  let ids ← optF (listOf str) j "ids"
  let tol ← intF j "tol"
  let K ← intF j "K"
  let fv := vars.map (·.1)
  let names := match mode with
    | "hap" => listHapMode (haps.map (fun (h : Transform.Hap) => h.id)) target ids
    | "gts_hap" => listGtsHapTarget fv ids
    | _ => listGtsVarTarget fv target ids
  let hapOf : String → R LdStat.Name := fun n => match haps.find? (fun (h : Transform.Hap) => h.id == n) with
    | some h => pure (.hap h)
    | none => throw s!"no haplotype {n}"
  let tgt ← (if tgtHap then hapOf target else pure (.var target))
  let listed ← names.mapM (fun n => do
    let x ← (if mode == "hap" then hapOf n else pure (LdStat.Name.var n))
    pure (n, x))
  let rows := LdStat.rows g keep tgt listed
  pure <| jObj [("listed", jArr (names.map jStr)),
    ("rows", jArr (rows.map (fun (n, s) => jArr [jStr n, jStat tol K s])))]

/-- {"op":"ldStat","a":[…],"b":[…],"tol":t,"K":k} → the integer statistic of two dosage vectors -/
def hLdStat (j : Json) : R Json := do
  let a ← listF int j "a"
  let b ← listF int j "b"
  let tol ← intF j "tol"
  let K ← intF j "K"
  pure <| jObj [("stat", jStat tol K (LdStat.stat a b)), ("rev", jStat tol K (LdStat.stat b a)),
    ("self", jStat tol K (LdStat.stat a a))]

end Drv
