import HapModel.Drv.Basic
import HapModel.Model.OutputVcf
namespace Drv
open Lean OutputVcf

/-- {"op":"outputVcf","chroms":[c…],"vars":[[chrom,pos]…],
     "haps":[[{"chrom":c,"ends":[…],"srcs":[[sample,strand,pop]…]}…]…]}
    → for every simulated haplotype the source (sample, strand, pop) written in every output column.
    The reference genotype function is the identity on sources (`ref s col k = 2s+k`): the harness uses panels in
    which reference haplotype (s,k) carries allele 2s+k at every variant. -/
def hOutputVcf (j : Json) : R Json := do
  let chroms ← listF nat j "chroms"
  let vars ← listF (fun v => do match ← arr v with
    | [c, p] => pure (⟨← nat c, ← nat p⟩ : RVar) | _ => throw "var") j "vars"
  let haps ← (← arrF j "haps").mapM (fun h => do
    (← arr h).mapM (fun cb => do
      let c ← natF cb "chrom"
      let ends ← listF nat cb "ends"
      let srcs ← listF (fun s => do match ← arr s with
        | [a, b, p] => pure (⟨← nat a, ← nat b, ← nat p⟩ : Src) | _ => throw "src") cb "srcs"
      pure (c, (⟨ends, srcs⟩ : ChromBlocks))))
  let ref : Nat → Nat → Nat → Nat := fun s _ k => 2 * s + k
  let outs := haps.map (fun (h : List (Nat × ChromBlocks)) =>
    let blocks : Nat → ChromBlocks := fun c => (h.lookup c).getD ⟨[], []⟩
    hapOut ref vars blocks chroms 0)
  pure <| jObj [("haps", jArr (outs.map (fun o => jArr (o.map (fun (g, s) =>
    jArr [jNat g, jNat s.sample, jNat s.strand, jNat s.pop])))))]

end Drv
