import HapModel.Drv.Basic
import HapModel.Model.OutputVcf
import HapModel.Drv.C01
import HapModel.Model.Convert
namespace Drv
open Lean OutputVcf

/-- {"op":"outputVcf","chroms":[c…],"vars":[[chrom,pos]…],
     "haps":[[{"chrom":c,"ends":[…],"srcs":[[sample,strand,pop]…]}…]…]}
    → for every simulated haplotype the source (sample, strand, pop) written in every output column.
    The reference genotype function is the identity on sources (`ref s col k = 2s+k`): the harness uses panels in
    which reference haplotype (s,k) carries allele 2s+k at every variant. -/
def hOutputVcf (j : Json) : R Json := do
  let chroms ← listF nat j "chroms"
  let vars ← listF (fun v => do match ← arr v with
    | [c, p] => pure (⟨← nat c, ← nat p⟩ : RVar) | _ => throw "var") j "vars"
  let haps ← (← arrF j "haps").mapM (fun h => do
    (← arr h).mapM (fun cb => do
      let c ← natF cb "chrom"
      let ends ← listF nat cb "ends"
      let srcs ← listF (fun s => do match ← arr s with
        | [a, b, p] => pure (⟨← nat a, ← nat b, ← nat p⟩ : Src) | _ => throw "src") cb "srcs"
      pure (c, (⟨ends, srcs⟩ : ChromBlocks))))
  let ref : Nat → Nat → Nat → Nat := fun s _ k => 2 * s + k
  let outs := haps.map (fun (h : List (Nat × ChromBlocks)) =>
    let blocks : Nat → ChromBlocks := fun c => (h.lookup c).getD ⟨[], []⟩
    hapOut ref vars blocks chroms 0)
  pure <| jObj [("haps", jArr (outs.map (fun o => jArr (o.map (fun (g, s) =>
    jArr [jNat g, jNat s.sample, jNat s.strand, jNat s.pop])))))]

/-- {"op":"convertHap","hap":[[pop,chrom,end,cm]…],"chrom":c,"popSamples":[[sample idx…] for label 0,1,2…],
     "choices":[…],"strands":[…]} → the blocks `_convert_haplotype` returns: ends and per block [sample, strand, pop] -/
def hConvertHap (j : Json) : R Json := do
  let hap := (← listF seg j "hap").toArray
  let c ← natF j "chrom"
  let ps := (← listF (listOf nat) j "popSamples").toArray
  let choices ← listF nat j "choices"
  let strands ← listF nat j "strands"
  let b := Convert.convert hap c (fun p => ps.getD p []) choices strands
  pure <| jObj [("ends", jArr (b.ends.map jNat)),
                ("srcs", jArr (b.srcs.map (fun s => jArr [jNat s.sample, jNat s.strand, jNat s.pop]))),
                ("requests", jArr ((Convert.requests hap c).map (fun r => jArr [jNat r.1, jNat r.2])))]

end Drv
