import HapModel.Drv.Basic
import HapModel.Model.Transform
namespace Drv
open Lean Transform

/-- {"op":"transform","nsamples":n,"variants":[{"id":s,"alleles":[…]}…],
     "data":[[ [a,b]…]…] (sample-major), "anc":null|[[[x,y]…]…] (label codes),
     "haps":[{"id":s,"code":null|n|-1,"vars":[[id,allele]…]}…]}  (code -1 = label absent from the data)
    → per haplotype, per sample, per strand: single / setwise answers (with ancestry when given) -/
def hTransform (j : Json) : R Json := do
  let n ← natF j "nsamples"
  let vars ← (← arrF j "variants").mapM (fun v => do pure (← strF v "id", ← listF str v "alleles"))
  let data := (← listF (listOf (fun c => do match ← arr c with
    | [a, b] => pure (← nat a, ← nat b) | _ => throw "cell")) j "data")
  let anc ← optF (listOf (listOf (fun c => do match ← arr c with
    | [a, b] => pure (← nat a, ← nat b) | _ => throw "cell"))) j "anc"
  let colOf : String → Nat := fun id => (vars.map (·.1)).idxOf id
  let g : Geno := {
    alleleIdx := fun key => match vars.lookup key.1 with
      | some al => al.idxOf key.2
      | none => 0,
    cell := fun s id k => match (data.getD s []).getD (colOf id) (0, 0) with
      | (a, b) => if k = 0 then a else b }
  let ancF : Nat → String → Nat → Nat := fun s id k => match anc with
    | none => 0
    | some a => match (a.getD s []).getD (colOf id) (0, 0) with
      | (x, y) => if k = 0 then x else y
  let haps ← (← arrF j "haps").mapM (fun h => do
    let vs ← listF (fun p => do match ← arr p with
      | [a, b] => pure ((← str a, ← str b) : Key) | _ => throw "key") h "vars"
    let code : Option (Option Nat) ← (match h.getObjVal? "code" with
      | .ok .null => pure none
      | .ok c => do
        let i ← int c
        pure (some (if i < 0 then none else some i.toNat))
      | .error _ => pure none)
    pure ((⟨← strF h "id", vs⟩ : Hap), code))
  let hl := haps.map (·.1)
  let out := haps.map (fun (h, code) =>
    let per := fun (f : Nat → Nat → Bool) => jArr ((List.range n).map (fun s => jArr [jBool (f s 0), jBool (f s 1)]))
    match code with
    | none => jObj [("single", per (single g h)), ("set", per (setwise g hl h))]
    | some c => jObj [("single", per (singleA ⟨g, ancF⟩ c h)), ("set", per (setwiseA ⟨g, ancF⟩ c hl h))])
  pure <| jObj [("haps", jArr out)]

end Drv
