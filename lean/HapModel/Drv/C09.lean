import HapModel.Drv.Basic
import HapModel.Model.PhenoSim
namespace Drv
open Lean PhenoSim

def ratP (j : Json) : R Rat := do
  match ← arr j with
  | [a, b] => pure (mkRat (← int a) (← nat b))
  | _ => throw "rat expected"
def jRat (q : Rat) : Json := jArr [jInt q.num, jNat q.den]

/-- {"op":"noiseVar","sumB2":[n,d],"h2":null|[n,d],"env":null|[n,d],"varG":[n,d],"K":null|[n,d],"n":n} -/
def hNoiseVar (j : Json) : R Json := do
  let s ← ratP (← fld j "sumB2")
  let h2 ← optF ratP j "h2"
  let env ← optF ratP j "env"
  let vg ← ratP (← fld j "varG")
  let k ← optF ratP j "K"
  let n ← natF j "n"
  pure <| jObj [("noise", jRat (noiseVar s h2 env vg)), ("cases", jOpt (fun q => jNat (caseCount q n)) k)]

end Drv
