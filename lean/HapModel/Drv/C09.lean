import HapModel.Drv.Basic
import HapModel.Model.PhenoSim
namespace Drv
open Lean PhenoSim

def ratP (j : Json) : R Rat := do
  match ← arr j with
  | [a, b] => pure (mkRat (← int a) (← nat b))
  | _ => throw "rat expected"
def jRat (q : Rat) : Json := jArr [jInt q.num, jNat q.den]

/-- {"op":"noiseVar","sumB2":[n,d],"h2":null|[n,d],"env":null|[n,d],"varG":[n,d],"K":null|[n,d],"n":n} -/
def hNoiseVar (j : Json) : R Json := do
  let s ← ratP (← fld j "sumB2")
  let h2 ← optF ratP j "h2"
  let env ← optF ratP j "env"
  let vg ← ratP (← fld j "varG")
  let k ← optF ratP j "K"
  let n ← natF j "n"
  pure <| jObj [("noise", jRat (noiseVar s h2 env vg)), ("cases", jOpt (fun q => jNat (caseCount q n)) k)]

/-- {"op":"geneticRaw","cols":[[id,[dosage…]]…],"effects":[[id,[n,d]]…],"n":samples} → the genetic component per sample -/
def hGeneticRaw (j : Json) : R Json := do
  let cols ← listF (fun c => do match ← arr c with
    | [i, d] => pure ((← str i, ← listOf int d) : String × List Int) | _ => throw "col") j "cols"
  let effects ← listF (fun c => do match ← arr c with
    | [i, b] => pure ((← str i, ← ratP b) : String × Rat) | _ => throw "effect") j "effects"
  let n ← natF j "n"
  pure <| jObj [("genetic", jArr ((List.range n).map (fun i => jRat (genetic cols effects i)))),
    ("used", jArr ((aligned cols effects).map (fun e => jStr e.1)))]

end Drv
