import HapModel.Drv.Basic
import HapModel.Model.Clump
import HapModel.Model.Overlap
import HapModel.Model.LdStat
namespace Drv
open Lean NextIndex Clump

/-- {"op":"clump","one":n,"p1":n,"p2":n,"win":n,"vars":[{"p":n,"chrom":s,"pos":i}…],"ld":[[bool…]…]}
    `ld[i][j]` = decision r²(index i, candidate j) > threshold.  Output: [[index uid, [member uids]]…] -/
def hClump (j : Json) : R Json := do
  let one ← natF j "one"; let p1 ← natF j "p1"; let p2 ← natF j "p2"; let win ← natF j "win"
  let vs ← (← arrF j "vars").mapM (fun v => do pure (← natF v "p", ← strF v "chrom", ← intF v "pos"))
  let vars : List V := vs.zipIdx.map (fun (x, i) => ⟨i, x.1, x.2.1, x.2.2⟩)
  let ld := ((← arrF j "ld").mapM (fun r => do pure (← listOf bool r).toArray))
  let ld := (← ld).toArray
  let inLD : V → V → Bool := fun a b => (ld.getD a.uid #[]).getD b.uid false
  let r := clump one p1 p2 win inLD vars
  pure <| jObj [("clumps", jArr (r.map (fun c => jArr [jNat c.index.uid, jArr (c.members.map (fun m => jNat m.uid))])))]

/-- {"op":"overlap","snp":[[key,row]…],"str":[[key,row]…]} (both sorted by key) → [[snp row, str row]…] -/
def hOverlap (j : Json) : R Json := do
  let pr := fun (x : Json) => do match ← arr x with
    | [a, b] => pure ((← nat a, ← nat b) : Nat × Nat) | _ => throw "pair"
  let a ← listF pr j "snp"
  let b ← listF pr j "str"
  pure <| jObj [("pairs", jArr ((Overlap.walk a b).map (fun p => jArr [jNat p.1, jNat p.2])))]

/-- {"op":"clumpLd","cand":[[a,b]…],"index":[[a,b]…]} (allele indices per sample; 254/255 = missing)
    → {"kind":"empty"|"undefined"|"r2","num2":n,"den":d} : `ComputeLD` in Pearson mode, exactly -/
def hClumpLd (j : Json) : R Json := do
  let pr := fun (x : Json) => do match ← arr x with
    | [a, b] => pure ((← nat a, ← nat b) : Nat × Nat) | _ => throw "call"
  let c ← listF pr j "cand"
  let i ← listF pr j "index"
  pure <| match LdStat.clumpLd c i with
    | .empty => jObj [("kind", jStr "empty")]
    | .undefined => jObj [("kind", jStr "undefined")]
    | .r2 n d => jObj [("kind", jStr "r2"), ("num2", jInt n), ("den", jInt d)]

end Drv
