import HapModel.Drv.Basic
import HapModel.Model.Breakpoints
import HapModel.Model.BpFile
namespace Drv
open Lean

def bblk (j : Json) : R Breakpoints.Blk := do
  match ← arr j with
  | [p, c, b, m] => pure ⟨← str p, ← str c, ← nat b, ← str m⟩
  | _ => throw "blk expected"
def bsample (j : Json) : R Breakpoints.Sample := do
  pure (← strF j "name", ← listF bblk j "s1", ← listF bblk j "s2")
def berr : Breakpoints.Err → String
  | .value_error => "value_error" | .key_error => "key_error"

/-- {"op":"bpQuery","table":[{"name","s1":[[pop,chrom,bp,cm]…],"s2":[…]}…],"vars":[[chrom,pos]…],"samples":null|[…]} -/
def hBpQuery (j : Json) : R Json := do
  let t ← listF bsample j "table"
  let vars ← listF (fun v => do match ← arr v with
    | [c, p] => pure (← str c, ← nat p) | _ => throw "var expected") j "vars"
  let samples ← optF (listOf str) j "samples"
  match Breakpoints.populationArray t vars samples with
  | .error e => pure (jErr (berr e))
  | .ok a => pure <| jObj [("arr", jArr (a.map (fun r => jArr (r.map (fun p => jArr [jStr p.1, jStr p.2])))))]

/-- {"op":"bpEncode","table":[…],"labels":null|[…]} → labels dict, codes, decoded labels -/
def hBpEncode (j : Json) : R Json := do
  let t ← listF bsample j "table"
  let labelsArg := (← optF (listOf str) j "labels").getD []
  let tbl := Breakpoints.codeTable labelsArg t
  let enc := fun (s : Breakpoints.Strand) => Breakpoints.encodeStrand tbl s
  let dec := fun (s : Breakpoints.Strand) => Breakpoints.recodeStrand tbl (enc s)
  pure <| jObj [
    ("labels", jArr ((Breakpoints.labelsAfter labelsArg t).map (fun p => jArr [jStr p.1, jNat p.2]))),
    ("codes", jArr (t.map (fun s => jArr [jArr ((enc s.2.1).map jNat), jArr ((enc s.2.2).map jNat)]))),
    ("decoded", jArr (t.map (fun s => jArr [jArr ((dec s.2.1).map (jOpt jStr)), jArr ((dec s.2.2).map (jOpt jStr))])))]

def jBBlock (b : BpFile.Block) : Json := jArr [jStr b.1, jStr b.2.1, jStr b.2.2.1, jStr b.2.2.2]

/-- {"op":"bpParse","lines":[[fields…]…]} (1 field = header, 4 = block; others are dropped by the harness) -/
def hBpParse (j : Json) : R Json := do
  let ls ← listF (listOf str) j "lines"
  let bl : List BpFile.BLine := ls.filterMap (fun l => match l with
    | [h] => some (.header h.toList)
    | [a, b, c, d] => some (.block (a, b, c, d))
    | _ => none)
  let r := BpFile.parse bl
  pure <| jObj [("samples", jArr (r.map (fun s => jObj [("name", jStr (String.ofList s.1)),
    ("s1", jArr (s.2.1.map jBBlock)), ("s2", jArr (s.2.2.map jBBlock))])))]

/-- {"op":"bpRender","samples":[{"name","s1":[[4 tokens]…],"s2":[…]}…]} → lines -/
def hBpRender (j : Json) : R Json := do
  let ss ← (← arrF j "samples").mapM (fun s => do
    let tok := fun (b : Json) => do match ← arr b with
      | [a, b, c, d] => pure ((← str a, ← str b, ← str c, ← str d) : BpFile.Block)
      | _ => throw "block expected"
    pure ((← strF s "name").toList, ← listF tok s "s1", ← listF tok s "s2"))
  let ls := BpFile.render ss
  pure <| jObj [("lines", jArr (ls.map (fun l => match l with
    | .header t => jArr [jStr (String.ofList t)]
    | .block b => jBBlock b)))]

end Drv
