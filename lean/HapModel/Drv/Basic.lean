import Lean.Data.Json
/-! JSON helpers for the line-protocol driver (no Mathlib). -/
namespace Drv
open Lean

abbrev R := Except String

def fld (j : Json) (k : String) : R Json := j.getObjVal? k
def nat (j : Json) : R Nat := j.getNat?
def int (j : Json) : R Int := j.getInt?
def str (j : Json) : R String := j.getStr?
def bool (j : Json) : R Bool := j.getBool?
def arr (j : Json) : R (List Json) := do let a ← j.getArr?; pure a.toList
def natF (j : Json) (k : String) : R Nat := do nat (← fld j k)
def intF (j : Json) (k : String) : R Int := do int (← fld j k)
def strF (j : Json) (k : String) : R String := do str (← fld j k)
def boolF (j : Json) (k : String) : R Bool := do bool (← fld j k)
def arrF (j : Json) (k : String) : R (List Json) := do arr (← fld j k)
def listOf {α} (f : Json → R α) (j : Json) : R (List α) := do (← arr j).mapM f
def listF {α} (f : Json → R α) (j : Json) (k : String) : R (List α) := do listOf f (← fld j k)
def optF {α} (f : Json → R α) (j : Json) (k : String) : R (Option α) :=
  match j.getObjVal? k with
  | .ok .null => pure none
  | .ok v => do pure (some (← f v))
  | .error _ => pure none

def triple (j : Json) : R (Nat × Nat × Nat) := do
  match ← arr j with
  | [a, b, c] => pure (← nat a, ← nat b, ← nat c)
  | _ => throw "triple expected"

def jNat (n : Nat) : Json := Json.num (JsonNumber.fromNat n)
def jInt (n : Int) : Json := Json.num (JsonNumber.fromInt n)
def jStr (s : String) : Json := Json.str s
def jBool (b : Bool) : Json := Json.bool b
def jArr (l : List Json) : Json := Json.arr l.toArray
def jObj (l : List (String × Json)) : Json := Json.mkObj l
def jTriple (t : Nat × Nat × Nat) : Json := jArr [jNat t.1, jNat t.2.1, jNat t.2.2]
def jOpt {α} (f : α → Json) : Option α → Json
  | none => Json.null
  | some a => f a
def jErr (e : String) : Json := jObj [("error", jStr e)]

end Drv
