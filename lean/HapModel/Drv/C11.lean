import HapModel.Drv.Basic
import HapModel.Model.Tabix
import HapModel.Model.HapSort
namespace Drv
open Lean Tabix

/-- {"op":"hapQuery","recs":[[chrom,start,stop,id]…],"queries":[{"c":n|null,"lo":n|null,"hi":n|null,"ids":null|[…]}…]}
    → per query the ids returned, in file order -/
def hHapQuery (j : Json) : R Json := do
  let recs ← listF (fun r => do match ← arr r with
    | [c, s, e, i] => pure (⟨← nat c, ← nat s, ← nat e, ← nat i⟩ : HRec) | _ => throw "rec") j "recs"
  let outs ← (← arrF j "queries").mapM (fun q => do
    let c ← optF nat q "c"
    let lo ← optF nat q "lo"; let hi ← optF nat q "hi"
    let ids ← optF (listOf nat) q "ids"
    let r := match c with
      | some c => iterRegionG c lo hi ids recs
      | none => iterIds (ids.getD []) recs
    pure (jArr (r.map (fun x => jNat x.id))))
  pure <| jObj [("results", jArr outs)]

/-- {"op":"hapSort","recs":[[chrom rank,start,stop,id rank]…]} → the ids in the order `Haplotypes.sort()` gives -/
def hHapSort (j : Json) : R Json := do
  let recs ← listF (fun r => do match ← arr r with
    | [c, s, e, i] => pure (⟨← nat c, ← nat s, ← nat e, ← nat i⟩ : HRec) | _ => throw "rec") j "recs"
  pure <| jObj [("order", jArr ((sortH recs).map (fun x => jNat x.id)))]

end Drv
