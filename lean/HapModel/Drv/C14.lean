import HapModel.Drv.Basic
import HapModel.Model.NoRepl
namespace Drv
open Lean NoRepl

/-- {"op":"findCoord","used":[[c,s,e]…],"req":[c,s,e]} -/
def hFindCoord (j : Json) : R Json := do
  let used ← listF triple j "used"
  let req ← triple (← fld j "req")
  let r := findCoord used req
  pure <| jObj [("found", jBool r.1), ("used", jArr (r.2.map jTriple))]

/-- {"op":"noReplRun","nhaps":n,"reqs":[{"order":[…],"req":[c,s,e]}…]} -/
def hNoReplRun (j : Json) : R Json := do
  let n ← natF j "nhaps"
  let reqs ← (← arrF j "reqs").mapM (fun r => do
    let o ← listF nat r "order"
    let q ← triple (← fld r "req")
    pure (o, q))
  let r := runRequests reqs (List.replicate n [])
  pure <| jObj [("grants", jArr (r.1.map jNat)), ("used", jArr (r.2.1.map (fun l => jArr (l.map jTriple)))),
                ("completed", jBool r.2.2)]

end Drv
