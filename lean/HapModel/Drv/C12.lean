import HapModel.Drv.Basic
import HapModel.Model.ObjMachine
namespace Drv
open Lean Cache

def jObjState (o : Obj) : Json := jObj [
  ("rows", jArr (o.rows.ids.map jStr)), ("cols", jArr (o.cols.ids.map jStr)),
  ("data", jArr (o.data.map (fun r => jArr (r.map jNat))))]

def optList (j : Json) (k : String) : R (Option (List String)) := optF (listOf str) j k

def oop (j : Json) : R OOp := do
  match ← strF j "k" with
  | "read" => pure (.read (← listF str j "rows") (← listF str j "cols") (← listF (listOf nat) j "data"))
  | "index" => pure (.index (← boolF j "r") (← boolF j "c"))
  | "subset" => pure (.subset (← optList j "rs") (← optList j "cs") (← boolF j "inplace"))
  | "dropRows" => pure (.dropRows (← listF nat j "idx"))
  | "dropCols" => pure (.dropCols (← listF nat j "idx"))
  | "append" => pure (.append (← strF j "name") (← listF nat j "col"))
  | k => throw s!"bad op {k}"

/-- {"op":"objRun","ops":[…]} starting from the empty object → per-op visible contents (+ returned copy) -/
def hObjRun (j : Json) : R Json := do
  let ops ← (← arrF j "ops").mapM oop
  let rec go (o : Obj) (ops : List OOp) (acc : List Json) : List Json :=
    match ops with
    | [] => acc.reverse
    | op :: rest =>
      let r := ostep o op
      go r.1 rest (jObj ([("state", jObjState r.1)] ++ (match r.2 with
        | some c => [("returned", jObjState c)] | none => [])) :: acc)
  pure <| jObj [("trace", jArr (go ⟨⟨[], none⟩, ⟨[], none⟩, []⟩ ops []))]

end Drv
