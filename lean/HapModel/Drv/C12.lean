import HapModel.Drv.Basic
import HapModel.Model.ObjMachine
import HapModel.Model.HapObj
namespace Drv
open Lean Cache

def jObjState (o : Obj) : Json := jObj [
  ("rows", jArr (o.rows.ids.map jStr)), ("cols", jArr (o.cols.ids.map jStr)),
  ("data", jArr (o.data.map (fun r => jArr (r.map jNat))))]

def optList (j : Json) (k : String) : R (Option (List String)) := optF (listOf str) j k

def oop (j : Json) : R OOp := do
  match ← strF j "k" with
  | "read" => pure (.read (← listF str j "rows") (← listF str j "cols") (← listF (listOf nat) j "data"))
  | "index" => pure (.index (← boolF j "r") (← boolF j "c"))
  | "subset" => pure (.subset (← optList j "rs") (← optList j "cs") (← boolF j "inplace"))
  | "dropRows" => pure (.dropRows (← listF nat j "idx"))
  | "dropCols" => pure (.dropCols (← listF nat j "idx"))
  | "append" => pure (.append (← strF j "name") (← listF nat j "col"))
  | k => throw s!"bad op {k}"

/-- {"op":"objRun","ops":[…]} starting from the empty object → per-op visible contents (+ returned copy) -/
def hObjRun (j : Json) : R Json := do
  let ops ← (← arrF j "ops").mapM oop
  let rec go (o : Obj) (ops : List OOp) (acc : List Json) : List Json :=
    match ops with
    | [] => acc.reverse
    | op :: rest =>
      let r := ostep o op
      go r.1 rest (jObj ([("state", jObjState r.1)] ++ (match r.2 with
        | some c => [("returned", jObjState c)] | none => [])) :: acc)
  pure <| jObj [("trace", jArr (go ⟨⟨[], none⟩, ⟨[], none⟩, []⟩ ops []))]

def hrec (j : Json) : R HapObj.Rec := do
  match ← arr j with
  | [i, h, k] => pure ⟨← str i, ← bool h, ← nat k⟩
  | _ => throw "rec expected"

def hapOp (file : List HapObj.Rec) (j : Json) : R HapObj.Op := do
  let k ← strF j "k"
  if k = "read" then pure (.read file (← optF (listOf str) j "ids"))
  else if k = "subset" then pure (.subset (← listF str j "ids") (← boolF j "inplace"))
  else if k = "sort" then pure .sort
  else if k = "index" then pure (.index (← boolF j "force"))
  else if k = "merge" then pure .mergeEmpty
  else if k = "query" then pure .query
  else throw s!"unknown op {k}"

/-- {"op":"hapObjRun","file":[[id,isH,key]…],"ops":[…]} → per op {ids, returned: null|[ids, query ids], query: null|[ids]} -/
def hHapObjRun (j : Json) : R Json := do
  let file ← listF hrec j "file"
  let ops ← (← arrF j "ops").mapM (hapOp file)
  let r := HapObj.run HapObj.fresh ops
  pure <| jObj [("trace", jArr (r.2.map (fun o => jObj [
    ("ids", jArr (o.ids.map jStr)),
    ("returned", match o.returned with
      | none => Json.null
      | some (a, b) => jArr [jArr (a.map jStr), jArr (b.map jStr)]),
    ("query", match o.query with | none => Json.null | some q => jArr (q.map jStr))])))]

end Drv
