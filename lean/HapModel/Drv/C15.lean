import HapModel.Drv.Basic
import HapModel.Model.PhenoFile
import HapModel.Model.NumTok
import HapModel.Model.FloatText
namespace Drv
open Lean PhenoFile

/-- {"op":"phenoParse","lines":[[fields]…]} → {"names":[…],"rows":[[sample,[tokens]]…]} | null;
    {"op":"uniqNames","names":[…]} -/
def hPhenoParse (j : Json) : R Json := do
  let lines ← listF (listOf str) j "lines"
  let parse : String → Option String := fun s => if NumTok.numeric s then some s.trimAscii.toString else none
  match parseT parse lines with
  | none => pure <| jObj [("table", Json.null)]
  | some t => pure <| jObj [("table", jObj [("names", jArr (t.names.map jStr)),
      ("rows", jArr (t.rows.map (fun r => jArr [jStr r.1, jArr (r.2.map jStr)])))])]

def hUniqNames (j : Json) : R Json := do
  pure <| jObj [("names", jArr ((Pheno.uniqNames (← listF str j "names")).map jStr))]

/-- {"op":"floatTok","pairs":[[bits (decimal string), token]…]} → {"verdicts":["reads"|"special"|"wrong"…]}:
    does the written token stand for the value with these bits for every correctly rounding reader? -/
def hFloatTok (j : Json) : R Json := do
  let pairs ← listF (listOf str) j "pairs"
  let vs ← pairs.mapM (fun p => match p with
    | [b, t] => match b.toNat? with
        | some bits => pure (match FloatText.checkTok bits t with
            | .reads => "reads" | .special => "special" | .wrong => "wrong")
        | none => throw "floatTok: bits must be a decimal natural"
    | _ => throw "floatTok: [bits, token] expected")
  pure <| jObj [("verdicts", jArr (vs.map jStr))]

/-- {"op":"floatRead","tokens":[…]} → {"values":["<bits>"|"inf"|"-inf"|"nan"|"not-a-number"|"uncertified"…]}: what a correctly
    rounding reader returns for each token (computed, then certified by `RoundsTo`; FloatText.readTok) -/
def hFloatRead (j : Json) : R Json := do
  let toks ← listF str j "tokens"
  let vs := toks.map (fun t => match FloatText.readTok t with
    | .bits b => toString b
    | .inf false => "inf" | .inf true => "-inf" | .nan => "nan"
    | .notANumber => "not-a-number" | .uncertified => "uncertified")
  pure <| jObj [("values", jArr (vs.map jStr))]

end Drv
