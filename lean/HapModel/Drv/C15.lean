import HapModel.Drv.Basic
import HapModel.Model.PhenoFile
import HapModel.Model.NumTok
namespace Drv
open Lean PhenoFile

/-- {"op":"phenoParse","lines":[[fields]…]} → {"names":[…],"rows":[[sample,[tokens]]…]} | null;
    {"op":"uniqNames","names":[…]} -/
def hPhenoParse (j : Json) : R Json := do
  let lines ← listF (listOf str) j "lines"
  let parse : String → Option String := fun s => if NumTok.numeric s then some s.trimAscii.toString else none
  match parseT parse lines with
  | none => pure <| jObj [("table", Json.null)]
  | some t => pure <| jObj [("table", jObj [("names", jArr (t.names.map jStr)),
      ("rows", jArr (t.rows.map (fun r => jArr [jStr r.1, jArr (r.2.map jStr)])))])]

def hUniqNames (j : Json) : R Json := do
  pure <| jObj [("names", jArr ((Pheno.uniqNames (← listF str j "names")).map jStr))]

end Drv
