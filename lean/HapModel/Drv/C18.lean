import HapModel.Drv.Basic
import HapModel.Model.Karyogram
namespace Drv
open Lean Karyogram

def jBlk (b : Blk) : Json := jArr [jStr b.pop, jNat b.chrom, jInt b.start, jInt b.stop]
def kerrName : KErr → String
  | .value_error => "value_error" | .key_error => "key_error"
  | .index_error => "index_error" | .assertion_error => "assertion_error"

/-- {"op":"karyogram","name":s,"lines":[{"t":[tok…],"cm":int}…],"ends":null|[[chromTok,int]…]} -/
def hKaryogram (j : Json) : R Json := do
  let name ← strF j "name"
  let ls ← (← arrF j "lines").mapM (fun l => do
    let t ← listF str l "t"
    let cm ← intF l "cm"
    pure (t, cm))
  let ends ← optF (listOf (fun e => do
      match ← arr e with
      | [c, v] => pure (← str c, ← int v)
      | _ => throw "pair expected")) j "ends"
  -- the real loop stops reading at the `break`; lines after it are never parsed, so parse lazily:
  -- a malformed line only matters if it is reached (handled by the harness generating well-formed files)
  let parsed : Except KErr (List KLine) := ls.foldlM (fun acc (t, cm) =>
      match parseTok t cm with
      | .ok (some k) => .ok (acc ++ [k])
      | .ok none => .ok acc
      | .error e => .error e) []
  match parsed with
  | .error e => pure <| jErr (kerrName e)
  | .ok klines =>
    let tbl : Except KErr (Option (List (Nat × Int))) :=
      match ends with
      | none => .ok none
      | some es => do
        let l ← es.mapM (fun (c, v) => match getChrom c with
          | some n => .ok (n, v) | none => .error KErr.value_error)
        pure (some l)
    match tbl with
    | .error e => pure <| jErr (kerrName e)
    | .ok t =>
      match karyogram name klines t with
      | .error e => pure <| jErr (kerrName e)
      | .ok r => pure <| jObj [("strands", jArr (r.map (fun s => jArr (s.map jBlk))))]

end Drv
