import HapModel.Model.Breakpoints
import HapModel.Model.BpFile
import HapModel.Model.PopArray
/-!
# C05 — Ancestry lookup returns the covering block's label; `.bp` files round-trip

Models: `Breakpoints.findBlock` / `labelAt` / `populationArray` (`_find_blocks`, `population_array`),
`codeTable` / `encodeStrand` / `recodeStrand` (`encode`, `recode`), `BpFile.parse` / `render`
(`__iter__`, `write` at line level).
-/
namespace C05
open Breakpoints Assign

/-- an answered position lies in the first block (of that strand on that chromosome) whose end is ≥ the
    position: every earlier block ends before it -/
theorem find_first_ge (ends : List Nat) (pos i : Nat) (hs : SortedLE ends) (h : findBlock ends pos = some i) :
    ∃ hi : i < ends.length, pos ≤ ends[i] ∧ ∀ k (hk : k < i), ends[k]'(by omega) < pos :=
  findBlock_some ends pos i hs h

/-- a position is rejected (error, never an answer) iff no block of the strand on that chromosome reaches it —
    in particular when the strand has no block on the chromosome at all -/
theorem find_rejects (ends : List Nat) (pos : Nat) :
    findBlock ends pos = none ↔ ∀ e ∈ ends, e < pos :=
  findBlock_none_iff ends pos

/-- a query on a chromosome the strand has no block on is rejected (`ValueError`), never answered from another chromosome's blocks -/
theorem absent_chromosome_rejected (s : Strand) (chrom : String) (pos : Nat)
    (h : ∀ b ∈ s, (b.chrom == chrom) = false) : labelAt s chrom pos = .error .value_error := by
  unfold labelAt
  have : s.filter (fun b => b.chrom == chrom) = [] := List.filter_eq_nil_iff.mpr (fun b hb => by simp [h b hb])
  simp [this, findBlock, firstGE]

/-- encoding labels as integers and decoding restores every label, for any label order given to the encoder -/
theorem recode_encode (labelsArg : List String) (t : Table) (s : Strand) (hs : ∀ b ∈ s, b.pop ∈ allPops t) :
    recodeStrand (codeTable labelsArg t) (encodeStrand (codeTable labelsArg t) s) = s.map (fun b => some b.pop) :=
  recode_encode_strand labelsArg t s hs

/-- distinct labels get distinct codes: an encoded query answers with the code of the same label -/
theorem encoded_codes_injective (labelsArg : List String) (t : Table) (p q : String)
    (hp : p ∈ allPops t) (hq : q ∈ allPops t)
    (h : (codeTable labelsArg t).idxOf p = (codeTable labelsArg t).idxOf q) : p = q :=
  codes_injective labelsArg t p q hp hq h

/-- the labels handed to the encoder keep the codes of their positions in that list -/
theorem encoder_keeps_given_order (labelsArg : List String) (t : Table) (h : labelsArg.Nodup) (i : Nat) (p : String)
    (hi : labelsArg[i]? = some p) : (codeTable labelsArg t)[i]? = some p :=
  given_labels_keep_order labelsArg t h i p hi

/-- writing breakpoints and reading them back yields identical samples, order, strands and block tokens
    (labels, chromosomes, positions, centimorgan tokens), for sample names with underscores too -/
theorem parse_render (data : List (BpFile.Name × List BpFile.Block × List BpFile.Block)) :
    BpFile.parse (BpFile.render data) = data :=
  BpFile.parse_render data

/-- non-vacuity: block ends 100, 200, MAX — position on an end, end+1, 1, and beyond -/
example : findBlock [100, 200, 300] 100 = some 0 ∧ findBlock [100, 200, 300] 101 = some 1 ∧
    findBlock [100, 200, 300] 1 = some 0 ∧ findBlock [100, 200, 300] 301 = none := by decide

/-- **`population_array` cell by cell**: one row per requested sample in the requested order, one column per variant,
    and each cell holds the labels the breakpoints give the two strands of *that* sample at *that* variant (the
    covering block's label, by `find_first_ge`) -/
theorem population_array_cells (t : Table) (vars : List (String × Nat)) (req : List String)
    (arr : List (List (String × String))) (h : populationArray t vars (some req) = .ok arr) :
    arr.length = req.length ∧
    ∀ i (hi : i < req.length) (ha : i < arr.length), ∃ smp ∈ t, smp.1 = req[i] ∧
      arr[i].length = vars.length ∧
      ∀ j (hj : j < vars.length) (hr : j < arr[i].length),
        labelAt smp.2.1 vars[j].1 vars[j].2 = .ok arr[i][j].1 ∧
        labelAt smp.2.2 vars[j].1 vars[j].2 = .ok arr[i][j].2 :=
  populationArray_cells t vars req arr h

/-- a requested sample the file does not hold makes the call fail: it is never skipped or answered from another sample -/
theorem population_array_unknown_sample (t : Table) (vars : List (String × Nat)) (req : List String) (s : String)
    (hs : s ∈ req) (hnot : ∀ x ∈ t, x.1 ≠ s) : ∀ arr, populationArray t vars (some req) ≠ .ok arr :=
  populationArray_unknown_sample t vars req s hs hnot

end C05
