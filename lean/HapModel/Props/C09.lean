import HapModel.Model.PhenoSim
import HapModel.Model.ReplicationNamesStd
/-!
# C09 — simphenotype implements the documented linear model and case/control threshold   (PARTIAL)

Core-only theorems (decision logic, `argpartition` contract, stream positions, names).  The real / rational facts
(`standardize` has mean 0 and variance 1, the three-way definition of the noise variance, its non-negativity) are
`C09R.*` in `HapModel/Real/PropsReal.lean` (Mathlib).  IEEE arithmetic, `K·n` evaluated in floating point and the
distribution of numpy's generator are outside the model.
-/
namespace C09
open Pheno PhenoSim

/-- with prevalence `K`, exactly `k = ⌊K·n⌋` samples are cases, for every permutation meeting the contract of
    `np.argpartition(-pt, k)` (ties included) -/
theorem cases_count (pt : List Int) (k : Nat) (perm : List Nat) (h : PartitionOK pt k perm) (hk : k ≤ pt.length) :
    ((cases pt.length k perm).filter id).length = k :=
  Pheno.cases_count pt k perm h hk

/-- every case's liability is ≥ every control's -/
theorem cases_dominate (pt : List Int) (k : Nat) (perm : List Nat) (h : PartitionOK pt k perm)
    (i j : Nat) (hi : i < pt.length) (hj : j < pt.length)
    (hci : (cases pt.length k perm)[i]? = some true) (hcj : (cases pt.length k perm)[j]? = some false) :
    pt[j]! ≤ pt[i]! :=
  Pheno.cases_dominate pt k perm h i j hi hj hci hcj

/-- replications consume pairwise disjoint positions of the generator's normal stream: independent draws,
    never copies of each other -/
theorem replications_disjoint (n r s : Nat) (h : r < s) : ∀ p ∈ tapeSlice n r, p ∉ tapeSlice n s :=
  tapeSlices_disjoint n r s h

/-- the noise draws of `R` replications over `n` samples are consecutive slices of one stream: together they use positions `0 … R·n-1` exactly once -/
theorem replications_cover (n R : Nat) : (List.range R).flatMap (tapeSlice n) = List.range' 0 (R * n) :=
  tapeSlices_cover n R

/-- `R` replications of one trait yield `R` distinctly named columns `x, x-1, …, x-(R-1)` -/
theorem names_distinct (x : String) (R : Nat) : (uniqNames (List.replicate R x)).Nodup :=
  replication_names_distinct x R

/-- **the linear model, by ID** (raw dosages): an effect whose variant the genotypes do not hold adds nothing to any sample's
    genetic component, wherever it is listed – its beta never lands on another variable -/
theorem absent_effect_adds_nothing (cols : Cols) (pre post : List (String × Rat)) (x : String) (b : Rat)
    (hx : cols.lookup x = none) (i : Nat) :
    genetic cols (pre ++ (x, b) :: post) i = genetic cols (pre ++ post) i :=
  PhenoSim.absent_effect_adds_nothing cols pre post x b hx i

/-- every effect that is found contributes exactly `β · dosage` of the variant that bears its ID -/
theorem found_effect_contributes_its_own_dosage (cols : Cols) (x : String) (b : Rat) (rest : List (String × Rat))
    (hx : (cols.lookup x).isSome) (i : Nat) :
    genetic cols ((x, b) :: rest) i = b * (dosageAt cols x i : Rat) + genetic cols rest i :=
  genetic_cons_found cols x b rest hx i

/-- **an effect list may name a variable twice** (two lines of a `.snplist` for one SNP): both terms belong to the sum – the
    variable contributes `(β₁ + β₂) · dosage`, not the last or the first beta alone -/
theorem variable_named_twice_adds_both_betas (cols : Cols) (x : String) (b₁ b₂ : Rat) (rest : List (String × Rat))
    (hx : (cols.lookup x).isSome) (i : Nat) :
    genetic cols ((x, b₁) :: (x, b₂) :: rest) i = (b₁ + b₂) * (dosageAt cols x i : Rat) + genetic cols rest i := by
  rw [genetic_cons_found cols x b₁ _ hx, genetic_cons_found cols x b₂ rest hx, Rat.add_mul, Rat.add_assoc]

/-- the order in which the effects are listed (`.snplist` order, `.hap` order) does not matter -/
theorem effect_order_irrelevant (cols : Cols) (pre post : List (String × Rat)) (e f : String × Rat) (i : Nat) :
    genetic cols (pre ++ e :: f :: post) i = genetic cols (pre ++ f :: e :: post) i :=
  genetic_swap cols pre post e f i

/-- before fix F32 the code paired betas with the columns that were found *by position*: with `v2` absent, sample 1
    (dosage 1 at `v1`) got `(1/2 + 1/4)·1` instead of `1/2`; with two of three effects found there was no answer at all -/
theorem absent_effect_misattributed_before_fix :
    geneticOld [("v1", [0, 1, 2, 1])] [("v1", 1/2), ("v2", 1/4)] 1 = some (3/4) ∧
    genetic [("v1", [0, 1, 2, 1])] [("v1", 1/2), ("v2", 1/4)] 1 = 1/2 ∧
    geneticOld [("v1", [0, 1]), ("v3", [1, 1])] [("v1", 1/2), ("v2", 1/4), ("v3", 1)] 1 = none ∧
    genetic [("v1", [0, 1]), ("v3", [1, 1])] [("v1", 1/2), ("v2", 1/4), ("v3", 1)] 1 = 3/2 := by
  decide +kernel

end C09
