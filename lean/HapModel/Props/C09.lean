import HapModel.Model.PhenoSim
import HapModel.Model.ReplicationNamesStd
/-!
# C09 — simphenotype implements the documented linear model and case/control threshold   (PARTIAL)

Core-only theorems (decision logic, `argpartition` contract, stream positions, names).  The real / rational facts
(`standardize` has mean 0 and variance 1, the three-way definition of the noise variance, its non-negativity) are
`C09R.*` in `HapModel/Real/PropsReal.lean` (Mathlib).  IEEE arithmetic, `K·n` evaluated in floating point and the
distribution of numpy's generator are outside the model.
-/
namespace C09
open Pheno PhenoSim

/-- with prevalence `K`, exactly `k = ⌊K·n⌋` samples are cases, for every permutation meeting the contract of
    `np.argpartition(-pt, k)` (ties included) -/
theorem cases_count (pt : List Int) (k : Nat) (perm : List Nat) (h : PartitionOK pt k perm) (hk : k ≤ pt.length) :
    ((cases pt.length k perm).filter id).length = k :=
  Pheno.cases_count pt k perm h hk

/-- every case's liability is ≥ every control's -/
theorem cases_dominate (pt : List Int) (k : Nat) (perm : List Nat) (h : PartitionOK pt k perm)
    (i j : Nat) (hi : i < pt.length) (hj : j < pt.length)
    (hci : (cases pt.length k perm)[i]? = some true) (hcj : (cases pt.length k perm)[j]? = some false) :
    pt[j]! ≤ pt[i]! :=
  Pheno.cases_dominate pt k perm h i j hi hj hci hcj

/-- replications consume pairwise disjoint positions of the generator's normal stream: independent draws,
    never copies of each other -/
theorem replications_disjoint (n r s : Nat) (h : r < s) : ∀ p ∈ tapeSlice n r, p ∉ tapeSlice n s :=
  tapeSlices_disjoint n r s h

/-- the noise draws of `R` replications over `n` samples are consecutive slices of one stream: together they use positions `0 … R·n-1` exactly once -/
theorem replications_cover (n R : Nat) : (List.range R).flatMap (tapeSlice n) = List.range' 0 (R * n) :=
  tapeSlices_cover n R

/-- `R` replications of one trait yield `R` distinctly named columns `x, x-1, …, x-(R-1)` -/
theorem names_distinct (x : String) (R : Nat) : (uniqNames (List.replicate R x)).Nodup :=
  replication_names_distinct x R

end C09
