import HapModel.Model.OutputVcf
import HapModel.Model.Convert
/-!
# C03 — Simulated genotypes agree with the breakpoints and the reference panel

Model: `OutputVcf.hapOut` = the per-haplotype loop of `output_vcf` with its running column counter;
`Assign.assignBlocks` = `searchsorted(side='right')` → `insert 0` → `diff` → `repeat`.
-/
namespace C03
open OutputVcf Assign

/-- the numpy pipeline assigns every variant to the first block whose end is ≥ its position: a variant exactly on
    a block end belongs to that block (same function as `_find_blocks`, C05) -/
theorem assign_eq_firstGE (varPos ends : List Nat) (hv : SortedLE varPos) (he : StrictInc ends)
    (hcov : ∀ p ∈ varPos, ∃ e ∈ ends, p ≤ e) :
    assignBlocks varPos ends = varPos.map (firstGE ends) :=
  Assign.assign_eq_firstGE varPos ends hv he hcov

/-- every output column `k` holds the allele of reference variant `k` on the reference haplotype chosen for the
    block containing its position; exactly one value per reference variant, none left unset (no stale or
    uninitialised genotype), provided the loaded reference lists its variants chromosome by chromosome in the
    order of the simulated chromosomes (what F03's repair establishes when the panel holds more) -/
theorem cell_from_panel (ref : Nat → Nat → Nat → Nat) (vars : List RVar) (blocks : Nat → ChromBlocks)
    (chroms : List Nat) (hg : Grouped vars chroms) (hok : ∀ c ∈ chroms, BlocksOK vars c (blocks c)) :
    hapOut ref vars blocks chroms 0 = emit (cellOf ref blocks) 0 vars ∧
    (hapOut ref vars blocks chroms 0).length = vars.length :=
  hapOut_cells ref vars blocks chroms hg hok

/-- within one ancestry block all variants come from the same reference haplotype: the source only depends on the
    block index -/
theorem block_single_source (ref : Nat → Nat → Nat → Nat) (blocks : Nat → ChromBlocks) (c1 c2 : Nat) (v w : RVar)
    (hc : v.chrom = w.chrom) (hb : firstGE (blocks v.chrom).ends v.pos = firstGE (blocks w.chrom).ends w.pos) :
    (cellOf ref blocks c1 v).2 = (cellOf ref blocks c2 w).2 := by
  unfold cellOf
  simp only [hc] at hb ⊢
  rw [hb]

/-- non-vacuity: two blocks ending at 100 and MAX; variants at 100 (on the end), 101 and far beyond -/
example : assignBlocks [50, 100, 101, 5000] [100, 2147483647] = [0, 0, 1, 1] := by decide

/-- **POP and SAMPLE state exactly the breakpoints' population and a reference sample of it**: the source
    `output_vcf` records for a variant – whose `pop` becomes the POP annotation and whose `sample` the SAMPLE
    annotation and the origin of the allele – carries the label the accompanying breakpoints give the variant's
    position (first tract on the chromosome ending at or after it), and is a sample the sample-info file lists for
    that very population (samples of other or unused populations are never drawn) -/
theorem source_matches_breakpoints (hap : Array Seg) (c : Nat) (popSamples : Nat → List Nat)
    (choices strands : List Nat) (hs : Seg.SortedL hap.toList)
    (hch : ∀ k (hk : k < (Convert.chromSegs hap c).length),
      choices.getD k 0 < (popSamples ((Convert.chromSegs hap c)[k]).pop).length)
    (p : Nat) (hcov : ∃ s ∈ hap.toList, s.chrom = c ∧ p ≤ s.endc) :
    let b := Convert.convert hap c popSamples choices strands
    let src := b.srcs[firstGE b.ends p]!
    Seg.labelAt hap.toList c p = some src.pop ∧ src.sample ∈ popSamples src.pop :=
  Convert.source_matches_breakpoints hap c popSamples choices strands hs hch p hcov

/-- **simulated breakpoints never leave a variant unassigned**: every well-formed haplotype – every haplotype of every
    generation of a simulation, by `C01.every_generation_wf` – gives on each simulated chromosome blocks satisfying the
    precondition of `cell_from_panel`, whatever the reference positions (VCF positions are at most 2³¹-1) -/
theorem simulated_blocks_cover (n : Nat) (chromOf : Nat → Nat) (hap : Array Seg) (hwf : Plan.ParentWF n chromOf hap)
    (ci : Nat) (hci : ci < n) (popSamples : Nat → List Nat) (choices strands : List Nat) (vars : List RVar)
    (hsorted : SortedLE ((vars.filter (fun v => v.chrom = chromOf ci)).map (·.pos)))
    (hmax : ∀ v ∈ vars, v.pos ≤ Seg.MAX) :
    BlocksOK vars (chromOf ci) (Convert.convert hap (chromOf ci) popSamples choices strands) :=
  Convert.wf_blocksOK n chromOf hap hwf ci hci popSamples choices strands vars hsorted hmax

end C03
