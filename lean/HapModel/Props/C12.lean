import HapModel.Model.ObjMachine
import HapModel.Model.HapObj
/-!
# C12 — By-ID operations always act on the object's current contents

Model: `Cache.Obj` (two ID axes with their lazily built `dict` caches + data matrix) and the operation
machine `Cache.ostep` (`read`, `index`, `subset` in place / copying, QC discards, `append`); look-ups go
through the caches exactly as `Genotypes.subset` / `Phenotypes.subset` do.
-/
namespace C12
open Cache

/-- a freshly built index is sound (every answer bears the ID) and complete (every ID has an answer) -/
theorem index_sound_complete (ids : List String) : Sound (buildIdx ids) ids ∧ Complete (buildIdx ids) ids :=
  ⟨buildIdx_sound ids, buildIdx_complete ids⟩

/-- invariant step: every public operation keeps both caches sound and complete -/
theorem cache_inv_step (o : Obj) (op : OOp) (h : OInv o)
    (hfresh : ∀ name col, op = .append name col → name ∉ o.cols.ids) : OInv (ostep o op).1 :=
  ostep_inv o op h hfresh

/-- invariant for every finite history of operations -/
theorem cache_inv (ops : List OOp) (o : Obj) (h : OInv o) (hf : FreshHist o ops) : OInv (orun o ops) :=
  orun_inv ops o h hf

/-- the object handed out by a copying subset starts with empty caches (nothing inherited from the parent) -/
theorem copy_starts_clean (o : Obj) (rs cs : Option (List String)) : OInv (subsetCopy o rs cs) :=
  subsetCopy_inv o rs cs

/-- refinement: after any history, subsetting by ID through the caches returns exactly what the cache-free
    specification (a scan of the object's current ID lists) returns: same rows, columns, IDs and data -/
theorem byid_refines_spec (ops : List OOp) (o : Obj) (h : OInv o) (hf : FreshHist o ops)
    (hrn : (orun o ops).rows.ids.Nodup) (hcn : (orun o ops).cols.ids.Nodup)
    (rs cs : Option (List String)) :
    subsetCopy (orun o ops) rs cs = subsetSpec (orun o ops) rs cs :=
  query_refines ops o h hf hrn hcn rs cs

/-- every position answered for an ID currently bears that ID; an ID that is no longer present gets no
    position (it is reported missing); a present ID gets one -/
theorem positions_current (ops : List OOp) (o : Obj) (h : OInv o) (hf : FreshHist o ops) (req : List String) :
    (∀ p ∈ positions (orun o ops).rows req, (orun o ops).rows.ids[p.2]? = some p.1) ∧
    (∀ id ∈ req, id ∉ (orun o ops).rows.ids → ∀ p ∈ positions (orun o ops).rows req, p.1 ≠ id) ∧
    (∀ id ∈ req, id ∈ (orun o ops).rows.ids → ∃ p ∈ positions (orun o ops).rows req, p.1 = id) :=
  Cache.positions_current _ (orun_inv ops o h hf).1 req

/-- F11 (fixed in /repo): with a `read` that keeps the caches the history
    `read; subset [v2]; read(other region); subset [v2]` returns the column of `v3` -/
theorem reread_refuted_before_fix :
    let o0 : Obj := ⟨⟨["s"], none⟩, ⟨["v1","v2","v3"], none⟩, [[10, 20, 30]]⟩
    let o1 := (ostep o0 (.subset none (some ["v2"]) false)).1
    let o2 := readStale o1 ["s"] ["v2","v3"] [[20, 30]]
    (subsetCopy o2 none (some ["v2"])).data = [[30]] ∧ (subsetSpec o2 none (some ["v2"])).data = [[20]] :=
  Cache.reread_refuted_before_fix

/-- non-vacuity: a five-step history (index, in-place reorder, discard, re-read, append) meets the hypotheses -/
example : FreshHist ⟨⟨["a","b"], none⟩, ⟨["v1","v2","v3"], none⟩, [[1,2,3],[4,5,6]]⟩
    [.index true true, .subset none (some ["v3","v1"]) true, .dropRows [0],
     .read ["a","b"] ["v2","v3"] [[2,3],[5,6]], .append "z" [7, 8]] := by
  simp [FreshHist, ostep, subsetInplace, subsetCopy, positions, ensure, buildIdx, get?, removeIdx, appendCol]

/-- **haplotypes objects**: after any sequence of reads, re-reads (all or by ID), in-place or copying subsets, sorts,
    lazy or forced `index()` calls and merges, the cached `type_ids` is never stale, so the haplotypes that `to_str`
    and `transform` work with are exactly the `H` records the object holds at that moment, in their current order -/
theorem haplotypes_query_current (ops : List HapObj.Op) :
    let o := (HapObj.run HapObj.fresh ops).1
    HapObj.CacheOK o ∧ o.queryH = (o.data.filter (·.isH)).map (·.id) :=
  HapObj.query_after_any_history ops

/-- `Haplotypes.subset` keeps only records the object held, each stored under a requested ID (an absent ID is dropped,
    never resolved to another record), and the copy it returns starts with a sound cache of its own -/
theorem haplotypes_subset_sound (o : HapObj.Obj) (req : List String) (ip : Bool) :
    (∀ r ∈ HapObj.pick o.data req, r ∈ o.data ∧ r.id ∈ req) ∧ HapObj.CacheOK (o.subset req ip).2 :=
  ⟨fun r h => HapObj.pick_sound o.data req r h, HapObj.subset_copy_ok o req ip⟩

/-- non-vacuity: read, copy-subset in another order with a repeated and an unknown ID, sort, query -/
example : (HapObj.run HapObj.fresh
    [.read [⟨"H1", true, 0⟩, ⟨"H2", true, 1⟩, ⟨"R1", false, 3⟩, ⟨"H3", true, 2⟩] none,
     .subset ["R1", "H3", "R1", "zz", "H1"] true, .sort, .query]).2.map (·.ids) =
    [["H1", "H2", "R1", "H3"], ["R1", "H3", "H1"], ["H1", "H3", "R1"], ["H1", "H3", "R1"]] := by decide

end C12
