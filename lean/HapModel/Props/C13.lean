import HapModel.Model.QC
/-!
# C13 — QC checks raise exactly on offending data and discard exactly the offenders

Model: `QC.checkMissing`, `QC.checkBiallelic`, `QC.checkPhase`, `QC.checkMaf` (`Model/QC.lean`): the
`np.nonzero` / `np.delete` pipelines of `Genotypes.check_*` and of the `GenotypesAncestry` overrides over
list matrices, the ancestry array carried in parallel.  `keepIdx l drop` keeps, in order, the elements whose
index is not dropped (`keepIdx_sublist`: values and order of the others are untouched).
-/
namespace C13
open QC

/-- missing-genotype check raises iff some allele is missing … -/
theorem missing_raises_iff (g : G) :
    (∃ i j, checkMissing false g = .raised i j) ↔ ∃ r ∈ g.data, ∃ c ∈ r, isMissing g c = true :=
  checkMissing_raises_iff g

/-- … and the error names an offending sample and variant -/
theorem missing_error_names_offender (g : G) (i j : Nat) (h : checkMissing false g = .raised i j) :
    ∃ r c, g.data[i]? = some r ∧ r[j]? = some c ∧ isMissing g c = true :=
  checkMissing_names_offender g i j h

/-- discard mode never raises and removes exactly the samples with a missing allele (data rows, sample IDs
    and ancestry rows with the same index set); variants and flags are untouched -/
theorem missing_discard_exact (g : G) :
    ∃ g' drop, checkMissing true g = .ok g' ∧ (∀ i, drop i = true ↔ rowHas (isMissing g) g.data i) ∧
      g'.data = keepIdx g.data drop ∧ g'.samples = keepIdx g.samples drop ∧
      g'.anc = g.anc.map (fun a => keepIdx a drop) ∧ g'.vars = g.vars ∧
      g'.isBool = g.isBool ∧ g'.hasPhase = g.hasPhase ∧ g'.ancestryClass = g.ancestryClass :=
  checkMissing_discard g

/-- postcondition: after discarding, no allele is missing -/
theorem missing_discard_post (g g' : G) (h : checkMissing true g = .ok g') :
    ∀ r ∈ g'.data, ∀ c ∈ r, isMissing g' c = false :=
  checkMissing_discard_post g g' h

/-- biallelic check raises iff some allele index exceeds 1, naming an offender -/
theorem biallelic_raises_iff (g : G) (hb : g.isBool = false) :
    (∃ i j, checkBiallelic false g = .raised i j) ↔ ∃ r ∈ g.data, ∃ c ∈ r, isMulti c = true :=
  checkBiallelic_raises_iff g hb

/-- when `check_biallelic` raises, the (sample, variant) it names really holds an allele index above 1 -/
theorem biallelic_error_names_offender (g : G) (i j : Nat) (h : checkBiallelic false g = .raised i j) :
    ∃ r c, g.data[i]? = some r ∧ r[j]? = some c ∧ isMulti c = true :=
  checkBiallelic_names_offender g i j h

/-- discard mode removes exactly the variants with an allele index above 1, in step in every data row,
    the variant list and every ancestry row; samples are untouched; what is left is boolean -/
theorem biallelic_discard_exact (g : G) (hb : g.isBool = false) :
    ∃ g' drop, checkBiallelic true g = .ok g' ∧ (∀ j, drop j = true ↔ colHas isMulti g.data j) ∧
      g'.data = (g.data.map (fun r => keepIdx r drop)).map (·.map toBool) ∧
      g'.vars = keepIdx g.vars drop ∧
      g'.anc = g.anc.map (fun a => a.map (fun r => keepIdx r drop)) ∧
      g'.samples = g.samples ∧ g'.isBool = true :=
  checkBiallelic_discard g hb

/-- phase check raises iff some heterozygous call (two different, non-missing alleles) is unphased -/
theorem phase_raises_iff (g : G) (hp : g.hasPhase = true) :
    (∃ i j, checkPhase g = .raised i j) ↔ ∃ r ∈ g.data, ∃ c ∈ r, isUnphasedHet g c = true :=
  checkPhase_raises_iff g hp

/-- when `check_phase` raises, the (sample, variant) it names really is an unphased heterozygous call -/
theorem phase_error_names_offender (g : G) (i j : Nat) (h : checkPhase g = .raised i j) :
    ∃ r c, g.data[i]? = some r ∧ r[j]? = some c ∧ isUnphasedHet g c = true :=
  checkPhase_names_offender g i j h

/-- … and otherwise only strips the phase flags -/
theorem phase_strips (g : G) (hp : g.hasPhase = true)
    (hall : ∀ r ∈ g.data, ∀ c ∈ r, isUnphasedHet g c = false) :
    checkPhase g = .ok { g with hasPhase := false } :=
  checkPhase_strips g hp hall

/-- the allele-frequency check reports `min(f, 1-f)` with `f = k/2n`, `k` = non-reference strands -/
theorem maf_formula (num den : Nat) (warnOnly : Bool) (g : G) :
    (checkMaf num den false warnOnly g).2 =
      (List.range g.vars.length).map (fun j => (min (altCount g.data j) (2*g.data.length - altCount g.data j), 2*g.data.length)) :=
  checkMaf_formula num den warnOnly g

/-- it raises iff some variant is below the threshold, naming such a variant -/
theorem maf_raises_iff (num den : Nat) (g : G) :
    (∃ i j, (checkMaf num den false false g).1 = .raised i j) ↔ ∃ j, rareIdx num den g j :=
  checkMaf_raises_iff num den g

/-- when `check_maf` raises, the variant it names really lies below the threshold -/
theorem maf_error_names_offender (num den : Nat) (g : G) (i j : Nat)
    (h : (checkMaf num den false false g).1 = .raised i j) : rareIdx num den g j :=
  checkMaf_names_offender num den g i j h

/-- discard mode removes exactly the variants below the threshold — also from the ancestry array (F20) -/
theorem maf_discard_exact (num den : Nat) (warnOnly : Bool) (g : G) :
    ∃ g' drop, (checkMaf num den true warnOnly g).1 = .ok g' ∧
      (∀ j, drop j = true ↔ rareIdx num den g j) ∧
      g'.data = g.data.map (fun r => keepIdx r drop) ∧ g'.vars = keepIdx g.vars drop ∧
      g'.anc = g.anc.map (fun a => a.map (fun r => keepIdx r drop)) ∧ g'.samples = g.samples :=
  checkMaf_discard num den warnOnly g

/-- untouched samples / variants keep their values and order: the result of a discard is a sublist, and two
    parallel arrays filtered by one check stay aligned -/
theorem untouched_preserved {α} (l : List α) (drop : Nat → Bool) : (keepIdx l drop).Sublist l :=
  keepIdx_sublist l drop

/-- removing the same index set from two parallel arrays keeps them aligned: entry `k` of one still belongs to entry `k` of the other (variants / data columns / ancestry columns) -/
theorem parallel_arrays_aligned {α β} (l : List α) (l' : List β) (drop : Nat → Bool) (h : l.length = l'.length) :
    keepIdx (l.zip l') drop = (keepIdx l drop).zip (keepIdx l' drop) :=
  keepIdx_zip l l' drop h

/-- non-vacuity / F12 regression: an unphased `1/2` call is a heterozygote and is rejected -/
example : (match checkPhase ⟨["s"], ["v"], [[⟨1, 2, false⟩]], none, true, false, false⟩ with
    | .raised i j => some (i, j) | _ => none) = some (0, 0) := by decide

/-- non-vacuity: discarding on a 3×2 matrix with one half-missing call removes exactly that sample -/
example : (match checkMissing true ⟨["a","b","c"], ["v","w"],
      [[⟨0,1,true⟩,⟨1,1,true⟩], [⟨0,254,true⟩,⟨0,0,true⟩], [⟨2,0,false⟩,⟨0,0,true⟩]], none, true, false, false⟩ with
    | .ok g => g.samples | _ => []) = ["a","c"] := by decide

end C13
