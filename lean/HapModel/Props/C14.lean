import HapModel.Model.NoRepl
import HapModel.Model.Validate
import HapModel.Model.Convert
/-!
# C14 — `--no_replacement` never copies the same stretch of a reference haplotype twice

Property theorems only (statements; proofs are applications of lemmas in `Model/NoRepl.lean`).
Model: `NoRepl.findCoord` = `sim_genotype._find_coord`, `NoRepl.findRandomSample` =
`_find_random_sample`, `NoRepl.runRequests` = the sequence of requests issued by one `output_vcf` run.
-/
namespace C14
open NoRepl

/-- the overlap test is exact: "used" is reported iff the closed intervals intersect on the same chromosome -/
theorem overlap_test_exact (cur : List Iv) (req : Iv) :
    (findCoord cur req).1 = true ↔ ∃ u ∈ cur, overlaps req u :=
  findCoord_used_iff cur req

/-- one request keeps a reference haplotype's copied intervals pairwise disjoint -/
theorem request_keeps_disjoint (cur : List Iv) (req : Iv) (h : Disjoint cur) :
    Disjoint (findCoord cur req).2 :=
  findCoord_disjoint cur req h

/-- a granted request went to a candidate haplotype none of whose intervals it intersects; a refusal
    (the "No available sample" error) means every candidate haplotype of the population intersects:
    the panel is exhausted, material is never reused -/
theorem grant_or_exhausted (order : List Nat) (u : Used) (req : Iv) (hu : Inv u) :
    match findRandomSample order u req with
    | none => ∀ h ∈ candidates order, ∀ cur, u[h]? = some cur → ∃ x ∈ cur, overlaps req x
    | some (h, u') => h ∈ candidates order ∧ Inv u' ∧ u'.length = u.length ∧
        ∃ cur, u[h]? = some cur ∧ (∀ x ∈ cur, ¬ overlaps req x) ∧ u' = u.set h (cur ++ [req]) :=
  findRandomSample_spec order u req hu

/-- for every sequence of requests (all simulated haplotypes, blocks, chromosomes, all shuffles) starting
    from the empty registry, every reference haplotype's copied intervals are pairwise disjoint -/
theorem disjoint_after_any_run (n : Nat) (reqs : List (List Nat × Iv)) :
    Inv (runRequests reqs (List.replicate n [])).2.1 :=
  runRequests_inv reqs _ (inv_init n)

/-- F13 (fixed in /repo): the pre-fix test grants a nested request and one sharing an end point -/
theorem findCoordOld_refuted :
    (findCoordOld [(1,100,200)] (1,120,180)).1 = false ∧ overlaps (1,120,180) (1,100,200) ∧
    (findCoordOld [(1,100,200)] (1,200,300)).1 = false ∧ overlaps (1,200,300) (1,100,200) :=
  NoRepl.findCoordOld_refuted

/-- parameter validation rejects panels with fewer reference samples in some model population than simulated
    samples (with `--no_replacement`, when genotypes are to be written) -/
theorem validate_rejects_small_panels (tol : Rat) (inp : Validate.Inputs) (n : Int)
    (hn : inp.nSamples = some n) (hb : inp.onlyBp = false) (hnr : inp.noReplacement = true)
    (pop : String) (hp : pop ∈ inp.pops.drop 1)
    (hfew : ((inp.sampleInfo.filter (fun sp => sp.2 = pop)).length : Int) < n) :
    ∀ p, Validate.validate tol inp ≠ .ok p := by
  intro p h
  obtain ⟨n', _, hn', _, _, _, _, _, _, _, _, _, _, hor⟩ := (Validate.validate_ok_iff tol inp p).mp h
  rw [hn] at hn'; cases hn'
  rcases hor with h1 | ⟨_, _, _, hpops⟩
  · rw [hb] at h1; cases h1
  · have := (hpops pop hp).2 hnr; omega

/-- **what is registered as used is what is copied**: the stretches `_convert_haplotype` requests from
    `_find_random_sample` for one haplotype on one chromosome are exactly its blocks' extents – the first from 0,
    each next one from the previous block's end + 1, the k-th up to the k-th block end – hence pairwise disjoint
    and without gaps; together with `request_keeps_disjoint` / `disjoint_after_any_run` no stretch of a reference
    haplotype is handed out twice -/
theorem requests_are_block_extents (hap : Array Seg) (c : Nat) (hs : Seg.SortedL hap.toList) :
    (Convert.requests hap c).length = (Convert.chromSegs hap c).length ∧
    (Convert.requests hap c).map (·.2) = (Convert.chromSegs hap c).map (·.endc) ∧
    (Convert.requests hap c).Pairwise (fun a b => a.2 < b.1) ∧
    (∀ k (hk : k + 1 < (Convert.requests hap c).length),
      ((Convert.requests hap c)[k + 1]).1 = ((Convert.requests hap c)[k]'(by omega)).2 + 1) ∧
    (∀ (h0 : 0 < (Convert.requests hap c).length), ((Convert.requests hap c)[0]).1 = 0) :=
  Convert.requests_are_block_extents hap c hs

end C14
