import HapModel.Model.Clump
import HapModel.Model.Overlap
import HapModel.Model.LdStat
/-!
# C17 — clump output is exactly greedy LD clumping and always terminates

Model: `Clump.clump` = `Load` (p ≤ p2 filter) followed by the `while indexvar is not None` loop of `clumpstr`
(`NextIndex.nextIndex` = the literal scan of `GetNextIndexVariant`, `Clump.window` = `QueryWindow`,
removal by object identity = `RemoveClump`).  `clumpLoop` is defined by well-founded recursion on the number
of remaining variants: Lean accepting the definition *is* the termination proof, for every table and every
LD decision function (constant genotypes give `inLD idx idx = false`, which is allowed).
The real-arithmetic facts about r² are in `HapModel/Real/PropsReal.lean` (`C17R.*`).
-/
namespace C17
open Clump NextIndex

/-- index choice: `none` iff no remaining variant has `p < p1` (and `p < 1`); otherwise a candidate with
    minimal p, the earliest in file order among ties -/
theorem index_order (one p1 : Nat) (vars : List V) :
    match nextIndex one p1 vars with
    | none => ∀ v ∈ vars, ¬ Cand one p1 v
    | some b => Cand one p1 b ∧ ∃ pre post, vars = pre ++ b :: post ∧
        (∀ v ∈ pre, Cand one p1 v → b.p < v.p) ∧ (∀ v ∈ post, Cand one p1 v → b.p ≤ v.p) :=
  nextIndex_spec one p1 vars

/-- one step: the index is the next index variant of the remaining pool, the clump lists exactly the remaining
    variants in the window (same chromosome, |Δpos| < 1000·kb) whose r² with the index exceeds the threshold,
    and exactly the clump and its index leave the pool -/
theorem members_exact {one p1 win inLD} {vars rest : List V} {c : ClumpOut}
    (h : clumpStep one p1 win inLD vars = some (c, rest)) :
    nextIndex one p1 vars = some c.index ∧
    c.members = (vars.filter (window win c.index)).filter (inLD c.index) ∧
    rest = vars.filter (fun v => !(c.members.contains v) && v != c.index) :=
  clumpStep_spec h

/-- only variants passing the inclusion threshold are ever considered, in file order -/
theorem load_filters (p2 : Nat) (vars : List V) : load p2 vars = vars.filter (fun v => decide (v.p ≤ p2)) := rfl

/-- the loop strictly shrinks the pool at every iteration (termination measure) -/
theorem step_shrinks {one p1 win inLD} {vars rest : List V} {c : ClumpOut}
    (h : clumpStep one p1 win inLD vars = some (c, rest)) : rest.length < vars.length :=
  clumpStep_lt h

/-- no variant appears in two clumps, as member or as index -/
theorem clumps_disjoint (one p1 win : Nat) (inLD : V → V → Bool) (vars : List V) :
    (clumpLoop one p1 win inLD vars).Pairwise (fun a b =>
      ∀ v, (v = a.index ∨ v ∈ a.members) → ¬ (v = b.index ∨ v ∈ b.members)) :=
  Clump.clumps_disjoint one p1 win inLD vars.length vars (Nat.le_refl _)

/-- every clumped variant comes from the loaded table -/
theorem clumps_from_table (one p1 win : Nat) (inLD : V → V → Bool) (vars : List V) :
    ∀ c ∈ clumpLoop one p1 win inLD vars, c.index ∈ vars ∧ ∀ v ∈ c.members, v ∈ vars :=
  clumpLoop_sub one p1 win inLD vars.length vars (Nat.le_refl _)

/-- non-vacuity incl. a constant-genotype index (`inLD` false everywhere): three singleton clumps, in p order,
    file order on the tie -/
example : (clump 100 50 100 1000 (fun _ _ => false)
    [⟨0, 30, "1", 10⟩, ⟨1, 10, "1", 20⟩, ⟨2, 10, "1", 30⟩, ⟨3, 70, "1", 40⟩]).map (fun c => (c.index.uid, c.members.map (·.uid)))
    = [(1, []), (2, []), (0, [])] := by
  simp [clump, load]
  rw [clumpLoop]; simp [clumpStep, nextIndex, scanStep, window]
  rw [clumpLoop]; simp [clumpStep, nextIndex, scanStep, window]
  rw [clumpLoop]; simp [clumpStep, nextIndex, scanStep, window]
  rw [clumpLoop]; simp [clumpStep, nextIndex, scanStep, window]

/-- **mixed SNP + STR input: exactly the common samples, rows aligned** – the two-pointer walk of
    `GetOverlappingSamples` over the two name-sorted sample lists returns the pair of rows `(i, j)` iff SNP row `i` and
    STR row `j` carry the same sample name (distinct names within each file) -/
theorem overlapping_samples_exact (a b : List Overlap.E) (ha : Overlap.Sorted a) (hb : Overlap.Sorted b) (i j : Nat) :
    (i, j) ∈ Overlap.walk a b ↔ ∃ k, (k, i) ∈ a ∧ (k, j) ∈ b :=
  Overlap.walk_spec a b ha hb i j

/-- non-vacuity: names ranked 1,4,7 in rows 2,0,1 of the SNP file; 4,5,7 in rows 0,1,2 of the STR file -/
example : Overlap.walk [(1, 2), (4, 0), (7, 1)] [(4, 0), (5, 1), (7, 2)] = [(0, 0), (1, 2)] := by
  simp [Overlap.walk]

/-- **Pearson r² over dosages**: `ComputeLD` uses exactly the samples in which neither variant has a missing allele, and the
    dosage of a sample is the sum of its two allele indices (the definition, spelled out) -/
theorem ld_over_samples_without_missing_calls (cand index : List (Nat × Nat)) :
    LdStat.validDosages cand index =
      ((cand.zip index).filter (fun p => (decide (p.1.1 < 254) && decide (p.1.2 < 254)) &&
          (decide (p.2.1 < 254) && decide (p.2.2 < 254)))).map
        (fun p => (((p.1.1 + p.1.2 : Nat) : Int), ((p.2.1 + p.2.2 : Nat) : Int))) := rfl

/-- r²(candidate, index) = r²(index, candidate): which of two variants is the index does not matter for the decision -/
theorem ld_symmetric (cand index : List (Nat × Nat)) : LdStat.clumpLd index cand = LdStat.clumpLd cand index :=
  LdStat.clumpLd_symm cand index

/-- non-vacuity: copy numbers above 127 (dosages above 255) and a missing call, three samples left; and a small SNP pair -/
example : LdStat.clumpLd [(130, 140), (120, 125), (255, 3), (128, 128)] [(1, 1), (0, 0), (1, 0), (0, 1)] = .r2 5625 5652 ∧
    LdStat.clumpLd [(1, 0), (0, 0), (1, 1)] [(1, 1), (0, 0), (1, 0)] = .r2 9 36 ∧
    LdStat.clumpLd [(1, 0), (254, 0)] [(1, 1), (0, 0)] = .undefined ∧ LdStat.clumpLd [(255, 255)] [(1, 1)] = .empty := by
  decide +kernel

end C17
