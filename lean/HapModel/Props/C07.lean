import HapModel.Model.GenoIO
/-!
# C07 — Genotypes written to VCF/BCF or PGEN read back unchanged   (PARTIAL)

The theorems cover everything haptools itself computes: the cell codecs, the chunk loops and the allele counts.
The bytes on disk and their re-reading belong to htslib / pgenlib and are exercised by the correspondence run.
-/
namespace C07
open GenoIO Chunks

/-- VCF: every call (any allele index, missing in one or both alleles, phased or not) decodes to itself -/
theorem vcf_cell_roundtrip (c : Cell) : decodeVcf (encodeVcf c) = c := vcf_roundtrip c

/-- PGEN: the stored call equals the written one up to the order of an unphased heterozygote and the phase bit of
    a non-heterozygous call — in particular the phase of every heterozygous call is preserved -/
theorem pgen_cell_roundtrip (c : Cell) : pgenEquiv c (pgenStore c) := pgen_roundtrip c

/-- what is read back is stable under re-writing -/
theorem pgen_store_idempotent (c : Cell) : pgenStore (pgenStore c) = pgenStore c := pgenStore_idem c

/-- the chunk loop visits every variant index exactly once and in order, for every chunk size ≥ 1: the PGEN
    result does not depend on the chunk size used to write or to read -/
theorem chunks_tile (k n : Nat) (hk : 0 < k) :
    (chunksFrom k n hk 0).flatMap (fun c => (List.range' c.1 (c.2 - c.1))) = List.range' 0 n := by
  simpa using Chunks.chunks_tile k n hk 0

/-- the chunk size computed by the code is never 0 (no division by zero, an empty matrix performs no iteration) -/
theorem chunk_size_positive (r : Option Nat) (n : Nat) (hr : ∀ c, r = some c → 0 < c) : 0 < chunkSize r n :=
  chunkSize_pos r n hr

/-- an empty matrix: no chunk at all -/
theorem empty_roundtrip (k : Nat) (hk : 0 < k) : chunksFrom k 0 hk 0 = [] := by
  rw [chunksFrom]; simp

/-- the allele count handed to pgenlib bounds every allele index drawn from the variant's allele list (F07) -/
theorem allele_cts_sound (alleles : List String) (i : Nat) (hi : i < alleles.length) : i < alleleCt alleles := hi

end C07
