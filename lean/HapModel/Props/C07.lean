import HapModel.Model.GenoIO
import HapModel.Model.PgenMatrix
/-!
# C07 — Genotypes written to VCF/BCF or PGEN read back unchanged   (PARTIAL)

The theorems cover everything haptools itself computes: the cell codecs, the chunk loops and the allele counts.
The bytes on disk and their re-reading belong to htslib / pgenlib and are exercised by the correspondence run.
-/
namespace C07
open GenoIO Chunks

/-- VCF: every call (any allele index, missing in one or both alleles, phased or not) decodes to itself -/
theorem vcf_cell_roundtrip (c : Cell) : decodeVcf (encodeVcf c) = c := vcf_roundtrip c

/-- PGEN: the stored call equals the written one up to the order of an unphased heterozygote and the phase bit of
    a non-heterozygous call — in particular the phase of every heterozygous call is preserved -/
theorem pgen_cell_roundtrip (c : Cell) : pgenEquiv c (pgenStore c) := pgen_roundtrip c

/-- what is read back is stable under re-writing -/
theorem pgen_store_idempotent (c : Cell) : pgenStore (pgenStore c) = pgenStore c := pgenStore_idem c

/-- the chunk loop visits every variant index exactly once and in order, for every chunk size ≥ 1: the PGEN
    result does not depend on the chunk size used to write or to read -/
theorem chunks_tile (k n : Nat) (hk : 0 < k) :
    (chunksFrom k n hk 0).flatMap (fun c => (List.range' c.1 (c.2 - c.1))) = List.range' 0 n := by
  simpa using Chunks.chunks_tile k n hk 0

/-- the chunk size computed by the code is never 0 (no division by zero, an empty matrix performs no iteration) -/
theorem chunk_size_positive (r : Option Nat) (n : Nat) (hr : ∀ c, r = some c → 0 < c) : 0 < chunkSize r n :=
  chunkSize_pos r n hr

/-- an empty matrix: no chunk at all -/
theorem empty_roundtrip (k : Nat) (hk : 0 < k) : chunksFrom k 0 hk 0 = [] := by
  rw [chunksFrom]; simp

/-- the allele count handed to pgenlib bounds every allele index drawn from the variant's allele list (F07) -/
theorem allele_cts_sound (alleles : List String) (i : Nat) (hi : i < alleles.length) : i < alleleCt alleles := hi

/-- **whole matrices**: a rectangular matrix written to PGEN with any chunk size and read back with any other comes back
    as itself up to what the format cannot hold (`pgenStore` per call), every call at its own (sample, variant) place -/
theorem pgen_matrix_roundtrip (kw kr : Nat) (hw : 0 < kw) (hr : 0 < kr) (M : PgenMatrix.Matrix) (nv : Nat)
    (hM : PgenMatrix.Rect M nv) :
    PgenMatrix.read kr hr (PgenMatrix.write kw hw M nv) M.length nv = M.map (fun row => row.map pgenStore) :=
  PgenMatrix.read_write kw kr hw hr M nv hM

/-- the file itself does not depend on the chunk size it was written with -/
theorem pgen_file_independent_of_chunk_size (k₁ k₂ : Nat) (h₁ : 0 < k₁) (h₂ : 0 < k₂) (M : PgenMatrix.Matrix) (nv : Nat) :
    PgenMatrix.write k₁ h₁ M nv = PgenMatrix.write k₂ h₂ M nv := by
  rw [PgenMatrix.write_eq, PgenMatrix.write_eq]

/-- a second trip (any chunk sizes again) changes nothing more -/
theorem pgen_matrix_second_trip_is_identity (k1 k2 k3 k4 : Nat) (h1 : 0 < k1) (h2 : 0 < k2) (h3 : 0 < k3) (h4 : 0 < k4)
    (M : PgenMatrix.Matrix) (nv : Nat) (hM : PgenMatrix.Rect M nv) :
    let M1 := PgenMatrix.read k2 h2 (PgenMatrix.write k1 h1 M nv) M.length nv
    PgenMatrix.read k4 h4 (PgenMatrix.write k3 h3 M1 nv) M1.length nv = M1 :=
  PgenMatrix.read_write_twice k1 k2 k3 k4 h1 h2 h3 h4 M nv hM

/-- non-vacuity: a 2 × 3 matrix with an unphased heterozygote in descending order, written one variant at a time and read two
    at a time -/
example :
    PgenMatrix.read 2 (by decide) (PgenMatrix.write 1 (by decide) [[⟨1, 0, false⟩, ⟨0, 0, false⟩, ⟨0, 1, true⟩], [⟨255, 255, false⟩, ⟨1, 1, true⟩, ⟨2, 0, false⟩]] 3) 2 3
      = [[⟨0, 1, false⟩, ⟨0, 0, true⟩, ⟨0, 1, true⟩], [⟨255, 255, true⟩, ⟨1, 1, true⟩, ⟨0, 2, false⟩]] := by
  simp [PgenMatrix.read, PgenMatrix.write, PgenMatrix.writeChunk, PgenMatrix.cell, Chunks.chunksFrom, pgenStore, PgenMatrix.dflt, List.range, List.range.loop, List.range']

end C07
