import HapModel.Model.GenoIO
import HapModel.Model.Subset
import HapModel.Model.PgenMatrix
/-!
# C08 — Restricted reads equal full read + subset, for VCF and PGEN alike

Model: `GenoIO.keptVariants` / `keptSamples` / `readRestricted` – the restriction as filters over the records of
the file (region on POS for single-base records, ID set, `max_variants`), samples always in file order;
`Scan.readIds` – the literal ID scan with early exit and `len(ids)` preallocation of `Genotypes._iterate` / `read`.
Both formats are read through the same specification, so equal content gives equal results.
-/
namespace C08
open GenoIO

/-- the literal ID scan with early exit and preallocation returns exactly the requested records, in file order -/
theorem id_scan_eq_filter (ids recs : List String) (hids : ids.Nodup) (hrecs : recs.Nodup) :
    Scan.readIds ids recs = recs.filter (fun r => ids.contains r) :=
  Scan.readIds_eq_filter ids recs hids hrecs

/-- with unique IDs the `len(variants)` preallocation cut never drops a requested variant: restricting by region
    and ID set keeps exactly the records that satisfy both, in file order -/
theorem read_restricted_eq_filter (recs : List VRec) (region) (l : List String) (hl : l.Nodup)
    (hu : (recs.map (·.id)).Nodup) :
    keptVariants recs region (some l) none =
      (recs.zipIdx.filter (fun p =>
        (match region with | none => true | some r => inRegion r.1 r.2.1 r.2.2 p.1) && l.contains p.1.id)).map (·.2) :=
  idcut_drops_nothing recs region l hl hu

/-- a restriction that matches nothing yields the empty selection (never unrelated data) -/
theorem empty_match (recs : List VRec) (region) (ids : Option (List String))
    (h : ∀ v ∈ recs, keptPred region ids v = false) :
    keptVariants recs region ids none = [] := by
  have hmem : ∀ p ∈ recs.zipIdx, p.1 ∈ recs := by
    intro p hp
    have := List.mem_zipIdx_iff_getElem?.mp (show (p.1, p.2) ∈ recs.zipIdx from hp)
    exact List.mem_of_getElem? this
  have hnil : keptIdx recs region ids = [] := by
    unfold keptIdx
    rw [List.map_eq_nil_iff, List.filter_eq_nil_iff]
    intro p hp
    simp [h p.1 (hmem p hp)]
  unfold keptVariants
  cases ids <;> simp [hnil]

/-- samples come back in file order whatever order was requested -/
theorem samples_in_file_order (fileSamples : List String) (req : Option (List String)) :
    (keptSamples fileSamples req).Pairwise (· < ·) := by
  unfold keptSamples
  have h1 : (fileSamples.zipIdx.map (·.2)).Pairwise (· < ·) := by
    rw [List.zipIdx_map_snd]
    exact List.pairwise_lt_range'
  exact List.Pairwise.sublist (List.Sublist.map _ List.filter_sublist) h1

/-- **subsetting a loaded object**: any sequence of `index()` / `subset(samples, variants, inplace)` calls on a freshly
    loaded object – in place or not, any requested names in any order, unknown names included, pure re-orderings
    included – returns at every step what the cache-free specification returns, leaves the object with the contents
    the specification gives it, and never leaves a stale name→row dictionary behind -/
theorem subset_sequences_refine_spec (c : Subset.Contents) (ops : List Subset.Op) :
    (Subset.run (Subset.fresh c) ops).2 = (Subset.specRun c ops).2 ∧
    (Subset.run (Subset.fresh c) ops).1.toContents = (Subset.specRun c ops).1 ∧
    Subset.CacheOK (Subset.run (Subset.fresh c) ops).1 :=
  Subset.run_refines ops (Subset.fresh c) (Subset.fresh_cacheOK c)

/-- what the specification selects: the requested samples / variant IDs that the object holds, in the requested
    order (unknown ones dropped), each selected row being the row stored under that sample's name -/
theorem subset_requested_order (c : Subset.Contents) (rs cs : List String) :
    (Subset.select c (some rs) (some cs)).samples = rs.filter (fun n => decide (n ∈ c.samples)) ∧
    (Subset.select c (some rs) (some cs)).variants = cs.filter (fun n => decide (n ∈ c.variants)) ∧
    (Subset.select c (some rs) none).data =
      ((rs.filter (fun n => decide (n ∈ c.samples))).filterMap (fun n => c.samples.idxOf? n)).map
        (fun i => c.data.getD i []) :=
  ⟨Subset.select_samples c rs (some cs), Subset.select_variants_names c (some rs) cs, Subset.select_rows c rs⟩

/-- non-vacuity / the stale-index scenario: re-order in place, then subset again – the second subset follows the new order -/
example : (Subset.run (Subset.fresh ⟨["a", "b"], ["v"], [[1], [2]]⟩)
    [.subset (some ["b", "a"]) none true, .subset (some ["a"]) none false]).2 =
    [some ⟨["b", "a"], ["v"], [[2], [1]]⟩, some ⟨["a"], ["v"], [[1]]⟩] := by decide

/-! ### The matrix of a restricted PGEN read (Model/PgenMatrix.readSel): rows of `.psam`, rows of `.pvar`, chunks of positions -/

/-- **a restricted PGEN read is the selection, whatever the chunk size**: the cell of selected sample `s` and selected variant
    row `v`, in the order of the selection – no chunk boundary drops, repeats or shifts a variant -/
theorem pgen_restricted_read_is_the_selection (k : Nat) (hk : 0 < k) (file : List (List Cell)) (sidx vidx : List Nat) :
    PgenMatrix.readSel k hk file sidx vidx
      = sidx.map (fun s => vidx.map (fun v => (file.getD v []).getD s PgenMatrix.dflt)) :=
  PgenMatrix.readSel_eq k hk file sidx vidx

/-- **restricted read = full read + subset, cell by cell**, for any chunk size of either read -/
theorem pgen_restricted_read_eq_full_read_subset (k k' : Nat) (hk : 0 < k) (hk' : 0 < k') (file : List (List Cell))
    (ns nv : Nat) (sidx vidx : List Nat) (hs : ∀ s ∈ sidx, s < ns) (hv : ∀ v ∈ vidx, v < nv) :
    PgenMatrix.readSel k hk file sidx vidx
      = sidx.map (fun s => vidx.map (fun v => PgenMatrix.cell (PgenMatrix.read k' hk' file ns nv) s v)) :=
  PgenMatrix.readSel_eq_subset_of_read k k' hk hk' file ns nv sidx vidx hs hv

/-- two chunk sizes give the same matrix -/
theorem pgen_restricted_read_chunk_irrelevant (k₁ k₂ : Nat) (h₁ : 0 < k₁) (h₂ : 0 < k₂) (file : List (List Cell))
    (sidx vidx : List Nat) : PgenMatrix.readSel k₁ h₁ file sidx vidx = PgenMatrix.readSel k₂ h₂ file sidx vidx :=
  PgenMatrix.readSel_chunk_irrelevant k₁ k₂ h₁ h₂ file sidx vidx

/-- non-vacuity: five variant rows, rows 4, 1, 3 selected for samples 1, 0 in chunks of two -/
example : PgenMatrix.readSel 2 (by decide)
    [[⟨0,0,true⟩, ⟨1,0,true⟩], [⟨0,1,true⟩, ⟨1,1,true⟩], [⟨0,0,true⟩, ⟨0,0,true⟩], [⟨2,1,true⟩, ⟨0,2,true⟩], [⟨1,2,false⟩, ⟨0,1,false⟩]]
    [1, 0] [4, 1, 3]
    = [[⟨0,1,false⟩, ⟨1,1,true⟩, ⟨0,2,true⟩], [⟨1,2,false⟩, ⟨0,1,true⟩, ⟨2,1,true⟩]] := by
  rw [PgenMatrix.readSel_eq]; rfl

end C08
