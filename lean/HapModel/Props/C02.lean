import HapModel.Model.BpOut
import HapModel.Model.BpFile
import HapModel.Props.C01
/-!
# C02 — Breakpoint output tiles every simulated chromosome and respects the model

Reuses the simulation model of C01 (`Plan.plan`, `Plan.exec`/`execP`); adds the label-provenance lemma and the
framing of `write_breakpoints`.
-/
namespace C02
open Seg Plan

/-- for every valid recombination tape the copies issued for a haplotype tile chromosomes 0…n-1 from 0 to MAX
    consecutively, in the requested order -/
theorem simulate_tiles (n : Nat) (cmEnd : Nat → Int) (evs : List Event) (hom : Nat) (bits : List Nat)
    (hv : Valid n 0 0 evs) : Tiles n 0 0 (plan n cmEnd evs 0 0 hom bits) :=
  C01.plan_tiles n cmEnd evs hom bits hv

/-- … hence the written haplotype is sorted by (chromosome, end) with strictly increasing ends and reaches the
    sentinel MAX on every requested chromosome: every position has exactly one label -/
theorem haplotype_wellformed (n : Nat) (chromOf : Nat → Nat) (hmono : ∀ a b, a < b → b < n → chromOf a < chromOf b)
    {cs : List Copy} (ht : Tiles n 0 0 cs) (outs : List (List Seg)) (ho : Outs chromOf cs outs) :
    outs.flatten.Pairwise SegLt ∧ (∀ ci, ci < n → ∃ s ∈ outs.flatten, s.chrom = chromOf ci ∧ s.endc = MAX) :=
  C01.child_wf n chromOf hmono ht outs ho

/-- labels: a haplotype of a source individual carries its founding population's label (which numpy's
    `choice(p=fractions)` only draws with positive fraction); an admixed one only carries labels of its
    parents — by induction over generations no label is ever invented and the pseudo-population 0 never
    appears (no generation-1 individual is admixed) -/
theorem labels_from_parents (pop : Nat) (chromOf : Nat → Nat) (haps : Nat → Nat) (prev : Array (Array Seg))
    (cs : List Copy) (out : List Seg) (h : execP pop chromOf haps prev cs = .ok out) :
    ∀ s ∈ out, (pop ≠ 0 ∧ s.pop = pop) ∨
      (pop = 0 ∧ ∃ hom segs, prev[haps hom]? = some segs ∧ ∃ t ∈ segs.toList, s.pop = t.pop) :=
  execP_labels pop chromOf haps prev cs out h

/-- the file holds exactly the requested `n` samples, each as strand `_1` immediately followed by strand
    `_2` (`2n` haplotypes are drawn without replacement) -/
theorem write_framing (chosen : List (List String)) (n : Nat) (hl : chosen.length = 2 * n) :
    (writeBp chosen).length = 2 * n ∧ ∀ i, i < n →
      ((writeBp chosen)[2*i]?).map (·.1) = some s!"Sample_{i+1}_{1}" ∧
      ((writeBp chosen)[2*i+1]?).map (·.1) = some s!"Sample_{i+1}_{2}" :=
  ⟨by rw [writeBp_length, hl], writeBp_framing chosen n hl⟩

/-- the written form is accepted by haptools' own breakpoint reader and read back unchanged -/
theorem bp_reader_accepts (data : List (BpFile.Name × List BpFile.Block × List BpFile.Block)) :
    BpFile.parse (BpFile.render data) = data :=
  BpFile.parse_render data

end C02
