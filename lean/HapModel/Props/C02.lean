import HapModel.Model.BpOut
import HapModel.Model.BpFile
import HapModel.Props.C01
import HapModel.Model.CmMono
/-!
# C02 — Breakpoint output tiles every simulated chromosome and respects the model

Reuses the simulation model of C01 (`Plan.plan`, `Plan.exec`/`execP`); adds the label-provenance lemma and the
framing of `write_breakpoints`.
-/
namespace C02
open Seg Plan

/-- for every valid recombination tape the copies issued for a haplotype tile chromosomes 0…n-1 from 0 to MAX
    consecutively, in the requested order -/
theorem simulate_tiles (n : Nat) (cmEnd : Nat → Int) (evs : List Event) (hom : Nat) (bits : List Nat)
    (hv : Valid n 0 0 evs) : Tiles n 0 0 (plan n cmEnd evs 0 0 hom bits) :=
  C01.plan_tiles n cmEnd evs hom bits hv

/-- … hence the written haplotype is sorted by (chromosome, end) with strictly increasing ends and reaches the
    sentinel MAX on every requested chromosome: every position has exactly one label -/
theorem haplotype_wellformed (n : Nat) (chromOf : Nat → Nat) (hmono : ∀ a b, a < b → b < n → chromOf a < chromOf b)
    {cs : List Copy} (ht : Tiles n 0 0 cs) (outs : List (List Seg)) (ho : Outs chromOf cs outs) :
    outs.flatten.Pairwise SegLt ∧ (∀ ci, ci < n → ∃ s ∈ outs.flatten, s.chrom = chromOf ci ∧ s.endc = MAX) :=
  C01.child_wf n chromOf hmono ht outs ho

/-- labels: a haplotype of a source individual carries its founding population's label (which numpy's
    `choice(p=fractions)` only draws with positive fraction); an admixed one only carries labels of its
    parents — by induction over generations no label is ever invented and the pseudo-population 0 never
    appears (no generation-1 individual is admixed) -/
theorem labels_from_parents (pop : Nat) (chromOf : Nat → Nat) (haps : Nat → Nat) (prev : Array (Array Seg))
    (cs : List Copy) (out : List Seg) (h : execP pop chromOf haps prev cs = .ok out) :
    ∀ s ∈ out, (pop ≠ 0 ∧ s.pop = pop) ∨
      (pop = 0 ∧ ∃ hom segs, prev[haps hom]? = some segs ∧ ∃ t ∈ segs.toList, s.pop = t.pop) :=
  execP_labels pop chromOf haps prev cs out h

/-- the file holds exactly the requested `n` samples, each as strand `_1` immediately followed by strand
    `_2` (`2n` haplotypes are drawn without replacement) -/
theorem write_framing (chosen : List (List String)) (n : Nat) (hl : chosen.length = 2 * n) :
    (writeBp chosen).length = 2 * n ∧ ∀ i, i < n →
      ((writeBp chosen)[2*i]?).map (·.1) = some s!"Sample_{i+1}_{1}" ∧
      ((writeBp chosen)[2*i+1]?).map (·.1) = some s!"Sample_{i+1}_{2}" :=
  ⟨by rw [writeBp_length, hl], writeBp_framing chosen n hl⟩

/-- the written form is accepted by haptools' own breakpoint reader and read back unchanged -/
theorem bp_reader_accepts (data : List (BpFile.Name × List BpFile.Block × List BpFile.Block)) :
    BpFile.parse (BpFile.render data) = data :=
  BpFile.parse_render data

/-- **every haplotype of every generation tiles every requested chromosome**: whatever the model (any number of
    generations and samples, any founding populations and parents) and whatever the random tapes, each output haplotype
    is strictly sorted by (chromosome, end) – base-pair ends strictly increase on a chromosome – and its last block on
    every requested chromosome reaches the sentinel, so that every position has exactly one label -/
theorem every_haplotype_tiles (n : Nat) (chromOf : Nat → Nat) (hmono : ∀ a b, a < b → b < n → chromOf a < chromOf b)
    (cmEnd : Nat → Int) (gens : List (List SampleTape)) (hok : TapesOK n 0 gens) :
    ∃ gs, simulateAll n chromOf cmEnd #[] gens = some gs ∧ ∀ g ∈ gs, ∀ segs ∈ g.toList,
      segs.toList.Pairwise SegLt ∧ ∀ ci, ci < n → ∃ s ∈ segs.toList, s.chrom = chromOf ci ∧ MAX ≤ s.endc := by
  obtain ⟨gs, h1, _, h3⟩ := C01.every_generation_wf n chromOf hmono cmEnd gens hok
  exact ⟨gs, h1, fun g hg segs hs => h3 g hg segs hs⟩

/-- **centimorgan ends never decrease**: if every recombination closes its tract at a marker of the genetic map
    (`e.endCm = f chrom e.endBp`), chromosomes are closed at their last marker (`cmEnd i = f chrom MAX`) and the map's
    cM never decreases with bp, then in every haplotype of every generation the cM ends never decrease along a
    chromosome (and every tract end is a point of the map) -/
theorem cm_never_decreases (f : Nat → Nat → Int) (hf : ∀ c a b, a ≤ b → f c a ≤ f c b)
    (n : Nat) (chromOf : Nat → Nat) (hmono : ∀ a b, a < b → b < n → chromOf a < chromOf b)
    (cmEnd : Nat → Int) (hend : ∀ i, cmEnd i = f (chromOf i) MAX)
    (gens : List (List SampleTape)) (hok : TapesOK n 0 gens)
    (hon : ∀ ts ∈ gens, ∀ t ∈ ts, EventsOnMap f chromOf t.events) :
    ∃ gs, simulateAll n chromOf cmEnd #[] gens = some gs ∧ ∀ g ∈ gs, ∀ segs ∈ g.toList,
      segs.toList.Pairwise (fun a b => a.chrom = b.chrom → a.cm ≤ b.cm) := by
  obtain ⟨gs, h1, _, h3⟩ := C01.every_generation_wf n chromOf hmono cmEnd gens hok
  have h4 := generations_onMap f n chromOf cmEnd hend gens #[] gs (by intro s hs; simp at hs) hon h1
  exact ⟨gs, h1, fun g hg segs hs => cm_mono_of_onMap f hf segs.toList (h3 g hg segs hs).1 (h4 g hg segs hs)⟩

/-- **labels are source populations only**: every label in every generation is the founding population of a source
    individual, i.e. a population the model file drew with positive probability – never 0, the admixed pseudo-population -/
theorem labels_are_sources (n : Nat) (chromOf : Nat → Nat) (cmEnd : Nat → Int) (gens : List (List SampleTape))
    (gs : List (Array (Array Seg))) (h : simulateAll n chromOf cmEnd #[] gens = some gs) :
    ∀ g ∈ gs, ∀ segs ∈ g.toList, ∀ s ∈ segs.toList, s.pop ≠ 0 ∧ ∃ ts ∈ gens, ∃ t ∈ ts, s.pop = t.pop := by
  intro g hg segs hs s hsm
  obtain ⟨ts, hts, t, ht, hp, he⟩ := C01.no_label_invented n chromOf cmEnd gens gs h g hg segs hs s hsm
  exact ⟨by rw [he]; exact hp, ts, hts, t, ht, he⟩

end C02
