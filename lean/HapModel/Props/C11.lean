import HapModel.Model.Tabix
import HapModel.Model.Scan
import HapModel.Model.HapSort
/-!
# C11 — index keeps every record; indexed queries equal filtering a full read

Model (`Model/Tabix.lean`): the line order produced by `Haplotypes.sort` + `to_str` as lists of
(sequence name, start); tabix's acceptance condition `TabixOK`; the contract of `TabixFile.fetch` (records on the
contig overlapping the interval, in file order) and `_iter_haps`' containment filter on top of it.
-/
namespace C11
open Tabix

/-- the sorted file is accepted by tabix: sequence names are contiguous and starts never decrease within one,
    for any record set whose haplotype IDs differ from its contig names -/
theorem sorted_is_tabix_ok (hr v : List L) (h1 : SortedHR hr) (h2 : SortedV v)
    (hdisj : ∀ x ∈ hr, ∀ y ∈ v, x.seq ≠ y.seq) : TabixOK (hr ++ v) :=
  sorted_file_ok hr v h1 h2 hdisj

/-- a region query of any shape (`c`, `c:a-`, `c:a-b`), alone or combined with an ID set, returns exactly the
    haplotypes and repeats lying entirely inside the region (and in the set) — the records that filtering a full
    read gives; containment implies overlap, so the overlap-based tabix fetch loses nothing -/
theorem region_query_eq_filter (c : Nat) (lo hi : Option Nat) (ids : Option (List Nat)) (recs : List HRec)
    (hwf : ∀ r ∈ recs, r.start ≤ r.stop) :
    iterRegionG c lo hi ids recs = recs.filter (fun r =>
      decide (r.chrom = c) && geOpt lo r.start && leOpt r.stop hi &&
      (match ids with | none => true | some l => l.contains r.id)) :=
  iterRegionG_eq_filter c lo hi ids recs hwf

/-- the closed form `c:a-b` -/
theorem region_ab_eq_filter (c a b : Nat) (ids : Option (List Nat)) (recs : List HRec)
    (hwf : ∀ r ∈ recs, r.start ≤ r.stop) :
    iterRegion c a b ids recs = recs.filter (fun r =>
      decide (r.chrom = c) && decide (a ≤ r.start) && decide (r.stop ≤ b) &&
      (match ids with | none => true | some l => l.contains r.id)) :=
  iterRegion_eq_filter c a b ids recs hwf

/-- an ID-only query with the early exit after `|ids|` matches returns exactly the matching records
    (unique IDs), in file order -/
theorem ids_only_query (ids recs : List String) (hids : ids.Nodup) (hrecs : recs.Nodup) :
    Scan.readIds ids recs = recs.filter (fun r => ids.contains r) :=
  Scan.readIds_eq_filter ids recs hids hrecs

/-- non-vacuity: nested, equal-coordinate and single-position records; the region end lies on a record end -/
example : (iterRegionG 1 (some 100) (some 200) none
    [⟨1, 100, 200, 0⟩, ⟨1, 120, 180, 1⟩, ⟨1, 200, 200, 2⟩, ⟨1, 150, 201, 3⟩, ⟨2, 100, 200, 4⟩, ⟨1, 99, 150, 5⟩]).map (·.id)
    = [0, 1, 2] := by decide

/-- **`index` keeps every record**: `Haplotypes.sort()` only permutes the haplotype and repeat records – none is lost,
    none duplicated – whatever the mix of H and R lines and whatever the contig names -/
theorem sort_keeps_every_record (l : List HRec) : (sortH l).Perm l := sortH_perm l

/-- the comparator shared by `Haplotype.__lt__` and `Repeat.__lt__` (chrom, start, end, ID) is a strict total order on
    records with distinct IDs: irreflexive, transitive, and two records neither of which precedes the other agree
    on all four keys -/
theorem comparator_strict_total (a b c : HRec) :
    hlt a a = false ∧ (hlt a b = true → hlt b c = true → hlt a c = true) ∧
    (hlt a b = false → hlt b a = false → a.chrom = b.chrom ∧ a.start = b.start ∧ a.stop = b.stop ∧ a.id = b.id) :=
  ⟨hlt_irrefl a, hlt_trans a b c, hlt_total a b⟩

/-- **… ordered so that tabix accepts it**: the sorted H/R records are contig by contig with non-decreasing starts -/
theorem sorted_records_tabix_ok (l : List HRec) : TabixOK ((sortH l).map toL) :=
  Tabix.sorted_records_tabix_ok l

/-- non-vacuity: contigs ranked 0 < 1, records interleaved; equal coordinates are ordered by ID -/
example : (sortH [⟨1, 10, 20, 3⟩, ⟨0, 30, 40, 2⟩, ⟨1, 10, 20, 1⟩, ⟨0, 5, 50, 0⟩]).map (·.id) = [0, 2, 1, 3] := by decide

end C11
