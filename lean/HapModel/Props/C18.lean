import HapModel.Model.Karyogram
/-!
# C18 — The karyogram draws exactly the sample's blocks from the breakpoints file

Model: `Karyogram.getBlocks` = line loop of `karyogram.GetHaplotypeBlocks`; `Karyogram.extend` = its
chromosome-end extension; cM in integer units of 1e-4 cM (`start = previous end + 1`).
-/
namespace C18
open Karyogram

/-- the drawn blocks are the (first) two strands of exactly the named sample, wherever it sits in the file;
    `build []` numbers each chromosome's blocks contiguously (`addBlock`): first start `1` (=1e-4 cM),
    then `previous stop + 1`; file order, file labels, recorded ends.  An absent sample gives `[]`. -/
theorem blocks_are_samples_strands (name : String) (gs : List Group) :
    getBlocks name (gs.flatMap groupLines) =
      ((gs.filter (fun g => g.1 = name)).map (fun g => build [] g.2)).take 2 :=
  getBlocks_spec name gs

/-- contiguity of what `build`/`addBlock` produce: the new block starts at 1 on a new chromosome and at
    `previous stop + 1` otherwise, and nothing before it changes -/
theorem addBlock_contiguous (blocks : List Blk) (pop : String) (chrom : Nat) (cm : Int) :
    ∃ b, addBlock blocks pop chrom cm = blocks ++ [b] ∧ b.pop = pop ∧ b.chrom = chrom ∧ b.stop = cm ∧
      b.start = (match blocks.getLast? with
        | none => 1
        | some p => if p.chrom ≠ chrom then 1 else p.stop + 1) :=
  ⟨_, rfl, rfl, rfl, rfl, rfl⟩

/-- a sample that is absent from the file yields no blocks (reported as an error by `PlotKaryogram`) -/
theorem absent_sample_empty (name : String) (gs : List Group) (h : ∀ g ∈ gs, g.1 ≠ name) :
    getBlocks name (gs.flatMap groupLines) = [] := by
  rw [getBlocks_spec]
  have : gs.filter (fun g => decide (g.1 = name)) = [] := by
    rw [List.filter_eq_nil_iff]; intro g hg; simpa using h g hg
  simp [this]

/-- with a chromosome-ends table, the last block of every chromosome, and only that block, is extended -/
theorem extension_exact (ends : Nat → Int) (blocks : List Blk) :
    extend ends blocks = extendSpec ends blocks :=
  extend_eq_spec ends blocks

/-- … also through the table lookup with Python's failure modes, whenever the table covers the chromosomes -/
theorem extension_exact_checked (tbl : List (Nat × Int)) (blocks : List Blk) (hne : blocks ≠ [])
    (hcov : ∀ b ∈ blocks, (lookupLast tbl b.chrom).isSome) :
    extendChecked tbl blocks = .ok (extendSpec (fun c => (lookupLast tbl c).getD 0) blocks) :=
  extendChecked_ok tbl blocks hne hcov

/-- F15 (fixed in /repo): the pre-fix code extended block `tind-1` -/
theorem extensionOld_refuted :
    let blocks : List Blk := [⟨"YRI", 1, 1, 100⟩, ⟨"CEU", 1, 101, 200⟩, ⟨"YRI", 2, 1, 150⟩]
    let ends : Nat → Int := fun c => if c = 1 then 255 else 185
    extendOld ends blocks ≠ extendSpec ends blocks ∧ extend ends blocks = extendSpec ends blocks :=
  extendOld_refuted

/-- non-vacuity: sample in the middle of a three-sample file, two chromosomes -/
example : getBlocks "A_B" (([("S", [("YRI", 1, 50)]), ("S", [("YRI", 1, 60)]),
      ("A_B", [("YRI", 1, 10), ("CEU", 1, 30), ("CEU", 2, 7)]), ("A_B", [("CEU", 1, 30), ("YRI", 2, 9)]),
      ("T", [("YRI", 1, 1)])] : List Group).flatMap groupLines)
    = [[⟨"YRI", 1, 1, 10⟩, ⟨"CEU", 1, 11, 30⟩, ⟨"CEU", 2, 1, 7⟩], [⟨"CEU", 1, 1, 30⟩, ⟨"YRI", 2, 1, 9⟩]] := by
  decide

end C18
