import HapModel.Model.Exec
import HapModel.Model.SimInv
/-!
# C01 — Simulated local ancestry is inherited unchanged from the parental haplotypes

Models: `Seg.startSegment` / `Seg.getSegment` (literal `start_segment` / `get_segment`), `Plan.plan` (the
`get_segment` calls issued by the per-sample loop of `_simulate`, random draws as input tapes),
`Plan.exec`/`Plan.execP` (`segments.extend(get_segment(…))`).
-/
namespace C01
open Seg Plan

/-- the binary search returns the first tract on the chromosome that ends at or after `start`
    (or `size` when the chromosome has none), for every (chrom, end)-sorted parental haplotype -/
theorem startSegment_spec {segs : Array Seg} (hs : Sorted segs) (c st : Nat) :
    Post c st segs (startSegment st c segs) :=
  startSegment_post hs c st

/-- kernel: on the copied interval the child carries, at every base pair, exactly the parental label; the
    copy is made of the parental tracts ending inside `[st,en)`, unchanged, plus one closing tract at `en`:
    nothing is lengthened, shortened, relabelled or dropped -/
theorem getSegment_copy (prev : Array (Array Seg)) (hap c st en : Nat) (cm : Int) (segs : Array Seg)
    (hprev : prev[hap]? = some segs) (hs : SortedL segs.toList) (hse : st ≤ en)
    (hcov : ∃ s ∈ segs.toList, s.chrom = c ∧ en ≤ s.endc) :
    ∃ out, getSegment 0 hap c st en cm prev = .ok out ∧
      (∀ pos, st ≤ pos → pos ≤ en → labelAt out c pos = labelAt segs.toList c pos) ∧
      (∃ body lab, out = body ++ [⟨lab, c, en, cm⟩] ∧
          ∀ s ∈ body, s ∈ segs.toList ∧ s.chrom = c ∧ st ≤ s.endc ∧ s.endc < en) :=
  Seg.getSegment_copy prev hap c st en cm segs hprev hs hse hcov

/-- an individual drawn from a source population gets that population's label on the whole interval -/
theorem getSegment_source (pop hap c st en : Nat) (cm : Int) (prev : Array (Array Seg)) (hp : pop ≠ 0) :
    getSegment pop hap c st en cm prev = .ok [⟨pop, c, en, cm⟩] := by
  simp [getSegment, hp]

/-- for every sorted recombination-event tape and every homolog tape, the copies issued for one simulated
    haplotype tile chromosomes 0 … n-1 consecutively: `[0,e₁],[e₁+1,e₂],…,[e_k+1,MAX]` on each, in order -/
theorem plan_tiles (n : Nat) (cmEnd : Nat → Int) (evs : List Event) (hom : Nat) (bits : List Nat)
    (hv : Valid n 0 0 evs) :
    Tiles n 0 0 (plan n cmEnd evs 0 0 hom bits) :=
  Plan.plan_tiles n cmEnd evs 0 0 hom bits hv (by simp)

/-- the concatenated result carries, on every copied interval of every chromosome, the label of the
    parental haplotype chosen for that interval (between consecutive recombination points the child
    equals the chosen parent at every base pair) -/
theorem exec_mosaic (n : Nat) (chromOf : Nat → Nat)
    (hinj : ∀ a b, a < n → b < n → chromOf a = chromOf b → a = b)
    (haps : Nat → Nat) (prev : Array (Array Seg))
    (hpar : ∀ hom, ∃ segs, prev[haps hom]? = some segs ∧ ParentWF n chromOf segs)
    {cs : List Copy} (ht : Tiles n 0 0 cs) :
    ∃ out, exec chromOf haps prev cs = .ok out ∧
      (∀ c ∈ cs, ∀ pos, c.st ≤ pos → pos ≤ c.en → ∀ segs, prev[haps c.hom]? = some segs →
          labelAt out (chromOf c.ci) pos = labelAt segs.toList (chromOf c.ci) pos) := by
  obtain ⟨out, h1, _, h3⟩ := Plan.exec_mosaic n chromOf hinj haps prev hpar ht
  exact ⟨out, h1, h3⟩

/-- the concatenation of per-copy outputs of a tiling plan is sorted by (chromosome, end) and reaches MAX on
    every chromosome: the child is again a well-formed parent (inductive step over generations) -/
theorem child_wf (n : Nat) (chromOf : Nat → Nat) (hmono : ∀ a b, a < b → b < n → chromOf a < chromOf b)
    {cs : List Copy} (ht : Tiles n 0 0 cs) (outs : List (List Seg)) (ho : Outs chromOf cs outs) :
    outs.flatten.Pairwise SegLt ∧
      (∀ ci, ci < n → ∃ s ∈ outs.flatten, s.chrom = chromOf ci ∧ s.endc = MAX) := by
  obtain ⟨h1, _, h3⟩ := concat_wf n chromOf hmono ht outs ho
  exact ⟨h1, fun ci h => h3 ci (Nat.zero_le _) h⟩

/-- a source-population individual: one tract per copy, all labelled with its population -/
theorem source_individual (pop : Nat) (hp : pop ≠ 0) (chromOf : Nat → Nat) (haps : Nat → Nat)
    (prev : Array (Array Seg)) (cs : List Copy) :
    execP pop chromOf haps prev cs = .ok (cs.map (fun c => ⟨pop, chromOf c.ci, c.en, c.cm⟩)) :=
  execP_source pop hp chromOf haps prev cs

/-- one `get_segment` call on a well-formed parent never fails and delivers a strictly (chromosome, end)-sorted
    piece that lies inside the copied interval and is closed exactly at its end -/
theorem copy_from_wf_parent (n : Nat) (chromOf : Nat → Nat) (prev : Array (Array Seg)) (hapIdx : Nat)
    (segs : Array Seg) (hprev : prev[hapIdx]? = some segs) (hwf : ParentWF n chromOf segs)
    (c : Copy) (hci : c.ci < n) (hse : c.st ≤ c.en) (hen : c.en ≤ MAX) :
    ∃ o, getSegment 0 hapIdx (chromOf c.ci) c.st c.en c.cm prev = .ok o ∧ CopyOut chromOf c o :=
  copyOut_of_getSegment n chromOf prev hapIdx segs hprev hwf c hci hse hen

/-- **every simulated haplotype is again a well-formed parent**: for an admixed individual with two well-formed
    parental haplotypes, and for a source individual unconditionally, `_simulate`'s concatenation of its
    `get_segment` calls succeeds and is strictly sorted and complete on every chromosome -/
theorem sample_wf (n : Nat) (chromOf : Nat → Nat) (hmono : ∀ a b, a < b → b < n → chromOf a < chromOf b)
    (pop : Nat) (haps : Nat → Nat) (prev : Array (Array Seg))
    (hpar : pop = 0 → ∀ hom, ∃ segs, prev[haps hom]? = some segs ∧ ParentWF n chromOf segs)
    {cs : List Copy} (ht : Tiles n 0 0 cs) :
    ∃ out, execP pop chromOf haps prev cs = .ok out ∧ ParentWF n chromOf out.toArray :=
  simSample_wf n chromOf hmono pop haps prev hpar ht

/-- **the invariant over generations, unbounded**: whatever the number of generations, the number of samples per
    generation, the founding populations, the choice of parents and the recombination / homolog tapes (as long as
    each tape is sorted and each admixed individual's parents exist in the previous generation), the simulation
    never fails and *every* haplotype of *every* generation is well formed — which is the precondition under
    which `getSegment_copy` and `exec_mosaic` state exact inheritance for the next generation -/
theorem every_generation_wf (n : Nat) (chromOf : Nat → Nat) (hmono : ∀ a b, a < b → b < n → chromOf a < chromOf b)
    (cmEnd : Nat → Int) (gens : List (List SampleTape)) (hok : TapesOK n 0 gens) :
    ∃ gs, simulateAll n chromOf cmEnd #[] gens = some gs ∧ gs.length = gens.length ∧
      ∀ g ∈ gs, GenWF n chromOf g :=
  generations_inv n chromOf hmono cmEnd gens #[] (genWF_empty n chromOf) hok

/-- **no label is ever invented, relabelled to "admixed" or taken from outside the model**: every tract of every
    generation carries the founding population of some source individual of the simulation -/
theorem no_label_invented (n : Nat) (chromOf : Nat → Nat) (cmEnd : Nat → Int) (gens : List (List SampleTape))
    (gs : List (Array (Array Seg))) (h : simulateAll n chromOf cmEnd #[] gens = some gs) :
    ∀ g ∈ gs, ∀ segs ∈ g.toList, ∀ s ∈ segs.toList,
      ∃ ts ∈ gens, ∃ t ∈ ts, t.pop ≠ 0 ∧ s.pop = t.pop := by
  have := generations_labels (fun p => ∃ ts ∈ gens, ∃ t ∈ ts, t.pop ≠ 0 ∧ p = t.pop) n chromOf cmEnd gens #[] gs
    (by intro s hs; simp at hs) (fun ts hts t ht hp => ⟨ts, hts, t, ht, hp, rfl⟩) h
  exact this

/-- non-vacuity: a two-generation run (one source founder of each of two populations, then an admixed child with one
    crossover on the first of two chromosomes) meets `TapesOK`, and the model computes the mosaic -/
def demoGens : List (List SampleTape) :=
  [ [⟨1, fun _ => 0, [], 0, [0, 0]⟩, ⟨2, fun _ => 0, [], 0, [0, 0]⟩],
    [⟨0, fun h => h % 2, [⟨0, 100, 5⟩], 0, [1, 0]⟩] ]

example : TapesOK 2 0 demoGens := by
  simp only [TapesOK, demoGens, TapeOK, Valid, MAX, List.mem_cons, List.not_mem_nil, or_false, forall_eq_or_imp,
    forall_eq, List.length_cons, List.length_nil, and_true]
  refine ⟨⟨⟨by omega, by intro h; cases h⟩, ⟨by omega, by intro h; cases h⟩⟩, ⟨by omega, by omega, by omega, by omega, by omega⟩, ?_⟩
  intro _ hom
  omega

/-- … hence the theorem applies to it: the run succeeds, has two generations, all of them well formed -/
example : ∃ gs, simulateAll 2 (fun i => i + 1) (fun _ => 50) #[] demoGens = some gs ∧ gs.length = 2 ∧
    ∀ g ∈ gs, GenWF 2 (fun i => i + 1) g :=
  every_generation_wf 2 (fun i => i + 1) (by intro a b h _; omega) (fun _ => 50) demoGens (by
    simp only [TapesOK, demoGens, TapeOK, Valid, MAX, List.mem_cons, List.not_mem_nil, or_false, forall_eq_or_imp,
      forall_eq, List.length_cons, List.length_nil, and_true]
    refine ⟨⟨⟨by omega, by intro h; cases h⟩, ⟨by omega, by intro h; cases h⟩⟩, ⟨by omega, by omega, by omega, by omega, by omega⟩, ?_⟩
    intro _ hom
    omega)

/-- F01 (fixed in /repo): the pre-fix closing label is wrong on an interval spanning a parental breakpoint -/
theorem getSegmentOld_refuted :
    (match getSegmentOld 0 0 1 0 150 15 #[witnessParent] with
     | .ok out => labelAt out 1 120 | .error _ => none) = some 1 ∧
    labelAt witnessParent.toList 1 120 = some 2 :=
  Seg.getSegmentOld_refuted

end C01
