import HapModel.Model.Exec
/-!
# C01 — Simulated local ancestry is inherited unchanged from the parental haplotypes

Models: `Seg.startSegment` / `Seg.getSegment` (literal `start_segment` / `get_segment`), `Plan.plan` (the
`get_segment` calls issued by the per-sample loop of `_simulate`, random draws as input tapes),
`Plan.exec`/`Plan.execP` (`segments.extend(get_segment(…))`).
-/
namespace C01
open Seg Plan

/-- the binary search returns the first tract on the chromosome that ends at or after `start`
    (or `size` when the chromosome has none), for every (chrom, end)-sorted parental haplotype -/
theorem startSegment_spec {segs : Array Seg} (hs : Sorted segs) (c st : Nat) :
    Post c st segs (startSegment st c segs) :=
  startSegment_post hs c st

/-- kernel: on the copied interval the child carries, at every base pair, exactly the parental label; the
    copy is made of the parental tracts ending inside `[st,en)`, unchanged, plus one closing tract at `en`:
    nothing is lengthened, shortened, relabelled or dropped -/
theorem getSegment_copy (prev : Array (Array Seg)) (hap c st en : Nat) (cm : Int) (segs : Array Seg)
    (hprev : prev[hap]? = some segs) (hs : SortedL segs.toList) (hse : st ≤ en)
    (hcov : ∃ s ∈ segs.toList, s.chrom = c ∧ en ≤ s.endc) :
    ∃ out, getSegment 0 hap c st en cm prev = .ok out ∧
      (∀ pos, st ≤ pos → pos ≤ en → labelAt out c pos = labelAt segs.toList c pos) ∧
      (∃ body lab, out = body ++ [⟨lab, c, en, cm⟩] ∧
          ∀ s ∈ body, s ∈ segs.toList ∧ s.chrom = c ∧ st ≤ s.endc ∧ s.endc < en) :=
  Seg.getSegment_copy prev hap c st en cm segs hprev hs hse hcov

/-- an individual drawn from a source population gets that population's label on the whole interval -/
theorem getSegment_source (pop hap c st en : Nat) (cm : Int) (prev : Array (Array Seg)) (hp : pop ≠ 0) :
    getSegment pop hap c st en cm prev = .ok [⟨pop, c, en, cm⟩] := by
  simp [getSegment, hp]

/-- for every sorted recombination-event tape and every homolog tape, the copies issued for one simulated
    haplotype tile chromosomes 0 … n-1 consecutively: `[0,e₁],[e₁+1,e₂],…,[e_k+1,MAX]` on each, in order -/
theorem plan_tiles (n : Nat) (cmEnd : Nat → Int) (evs : List Event) (hom : Nat) (bits : List Nat)
    (hv : Valid n 0 0 evs) :
    Tiles n 0 0 (plan n cmEnd evs 0 0 hom bits) :=
  Plan.plan_tiles n cmEnd evs 0 0 hom bits hv (by simp)

/-- the concatenated result carries, on every copied interval of every chromosome, the label of the
    parental haplotype chosen for that interval (between consecutive recombination points the child
    equals the chosen parent at every base pair) -/
theorem exec_mosaic (n : Nat) (chromOf : Nat → Nat)
    (hinj : ∀ a b, a < n → b < n → chromOf a = chromOf b → a = b)
    (haps : Nat → Nat) (prev : Array (Array Seg))
    (hpar : ∀ hom, ∃ segs, prev[haps hom]? = some segs ∧ ParentWF n chromOf segs)
    {cs : List Copy} (ht : Tiles n 0 0 cs) :
    ∃ out, exec chromOf haps prev cs = .ok out ∧
      (∀ c ∈ cs, ∀ pos, c.st ≤ pos → pos ≤ c.en → ∀ segs, prev[haps c.hom]? = some segs →
          labelAt out (chromOf c.ci) pos = labelAt segs.toList (chromOf c.ci) pos) := by
  obtain ⟨out, h1, _, h3⟩ := Plan.exec_mosaic n chromOf hinj haps prev hpar ht
  exact ⟨out, h1, h3⟩

/-- the concatenation of per-copy outputs of a tiling plan is sorted by (chromosome, end) and reaches MAX on
    every chromosome: the child is again a well-formed parent (inductive step over generations) -/
theorem child_wf (n : Nat) (chromOf : Nat → Nat) (hmono : ∀ a b, a < b → b < n → chromOf a < chromOf b)
    {cs : List Copy} (ht : Tiles n 0 0 cs) (outs : List (List Seg)) (ho : Outs chromOf cs outs) :
    outs.flatten.Pairwise SegLt ∧
      (∀ ci, ci < n → ∃ s ∈ outs.flatten, s.chrom = chromOf ci ∧ s.endc = MAX) := by
  obtain ⟨h1, _, h3⟩ := concat_wf n chromOf hmono ht outs ho
  exact ⟨h1, fun ci h => h3 ci (Nat.zero_le _) h⟩

/-- a source-population individual: one tract per copy, all labelled with its population -/
theorem source_individual (pop : Nat) (hp : pop ≠ 0) (chromOf : Nat → Nat) (haps : Nat → Nat)
    (prev : Array (Array Seg)) (cs : List Copy) :
    execP pop chromOf haps prev cs = .ok (cs.map (fun c => ⟨pop, chromOf c.ci, c.en, c.cm⟩)) :=
  execP_source pop hp chromOf haps prev cs

/-- F01 (fixed in /repo): the pre-fix closing label is wrong on an interval spanning a parental breakpoint -/
theorem getSegmentOld_refuted :
    (match getSegmentOld 0 0 1 0 150 15 #[witnessParent] with
     | .ok out => labelAt out 1 120 | .error _ => none) = some 1 ∧
    labelAt witnessParent.toList 1 120 = some 2 :=
  Seg.getSegmentOld_refuted

end C01
