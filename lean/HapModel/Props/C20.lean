import HapModel.Model.Validate
import HapModel.Props.C01
/-!
# C20 — simgenotype rejects malformed inputs up front and completes on well-formed ones

Model: `Validate.validate` = the literal chain of checks of `validate_params` (after F17), `Validate.prepare`
= the refusals of `_prepare_coords`, `Validate.pipeline` = both, i.e. everything that runs before the first
generation is simulated.  `Validate.Accepts` spells out every documented requirement; `accepted_iff` says the
pipeline accepts exactly the inputs meeting all of them, so each `rejects_…` statement is a corollary.
-/
namespace C20
open Validate

/-- acceptance ⇔ all documented requirements hold (and the effective population size is max(popsize, 10·n)) -/
theorem accepted_iff (tol : Rat) (inp : Inputs) (lfc : List Nat) (p : Int) :
    pipeline tol inp lfc = .ok p ↔
      Accepts tol inp p ∧ inp.mapFilesFound = inp.chroms.length ∧ ∀ k ∈ lfc, k = 4 :=
  pipeline_ok_iff tol inp lfc p

private theorem rej {tol inp lfc} (h : ∀ p, ¬ (Accepts tol inp p ∧ inp.mapFilesFound = inp.chroms.length ∧ ∀ k ∈ lfc, k = 4)) :
    ∀ p, pipeline tol inp lfc ≠ .ok p := fun p hp => h p ((pipeline_ok_iff tol inp lfc p).mp hp)

/-- a header whose sample count is not an integer is refused -/
theorem rejects_noninteger_samples (tol inp lfc) (h : inp.nSamples = none) : ∀ p, pipeline tol inp lfc ≠ .ok p :=
  rej (fun p ⟨⟨n, _, hn, _⟩, _⟩ => by rw [h] at hn; cases hn)

/-- a sample count below 1 is refused -/
theorem rejects_samples_lt_one (tol inp lfc) (n : Int) (h : inp.nSamples = some n) (hlt : n < 1) :
    ∀ p, pipeline tol inp lfc ≠ .ok p :=
  rej (fun p ⟨⟨n', _, hn, _, h1, _⟩, _⟩ => by rw [h] at hn; cases hn; omega)

/-- fewer than two source populations (the header lists `Admixed` plus the sources) -/
theorem rejects_few_populations (tol inp lfc) (h : inp.pops.length < 3) : ∀ p, pipeline tol inp lfc ≠ .ok p :=
  rej (fun p ⟨⟨_, _, _, h3, _⟩, _⟩ => by omega)

/-- any generation line (the first or any later one) that is malformed: non-integer or non-increasing
    generation, unparsable fractions, wrong number of fractions, fractions not summing to 1 -/
theorem rejects_bad_generation_line (tol inp lfc) (h : ¬ GensOK inp.pops.length tol 0 inp.gens) :
    ∀ p, pipeline tol inp lfc ≠ .ok p :=
  rej (fun p ⟨⟨_, _, _, _, _, hg, _⟩, _⟩ => h hg)

/-- a requested chromosome outside `1..22, X` is refused -/
theorem rejects_unknown_chromosome (tol inp lfc) (c : String) (hc : c ∈ inp.chroms) (hv : c ∉ validChroms) :
    ∀ p, pipeline tol inp lfc ≠ .ok p :=
  rej (fun p ⟨⟨_, _, _, _, _, _, _, hall, _⟩, _⟩ => hv (hall c hc))

/-- a requested chromosome without a genetic map file in `--mapdir` is refused -/
theorem rejects_missing_map (tol inp lfc) (h : inp.mapFilesFound ≠ inp.chroms.length) :
    ∀ p, pipeline tol inp lfc ≠ .ok p :=
  rej (fun p ⟨_, hm, _⟩ => h hm)

/-- a genetic map line that does not have exactly four fields is refused -/
theorem rejects_malformed_map_line (tol inp lfc) (k : Nat) (hk : k ∈ lfc) (h4 : k ≠ 4) :
    ∀ p, pipeline tol inp lfc ≠ .ok p :=
  rej (fun p ⟨_, _, hall⟩ => h4 (hall k hk))

/-- a `--popsize` of zero or below is refused -/
theorem rejects_nonpositive_popsize (tol inp lfc) (ps : Int) (h : inp.popsize = some ps) (hle : ps ≤ 0) :
    ∀ p, pipeline tol inp lfc ≠ .ok p :=
  rej (fun p ⟨⟨_, ps', _, _, _, _, _, _, _, hp, hpos, _⟩, _⟩ => by rw [h] at hp; cases hp; omega)

/-- a region whose start exceeds its end, with and without `--only_breakpoint` (F17) -/
theorem rejects_inverted_region (tol inp lfc) (s e : Nat) (hr : inp.region = some (s, e)) (hse : s > e) :
    ∀ p, pipeline tol inp lfc ≠ .ok p :=
  rej (fun p ⟨⟨_, _, _, _, _, _, _, _, _, _, _, _, hreg, _⟩, _⟩ => by have := hreg s e hr; omega)

/-- a reference sample of a model population that is absent from the reference file -/
theorem rejects_sample_absent_from_reference (tol inp lfc) (vcf : List String) (hb : inp.onlyBp = false)
    (hv : inp.vcfSamples = some vcf) (sp : String × String) (hsp : sp ∈ inp.sampleInfo)
    (hpop : sp.2 ∈ inp.pops) (habs : sp.1 ∉ vcf) : ∀ p, pipeline tol inp lfc ≠ .ok p :=
  rej (fun p ⟨⟨_, _, _, _, _, _, _, _, _, _, _, _, _, hor⟩, _⟩ => by
    rcases hor with h | ⟨vcf', hv', hs, _⟩
    · rw [hb] at h; cases h
    · rw [hv] at hv'; cases hv'; exact habs (hs sp hsp hpop))

/-- a model population absent from the sample-info file, or (with `--no_replacement`) with fewer reference
    samples than simulated samples -/
theorem rejects_population_without_samples (tol inp lfc) (n : Int) (hn : inp.nSamples = some n)
    (hb : inp.onlyBp = false) (pop : String) (hp : pop ∈ inp.pops.drop 1)
    (hbad : (inp.sampleInfo.map (·.2)).contains pop = false ∨
      (inp.noReplacement = true ∧ ((inp.sampleInfo.filter (fun sp => sp.2 = pop)).length : Int) < n)) :
    ∀ p, pipeline tol inp lfc ≠ .ok p :=
  rej (fun p ⟨⟨n', _, hn', _, _, _, _, _, _, _, _, _, _, hor⟩, _⟩ => by
    rw [hn] at hn'; cases hn'
    rcases hor with h | ⟨_, _, _, hpops⟩
    · rw [hb] at h; cases h
    · have := hpops pop hp
      rcases hbad with h1 | ⟨h1, h2⟩
      · rw [h1] at this; cases this.1
      · have := this.2 h1; omega)

/-- accepted ⇒ the effective population size is at least ten times the number of requested samples -/
theorem effective_popsize (tol inp lfc) (p n : Int) (hn : inp.nSamples = some n)
    (h : pipeline tol inp lfc = .ok p) : 10 * n ≤ p := by
  obtain ⟨⟨n', ps, hn', _, _, _, _, _, _, _, _, hp, _⟩, _⟩ := (pipeline_ok_iff tol inp lfc p).mp h
  rw [hn] at hn'; cases hn'
  rw [hp]; exact Int.le_max_right ..

/-- well-formed inputs are accepted (the converse direction of `accepted_iff`) -/
theorem accepts_wellformed (tol inp lfc) (p : Int)
    (h : Accepts tol inp p ∧ inp.mapFilesFound = inp.chroms.length ∧ ∀ k ∈ lfc, k = 4) :
    pipeline tol inp lfc = .ok p :=
  (pipeline_ok_iff tol inp lfc p).mpr h

/-- **completion, partial**: once accepted, the simulation of a haplotype cannot fail — every copy plan issued
    for a valid event tape executes successfully on well-formed parents (C01).  PARTIAL: the generation
    induction (children are again well-formed parents, `C01.child_wf`) and the rejection sampling of equal
    parents (`while haplotypes[2i] == haplotypes[2i+1]`, terminates with probability 1 for popsize ≥ 2) are
    not chained here; the harness runs accepted inputs to completion instead. -/
theorem completes_partial (n : Nat) (chromOf : Nat → Nat)
    (hinj : ∀ a b, a < n → b < n → chromOf a = chromOf b → a = b)
    (haps : Nat → Nat) (prev : Array (Array Seg))
    (hpar : ∀ hom, ∃ segs, prev[haps hom]? = some segs ∧ Plan.ParentWF n chromOf segs)
    (cmEnd : Nat → Int) (evs : List Plan.Event) (hom : Nat) (bits : List Nat) (hv : Plan.Valid n 0 0 evs) :
    ∃ out, Plan.exec chromOf haps prev (Plan.plan n cmEnd evs 0 0 hom bits) = .ok out := by
  obtain ⟨out, h, _⟩ := C01.exec_mosaic n chromOf hinj haps prev hpar (C01.plan_tiles n cmEnd evs hom bits hv)
  exact ⟨out, h⟩

end C20
