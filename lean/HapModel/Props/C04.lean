import HapModel.Model.Transform
/-!
# C04 — transform reports a haplotype exactly where all its alleles (and ancestry) match

Model: `Transform.single` / `setwise` (`Haplotype.transform`, `Haplotypes.transform`) and `singleA` /
`setwiseA` (`HaplotypeAncestry.transform`, `HaplotypesAncestry.transform`); specification `carries` /
`carriesA`: the strand carries the listed allele (index in the variant's allele list, REF or any ALT) at every
variant of the haplotype, and its local ancestry there is the haplotype's label.
-/
namespace C04
open Transform

/-- the per-haplotype implementation (`Haplotype.transform`: allele comparison, then `all` over the haplotype's variants) answers exactly the specification: strand `k` of sample `s` carries the haplotype iff it carries the listed allele at every one of its variants -/
theorem single_eq_spec (g : Geno) (h : Hap) (s k : Nat) : single g h s k = carries g h s k :=
  Transform.single_eq_spec g h s k

/-- for every haplotype of the set (overlapping haplotypes, one variant with different alleles in different
    haplotypes, any order) the set-wise answer is the specified one … -/
theorem set_eq_spec (g : Geno) (haps : List Hap) (h : Hap) (hh : h ∈ haps) (s k : Nat) :
    setwise g haps h s k = carries g h s k :=
  setwise_eq_spec g haps h hh s k

/-- … so the single-haplotype and the whole-set implementations agree -/
theorem single_eq_set (g : Geno) (haps : List Hap) (h : Hap) (hh : h ∈ haps) (s k : Nat) :
    single g h s k = setwise g haps h s k := by
  rw [single_eq_spec, set_eq_spec g haps h hh]

/-- the same with `--ancestry`: the single-haplotype implementation reports the haplotype iff every listed allele matches and the strand's local ancestry at every variant is the haplotype's ancestry label -/
theorem singleAnc_eq_spec (ga : GenoA) (code : Option Nat) (h : Hap) (s k : Nat) :
    singleA ga code h s k = carriesA ga code h s k :=
  singleA_eq_spec ga code h s k

/-- … and so does the vectorised set-wise implementation (`Haplotypes.transform` with `GenotypesAncestry`), for every haplotype of the set -/
theorem setAnc_eq_spec (ga : GenoA) (code : Option Nat) (haps : List Hap) (h : Hap) (hh : h ∈ haps) (s k : Nat) :
    setwiseA ga code haps h s k = carriesA ga code h s k :=
  setwiseA_eq_spec ga code haps h hh s k

/-- a label occurring nowhere in the data never matches and never fails -/
theorem absent_label_never_matches (ga : GenoA) (h : Hap) (hne : h.vars ≠ []) (s k : Nat) :
    carriesA ga none h s k = false :=
  Transform.absent_label_never_matches ga h hne s k

/-- the answer only depends on the ancestry *labels* at the haplotype's variants: two ancestry sources (POP fields,
    breakpoints file) that give every (sample, variant, strand) the same label code give the same answer -/
theorem anc_source_irrelevant (g : Geno) (anc1 anc2 : Nat → String → Nat → Nat) (code : Option Nat) (h : Hap) (s k : Nat)
    (hsame : ∀ key ∈ h.vars, anc1 s key.1 k = anc2 s key.1 k) :
    carriesA ⟨g, anc1⟩ code h s k = carriesA ⟨g, anc2⟩ code h s k := by
  unfold carriesA ancAll
  congr 1
  apply all_congr_mem
  intro key hk
  cases code with
  | none => rfl
  | some c => simp only [hsame key hk]

end C04
