import HapModel.Model.PhenoFile
import HapModel.Model.ReplicationNamesStd
/-!
# C15 — Phenotype/covariate files round-trip bit-exactly; table operations are exact   (PARTIAL)

The round trip is proved at token level under the codec contract `parse (fmt v) = some v`; that numpy's shortest
round-trip printing and `float64(token)` satisfy the contract for every double is checked bitwise by the harness,
not proved (no IEEE printing/parsing formalisation is available).  Real-arithmetic facts about `standardize` are
`C09R.standardize_mean_zero` / `standardize_var_one` (HapReal).
-/
namespace C15
open PhenoFile Pheno

/-- reading what was written returns the same rows and the names made unique, for any value codec whose parser inverts its formatter (the bit-exactness of the float codec is what the correspondence run checks) -/
theorem parse_render {V} (fmt : V → String) (parse : String → Option V) (hc : ∀ v, parse (fmt v) = some v)
    (t : Table V) (hn : t.names ≠ []) :
    (parseT parse (renderT fmt t)).map (fun r => (r.names, r.rows)) = some (uniqNames t.names, t.rows) :=
  PhenoFile.parse_render fmt parse hc t hn

/-- rows with non-numeric entries are skipped, never misparsed or shifted -/
theorem bad_rows_skipped_not_shifted {V} (parse : String → Option V) (h : List String) (body : List (List String))
    (hh : isComment h = false) (hl : ¬ h.length < 2) :
    (parseT parse (h :: body)).map (·.rows) = some (body.filterMap (parseRow parse)) :=
  rows_are_the_parsable_rows parse h body hh hl

/-- a parsed row is its own line: the sample is the line's first field and the values are the parses of the line's remaining fields, in order – nothing is taken from a neighbouring line or shifted -/
theorem parsed_row_is_its_line {V} (parse : String → Option V) (l : List String) (s : String) (vs : List V)
    (h : parseRow parse l = some (s, vs)) : ∃ toks, l = s :: toks ∧ toks.mapM parse = some vs :=
  PhenoFile.parsed_row_is_its_line parse l s vs h

/-- comment lines before the header are ignored -/
theorem leading_comments_ignored {V} (parse : String → Option V) (c : List String) (lines : List (List String))
    (hc : isComment c = true) : parseT parse (c :: lines) = parseT parse lines :=
  PhenoFile.leading_comments_ignored parse c lines hc

/-- **every name multiset is written with pairwise distinct column names** (after fix F27): whatever repeats the list
    holds, and whether or not suffixed forms such as `a-1` occur as names in their own right, the header that
    `Phenotypes.write` produces has no repeated name – and as many names as were given, in the same positions -/
theorem names_made_unique (names : List String) :
    (uniqNames names).Nodup ∧ (uniqNames names).length = names.length :=
  ⟨uniqNames_nodup names, uniqNames_length names⟩

/-- duplicates of one name become `x, x-1, …, x-(R-1)`, pairwise distinct (instance of `names_made_unique`) -/
theorem repeated_name_made_unique (x : String) (R : Nat) : (uniqNames (List.replicate R x)).Nodup :=
  replication_names_distinct x R

/-- F27 (fixed in /repo; formerly known finding KF2): the pre-fix suffix scheme wrote a repeated name when a suffixed
    form was already a name -/
theorem uniqNamesOld_collision_witness : uniqNamesOld ["a", "a", "a-1"] = ["a", "a-1", "a-1"] :=
  Pheno.uniqNamesOld_collision_witness

end C15
