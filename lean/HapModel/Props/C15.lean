import HapModel.Model.PhenoFile
import HapModel.Model.ReplicationNamesStd
import HapModel.Model.FloatText
/-!
# C15 — Phenotype/covariate files round-trip bit-exactly; table operations are exact   (PARTIAL)

The round trip is proved at token level under the codec contract `parse (fmt v) = some v`.  For the float codec the
contract is split (Model/FloatText): *every* correctly rounding reader inverts *every* writer whose tokens lie in the
rounding interval of the value they stand for (`float_codec_contract`, from `decimal_reads_as_at_most_one_double`); that the
tokens the real writer produced lie in those intervals is decided exactly, over the integers, for each written token by
the driver (`FloatText.checkTok`, meaning `checked_token_reads_back_everywhere`).  That numpy's shortest printing meets the
interval for every double, and that `float()` rounds correctly, is not proved (no formalisation of Dragon4 / strtod).  Real-arithmetic facts about `standardize` are
`C09R.standardize_mean_zero` / `standardize_var_one` (HapReal).
-/
namespace C15
open PhenoFile Pheno

/-- reading what was written returns the same rows and the names made unique, for any value codec whose parser inverts its formatter (the bit-exactness of the float codec is what the correspondence run checks) -/
theorem parse_render {V} (fmt : V → String) (parse : String → Option V) (hc : ∀ v, parse (fmt v) = some v)
    (t : Table V) (hn : t.names ≠ []) :
    (parseT parse (renderT fmt t)).map (fun r => (r.names, r.rows)) = some (uniqNames t.names, t.rows) :=
  PhenoFile.parse_render fmt parse hc t hn

/-- rows with non-numeric entries are skipped, never misparsed or shifted -/
theorem bad_rows_skipped_not_shifted {V} (parse : String → Option V) (h : List String) (body : List (List String))
    (hh : isComment h = false) (hl : ¬ h.length < 2) :
    (parseT parse (h :: body)).map (·.rows) = some (body.filterMap (parseRow parse)) :=
  rows_are_the_parsable_rows parse h body hh hl

/-- a parsed row is its own line: the sample is the line's first field and the values are the parses of the line's remaining fields, in order – nothing is taken from a neighbouring line or shifted -/
theorem parsed_row_is_its_line {V} (parse : String → Option V) (l : List String) (s : String) (vs : List V)
    (h : parseRow parse l = some (s, vs)) : ∃ toks, l = s :: toks ∧ toks.mapM parse = some vs :=
  PhenoFile.parsed_row_is_its_line parse l s vs h

/-- comment lines before the header are ignored -/
theorem leading_comments_ignored {V} (parse : String → Option V) (c : List String) (lines : List (List String))
    (hc : isComment c = true) : parseT parse (c :: lines) = parseT parse lines :=
  PhenoFile.leading_comments_ignored parse c lines hc

/-- **every name multiset is written with pairwise distinct column names** (after fix F27): whatever repeats the list
    holds, and whether or not suffixed forms such as `a-1` occur as names in their own right, the header that
    `Phenotypes.write` produces has no repeated name – and as many names as were given, in the same positions -/
theorem names_made_unique (names : List String) :
    (uniqNames names).Nodup ∧ (uniqNames names).length = names.length :=
  ⟨uniqNames_nodup names, uniqNames_length names⟩

/-- duplicates of one name become `x, x-1, …, x-(R-1)`, pairwise distinct (instance of `names_made_unique`) -/
theorem repeated_name_made_unique (x : String) (R : Nat) : (uniqNames (List.replicate R x)).Nodup :=
  replication_names_distinct x R

/-- F27 (fixed in /repo; formerly known finding KF2): the pre-fix suffix scheme wrote a repeated name when a suffixed
    form was already a name -/
theorem uniqNamesOld_collision_witness : uniqNamesOld ["a", "a", "a-1"] = ["a", "a-1", "a-1"] :=
  Pheno.uniqNamesOld_collision_witness

/-! ### The float codec (Model/FloatText): magnitudes in units of 2^-1074, `m * 2^s` with a 53-bit significand -/
open FloatText in
/-- **a decimal value is a correctly rounded (nearest, ties-to-even) reading of at most one double**: two canonical
    doubles whose rounding intervals both hold `a / b` are the same double -/
theorem decimal_reads_as_at_most_one_double (a b : Nat) (hb : 0 < b) (d1 d2 : Mag) (h1 : Canon d1) (h2 : Canon d2)
    (r1 : RoundsTo a b d1) (r2 : RoundsTo a b d2) : d1 = d2 :=
  roundsTo_unique a b hb d1 d2 h1 h2 r1 r2

open FloatText in
/-- **the float codec contract**: any writer whose token for `d` lies in the rounding interval of `d`, read by any
    reader that returns a correctly rounded double, gives back `d` – for every double, whatever digits the writer
    chose (shortest, 17 significant, exact) -/
theorem float_codec_contract (print : Mag → Nat × Nat) (parse : Nat × Nat → Mag)
    (hprint : ∀ d, Canon d → 0 < (print d).2 ∧ RoundsTo (print d).1 (print d).2 d)
    (hparse : ∀ q : Nat × Nat, 0 < q.2 → (∃ d, Canon d ∧ RoundsTo q.1 q.2 d) →
      Canon (parse q) ∧ RoundsTo q.1 q.2 (parse q))
    (d : Mag) (hd : Canon d) : parse (print d) = d := by
  obtain ⟨hb, hr⟩ := hprint d hd
  obtain ⟨hc, hr'⟩ := hparse (print d) hb ⟨d, hd, hr⟩
  exact roundsTo_unique _ _ hb _ _ hc hd hr' hr

open FloatText in
/-- the exact decimal expansion of a double reads back as that double: no rounding interval is empty -/
theorem exact_value_reads_back (d : Mag) (h : Canon d) : RoundsTo d.val 1 d := roundsTo_self d h

open FloatText in
/-- what the driver's verdict `reads` on a (bits, token) pair of a written file means: the bits are a finite double,
    the token is a decimal of the same sign inside its rounding interval, and no other double's interval holds it -/
theorem checked_token_reads_back_everywhere (bits : Nat) (tok : String) (h : checkTok bits tok = .reads) :
    ∃ n d t, ofBits bits = .fin n d ∧ parseTok tok = some (.dec t) ∧ n = t.neg ∧ Canon d ∧
      RoundsTo t.frac.1 t.frac.2 d ∧ ∀ d', Canon d' → RoundsTo t.frac.1 t.frac.2 d' → d' = d :=
  checkTok_reads bits tok h

open FloatText in
/-- bit patterns decode to canonical magnitudes (the hypothesis `Canon` above is met by every finite double) -/
theorem bits_decode_canonical (bits : Nat) (neg : Bool) (d : Mag) (h : ofBits bits = .fin neg d) : Canon d :=
  ofBits_canon bits neg d h

open FloatText in
/-- **the value the model hands out for a decimal token is the one correctly rounded double**: `readDecTok` computes a
    candidate by integer division and hands it out only after the certificate `Canon d ∧ RoundsTo … d` evaluated to true,
    and no other double passes that certificate -/
theorem value_handed_out_is_the_correct_reading (t : Dec) (bits : Nat) (h : readDecTok t = .bits bits) :
    ∃ d, bits = toBits t.neg d ∧ Canon d ∧ RoundsTo t.frac.1 t.frac.2 d ∧
      ∀ d', Canon d' → RoundsTo t.frac.1 t.frac.2 d' → d' = d :=
  readDecTok_bits t bits h

/-! non-vacuity: `1e+23` is exactly half-way between two doubles and is read as the one with the even significand
    (0x44B52D02C7E14AF6), not as its neighbour; `0.1` is read as 0x3FB999999999999A -/
set_option exponentiation.threshold 2000 in
open FloatText in
example : let t : Dec := ⟨false, 1, 23⟩
    RoundsTo t.frac.1 t.frac.2 ⟨0x152D02C7E14AF6, 0x44B - 1⟩ ∧ ¬ RoundsTo t.frac.1 t.frac.2 ⟨0x152D02C7E14AF7, 0x44B - 1⟩ := by
  decide +kernel
set_option exponentiation.threshold 2000 in
open FloatText in
example : let t : Dec := ⟨false, 1, -1⟩
    RoundsTo t.frac.1 t.frac.2 ⟨0x1999999999999A, 0x3FB - 1⟩ ∧ Canon ⟨0x1999999999999A, 0x3FB - 1⟩ := by
  decide +kernel
open FloatText in
example : ofBits 0x44B52D02C7E14AF6 = .fin false ⟨0x152D02C7E14AF6, 0x44B - 1⟩ := by decide

end C15
