import HapModel.Model.LdPlan
import HapModel.Model.Transform
/-!
# C16 — haptools ld reports the Pearson correlation of dosages   (PARTIAL)

Core-only: the listing bookkeeping of `calc_ld` (`Model/LdPlan.lean`) and the haplotype dosage (number of strands
carrying all alleles, via C04's `carries`).  Real-arithmetic facts (`C16R.pearson_symm`, `pearson_sq_le_one`,
`undefined_iff_constant`) are in HapReal.  `np.corrcoef` and the `%.3f` rounding are floating point: the printed
value is compared with the exact rational correlation by the harness.
-/
namespace C16
open LdPlan

/-- `.hap` output: every requested haplotype of the file is listed exactly once, the target haplotype never -/
theorem listing_hap_mode (haps : List String) (hnd : haps.Nodup) (target : String) (ids : Option (List String)) :
    (listHapMode haps target ids).Nodup ∧ target ∉ listHapMode haps target ids ∧
    ∀ h, h ∈ listHapMode haps target ids ↔
      (h ∈ haps ∧ h ≠ target ∧ (match ids with | none => True | some l => h ∈ l)) :=
  listHapMode_spec haps hnd target ids

/-- `--from-gts`, haplotype target: every requested variant listed exactly once (repeated `--id` included) -/
theorem listing_from_gts_hap_target (fileVars : List String) (hnd : fileVars.Nodup) (ids : Option (List String)) :
    (listGtsHapTarget fileVars ids).Nodup ∧
    ∀ v, v ∈ listGtsHapTarget fileVars ids ↔
      (v ∈ fileVars ∧ (match ids with | none => True | some l => v ∈ l)) :=
  listGtsHapTarget_spec fileVars hnd ids

/-- `--from-gts`, variant target -/
theorem listing_from_gts_var_target (fileVars : List String) (hnd : fileVars.Nodup) (target : String)
    (ids : Option (List String)) :
    (listGtsVarTarget fileVars target ids).Nodup ∧
    ∀ v, v ∈ listGtsVarTarget fileVars target ids ↔
      (v ∈ fileVars ∧ (match ids with | none => True | some l => v ∈ l ∨ v = target)) :=
  listGtsVarTarget_spec fileVars hnd target ids

/-- a haplotype's dosage is the number of strands carrying all of its alleles (C04's specification) -/
def hapDosage (g : Transform.Geno) (h : Transform.Hap) (s : Nat) : Nat :=
  (if Transform.carries g h s 0 then 1 else 0) + (if Transform.carries g h s 1 then 1 else 0)

/-- the dosage of a haplotype used by `ld` is the number of the sample's two strands that carry all of its alleles, whether computed per haplotype or by the set-wise transform -/
theorem hap_dosage_counts_strands (g : Transform.Geno) (haps : List Transform.Hap) (h : Transform.Hap)
    (hh : h ∈ haps) (s : Nat) :
    hapDosage g h s =
      (if Transform.setwise g haps h s 0 then 1 else 0) + (if Transform.setwise g haps h s 1 then 1 else 0) := by
  unfold hapDosage
  rw [Transform.setwise_eq_spec g haps h hh s 0, Transform.setwise_eq_spec g haps h hh s 1]

end C16
