import HapModel.Model.LdPlan
import HapModel.Model.Transform
import HapModel.Model.LdStat
/-!
# C16 — haptools ld reports the Pearson correlation of dosages   (PARTIAL)

Core-only: the listing bookkeeping of `calc_ld` (`Model/LdPlan.lean`) and the haplotype dosage (number of strands
carrying all alleles, via C04's `carries`).  Real-arithmetic facts (`C16R.pearson_symm`, `pearson_sq_le_one`,
`undefined_iff_constant`) are in HapReal.  `np.corrcoef` and the `%.3f` rounding are floating point: the printed
value is compared with the exact rational correlation by the harness.
-/
namespace C16
open LdPlan

/-- `.hap` output: every requested haplotype of the file is listed exactly once, the target haplotype never -/
theorem listing_hap_mode (haps : List String) (hnd : haps.Nodup) (target : String) (ids : Option (List String)) :
    (listHapMode haps target ids).Nodup ∧ target ∉ listHapMode haps target ids ∧
    ∀ h, h ∈ listHapMode haps target ids ↔
      (h ∈ haps ∧ h ≠ target ∧ (match ids with | none => True | some l => h ∈ l)) :=
  listHapMode_spec haps hnd target ids

/-- `--from-gts`, haplotype target: every requested variant listed exactly once (repeated `--id` included) -/
theorem listing_from_gts_hap_target (fileVars : List String) (hnd : fileVars.Nodup) (ids : Option (List String)) :
    (listGtsHapTarget fileVars ids).Nodup ∧
    ∀ v, v ∈ listGtsHapTarget fileVars ids ↔
      (v ∈ fileVars ∧ (match ids with | none => True | some l => v ∈ l)) :=
  listGtsHapTarget_spec fileVars hnd ids

/-- `--from-gts`, variant target -/
theorem listing_from_gts_var_target (fileVars : List String) (hnd : fileVars.Nodup) (target : String)
    (ids : Option (List String)) :
    (listGtsVarTarget fileVars target ids).Nodup ∧
    ∀ v, v ∈ listGtsVarTarget fileVars target ids ↔
      (v ∈ fileVars ∧ (match ids with | none => True | some l => v ∈ l ∨ v = target)) :=
  listGtsVarTarget_spec fileVars hnd target ids

/-- a haplotype's dosage is the number of strands carrying all of its alleles (C04's specification) -/
def hapDosage (g : Transform.Geno) (h : Transform.Hap) (s : Nat) : Nat :=
  (if Transform.carries g h s 0 then 1 else 0) + (if Transform.carries g h s 1 then 1 else 0)

/-- the dosage of a haplotype used by `ld` is the number of the sample's two strands that carry all of its alleles, whether computed per haplotype or by the set-wise transform -/
theorem hap_dosage_counts_strands (g : Transform.Geno) (haps : List Transform.Hap) (h : Transform.Hap)
    (hh : h ∈ haps) (s : Nat) :
    hapDosage g h s =
      (if Transform.setwise g haps h s 0 then 1 else 0) + (if Transform.setwise g haps h s 1 then 1 else 0) := by
  unfold hapDosage
  rw [Transform.setwise_eq_spec g haps h hh s 0, Transform.setwise_eq_spec g haps h hh s 1]

/-- `LD(A,B) = LD(B,A)`: swapping target and listed item gives the same three integers (the two denominators
    trade places), hence the same `R` -/
theorem ld_symmetric (a b : List Int) (h : a.length = b.length) :
    LdStat.stat b a = (LdStat.stat a b).map (fun s => ⟨s.num, s.db, s.da⟩) :=
  LdStat.stat_symm a b h

/-- … and the same set of acceptable printed values -/
theorem ld_symmetric_as_printed (tol K p : Int) (s : LdStat.Stat) :
    LdStat.printsAs tol K p ⟨s.num, s.db, s.da⟩ = LdStat.printsAs tol K p s :=
  LdStat.printsAs_symm tol K p s

/-- the output has one row per listed name, in the listing's order: nothing is added, dropped or repeated by the
    computation of the values -/
theorem one_row_per_listed_name (g : Transform.Geno) (keep : List Nat) (target : LdStat.Name)
    (listed : List (String × LdStat.Name)) :
    (LdStat.rows g keep target listed).map (·.1) = listed.map (·.1) :=
  LdStat.rows_names g keep target listed

/-- the dosage the statistic is computed from is C04's: strands carrying all alleles (model-level identity used by
    `LdStat.rows`) -/
theorem rows_use_strand_dosage (g : Transform.Geno) (h : Transform.Hap) (s : Nat) :
    LdStat.hapDosage g h s = (hapDosage g h s : Int) := by
  unfold LdStat.hapDosage hapDosage
  split <;> split <;> rfl

/-- non-vacuity: a concrete pair with `R = −1/2`, printed as `-0.500` only -/
example : LdStat.stat [0, 1, 2, 1] [2, 0, 1, 1] = some ⟨-4, 8, 8⟩ ∧
    LdStat.accepted 2 1000000 ⟨-4, 8, 8⟩ = [-500] := by decide +kernel

end C16
