import HapModel.Model.Cli
import HapModel.Model.Obj
/-!
# C19 — CLI and Python entry points agree; list-in-file options equal repeated options   (PARTIAL)

Model: `Cli.resolveSamples` / `Cli.resolveIds` = the option post-processing of transform, simphenotype and ld in
`__main__.py`; unknown IDs are handled by the by-ID subset of C12 (`Cache.specPositions`).  click's own parsing and
exit-code policy are trusted; the plumbing of every CLI parameter to the API parameter of the same name is checked
by running both entry points on the same inputs.
-/
namespace C19
open Cli

/-- giving samples in a file is equivalent to repeating `--sample` -/
theorem samples_file_eq_repeated (xs : List String) (h : xs ≠ []) :
    resolveSamples xs none = resolveSamples [] (some xs) :=
  Cli.samples_file_eq_repeated xs h

/-- giving IDs in a file is equivalent to repeating `--id` (same list, same order) -/
theorem ids_file_eq_repeated (xs : List String) (h : xs ≠ []) :
    resolveIds xs none = resolveIds [] (some xs) :=
  Cli.ids_file_eq_repeated xs h

/-- supplying both forms of sample selection is a usage error -/
theorem both_is_usage_error (xs ys : List String) (h : xs ≠ []) :
    resolveSamples xs (some ys) = .error .both :=
  samples_both_rejected xs ys h

/-- giving neither selects everything (`None` is handed to the API) -/
theorem empty_is_none : resolveSamples [] none = .ok none ∧ resolveIds [] none = none :=
  nothing_given

/-- unknown IDs are dropped, never replaced by others: every selected position bears a requested ID that is
    present, in the requested order -/
theorem unknown_ids_dropped (ids req : List String) :
    ∀ p ∈ Cache.specPositions ids req, p.1 ∈ req ∧ p.1 ∈ ids := by
  intro p hp
  unfold Cache.specPositions at hp
  simp only [List.mem_filterMap] at hp
  obtain ⟨id, hid, h⟩ := hp
  split at h
  · rename_i hc
    simp only [Option.some.injEq] at h
    subst h
    exact ⟨hid, by simpa using hc⟩
  · cases h

end C19
