import HapModel.Model.Cli
import HapModel.Model.CliParse
import HapModel.Model.Obj
import HapModel.Model.OutPrefix
/-!
# C19 — CLI and Python entry points agree; list-in-file options equal repeated options   (PARTIAL)

Model: `Cli.resolveSamples` / `Cli.resolveIds` = the option post-processing of transform, simphenotype and ld in
`__main__.py`; unknown IDs are handled by the by-ID subset of C12 (`Cache.specPositions`).  `CliParse.parse` = click's option parser on the documented
argument forms over the option table the harness reads off `__main__.py` on every run; `CliParse.splitLines` = the
`read().splitlines()` of the list files.  click's type conversion and exit-code policy are trusted; the plumbing of
every CLI parameter to the API parameter of the same name is checked by running both entry points on the same inputs.
-/
namespace C19
open Cli

/-- giving samples in a file is equivalent to repeating `--sample` -/
theorem samples_file_eq_repeated (xs : List String) (h : xs ≠ []) :
    resolveSamples xs none = resolveSamples [] (some xs) :=
  Cli.samples_file_eq_repeated xs h

/-- giving IDs in a file is equivalent to repeating `--id` (same list, same order) -/
theorem ids_file_eq_repeated (xs : List String) (h : xs ≠ []) :
    resolveIds xs none = resolveIds [] (some xs) :=
  Cli.ids_file_eq_repeated xs h

/-- supplying both forms of sample selection is a usage error -/
theorem both_is_usage_error (xs ys : List String) (h : xs ≠ []) :
    resolveSamples xs (some ys) = .error .both :=
  samples_both_rejected xs ys h

/-- giving neither selects everything (`None` is handed to the API) -/
theorem empty_is_none : resolveSamples [] none = .ok none ∧ resolveIds [] none = none :=
  nothing_given

/-- unknown IDs are dropped, never replaced by others: every selected position bears a requested ID that is
    present, in the requested order -/
theorem unknown_ids_dropped (ids req : List String) :
    ∀ p ∈ Cache.specPositions ids req, p.1 ∈ req ∧ p.1 ∈ ids := by
  intro p hp
  unfold Cache.specPositions at hp
  simp only [List.mem_filterMap] at hp
  obtain ⟨id, hid, h⟩ := hp
  split at h
  · rename_i hc
    simp only [Option.some.injEq] at h
    subst h
    exact ⟨hid, by simpa using hc⟩
  · cases h

/-- a list file with one name per line (each followed by a newline) holds exactly the names written, for every list of
    names free of "\n" and "\r" — empty list, empty names, duplicates and names holding any other character included -/
theorem file_holds_names (xs : List (List Char)) (h : ∀ x ∈ xs, CliParse.Clean CliParse.nlBreak x) :
    CliParse.readLines (CliParse.fileOf xs) = xs :=
  CliParse.splitGo_fileOf CliParse.nlBreaks xs h

/-- the same without the final newline (last name not empty), and with Windows line ends -/
theorem file_holds_names_other_line_ends (xs : List (List Char)) (last : List Char)
    (h : ∀ x ∈ xs, CliParse.Clean CliParse.nlBreak x) (hl : CliParse.Clean CliParse.nlBreak last) (hne : last ≠ []) :
    CliParse.readLines (CliParse.fileOf xs ++ last) = xs ++ [last] ∧
    CliParse.readLines (xs.flatMap (fun x => x ++ ['\r', '\n'])) = xs :=
  ⟨CliParse.splitGo_joined CliParse.nlBreaks xs last h hl hne, CliParse.splitGo_crlf CliParse.nlBreaks xs h⟩

/-- a list file whose last line lacks the final newline holds the same names as the file with the newline added -/
theorem final_newline_is_not_information (xs : List (List Char)) (last : List Char)
    (h : ∀ x ∈ xs, CliParse.Clean CliParse.nlBreak x) (hl : CliParse.Clean CliParse.nlBreak last) (hne : last ≠ []) :
    CliParse.readLines (CliParse.fileOf xs ++ last) = CliParse.readLines (CliParse.fileOf (xs ++ [last])) :=
  CliParse.splitGo_final_newline CliParse.nlBreaks xs last h hl hne

/-- F29 (fixed in /repo): read with `str.splitlines`, a name holding one of its other separators (here U+0085) was cut in
    two by the file form; read line by line it is kept -/
theorem splitlines_cut_names_before_fix :
    CliParse.splitLines (CliParse.fileOf [['a', Char.ofNat 0x85, 'b']]) = [['a'], ['b']] ∧
    CliParse.readLines (CliParse.fileOf [['a', Char.ofNat 0x85, 'b']]) = [['a', Char.ofNat 0x85, 'b']] := by
  decide

/-- **file form = repeated form, end to end**: `--samples-file f` with `f` holding the names `xs` hands the entry point
    what `--sample x₁ --sample x₂ …` hands it -/
theorem samples_file_eq_repeated_end_to_end (xs : List (List Char)) (h : ∀ x ∈ xs, CliParse.Clean CliParse.nlBreak x)
    (hne : xs ≠ []) :
    resolveSamples [] (some ((CliParse.readLines (CliParse.fileOf xs)).map String.ofList)) =
    resolveSamples (xs.map String.ofList) none := by
  rw [file_holds_names xs h]
  have : xs.map String.ofList ≠ [] := by simpa using hne
  simp [resolveSamples, this]

/-- **short and long spellings**: over an unambiguous option table every mixture of spellings of the same options, values
    and positionals is parsed to the same options — namely the ones meant -/
theorem every_spelling_parses_to_its_meaning (T : List CliParse.Decl) (h : CliParse.tableOK T = true)
    (items : List CliParse.Item) (hv : ∀ it ∈ items, it.Valid T) :
    CliParse.parse T none (CliParse.render items) = .ok (CliParse.meaning items) :=
  CliParse.parse_render T h items hv

theorem spellings_are_interchangeable (T : List CliParse.Decl) (h : CliParse.tableOK T = true)
    (a b : List CliParse.Item) (ha : ∀ it ∈ a, it.Valid T) (hb : ∀ it ∈ b, it.Valid T) (hs : CliParse.SameL a b) :
    CliParse.parse T none (CliParse.render a) = CliParse.parse T none (CliParse.render b) := by
  rw [CliParse.parse_render T h a ha, CliParse.parse_render T h b hb, CliParse.meaning_congr a b hs]

/-- non-vacuity: a two-row table, `-s x --no-normalize g.vcf` against `--sample x --no-normalize g.vcf` -/
def exampleTable : List CliParse.Decl :=
  [⟨"samples", .multi, ["-s", "--sample"], []⟩, ⟨"normalize", .flag, ["--normalize"], ["--no-normalize"]⟩]

example :
    CliParse.tableOK exampleTable = true ∧
    (CliParse.parse exampleTable none ["-s", "x", "--no-normalize", "g.vcf"]).toOption =
      some ([.add "samples" "x", .flag "normalize" false], ["g.vcf"]) ∧
    (CliParse.parse exampleTable none ["--sample", "x", "--no-normalize", "g.vcf"]).toOption =
      some ([.add "samples" "x", .flag "normalize" false], ["g.vcf"]) := by
  decide

/-! ### Where the breakpoints of `simgenotype --out` go (Model/OutPrefix) -/

/-- **`--out stem.vcf` / `.bcf` / `.vcf.gz` / `.pgen` puts the breakpoints under `stem`, for every stem** – also one that holds
    such an ending somewhere inside (`cohort.pgen.sim`, a directory `panel.vcf.gz_sims/`): the scan stops at the leftmost position
    whose remainder *is* an ending, and no ending with something in front of it is an ending -/
theorem breakpoints_prefix_of_out (stem e : List Char) (he : e ∈ OutPrefix.endings) :
    OutPrefix.bpPrefix (stem ++ e) = stem :=
  OutPrefix.bpPrefix_append stem e he

/-- a name with none of the four endings is its own prefix -/
theorem breakpoints_prefix_without_ending (out : List Char) (h : ∀ a e, e ∈ OutPrefix.endings → out ≠ a ++ e) :
    OutPrefix.bpPrefix out = out :=
  OutPrefix.bpPrefix_id out h

end C19
