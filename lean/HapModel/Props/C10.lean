import HapModel.Model.Cli
import HapModel.Model.Seeded
import HapModel.Model.PhenoSim
/-!
# C10 — A seed makes simgenotype and simphenotype reproducible   (PARTIAL)

Model: the process has a global generator state; `Cli.afterGuard` is the seeding guard of `simulate_gt`
(`if seed is not None: np.random.seed(seed)`); every random draw of C01–C03 is a function of the state left by the
guard; simphenotype owns a private generator `default_rng(seed)`.  `Seeded` is the same statement for a run that uses the
generator *adaptively* (which draws it makes depends on the values drawn before), tied to the commands by recording their
requests to `np.random`.  Hash order, glob order and library internals
are runtime behaviour the model cannot exhibit: they are covered by the experiment (fresh processes, different
PYTHONHASHSEED, arbitrary prior use of the global generator).
-/
namespace C10
open Cli

/-- a seeded simgenotype run does not depend on what ran earlier in the process (seed 0 included) -/
theorem simgenotype_seeded_independent_of_history {G Out} (seedState : Nat → G) (run : G → Out) (s : Nat) (g₁ g₂ : G) :
    run (afterGuard seedState (some s) g₁) = run (afterGuard seedState (some s) g₂) :=
  seeded_independent_of_history seedState run s g₁ g₂

/-- simphenotype: the generator is private and created from the seed, so the global state is irrelevant -/
theorem simphenotype_seeded_deterministic {G G' Out} (defaultRng : Nat → G') (run : G' → Out) (s : Nat) (g₁ g₂ : G) :
    (fun (_ : G) => run (defaultRng s)) g₁ = (fun (_ : G) => run (defaultRng s)) g₂ := rfl

/-- replications inside one simphenotype run use disjoint positions of the private stream: independent draws -/
theorem replications_distinct_stream_positions (n r s : Nat) (h : r < s) :
    ∀ p ∈ PhenoSim.tapeSlice n r, p ∉ PhenoSim.tapeSlice n s :=
  PhenoSim.tapeSlices_disjoint n r s h

/-- F10 (fixed in /repo): with the guard `if seed:` seed 0 behaves as "no seed" -/
theorem seed_zero_refuted_before_fix :
    ∃ (run : Nat → Nat) (g₁ g₂ : Nat),
      run (afterGuardOld (fun s => s + 100) (some 0) g₁) ≠ run (afterGuardOld (fun s => s + 100) (some 0) g₂) :=
  Cli.seed_zero_refuted_before_fix

/-- **adaptive form**: whatever the body of the run does with the values it draws – how many draws, which, in what order
    may all depend on earlier draws – a run that asks for `seed s` first (as `simulate_gt` does for every integer seed, 0
    included) receives the same answers from every initial generator state, for every bound on its length -/
theorem seeded_adaptive_run_independent_of_history {G Call Val} (gen : Seeded.Gen G Call Val) (body : Seeded.Prog Call Val)
    (s : Nat) (fuel : Nat) (g₁ g₂ : G) :
    Seeded.run gen (Seeded.guard (some s) body) fuel g₁ [] = Seeded.run gen (Seeded.guard (some s) body) fuel g₂ [] :=
  Seeded.guarded_run_independent_of_history gen body s fuel g₁ g₂

/-- … namely the answers the body receives from the state `seed s` -/
theorem seeded_adaptive_run_is_body_from_seed {G Call Val} (gen : Seeded.Gen G Call Val) (body : Seeded.Prog Call Val)
    (s : Nat) (fuel : Nat) (g : G) :
    Seeded.run gen (Seeded.guard (some s) body) (fuel + 1) g [] = none :: Seeded.run gen body fuel (gen.seed s) [] :=
  Seeded.guarded_run_eq gen body s fuel g

/-- simphenotype asks nothing of the process-wide generator -/
theorem simphenotype_leaves_global_generator_alone {G Call Val} (gen : Seeded.Gen G Call Val) (fuel : Nat) (g : G) :
    Seeded.run gen (Seeded.silent : Seeded.Prog Call Val) fuel g [] = [] :=
  Seeded.silent_run gen fuel g

/-- F10 again in the adaptive form, with the repaired guard beside it (non-vacuity of the statement above: the two
    histories do differ without the seeding) -/
theorem seed_zero_adaptive_witness :
    Seeded.run Seeded.counter (Seeded.guardOld (some 0) Seeded.oneDraw) 5 1 [] ≠
      Seeded.run Seeded.counter (Seeded.guardOld (some 0) Seeded.oneDraw) 5 2 [] ∧
    Seeded.run Seeded.counter (Seeded.guard (some 0) Seeded.oneDraw) 5 1 [] =
      Seeded.run Seeded.counter (Seeded.guard (some 0) Seeded.oneDraw) 5 2 [] :=
  ⟨Seeded.seed_zero_depends_on_history_before_fix, Seeded.seed_zero_independent_after_fix⟩

end C10
