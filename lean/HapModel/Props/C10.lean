import HapModel.Model.Cli
import HapModel.Model.PhenoSim
/-!
# C10 — A seed makes simgenotype and simphenotype reproducible   (PARTIAL)

Model: the process has a global generator state; `Cli.afterGuard` is the seeding guard of `simulate_gt`
(`if seed is not None: np.random.seed(seed)`); every random draw of C01–C03 is a function of the state left by the
guard; simphenotype owns a private generator `default_rng(seed)`.  Hash order, glob order and library internals
are runtime behaviour the model cannot exhibit: they are covered by the experiment (fresh processes, different
PYTHONHASHSEED, arbitrary prior use of the global generator).
-/
namespace C10
open Cli

/-- a seeded simgenotype run does not depend on what ran earlier in the process (seed 0 included) -/
theorem simgenotype_seeded_independent_of_history {G Out} (seedState : Nat → G) (run : G → Out) (s : Nat) (g₁ g₂ : G) :
    run (afterGuard seedState (some s) g₁) = run (afterGuard seedState (some s) g₂) :=
  seeded_independent_of_history seedState run s g₁ g₂

/-- simphenotype: the generator is private and created from the seed, so the global state is irrelevant -/
theorem simphenotype_seeded_deterministic {G G' Out} (defaultRng : Nat → G') (run : G' → Out) (s : Nat) (g₁ g₂ : G) :
    (fun (_ : G) => run (defaultRng s)) g₁ = (fun (_ : G) => run (defaultRng s)) g₂ := rfl

/-- replications inside one simphenotype run use disjoint positions of the private stream: independent draws -/
theorem replications_distinct_stream_positions (n r s : Nat) (h : r < s) :
    ∀ p ∈ PhenoSim.tapeSlice n r, p ∉ PhenoSim.tapeSlice n s :=
  PhenoSim.tapeSlices_disjoint n r s h

/-- F10 (fixed in /repo): with the guard `if seed:` seed 0 behaves as "no seed" -/
theorem seed_zero_refuted_before_fix :
    ∃ (run : Nat → Nat) (g₁ g₂ : Nat),
      run (afterGuardOld (fun s => s + 100) (some 0) g₁) ≠ run (afterGuardOld (fun s => s + 100) (some 0) g₂) :=
  Cli.seed_zero_refuted_before_fix

end C10
