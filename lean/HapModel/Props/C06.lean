import HapModel.Model.HapFormat
import HapModel.Model.HapComments
import HapModel.Model.HapVersion
import HapModel.Model.HapHeader
/-!
# C06 — `.hap` files round-trip and are parsed according to their header

Model (`Model/HapFormat.lean`): a line is its list of tab-separated fields; `render` = `Haplotypes.to_str`
(order lines, version, declaration lines in any permutation, H/R lines in data order, V lines grouped by
haplotype in any permutation of the groups), `checkHeader` / `plan` / `parseLine` / `parse` =
`check_header` / `_get_field_types` / `from_hap_spec` / `read`.  Field tokens are opaque strings: a value is
preserved "up to its declared format" because the token written by `format(value, fmt)` is what is read back
(`str` and `d` formats round-trip exactly by `Int.toInt?_repr`; float formats are a stated codec contract).
-/
namespace C06
open HapFormat

/-- reading back what was written gives the same records, field values, variant membership and order — for any
    permutation of the declaration lines and of the V-line groups -/
theorem read_write (c : Classes) (version : String) (dp : T → List Line → List Line)
    (vo : List (Rec × List Rec) → List (Rec × List Rec))
    (hdp : ∀ t l, (dp t l).Perm l) (hvo : ∀ l, (vo l).Perm l) (hnd : ∀ t, (c.names t).Nodup)
    (d : List (Rec × List Rec)) (hd : WFData c d) :
    parse c (render c version dp vo d) = some d :=
  HapFormat.read_write c version dp vo hdp hvo hnd d hd

/-- hence writing what was read reproduces the file: render ∘ parse ∘ render = render -/
theorem write_read_write (c : Classes) (version : String) (dp : T → List Line → List Line)
    (vo : List (Rec × List Rec) → List (Rec × List Rec))
    (hdp : ∀ t l, (dp t l).Perm l) (hvo : ∀ l, (vo l).Perm l) (hnd : ∀ t, (c.names t).Nodup)
    (d : List (Rec × List Rec)) (hd : WFData c d) :
    (parse c (render c version dp vo d)).map (render c version dp vo) = some (render c version dp vo d) := by
  rw [HapFormat.read_write c version dp vo hdp hvo hnd d hd]; rfl

/-- lines starting with '#' that are not header declarations are ignored wherever they appear -/
theorem comments_ignored (c : Classes) (a b : List Line) (l : Line)
    (hh : isHash l = true) (hc : classify l = .comment) :
    parse c (a ++ l :: b) = parse c (a ++ b) :=
  parse_insert_comment c a b l hh hc

/-- the shapes named in the property are comments: `#`, `# `, `#text`, `#<TAB>text`, `#H` -/
theorem comment_shapes :
    classify ["#"] = .comment ∧ classify ["# "] = .comment ∧ classify ["#text"] = .comment ∧
    classify ["#", "text"] = .comment ∧ classify ["#H"] = .comment ∧ classify ["#H", ""] = .comment := by
  refine ⟨?_, ?_, ?_, ?_, ?_, ?_⟩ <;> simp [classify]

/-- extra fields are bound by name according to the header (order line, else declaration order), whatever the
    order of the declaration lines: for a written header the column plan is exactly the class's field names -/
theorem binding_by_order_line (c : Classes) (version : String) (dp : T → List Line → List Line)
    (hdp : ∀ t l, (dp t l).Perm l) (t : T) :
    plan c (checkHeader (headerLines c version dp)) t = (c.names t).map some :=
  plan_rendered c version dp hdp t

/-- extra fields the reader was not asked for are skipped without disturbing the others: in the column plan every
    listed name the reader does not want becomes a skipped column (`none`), the wanted ones keep their position -/
theorem unrequested_skipped (c : Classes) (h : Header) (t : T) (names : List String) (ho : h.order t = some names) :
    plan c h t = ((c.names t).filter (fun n => !names.contains n)).map some ++
      names.map (fun n => if (c.names t).contains n then some n else none) := by
  unfold plan; rw [ho]; rfl

/-- files of an unsupported major or a newer minor version are reported -/
theorem version_reported (o e : Nat × Nat × Nat) (h : o.1 ≠ e.1 ∨ o.2.1 > e.2.1) :
    HapVersion.check o e = .unsupported := by
  unfold HapVersion.check; simp [h]

/-- files of the same major version and an older or equal minor version are never reported as unsupported -/
theorem version_accepted (o e : Nat × Nat × Nat) (h1 : o.1 = e.1) (h2 : o.2.1 ≤ e.2.1) :
    HapVersion.check o e ≠ .unsupported := by
  unfold HapVersion.check
  have : ¬ (o.1 ≠ e.1 ∨ o.2.1 > e.2.1) := by omega
  simp only [this, ↓reduceIte]
  split
  · simp
  · split <;> simp

/-- **undeclared-but-required fields are reported**: `check_header` issues its report (a warning, or a `ValueError`
    with `softly=False`) exactly when some line type's class requires an extra field that no header line declares for
    *that* line type, and the report names exactly those `#t name` pairs – declaring the same name for another line
    type does not satisfy the requirement, and a fully declared header is never reported -/
theorem undeclared_required_reported (c : HapFormat.Classes) (lines : List HapFormat.Line) :
    (HapFormat.reported c lines = true ↔
        ∃ t n, n ∈ c.names t ∧ n ∉ (HapFormat.checkHeader lines).declared t) ∧
    (∀ t n, (t, n) ∈ HapFormat.missing c lines ↔
        n ∈ c.names t ∧ n ∉ (HapFormat.checkHeader lines).declared t) :=
  ⟨HapFormat.reported_iff c lines, HapFormat.mem_missing c lines⟩

/-- non-vacuity: H and R both require `beta`; a header declaring it only for H is reported for R (and only R) -/
example : HapFormat.missing ⟨fun t => match t with | .H => [("beta", ".2f", "x")] | .R => [("beta", ".2f", "x")] | .V => []⟩
    [["#H", "beta", ".2f", "x"]] = [(.R, "beta")] := by decide

/-- the same on the strings themselves: a file whose version string has another major number, or a larger minor number, than
    the reader's is reported whatever the numbers' lengths (`0.10.0` against `0.2.0`: numbers, not texts, are compared) -/
theorem version_string_reported (o e : String) (vo ve : Nat × Nat × Nat)
    (ho : HapVersion.parse o = some vo) (he : HapVersion.parse e = some ve) :
    HapVersion.checkStr o e = some .unsupported ↔ (vo.1 ≠ ve.1 ∨ vo.2.1 > ve.2.1) := by
  unfold HapVersion.checkStr
  simp only [ho, he, Option.bind_eq_bind, Option.bind_some, Option.pure_def, Option.some.injEq]
  unfold HapVersion.check
  constructor
  · intro h
    by_cases hn : (vo.1 ≠ ve.1 ∨ vo.2.1 > ve.2.1)
    · exact hn
    · rw [if_neg hn] at h
      split at h
      · cases h
      · split at h <;> cases h
  · intro h
    rw [if_pos h]

/-- non-vacuity at the level of the numbers (string operations do not reduce in the kernel; the strings `0.10.0`, `0.1.9`, `10.2.0`
    … are run through `checkStr` by the correspondence check on every run) -/
example : HapVersion.check (0, 10, 0) (0, 2, 0) = .unsupported ∧ HapVersion.check (0, 1, 9) (0, 2, 0) = .outdated ∧
    HapVersion.check (0, 2, 0) (0, 2, 1) = .patched ∧ HapVersion.check (10, 2, 0) (0, 2, 0) = .unsupported := by decide

end C06
