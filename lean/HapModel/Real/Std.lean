import Mathlib.Algebra.BigOperators.Field
import Mathlib.Analysis.SpecialFunctions.Pow.Real
import Mathlib.Tactic.FieldSimp
import Mathlib.Tactic.Ring
import Mathlib.Tactic.Linarith

open Finset BigOperators

variable {n : ℕ}

noncomputable def mean (x : Fin n → ℝ) : ℝ := (∑ i, x i) / n
noncomputable def var (x : Fin n → ℝ) : ℝ := (∑ i, (x i - mean x)^2) / n
noncomputable def standardize (x : Fin n → ℝ) : Fin n → ℝ := fun i => (x i - mean x) / Real.sqrt (var x)

theorem mean_standardize (x : Fin n → ℝ) (hn : 0 < n) : mean (standardize x) = 0 := by
  unfold mean standardize
  rw [← Finset.sum_div, Finset.sum_sub_distrib]
  have hn' : (n : ℝ) ≠ 0 := by exact_mod_cast hn.ne'
  have : ∑ i : Fin n, x i - ∑ _i : Fin n, (∑ j, x j) / (n:ℝ) = 0 := by
    simp [Finset.sum_const, Finset.card_univ]
    field_simp
    ring
  simp [mean] at this ⊢
  rw [this]; simp

theorem var_standardize (x : Fin n → ℝ) (hn : 0 < n) (hv : var x ≠ 0) : var (standardize x) = 1 := by
  have hn' : (n : ℝ) ≠ 0 := by exact_mod_cast hn.ne'
  have hvpos : 0 < var x := by
    have : 0 ≤ var x := by
      unfold var; apply div_nonneg (Finset.sum_nonneg (fun i _ => sq_nonneg _)) (by positivity)
    exact lt_of_le_of_ne this (Ne.symm hv)
  unfold var
  rw [mean_standardize x hn]
  simp only [sub_zero, standardize, div_pow, Real.sq_sqrt hvpos.le]
  rw [← Finset.sum_div, div_div, mul_comm, ← div_div]
  have : (∑ i, (x i - mean x)^2) / (n:ℝ) = var x := rfl
  rw [this, div_self hv]

#print axioms var_standardize
