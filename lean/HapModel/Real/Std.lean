import Mathlib.Algebra.BigOperators.Field
import Mathlib.Analysis.SpecialFunctions.Pow.Real
import Mathlib.Tactic.FieldSimp
import Mathlib.Tactic.Ring
import Mathlib.Tactic.Linarith

open Finset BigOperators

variable {n : ℕ}

noncomputable def mean (x : Fin n → ℝ) : ℝ := (∑ i, x i) / n
noncomputable def var (x : Fin n → ℝ) : ℝ := (∑ i, (x i - mean x)^2) / n
noncomputable def standardize (x : Fin n → ℝ) : Fin n → ℝ := fun i => (x i - mean x) / Real.sqrt (var x)

theorem mean_standardize (x : Fin n → ℝ) (hn : 0 < n) : mean (standardize x) = 0 := by
  unfold mean standardize
  rw [← Finset.sum_div, Finset.sum_sub_distrib]
  have hn' : (n : ℝ) ≠ 0 := by exact_mod_cast hn.ne'
  have : ∑ i : Fin n, x i - ∑ _i : Fin n, (∑ j, x j) / (n:ℝ) = 0 := by
    simp [Finset.sum_const, Finset.card_univ]
    field_simp
    ring
  simp [mean] at this ⊢
  rw [this]; simp

theorem var_standardize (x : Fin n → ℝ) (hn : 0 < n) (hv : var x ≠ 0) : var (standardize x) = 1 := by
  have hn' : (n : ℝ) ≠ 0 := by exact_mod_cast hn.ne'
  have hvpos : 0 < var x := by
    have : 0 ≤ var x := by
      unfold var; apply div_nonneg (Finset.sum_nonneg (fun i _ => sq_nonneg _)) (by positivity)
    exact lt_of_le_of_ne this (Ne.symm hv)
  unfold var
  rw [mean_standardize x hn]
  simp only [sub_zero, standardize, div_pow, Real.sq_sqrt hvpos.le]
  rw [← Finset.sum_div, div_div, mul_comm, ← div_div]
  have : (∑ i, (x i - mean x)^2) / (n:ℝ) = var x := rfl
  rw [this, div_self hv]

/-! ## The algorithm of `Phenotypes.standardize` after F31 and F33: scale by a power of two, centre, centre again, divide

Over the reals the scaling cancels and the second centring is the identity (the mean of a centred column is 0): the three
steps compute `standardize`.  In floating point the scaling keeps squares representable (F31) and the second centring
removes the rounding error of the first mean (F33); neither changes what is computed. -/

noncomputable def center (x : Fin n → ℝ) : Fin n → ℝ := fun i => x i - mean x

noncomputable def standardizeCode (c : ℝ) (x : Fin n → ℝ) : Fin n → ℝ :=
  let cen := center (center (fun i => c * x i))
  fun i => cen i / Real.sqrt ((∑ j, (cen j)^2) / n)

theorem mean_center (x : Fin n → ℝ) (hn : 0 < n) : mean (center x) = 0 := by
  have hn' : (n : ℝ) ≠ 0 := by exact_mod_cast hn.ne'
  unfold center
  unfold mean
  rw [Finset.sum_sub_distrib]
  simp only [Finset.sum_const, Finset.card_univ, Fintype.card_fin, nsmul_eq_mul]
  field_simp
  ring

theorem center_center (x : Fin n → ℝ) (hn : 0 < n) : center (center x) = center x := by
  funext i
  show center x i - mean (center x) = center x i
  rw [mean_center x hn, sub_zero]

theorem mean_scale (c : ℝ) (x : Fin n → ℝ) : mean (fun i => c * x i) = c * mean x := by
  unfold mean
  rw [← Finset.mul_sum, mul_div_assoc]

theorem center_scale (c : ℝ) (x : Fin n → ℝ) : center (fun i => c * x i) = fun i => c * center x i := by
  funext i
  show c * x i - mean (fun i => c * x i) = c * (x i - mean x)
  rw [mean_scale]; ring

/-- **the code's algorithm computes the definition**, for every positive scale factor -/
theorem standardizeCode_eq (c : ℝ) (hc : 0 < c) (x : Fin n → ℝ) (hn : 0 < n) (hv : var x ≠ 0) :
    standardizeCode c x = standardize x := by
  have hvpos : 0 < var x := by
    have : 0 ≤ var x := by
      unfold var; apply div_nonneg (Finset.sum_nonneg (fun i _ => sq_nonneg _)) (by positivity)
    exact lt_of_le_of_ne this (Ne.symm hv)
  unfold standardizeCode
  rw [center_center _ hn, center_scale]
  have hsum : (∑ j : Fin n, (c * center x j)^2) / (n:ℝ) = c^2 * var x := by
    unfold var center
    simp only [mul_pow]
    rw [← Finset.mul_sum, mul_div_assoc]
  funext i
  simp only [hsum]
  rw [Real.sqrt_mul (sq_nonneg c), Real.sqrt_sq hc.le]
  unfold standardize center
  have hs : Real.sqrt (var x) ≠ 0 := by
    rw [Real.sqrt_ne_zero']; exact hvpos
  field_simp

#print axioms standardizeCode_eq
#print axioms var_standardize
