import Mathlib.Tactic.Linarith
import Mathlib.Tactic.Ring
import Mathlib.Tactic.FieldSimp
import Mathlib.Tactic.Positivity
import Mathlib.Data.Real.Basic

/-- haplotype r² numerator bound: D² ≤ p(1-p)q(1-q) for a valid 2x2 frequency table -/
theorem D_sq_le (f00 f01 f10 f11 : ℝ) (h00 : 0 ≤ f00) (h01 : 0 ≤ f01) (h10 : 0 ≤ f10) (h11 : 0 ≤ f11)
    (hs : f00 + f01 + f10 + f11 = 1) :
    (f00 * f11 - f01 * f10)^2 ≤ (f00+f01) * (1-(f00+f01)) * ((f00+f10) * (1-(f00+f10))) := by
  have e1 : 1 - (f00+f01) = f10 + f11 := by linarith
  have e2 : 1 - (f00+f10) = f01 + f11 := by linarith
  rw [e1, e2]
  nlinarith [mul_nonneg h00 h01, mul_nonneg h00 h10, mul_nonneg h00 h11, mul_nonneg h01 h10,
    mul_nonneg h01 h11, mul_nonneg h10 h11, mul_nonneg (mul_nonneg h00 h01) h10,
    mul_nonneg (mul_nonneg h00 h01) h11, mul_nonneg (mul_nonneg h00 h10) h11,
    mul_nonneg (mul_nonneg h01 h10) h11, mul_nonneg (mul_nonneg h00 h00) h11,
    mul_nonneg (mul_nonneg h01 h01) h10, mul_nonneg (mul_nonneg h10 h10) h01,
    mul_nonneg (mul_nonneg h11 h11) h00]
#print axioms D_sq_le
