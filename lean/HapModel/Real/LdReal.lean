import HapModel.Model.LdStat
import Mathlib.Analysis.SpecialFunctions.Sqrt
import Mathlib.Tactic.Ring
import Mathlib.Tactic.Linarith
import Mathlib.Tactic.NormNum
import Mathlib.Tactic.Positivity
/-!
Facts about the integer statistic of `haptools ld` (`Model/LdStat.lean`) that need ordered-field reasoning.

* `den_eq_zero_iff`  – the value is undefined exactly when a dosage vector is constant (Lagrange's identity);
* `num_sq_le`        – `|R| ≤ 1` (Cauchy–Schwarz on the centred vectors);
* `ratLe_iff`, `leRat_iff`, `printsAs_iff` – the square-root-free comparisons of the model say what they are meant to
  say about the real number `R = num / √(da·db)`.
-/
namespace LdStat

theorem dot_cons (x y : Int) (a b : List Int) : dot (x :: a) (y :: b) = x * y + dot a b := by
  simp [dot]

/-- `Σ_{y∈l} (x−y)²` -/
def pairSq (x : Int) (l : List Int) : Int := (l.map (fun y => (x - y) ^ 2)).sum

theorem pairSq_eq (x : Int) : ∀ l : List Int, pairSq x l = l.length * x ^ 2 - 2 * x * l.sum + dot l l
  | [] => by simp [pairSq, dot]
  | y :: l => by
    have ih := pairSq_eq x l
    unfold pairSq at *
    simp only [List.map_cons, List.sum_cons, List.length_cons, dot_cons, ih]
    push_cast
    ring

theorem pairSq_nonneg (x : Int) (l : List Int) : 0 ≤ pairSq x l := by
  unfold pairSq
  apply List.sum_nonneg
  intro y hy
  obtain ⟨z, _, rfl⟩ := List.mem_map.mp hy
  positivity

theorem pairSq_eq_zero (x : Int) : ∀ l : List Int, pairSq x l = 0 ↔ ∀ y ∈ l, y = x
  | [] => by simp [pairSq]
  | y :: l => by
    have ih := pairSq_eq_zero x l
    have h0 := pairSq_nonneg x l
    have hc : pairSq x (y :: l) = (x - y) ^ 2 + pairSq x l := by simp [pairSq]
    rw [hc]
    constructor
    · intro h
      have h1 : (x - y) ^ 2 = 0 := by nlinarith [sq_nonneg (x - y)]
      have h2 : pairSq x l = 0 := by nlinarith [sq_nonneg (x - y)]
      have h3 : x - y = 0 := by simpa using h1
      intro z hz
      rcases List.mem_cons.mp hz with rfl | hz
      · omega
      · exact ih.mp h2 z hz
    · intro h
      have h1 : y = x := h y (List.mem_cons_self ..)
      have h2 : pairSq x l = 0 := ih.mpr (fun z hz => h z (List.mem_cons_of_mem _ hz))
      rw [h2, h1]; simp

/-- Lagrange's identity, one element at a time -/
theorem den_cons (x : Int) (l : List Int) : den (x :: l) = den l + pairSq x l := by
  rw [pairSq_eq]
  unfold den num
  simp only [List.length_cons, dot_cons, List.sum_cons]
  push_cast
  ring

theorem den_nonneg : ∀ l : List Int, 0 ≤ den l
  | [] => by simp [den, num, dot]
  | x :: l => by rw [den_cons]; have := den_nonneg l; have := pairSq_nonneg x l; omega

/-- `R` is undefined exactly when a dosage vector is constant -/
theorem den_eq_zero_iff : ∀ l : List Int, den l = 0 ↔ ∀ x ∈ l, ∀ y ∈ l, x = y
  | [] => by simp [den, num, dot]
  | x :: l => by
    have ih := den_eq_zero_iff l
    have h1 := den_nonneg l
    have h2 := pairSq_nonneg x l
    rw [den_cons]
    constructor
    · intro h
      have hd : den l = 0 := by omega
      have hp : pairSq x l = 0 := by omega
      have hall := (pairSq_eq_zero x l).mp hp
      intro u hu v hv
      have hu' : u = x := by
        rcases List.mem_cons.mp hu with rfl | hu
        · rfl
        · exact hall u hu
      have hv' : v = x := by
        rcases List.mem_cons.mp hv with rfl | hv
        · rfl
        · exact hall v hv
      rw [hu', hv']
    · intro h
      have hd : den l = 0 := ih.mpr (fun u hu v hv => h u (List.mem_cons_of_mem _ hu) v (List.mem_cons_of_mem _ hv))
      have hp : pairSq x l = 0 :=
        (pairSq_eq_zero x l).mpr (fun y hy => h y (List.mem_cons_of_mem _ hy) x (List.mem_cons_self ..))
      omega

theorem dot_self_nonneg : ∀ l : List Int, 0 ≤ dot l l
  | [] => by simp [dot]
  | x :: l => by rw [dot_cons]; have := dot_self_nonneg l; nlinarith [sq_nonneg x]

/-- Cauchy–Schwarz for lists of integers -/
theorem dot_sq_le : ∀ (u v : List Int), dot u v ^ 2 ≤ dot u u * dot v v
  | [], v => by simp [dot]
  | _ :: _, [] => by simp [dot]
  | x :: u, y :: v => by
    have ih := dot_sq_le u v
    have hU := dot_self_nonneg u
    have hV := dot_self_nonneg v
    simp only [dot_cons]
    generalize dot u v = D at *
    generalize dot u u = U at *
    generalize dot v v = V at *
    rcases lt_or_ge 0 U with hpos | hle
    · have key : 0 ≤ U * (x ^ 2 * V + y ^ 2 * U - 2 * x * y * D) := by
        nlinarith [sq_nonneg (x * D - y * U), mul_nonneg (sq_nonneg x) (sub_nonneg.mpr ih)]
      have key2 : 0 ≤ x ^ 2 * V + y ^ 2 * U - 2 * x * y * D := by
        by_contra hneg
        have : U * (x ^ 2 * V + y ^ 2 * U - 2 * x * y * D) < 0 :=
          mul_neg_of_pos_of_neg hpos (not_le.mp hneg)
        omega
      nlinarith
    · have hU0 : U = 0 := by omega
      subst hU0
      have hD : D = 0 := by nlinarith [sq_nonneg D]
      subst hD
      nlinarith [sq_nonneg x, sq_nonneg y, mul_nonneg (sq_nonneg x) hV]

/-- centring: `Σ (c·aᵢ − s)(c·bᵢ − t)` -/
theorem dot_centred (c s t : Int) : ∀ (a b : List Int), a.length = b.length →
    dot (a.map (fun x => c * x - s)) (b.map (fun y => c * y - t)) =
      c ^ 2 * dot a b - c * t * a.sum - c * s * b.sum + s * t * a.length
  | [], [], _ => by simp [dot]
  | [], _ :: _, h => by simp at h
  | _ :: _, [], h => by simp at h
  | x :: a, y :: b, h => by
    have ih := dot_centred c s t a b (by simpa using h)
    simp only [List.map_cons, dot_cons, ih, List.sum_cons, List.length_cons]
    push_cast
    ring

/-- `R² ≤ 1`, i.e. `|R| ≤ 1`, in integers -/
theorem num_sq_le (a b : List Int) (h : a.length = b.length) : num a b ^ 2 ≤ den a * den b := by
  rcases Nat.eq_zero_or_pos a.length with h0 | hpos
  · have ha : a = [] := List.length_eq_zero_iff.mp h0
    have hb : b = [] := List.length_eq_zero_iff.mp (h ▸ h0)
    subst ha; subst hb
    simp [num, den, dot]
  · let n : Int := a.length
    have hn : (0 : Int) < n := by show (0 : Int) < (a.length : Int); exact_mod_cast hpos
    have cs := dot_sq_le (a.map (fun x => n * x - a.sum)) (b.map (fun y => n * y - b.sum))
    rw [dot_centred n a.sum b.sum a b h, dot_centred n a.sum a.sum a a rfl,
      dot_centred n b.sum b.sum b b rfl] at cs
    have e1 : n ^ 2 * dot a b - n * b.sum * a.sum - n * a.sum * b.sum + a.sum * b.sum * (a.length : Int)
        = n * num a b := by
      unfold num; show _ = n * (n * dot a b - a.sum * b.sum); ring
    have e2 : n ^ 2 * dot a a - n * a.sum * a.sum - n * a.sum * a.sum + a.sum * a.sum * (a.length : Int)
        = n * den a := by
      unfold den num; show _ = n * (n * dot a a - a.sum * a.sum); ring
    have e3 : n ^ 2 * dot b b - n * b.sum * b.sum - n * b.sum * b.sum + b.sum * b.sum * (b.length : Int)
        = n * den b := by
      unfold den num; rw [← h]; show _ = n * (n * dot b b - b.sum * b.sum); ring
    rw [← h] at cs
    rw [e1, e2] at cs
    rw [show n ^ 2 * dot b b - n * b.sum * b.sum - n * b.sum * b.sum + b.sum * b.sum * (a.length : Int)
        = n * den b from by rw [h]; exact e3] at cs
    have hn2 : (0 : Int) < n ^ 2 := by positivity
    have : n ^ 2 * num a b ^ 2 ≤ n ^ 2 * (den a * den b) := by nlinarith
    exact le_of_mul_le_mul_left this hn2

/-! ## the comparisons against `R = num / √(da·db)` -/

/-- the real number the model's three integers stand for -/
noncomputable def Stat.R (s : Stat) : ℝ := (s.num : ℝ) / Real.sqrt ((s.da : ℝ) * (s.db : ℝ))

private theorem cmp_core (m M num t D : ℝ) (hM : 0 < M) (ht : 0 < t) (ht2 : t ^ 2 = D) :
    (m / M ≤ num / t) ↔
      (if m ≤ 0 then (0 ≤ num ∨ num * num * (M * M) ≤ m * m * D)
       else (0 ≤ num ∧ m * m * D ≤ num * num * (M * M))) := by
  rw [div_le_div_iff₀ hM ht]
  subst ht2
  split
  · rename_i hm
    constructor
    · intro h
      by_cases hn : 0 ≤ num
      · exact Or.inl hn
      · right
        have hn' : num < 0 := not_le.mp hn
        nlinarith [mul_nonneg (neg_nonneg.mpr hm) ht.le, mul_pos (neg_pos.mpr hn') hM]
    · rintro (hn | hsq)
      · nlinarith [mul_nonneg hn hM.le, mul_nonneg (neg_nonneg.mpr hm) ht.le]
      · by_cases hn : 0 ≤ num
        · nlinarith [mul_nonneg hn hM.le, mul_nonneg (neg_nonneg.mpr hm) ht.le]
        · have hn' : num < 0 := not_le.mp hn
          have h1 : 0 ≤ -(m * t) := by nlinarith [mul_nonneg (neg_nonneg.mpr hm) ht.le]
          have h2 : 0 < -(num * M) := by nlinarith [mul_pos (neg_pos.mpr hn') hM]
          have h3 : (-(num * M)) ^ 2 ≤ (-(m * t)) ^ 2 := by nlinarith
          nlinarith [(abs_le_of_sq_le_sq' h3 h1).2]
  · rename_i hm
    have hm' : 0 < m := not_le.mp hm
    constructor
    · intro h
      have hmt : 0 < m * t := mul_pos hm' ht
      have hn : 0 ≤ num := by
        by_contra hneg
        have : num * M < 0 := mul_neg_of_neg_of_pos (not_le.mp hneg) hM
        linarith
      refine ⟨hn, ?_⟩
      have h3 : (m * t) ^ 2 ≤ (num * M) ^ 2 := by nlinarith
      nlinarith
    · rintro ⟨hn, hsq⟩
      have h1 : 0 ≤ num * M := mul_nonneg hn hM.le
      have h3 : (m * t) ^ 2 ≤ (num * M) ^ 2 := by nlinarith
      exact (abs_le_of_sq_le_sq' h3 h1).2

/-- `ratLe m M s` decides `m/M ≤ R` -/
theorem ratLe_iff (m M : Int) (s : Stat) (hM : 0 < M) (hD : 0 < s.da * s.db) :
    ratLe m M s = true ↔ (m : ℝ) / (M : ℝ) ≤ s.R := by
  have hDr : (0 : ℝ) < (s.da : ℝ) * (s.db : ℝ) := by exact_mod_cast hD
  have ht : 0 < Real.sqrt ((s.da : ℝ) * (s.db : ℝ)) := Real.sqrt_pos.mpr hDr
  have ht2 : Real.sqrt ((s.da : ℝ) * (s.db : ℝ)) ^ 2 = (s.da : ℝ) * (s.db : ℝ) := Real.sq_sqrt hDr.le
  have hMr : (0 : ℝ) < (M : ℝ) := by exact_mod_cast hM
  unfold Stat.R
  rw [cmp_core (m : ℝ) (M : ℝ) (s.num : ℝ) _ _ hMr ht ht2]
  unfold ratLe
  by_cases hm : m ≤ 0
  · have hmr : (m : ℝ) ≤ 0 := by exact_mod_cast hm
    simp only [hm, hmr, if_true, Bool.or_eq_true, decide_eq_true_eq]
    constructor
    · rintro (h | h)
      · left; exact_mod_cast h
      · right; exact_mod_cast h
    · rintro (h | h)
      · left; exact_mod_cast h
      · right; exact_mod_cast h
  · have hmr : ¬ (m : ℝ) ≤ 0 := by
      intro h; apply hm; exact_mod_cast h
    simp only [hm, hmr, if_false, Bool.and_eq_true, decide_eq_true_eq]
    constructor
    · rintro ⟨h1, h2⟩
      exact ⟨by exact_mod_cast h1, by exact_mod_cast h2⟩
    · rintro ⟨h1, h2⟩
      exact ⟨by exact_mod_cast h1, by exact_mod_cast h2⟩

/-- `leRat s m M` is `ratLe` for `−R`: reflect the statistic -/
theorem leRat_eq_ratLe_neg (s : Stat) (m M : Int) : leRat s m M = ratLe (-m) M ⟨-s.num, s.da, s.db⟩ := by
  unfold leRat ratLe
  by_cases hm : 0 ≤ m
  · have : -m ≤ 0 := by omega
    simp only [hm, this, if_true, Int.neg_mul_neg]
    congr 2
    exact propext (by constructor <;> intro h <;> omega)
  · have : ¬ (-m ≤ 0) := by omega
    simp only [hm, this, if_false, Int.neg_mul_neg]
    congr 2
    exact propext (by constructor <;> intro h <;> omega)

/-- `leRat s m M` decides `R ≤ m/M` -/
theorem leRat_iff (s : Stat) (m M : Int) (hM : 0 < M) (hD : 0 < s.da * s.db) :
    leRat s m M = true ↔ s.R ≤ (m : ℝ) / (M : ℝ) := by
  rw [leRat_eq_ratLe_neg, ratLe_iff (-m) M ⟨-s.num, s.da, s.db⟩ hM hD]
  unfold Stat.R
  push_cast
  rw [neg_div, neg_div, neg_le_neg_iff]

/-- **"to the three decimals printed"**: `printsAs tol K p s` holds exactly when the printed `p/1000` is within half a
    unit of the third decimal (plus the slack `tol/(2000·K)`) of the real number `R = num/√(da·db)` -/
theorem printsAs_iff (tol K p : Int) (s : Stat) (hK : 0 < K) (hD : 0 < s.da * s.db) :
    printsAs tol K p s = true ↔
      |(p : ℝ) / 1000 - s.R| ≤ 1 / 2000 + (tol : ℝ) / (2000 * (K : ℝ)) := by
  have hM : (0 : Int) < 2000 * K := by omega
  have hKr : (0 : ℝ) < (K : ℝ) := by exact_mod_cast hK
  unfold printsAs
  rw [Bool.and_eq_true, ratLe_iff _ _ s hM hD, leRat_iff s _ _ hM hD, abs_le]
  push_cast
  have e1 : ((2 * (p : ℝ) - 1) * (K : ℝ) - (tol : ℝ)) / (2000 * (K : ℝ)) =
      (p : ℝ) / 1000 - (1 / 2000 + (tol : ℝ) / (2000 * (K : ℝ))) := by
    field_simp; ring
  have e2 : ((2 * (p : ℝ) + 1) * (K : ℝ) + (tol : ℝ)) / (2000 * (K : ℝ)) =
      (p : ℝ) / 1000 + (1 / 2000 + (tol : ℝ) / (2000 * (K : ℝ))) := by
    field_simp; ring
  rw [e1, e2]
  constructor
  · rintro ⟨h1, h2⟩; constructor <;> linarith
  · rintro ⟨h1, h2⟩; constructor <;> linarith

/-- a defined statistic has a positive denominator (so the hypotheses above are met by everything `stat` returns) -/
theorem stat_den_pos (a b : List Int) (s : Stat) (h : stat a b = some s) : 0 < s.da * s.db := by
  unfold stat at h
  split at h
  · exact absurd h (by simp)
  · rename_i hne
    have hs : s = ⟨num a b, den a, den b⟩ := by simpa using h.symm
    subst hs
    have ha := den_nonneg a
    have hb := den_nonneg b
    have ha' : den a ≠ 0 := fun e => hne (Or.inl e)
    have hb' : den b ≠ 0 := fun e => hne (Or.inr e)
    show 0 < den a * den b
    exact Int.mul_pos (by omega) (by omega)

/-- `|R| ≤ 1` for every statistic `stat` returns -/
theorem stat_abs_le_one (a b : List Int) (hl : a.length = b.length) (s : Stat) (h : stat a b = some s) :
    |s.R| ≤ 1 := by
  have hD := stat_den_pos a b s h
  have hsq := num_sq_le a b hl
  unfold stat at h
  split at h
  · exact absurd h (by simp)
  · have hs : s = ⟨num a b, den a, den b⟩ := by simpa using h.symm
    subst hs
    have hDr : (0 : ℝ) < ((den a : Int) : ℝ) * ((den b : Int) : ℝ) := by exact_mod_cast hD
    have ht : 0 < Real.sqrt (((den a : Int) : ℝ) * ((den b : Int) : ℝ)) := Real.sqrt_pos.mpr hDr
    have ht2 := Real.sq_sqrt hDr.le
    unfold Stat.R
    rw [abs_div, abs_of_pos ht, div_le_one ht]
    apply abs_le_of_sq_le_sq' _ ht.le |> fun h => abs_le.mpr h
    rw [ht2]
    exact_mod_cast hsq

/-- what `ComputeLD` (Pearson) may report as a number is a fraction in `[0, 1]` with a positive denominator -/
theorem clumpLd_r2_bounds (cand index : List (Nat × Nat)) (n d : Int) (h : clumpLd cand index = .r2 n d) :
    0 < d ∧ 0 ≤ n ∧ n ≤ d := by
  unfold clumpLd at h
  simp only at h
  split at h
  · cases h
  · split at h
    · cases h
    · rename_i s hs
      injection h with h1 h2
      subst h1; subst h2
      have hl : ((validDosages cand index).map (·.1)).length = ((validDosages cand index).map (·.2)).length := by simp
      have hD := stat_den_pos _ _ s hs
      have hsq := num_sq_le _ _ hl
      unfold stat at hs
      split at hs
      · cases hs
      · injection hs with hs
        subst hs
        refine ⟨hD, ?_, ?_⟩
        · exact mul_self_nonneg _
        · simpa [sq] using hsq

end LdStat
