import HapModel.Model.FloatText
import Mathlib.Tactic.Ring
import Mathlib.Tactic.Linarith

/-! # `FloatText.roundDec` is correct: `readDec` never answers `uncertified`

The driver certifies every value it hands out, instance by instance.  This file proves the arithmetic behind the candidate once and
for all: nearest-integer division with ties to even lands inside the rounding interval – in the generic case, at the first double
of a binade, and when the division carries into the next binade. -/
namespace FloatText

theorem roundHalfEven_spec (a B : Nat) (hB : 0 < B) :
    let m := roundHalfEven a B
    (2 * a < B * (2 * m + 1) ∨ (2 * a = B * (2 * m + 1) ∧ m % 2 = 0)) ∧
    (m = 0 ∨ B * (2 * m - 1) < 2 * a ∨ (B * (2 * m - 1) = 2 * a ∧ m % 2 = 0)) ∧
    a / B ≤ m ∧ m ≤ a / B + 1 := by
  intro m
  have hdm := Nat.div_add_mod a B
  have hr : a % B < B := Nat.mod_lt a hB
  set q := a / B with hq
  set r := a % B with hr'
  have ha : a = B * q + r := hdm.symm
  have key1 : B * (2 * q + 1) = 2 * (B * q) + B := by ring
  have key2 : B * (2 * (q + 1) + 1) = 2 * (B * q) + 3 * B := by ring
  have key3 : B * (2 * (q + 1) - 1) = 2 * (B * q) + B := by
    have : 2 * (q + 1) - 1 = 2 * q + 1 := by omega
    rw [this]; ring
  have key4 : 0 < q → B * (2 * q - 1) + B = 2 * (B * q) := by
    intro hpos
    have : 2 * q - 1 + 1 = 2 * q := by omega
    calc B * (2 * q - 1) + B = B * (2 * q - 1 + 1) := by ring
      _ = B * (2 * q) := by rw [this]
      _ = 2 * (B * q) := by ring
  have hm : m = (if 2 * r < B then q else if B < 2 * r then q + 1 else if q % 2 = 0 then q else q + 1) := rfl
  by_cases h1 : 2 * r < B
  · have : m = q := by rw [hm, if_pos h1]
    rw [this]
    refine ⟨Or.inl (by rw [key1]; omega), ?_, le_refl _, by omega⟩
    rcases Nat.eq_zero_or_pos q with h0 | hpos
    · exact Or.inl h0
    · right; left
      have := key4 hpos
      have hBq : B ≤ B * q := Nat.le_mul_of_pos_right B hpos
      omega
  · by_cases h2 : B < 2 * r
    · have : m = q + 1 := by rw [hm, if_neg h1, if_pos h2]
      rw [this]
      refine ⟨Or.inl (by rw [key2]; omega), Or.inr (Or.inl (by rw [key3]; omega)), by omega, le_refl _⟩
    · have htie : 2 * r = B := by omega
      by_cases h3 : q % 2 = 0
      · have : m = q := by rw [hm, if_neg h1, if_neg h2, if_pos h3]
        rw [this]
        refine ⟨Or.inr ⟨by rw [key1]; omega, h3⟩, ?_, le_refl _, by omega⟩
        rcases Nat.eq_zero_or_pos q with h0 | hpos
        · exact Or.inl h0
        · right; left
          have := key4 hpos
          omega
      · have : m = q + 1 := by rw [hm, if_neg h1, if_neg h2, if_neg h3]
        rw [this]
        refine ⟨Or.inl (by rw [key2]; omega), Or.inr (Or.inr ⟨by rw [key3]; omega, by omega⟩), by omega, le_refl _⟩

/-- generic case: the candidate `⟨m, s⟩` is not the first double of a binade above the first -/
theorem roundsTo_of_spec (a b m s : Nat) (hc : Canon ⟨m, s⟩) (hnb : ¬ (m = 2 ^ 52 ∧ 0 < s))
    (hU : 2 * a < (b * 2 ^ s) * (2 * m + 1) ∨ (2 * a = (b * 2 ^ s) * (2 * m + 1) ∧ m % 2 = 0))
    (hL : m = 0 ∨ (b * 2 ^ s) * (2 * m - 1) < 2 * a ∨ ((b * 2 ^ s) * (2 * m - 1) = 2 * a ∧ m % 2 = 0)) :
    RoundsTo a b ⟨m, s⟩ := by
  have hs := succ_val ⟨m, s⟩ hc
  have hp : (pred ⟨m, s⟩).val = (m - 1) * 2 ^ s := by
    unfold pred; simp only [hnb, if_false]; rfl
  have hv : (⟨m, s⟩ : Mag).val = m * 2 ^ s := rfl
  have e1 : b * (m * 2 ^ s + (m + 1) * 2 ^ s) = (b * 2 ^ s) * (2 * m + 1) := by ring
  refine ⟨?_, ?_⟩
  · show 2 * a < b * ((⟨m, s⟩ : Mag).val + (succ ⟨m, s⟩).val) ∨ _
    rw [hs, hv]; simp only; rw [e1]; exact hU
  · show (⟨m, s⟩ : Mag).val = 0 ∨ _
    rw [hp, hv]
    rcases Nat.eq_zero_or_pos m with h0 | hpos
    · left; rw [h0]; simp
    · right
      have e2 : b * ((m - 1) * 2 ^ s + m * 2 ^ s) = (b * 2 ^ s) * (2 * m - 1) := by
        have : 2 * m - 1 = (m - 1) + m := by omega
        rw [this]; ring
      simp only; rw [e2]
      rcases hL with h | h | h
      · omega
      · exact Or.inl h
      · exact Or.inr h

/-- boundary case: the candidate is the first double `2^52 · 2^s` of a binade, and the value is not below it -/
theorem roundsTo_binade_start (a b s : Nat) (hs : 0 < s)
    (hU : 2 * a < (b * 2 ^ s) * (2 * 2 ^ 52 + 1) ∨ (2 * a = (b * 2 ^ s) * (2 * 2 ^ 52 + 1) ∧ (2 ^ 52) % 2 = 0))
    (hge : (b * 2 ^ s) * 2 ^ 52 ≤ a) (hb : 0 < b) : RoundsTo a b ⟨2 ^ 52, s⟩ := by
  have hc : Canon ⟨2 ^ 52, s⟩ := ⟨by norm_num, Or.inl (le_refl _)⟩
  have hsv := succ_val ⟨2 ^ 52, s⟩ hc
  have hp : (pred ⟨2 ^ 52, s⟩).val = (2 ^ 53 - 1) * 2 ^ (s - 1) := by
    unfold pred; simp only [hs, and_self, if_true]; rfl
  have hv : (⟨2 ^ 52, s⟩ : Mag).val = 2 ^ 52 * 2 ^ s := rfl
  have e1 : b * (2 ^ 52 * 2 ^ s + (2 ^ 52 + 1) * 2 ^ s) = (b * 2 ^ s) * (2 * 2 ^ 52 + 1) := by ring
  refine ⟨?_, ?_⟩
  · show 2 * a < b * ((⟨2 ^ 52, s⟩ : Mag).val + (succ ⟨2 ^ 52, s⟩).val) ∨ _
    rw [hsv, hv]; simp only; rw [e1]
    rcases hU with h | h
    · exact Or.inl h
    · exact Or.inr ⟨h.1, by norm_num⟩
  · show (⟨2 ^ 52, s⟩ : Mag).val = 0 ∨ _
    rw [hp, hv]
    right; left
    obtain ⟨k, rfl⟩ : ∃ k, s = k + 1 := ⟨s - 1, by omega⟩
    simp only [Nat.add_sub_cancel]
    have hpk : 0 < 2 ^ k := Nat.pow_pos (by norm_num)
    have hlt : (2 ^ 53 - 1) * 2 ^ k < 2 ^ 52 * 2 ^ (k + 1) := by
      rw [pow_succ 2 k]
      generalize (2:ℕ) ^ k = p at hpk ⊢
      omega
    have hbD : b * (2 ^ 52 * 2 ^ (k + 1)) ≤ a := by
      have : b * (2 ^ 52 * 2 ^ (k + 1)) = (b * 2 ^ (k + 1)) * 2 ^ 52 := by ring
      rw [this]; exact hge
    have : b * ((2 ^ 53 - 1) * 2 ^ k) < b * (2 ^ 52 * 2 ^ (k + 1)) := Nat.mul_lt_mul_of_pos_left hlt hb
    calc b * ((2 ^ 53 - 1) * 2 ^ k + 2 ^ 52 * 2 ^ (k + 1))
        = b * ((2 ^ 53 - 1) * 2 ^ k) + b * (2 ^ 52 * 2 ^ (k + 1)) := by ring
      _ < b * (2 ^ 52 * 2 ^ (k + 1)) + b * (2 ^ 52 * 2 ^ (k + 1)) := by omega
      _ ≤ 2 * a := by omega

/-- carry: nearest-integer division gave `2^53`, the candidate is the first double of the next binade -/
theorem roundsTo_carry (a b s : Nat)
    (hU : 2 * a < (b * 2 ^ s) * (2 * 2 ^ 53 + 1) ∨ (2 * a = (b * 2 ^ s) * (2 * 2 ^ 53 + 1) ∧ (2 ^ 53) % 2 = 0))
    (hL : (b * 2 ^ s) * (2 * 2 ^ 53 - 1) < 2 * a ∨ ((b * 2 ^ s) * (2 * 2 ^ 53 - 1) = 2 * a ∧ (2 ^ 53) % 2 = 0))
    (hb : 0 < b) : RoundsTo a b ⟨2 ^ 52, s + 1⟩ := by
  have hc : Canon ⟨2 ^ 52, s + 1⟩ := ⟨by norm_num, Or.inl (le_refl _)⟩
  have hsv := succ_val ⟨2 ^ 52, s + 1⟩ hc
  have hp : (pred ⟨2 ^ 52, s + 1⟩).val = (2 ^ 53 - 1) * 2 ^ s := by
    unfold pred; simp only [Nat.succ_pos, and_self, if_true, Nat.add_sub_cancel]; rfl
  have hv : (⟨2 ^ 52, s + 1⟩ : Mag).val = 2 ^ 52 * 2 ^ (s + 1) := rfl
  have hB : 0 < b * 2 ^ s := Nat.mul_pos hb (Nat.pow_pos (by norm_num))
  have e1 : b * (2 ^ 52 * 2 ^ (s + 1) + (2 ^ 52 + 1) * 2 ^ (s + 1)) = (b * 2 ^ s) * (2 * 2 ^ 53 + 1) + (b * 2 ^ s) := by
    rw [pow_succ 2 s]; ring
  have e2 : b * ((2 ^ 53 - 1) * 2 ^ s + 2 ^ 52 * 2 ^ (s + 1)) = (b * 2 ^ s) * (2 * 2 ^ 53 - 1) := by
    rw [pow_succ 2 s]
    have : (2:ℕ) * 2 ^ 53 - 1 = (2 ^ 53 - 1) + 2 ^ 53 := by norm_num
    rw [this]; ring
  refine ⟨?_, ?_⟩
  · show 2 * a < b * ((⟨2 ^ 52, s + 1⟩ : Mag).val + (succ ⟨2 ^ 52, s + 1⟩).val) ∨ _
    rw [hsv, hv]; simp only
    left
    rw [e1]
    rcases hU with h | h
    · linarith
    · linarith [h.1]
  · show (⟨2 ^ 52, s + 1⟩ : Mag).val = 0 ∨ _
    rw [hp, hv]
    right
    simp only; rw [e2]
    rcases hL with h | h
    · exact Or.inl h
    · exact Or.inr ⟨h.1, by norm_num⟩

theorem roundDec_eq (a b : Nat) :
    roundDec a b =
      if a < b * 2 ^ 53 then
        (if roundHalfEven a b < 2 ^ 53 then ⟨roundHalfEven a b, 0⟩ else ⟨2 ^ 52, 1⟩)
      else
        (if roundHalfEven a (b * 2 ^ (Nat.log2 (a / b) - 52)) < 2 ^ 53
         then ⟨roundHalfEven a (b * 2 ^ (Nat.log2 (a / b) - 52)), Nat.log2 (a / b) - 52⟩
         else ⟨2 ^ 52, Nat.log2 (a / b) - 52 + 1⟩) := rfl

/-- the candidate of the scaled division, given where the quotient lies -/
theorem candidate_correct (a b s : Nat) (hb : 0 < b) (hq1 : s = 0 ∨ 2 ^ 52 ≤ a / (b * 2 ^ s)) (hq2 : a / (b * 2 ^ s) < 2 ^ 53) :
    let m := roundHalfEven a (b * 2 ^ s)
    let d : Mag := if m < 2 ^ 53 then ⟨m, s⟩ else ⟨2 ^ 52, s + 1⟩
    Canon d ∧ RoundsTo a b d := by
  intro m d
  have hB : 0 < b * 2 ^ s := Nat.mul_pos hb (Nat.pow_pos (by norm_num))
  obtain ⟨hU, hL, hge, hle⟩ := roundHalfEven_spec a (b * 2 ^ s) hB
  change (2 * a < b * 2 ^ s * (2 * m + 1) ∨ (2 * a = b * 2 ^ s * (2 * m + 1) ∧ m % 2 = 0)) at hU
  change (m = 0 ∨ b * 2 ^ s * (2 * m - 1) < 2 * a ∨ (b * 2 ^ s * (2 * m - 1) = 2 * a ∧ m % 2 = 0)) at hL
  change a / (b * 2 ^ s) ≤ m at hge
  change m ≤ a / (b * 2 ^ s) + 1 at hle
  have hm53 : m ≤ 2 ^ 53 := by omega
  by_cases hlt : m < 2 ^ 53
  · have hd : d = ⟨m, s⟩ := if_pos hlt
    rw [hd]
    have hc : Canon ⟨m, s⟩ := by
      refine ⟨hlt, ?_⟩
      rcases hq1 with h | h
      · exact Or.inr h
      · exact Or.inl (le_trans h hge)
    refine ⟨hc, ?_⟩
    by_cases hst : m = 2 ^ 52 ∧ 0 < s
    · obtain ⟨hm, hs⟩ := hst
      have hq : a / (b * 2 ^ s) = 2 ^ 52 := by
        rcases hq1 with h | h
        · omega
        · omega
      have hge' : (b * 2 ^ s) * 2 ^ 52 ≤ a := by
        have := Nat.mul_div_le a (b * 2 ^ s)
        rw [hq] at this; exact this
      rw [hm] at hU ⊢
      exact roundsTo_binade_start a b s hs hU hge' hb
    · exact roundsTo_of_spec a b m s hc hst hU hL
  · have hd : d = ⟨2 ^ 52, s + 1⟩ := if_neg hlt
    rw [hd]
    have hm : m = 2 ^ 53 := by omega
    rw [hm] at hU hL
    have hL' : b * 2 ^ s * (2 * 2 ^ 53 - 1) < 2 * a ∨ (b * 2 ^ s * (2 * 2 ^ 53 - 1) = 2 * a ∧ (2 ^ 53) % 2 = 0) := by
      rcases hL with h | h | h
      · exact absurd h (by norm_num)
      · exact Or.inl h
      · exact Or.inr h
    exact ⟨⟨by norm_num, Or.inl (le_refl _)⟩, roundsTo_carry a b s hU hL' hb⟩

/-- **the candidate always passes its certificate**: for every non-negative rational `a / b`, `roundDec a b` is a canonical
    double in whose rounding interval `a / b` lies -/
theorem roundDec_correct (a b : Nat) (hb : 0 < b) : Canon (roundDec a b) ∧ RoundsTo a b (roundDec a b) := by
  rw [roundDec_eq]
  by_cases hlow : a < b * 2 ^ 53
  · rw [if_pos hlow]
    have hq2 : a / (b * 2 ^ 0) < 2 ^ 53 := by
      rw [pow_zero, mul_one]
      exact (Nat.div_lt_iff_lt_mul hb).2 (by rw [mul_comm]; exact hlow)
    have := candidate_correct a b 0 hb (Or.inl rfl) hq2
    simpa using this
  · rw [if_neg hlow]
    have hn : 2 ^ 53 ≤ a / b := (Nat.le_div_iff_mul_le hb).2 (by rw [mul_comm]; omega)
    have hn0 : a / b ≠ 0 := by
      have : 0 < 2 ^ 53 := by norm_num
      omega
    have h1 := Nat.log2_self_le hn0
    have h2 : a / b < 2 ^ (Nat.log2 (a / b) + 1) := Nat.lt_log2_self
    have he : 53 ≤ Nat.log2 (a / b) := by
      have : 2 ^ 53 < 2 ^ (Nat.log2 (a / b) + 1) := lt_of_le_of_lt hn h2
      have := (Nat.pow_lt_pow_iff_right (by norm_num : 1 < 2)).1 this
      omega
    obtain ⟨s, hs⟩ : ∃ s, Nat.log2 (a / b) = s + 52 := ⟨Nat.log2 (a / b) - 52, by omega⟩
    have hs' : Nat.log2 (a / b) - 52 = s := by omega
    rw [hs'] at *
    rw [hs] at h1 h2
    have hps : 0 < 2 ^ s := Nat.pow_pos (by norm_num)
    have hdd : a / (b * 2 ^ s) = a / b / 2 ^ s := (Nat.div_div_eq_div_mul a b (2 ^ s)).symm
    have hq1 : 2 ^ 52 ≤ a / (b * 2 ^ s) := by
      rw [hdd]
      apply (Nat.le_div_iff_mul_le hps).2
      calc 2 ^ 52 * 2 ^ s = 2 ^ (s + 52) := by rw [pow_add]; ring
        _ ≤ a / b := h1
    have hq2 : a / (b * 2 ^ s) < 2 ^ 53 := by
      rw [hdd]
      apply (Nat.div_lt_iff_lt_mul hps).2
      calc a / b < 2 ^ (s + 52 + 1) := h2
        _ = 2 ^ 53 * 2 ^ s := by rw [pow_add, pow_add]; ring
    exact candidate_correct a b s hb (Or.inr hq1) hq2

/-- hence the certified reader never answers `uncertified` on a decimal token -/
theorem readDec_total (a b : Nat) (hb : 0 < b) : readDec a b = some (roundDec a b) := by
  unfold readDec
  simp only [roundDec_correct a b hb, and_self, if_true]

end FloatText

#print axioms FloatText.roundDec_correct
#print axioms FloatText.readDec_total
