import Mathlib.Tactic.FieldSimp
import Mathlib.Tactic.Ring
import Mathlib.Tactic.Linarith
import Mathlib.Data.Real.Basic

/-- `ComputeExactLD`: with no double heterozygote (n11 = 0) the haplotype frequency num_alt/(2n)
    is a root of the cubic a x³ + b x² + c x + d the code solves -/
theorem cubic_root_no_double_het (n00 n01 n02 n10 n12 n20 n21 n22 : ℝ)
    (hn : n00 + n01 + n02 + n10 + 0 + n12 + n20 + n21 + n22 ≠ 0) :
    let n11 : ℝ := 0
    let n := n00 + n01 + n02 + n10 + n11 + n12 + n20 + n21 + n22
    let p := (2 * (n00 + n01 + n02) + (n10 + n11 + n12)) / (2 * n)
    let q := (2 * (n00 + n10 + n20) + (n01 + n11 + n21)) / (2 * n)
    let numAlt := 2 * n00 + n01 + n10
    let a := 4 * n
    let b := 2 * n * (1 - 2 * p - 2 * q) - 2 * numAlt - n11
    let c := -numAlt * (1 - 2 * p - 2 * q) - n11 * (1 - p - q) + 2 * n * p * q
    let d := -numAlt * p * q
    let x := numAlt / (2 * n)
    a * x^3 + b * x^2 + c * x + d = 0 := by
  intro n11 n p q numAlt a b c d x
  simp only [x, a, b, c, d, p, q, numAlt, n, n11] at *
  field_simp
  ring
#print axioms cubic_root_no_double_het
