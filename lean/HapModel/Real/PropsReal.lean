import HapModel.Real.Std
import HapModel.Real.R2Bound
import HapModel.Real.Cubic
import Mathlib.Analysis.InnerProductSpace.Basic
/-!
Real-arithmetic property theorems (Mathlib), registered under the properties they serve.
-/
open Finset BigOperators

namespace C17R

/-- exact-LD r² = D²/(p(1-p)q(1-q)) lies in [0,1] for every valid 2×2 haplotype frequency table
    (f00,f01,f10,f11 ≥ 0 summing to 1) with non-degenerate margins -/
theorem exact_r2_in_unit_interval (f00 f01 f10 f11 : ℝ) (h00 : 0 ≤ f00) (h01 : 0 ≤ f01) (h10 : 0 ≤ f10)
    (h11 : 0 ≤ f11) (hs : f00 + f01 + f10 + f11 = 1)
    (hden : 0 < (f00+f01) * (1-(f00+f01)) * ((f00+f10) * (1-(f00+f10)))) :
    0 ≤ (f00 * f11 - f01 * f10)^2 / ((f00+f01) * (1-(f00+f01)) * ((f00+f10) * (1-(f00+f10)))) ∧
    (f00 * f11 - f01 * f10)^2 / ((f00+f01) * (1-(f00+f01)) * ((f00+f10) * (1-(f00+f10)))) ≤ 1 := by
  constructor
  · exact div_nonneg (sq_nonneg _) hden.le
  · rw [div_le_one hden]
    exact D_sq_le f00 f01 f10 f11 h00 h01 h10 h11 hs

/-- with no double heterozygote the haplotype frequency `num_alt/2n` is a root of the cubic solved by
    `ComputeExactLD`, so the maximum-likelihood solution contains the true haplotype table -/
theorem cubic_root_no_double_het (n00 n01 n02 n10 n12 n20 n21 n22 : ℝ)
    (hn : n00 + n01 + n02 + n10 + 0 + n12 + n20 + n21 + n22 ≠ 0) :
    let n11 : ℝ := 0
    let n := n00 + n01 + n02 + n10 + n11 + n12 + n20 + n21 + n22
    let p := (2 * (n00 + n01 + n02) + (n10 + n11 + n12)) / (2 * n)
    let q := (2 * (n00 + n10 + n20) + (n01 + n11 + n21)) / (2 * n)
    let numAlt := 2 * n00 + n01 + n10
    let a := 4 * n
    let b := 2 * n * (1 - 2 * p - 2 * q) - 2 * numAlt - n11
    let c := -numAlt * (1 - 2 * p - 2 * q) - n11 * (1 - p - q) + 2 * n * p * q
    let d := -numAlt * p * q
    let x := numAlt / (2 * n)
    a * x^3 + b * x^2 + c * x + d = 0 :=
  _root_.cubic_root_no_double_het n00 n01 n02 n10 n12 n20 n21 n22 hn

/-- squared Pearson correlation of two real vectors lies in [0,1] (Cauchy–Schwarz):
    `cov² ≤ var_a · var_b`, stated on centred sums -/
theorem pearson_r2_in_unit_interval {n : ℕ} (a b : Fin n → ℝ)
    (ha : 0 < ∑ i, (a i)^2) (hb : 0 < ∑ i, (b i)^2) :
    0 ≤ (∑ i, a i * b i)^2 / ((∑ i, (a i)^2) * (∑ i, (b i)^2)) ∧
    (∑ i, a i * b i)^2 / ((∑ i, (a i)^2) * (∑ i, (b i)^2)) ≤ 1 := by
  have hpos : 0 < (∑ i, (a i)^2) * (∑ i, (b i)^2) := mul_pos ha hb
  constructor
  · exact div_nonneg (sq_nonneg _) hpos.le
  · rw [div_le_one hpos]
    exact Finset.sum_mul_sq_le_sq_mul_sq Finset.univ a b

end C17R

namespace C09R

/-- a standardised column has mean 0 … -/
theorem standardize_mean_zero {n : ℕ} (x : Fin n → ℝ) (hn : 0 < n) : mean (standardize x) = 0 :=
  mean_standardize x hn

/-- … and variance 1 (when it is not constant) -/
theorem standardize_var_one {n : ℕ} (x : Fin n → ℝ) (hn : 0 < n) (hv : var x ≠ 0) : var (standardize x) = 1 :=
  var_standardize x hn hv

end C09R
