import HapModel.Real.Std
import HapModel.Real.R2Bound
import HapModel.Real.Cubic
import Mathlib.Analysis.InnerProductSpace.Basic
import Mathlib.Tactic.NormNum
import Mathlib.Tactic.Linarith
import HapModel.Model.PhenoSim
import HapModel.Real.LdReal
import HapModel.Real.FloatRound
/-!
Real-arithmetic property theorems (Mathlib), registered under the properties they serve.
-/
open Finset BigOperators

namespace C17R

/-- exact-LD r² = D²/(p(1-p)q(1-q)) lies in [0,1] for every valid 2×2 haplotype frequency table
    (f00,f01,f10,f11 ≥ 0 summing to 1) with non-degenerate margins -/
theorem exact_r2_in_unit_interval (f00 f01 f10 f11 : ℝ) (h00 : 0 ≤ f00) (h01 : 0 ≤ f01) (h10 : 0 ≤ f10)
    (h11 : 0 ≤ f11) (hs : f00 + f01 + f10 + f11 = 1)
    (hden : 0 < (f00+f01) * (1-(f00+f01)) * ((f00+f10) * (1-(f00+f10)))) :
    0 ≤ (f00 * f11 - f01 * f10)^2 / ((f00+f01) * (1-(f00+f01)) * ((f00+f10) * (1-(f00+f10)))) ∧
    (f00 * f11 - f01 * f10)^2 / ((f00+f01) * (1-(f00+f01)) * ((f00+f10) * (1-(f00+f10)))) ≤ 1 := by
  constructor
  · exact div_nonneg (sq_nonneg _) hden.le
  · rw [div_le_one hden]
    exact D_sq_le f00 f01 f10 f11 h00 h01 h10 h11 hs

/-- with no double heterozygote the haplotype frequency `num_alt/2n` is a root of the cubic solved by
    `ComputeExactLD`, so the maximum-likelihood solution contains the true haplotype table -/
theorem cubic_root_no_double_het (n00 n01 n02 n10 n12 n20 n21 n22 : ℝ)
    (hn : n00 + n01 + n02 + n10 + 0 + n12 + n20 + n21 + n22 ≠ 0) :
    let n11 : ℝ := 0
    let n := n00 + n01 + n02 + n10 + n11 + n12 + n20 + n21 + n22
    let p := (2 * (n00 + n01 + n02) + (n10 + n11 + n12)) / (2 * n)
    let q := (2 * (n00 + n10 + n20) + (n01 + n11 + n21)) / (2 * n)
    let numAlt := 2 * n00 + n01 + n10
    let a := 4 * n
    let b := 2 * n * (1 - 2 * p - 2 * q) - 2 * numAlt - n11
    let c := -numAlt * (1 - 2 * p - 2 * q) - n11 * (1 - p - q) + 2 * n * p * q
    let d := -numAlt * p * q
    let x := numAlt / (2 * n)
    a * x^3 + b * x^2 + c * x + d = 0 :=
  _root_.cubic_root_no_double_het n00 n01 n02 n10 n12 n20 n21 n22 hn

/-- squared Pearson correlation of two real vectors lies in [0,1] (Cauchy–Schwarz):
    `cov² ≤ var_a · var_b`, stated on centred sums -/
theorem pearson_r2_in_unit_interval {n : ℕ} (a b : Fin n → ℝ)
    (ha : 0 < ∑ i, (a i)^2) (hb : 0 < ∑ i, (b i)^2) :
    0 ≤ (∑ i, a i * b i)^2 / ((∑ i, (a i)^2) * (∑ i, (b i)^2)) ∧
    (∑ i, a i * b i)^2 / ((∑ i, (a i)^2) * (∑ i, (b i)^2)) ≤ 1 := by
  have hpos : 0 < (∑ i, (a i)^2) * (∑ i, (b i)^2) := mul_pos ha hb
  constructor
  · exact div_nonneg (sq_nonneg _) hpos.le
  · rw [div_le_one hpos]
    exact Finset.sum_mul_sq_le_sq_mul_sq Finset.univ a b

open LdStat in
/-- whatever number `ComputeLD` (Pearson) reports is a fraction in `[0, 1]`: the integer form of Cauchy–Schwarz on the
    dosages of the samples without missing calls -/
theorem pearson_r2_fraction_in_unit_interval (cand index : List (Nat × Nat)) (n d : Int)
    (h : clumpLd cand index = .r2 n d) : 0 < d ∧ 0 ≤ n ∧ n ≤ d :=
  clumpLd_r2_bounds cand index n d h

end C17R

namespace C09R

/-- a standardised column has mean 0 … -/
theorem standardize_mean_zero {n : ℕ} (x : Fin n → ℝ) (hn : 0 < n) : mean (standardize x) = 0 :=
  mean_standardize x hn

/-- … and variance 1 (when it is not constant) -/
theorem standardize_var_one {n : ℕ} (x : Fin n → ℝ) (hn : 0 < n) (hv : var x ≠ 0) : var (standardize x) = 1 :=
  var_standardize x hn hv

/-- **the algorithm of `Phenotypes.standardize` computes the definition**: scaling every value by a positive factor (the code: a
    power of two, F31), centring, centring a second time (F33) and dividing by the root mean square gives, over the reals, exactly
    `(x - mean x) / sd x` – the scaling cancels and the second centring is the identity; what both steps change is rounding only -/
theorem code_algorithm_is_standardize {n : ℕ} (c : ℝ) (hc : 0 < c) (x : Fin n → ℝ) (hn : 0 < n) (hv : var x ≠ 0) :
    standardizeCode c x = standardize x :=
  standardizeCode_eq c hc x hn hv

/-- the second centring changes nothing over the reals -/
theorem second_centring_is_identity {n : ℕ} (x : Fin n → ℝ) (hn : 0 < n) : center (center x) = center x :=
  center_center x hn

open PhenoSim in
/-- documented: neither heritability nor environment → `1 - Σβ²` floored at 0 -/
theorem noise_default (sumB2 varG : ℚ) :
    noiseVar sumB2 none none varG = max (1 - sumB2) 0 := by
  unfold noiseVar
  simp only
  split
  · rename_i h
    rw [sub_self, eq_comm]; exact max_eq_right (by linarith)
  · rename_i h
    exact (max_eq_left (by linarith)).symm

open PhenoSim in
/-- documented: otherwise `v·(1/h² − 1)` with `v` the given environment variance, else the variance of the genetic
    component (1 if that is 0), and `h²` defaulting to 0.5 (only reachable when an environment variance is given) -/
theorem noise_given (sumB2 varG : ℚ) (h2 env : Option ℚ) (hne : h2 ≠ none ∨ env ≠ none) :
    noiseVar sumB2 h2 env varG =
      (match env with | some e => e | none => if varG = 0 then 1 else varG) *
      (1 / (match h2 with | some h => h | none => (1/2 : ℚ)) - 1) := by
  unfold noiseVar
  cases h2 with
  | none =>
    cases env with
    | none => rcases hne with h | h <;> exact absurd rfl h
    | some e => rfl
  | some h => cases env <;> rfl

open PhenoSim in
/-- heritability 1 means no noise at all, whatever the environment -/
theorem noise_zero_h1 (sumB2 varG : ℚ) (env : Option ℚ) : noiseVar sumB2 (some 1) env varG = 0 := by
  unfold noiseVar; cases env <;> simp

open PhenoSim in
/-- the noise variance is never negative for heritabilities in (0,1] and non-negative variances -/
theorem noise_nonneg (sumB2 varG : ℚ) (h2 env : Option ℚ) (hs : 0 ≤ sumB2) (hv : 0 ≤ varG)
    (hh : ∀ h, h2 = some h → 0 < h ∧ h ≤ 1) (he : ∀ e, env = some e → 0 ≤ e) :
    0 ≤ noiseVar sumB2 h2 env varG := by
  unfold noiseVar
  cases h2 with
  | none =>
    cases env with
    | none => simp only; split <;> linarith
    | some e => have := he e rfl; simp only; norm_num; linarith
  | some h =>
    obtain ⟨h0, h1⟩ := hh h rfl
    have hk : 0 ≤ 1 / h - 1 := by
      rw [sub_nonneg, le_div_iff₀ h0]; linarith
    cases env with
    | none =>
      simp only
      apply mul_nonneg _ hk
      split <;> linarith
    | some e => exact mul_nonneg (he e rfl) hk

end C09R

namespace C16R

/-- LD(A,B) = LD(B,A): the cross sum is symmetric -/
theorem pearson_symm {n : ℕ} (a b : Fin n → ℝ) :
    (∑ i, a i * b i) / Real.sqrt ((∑ i, (a i)^2) * (∑ i, (b i)^2)) =
    (∑ i, b i * a i) / Real.sqrt ((∑ i, (b i)^2) * (∑ i, (a i)^2)) := by
  congr 1
  · exact Finset.sum_congr rfl (fun i _ => mul_comm _ _)
  · rw [mul_comm]

/-- |R| ≤ 1, as squares (Cauchy–Schwarz) -/
theorem pearson_sq_le_one {n : ℕ} (a b : Fin n → ℝ) (ha : 0 < ∑ i, (a i)^2) (hb : 0 < ∑ i, (b i)^2) :
    (∑ i, a i * b i)^2 / ((∑ i, (a i)^2) * (∑ i, (b i)^2)) ≤ 1 :=
  (C17R.pearson_r2_in_unit_interval a b ha hb).2

/-- R is undefined (NaN) exactly when one of the two dosage vectors is constant: the centred sum of squares is 0
    iff every entry equals the mean -/
theorem undefined_iff_constant {n : ℕ} (a : Fin n → ℝ) (m : ℝ) :
    (∑ i, (a i - m)^2 = 0) ↔ ∀ i, a i = m := by
  rw [Finset.sum_eq_zero_iff_of_nonneg (fun i _ => sq_nonneg _)]
  constructor
  · intro h i
    have := h i (Finset.mem_univ i)
    have h2 : a i - m = 0 := by simpa using this
    linarith
  · intro h i _
    rw [h i]; simp

/-! ### the executable integer statistic (`Model/LdStat.lean`) that the correspondence run compares with `calc_ld` -/
open LdStat in
/-- the reported value is undefined (`nan`) exactly when one of the two dosage vectors is constant -/
theorem nan_iff_a_dosage_is_constant (a b : List Int) :
    stat a b = none ↔ ((∀ x ∈ a, ∀ y ∈ a, x = y) ∨ (∀ x ∈ b, ∀ y ∈ b, x = y)) := by
  rw [← den_eq_zero_iff a, ← den_eq_zero_iff b]
  unfold stat
  split <;> simp_all

open LdStat in
/-- every value `calc_ld` may print for a defined statistic is the Pearson correlation `R = num/√(da·db)` to three
    decimals: `printsAs` (what the correspondence run evaluates) is exactly `|p/1000 − R| ≤ 1/2000 + tol/(2000K)` -/
theorem printed_value_is_R_to_three_decimals (a b : List Int) (s : Stat) (h : stat a b = some s)
    (tol K p : Int) (hK : 0 < K) :
    printsAs tol K p s = true ↔ |(p : ℝ) / 1000 - s.R| ≤ 1 / 2000 + (tol : ℝ) / (2000 * (K : ℝ)) :=
  printsAs_iff tol K p s hK (stat_den_pos a b s h)

open LdStat in
/-- `|R| ≤ 1` for every pair of dosage vectors over the same samples -/
theorem R_abs_le_one (a b : List Int) (hl : a.length = b.length) (s : Stat) (h : stat a b = some s) : |s.R| ≤ 1 :=
  stat_abs_le_one a b hl s h

open LdStat in
/-- the real number is the textbook one: covariance over the product of the standard deviations (all three scaled
    by `n²`, which cancels) -/
theorem R_is_pearson (a b : List Int) (s : Stat) (h : stat a b = some s) :
    s.R = ((a.length : ℝ) * (dot a b : ℝ) - (a.sum : ℝ) * (b.sum : ℝ)) /
      Real.sqrt ((((a.length : ℝ) * (dot a a : ℝ) - (a.sum : ℝ) * (a.sum : ℝ))) *
                 (((b.length : ℝ) * (dot b b : ℝ) - (b.sum : ℝ) * (b.sum : ℝ)))) := by
  unfold stat at h
  split at h
  · exact absurd h (by simp)
  · have hs : s = ⟨num a b, den a, den b⟩ := by simpa using h.symm
    subst hs
    unfold Stat.R den num
    push_cast
    rfl

end C16R

namespace C15R
open FloatText

/-- **every non-negative decimal value has exactly one correctly rounded (nearest, ties-to-even) double**: existence by the
    nearest-integer division of `roundDec` (`FloatText.roundDec_correct`), uniqueness by `roundsTo_unique` – rounding a decimal
    token to binary64 is a total function of the token's value, so `float_codec_contract`'s reader hypothesis is satisfiable and
    the round trip of a file depends on the file alone -/
theorem every_decimal_has_exactly_one_reading (a b : Nat) (hb : 0 < b) :
    ∃ d, (Canon d ∧ RoundsTo a b d) ∧ ∀ d', Canon d' ∧ RoundsTo a b d' → d' = d :=
  ⟨roundDec a b, roundDec_correct a b hb,
   fun d' h => roundsTo_unique a b hb d' _ h.1 (roundDec_correct a b hb).1 h.2 (roundDec_correct a b hb).2⟩

/-- **the float codec contract without side conditions on the reader's domain**: a writer whose tokens stay inside the rounding
    interval, read by a reader that rounds every decimal correctly, gives back every double -/
theorem float_codec_contract_total (print : Mag → Nat × Nat) (parse : Nat × Nat → Mag)
    (hprint : ∀ d, Canon d → 0 < (print d).2 ∧ RoundsTo (print d).1 (print d).2 d)
    (hparse : ∀ q : Nat × Nat, 0 < q.2 → Canon (parse q) ∧ RoundsTo q.1 q.2 (parse q))
    (d : Mag) (hd : Canon d) : parse (print d) = d := by
  obtain ⟨hb, hr⟩ := hprint d hd
  obtain ⟨hc, hr'⟩ := hparse (print d) hb
  exact roundsTo_unique _ _ hb _ _ hc hd hr' hr

/-- both hypotheses are satisfiable: the exact expansion is a writer, `roundDec` is a reader -/
example : (∀ d, Canon d → 0 < ((fun d : Mag => (d.val, 1)) d).2 ∧ RoundsTo ((fun d : Mag => (d.val, 1)) d).1 ((fun d : Mag => (d.val, 1)) d).2 d) ∧
    (∀ q : Nat × Nat, 0 < q.2 → Canon (roundDec q.1 q.2) ∧ RoundsTo q.1 q.2 (roundDec q.1 q.2)) :=
  ⟨fun d hd => ⟨Nat.one_pos, roundsTo_self d hd⟩, fun q hq => roundDec_correct q.1 q.2 hq⟩

/-- the certified reader of the driver is total: its candidate always passes the certificate (`uncertified` is never answered) -/
theorem certified_reader_is_total (a b : Nat) (hb : 0 < b) : readDec a b = some (roundDec a b) :=
  readDec_total a b hb

end C15R
