import HapModel.Real.Std
import HapModel.Real.R2Bound
import HapModel.Real.Cubic
import HapModel.Real.LdReal
import HapModel.Real.FloatRound
import HapModel.Real.PropsReal
