import HapModel.Drv.All
open Lean Drv

partial def loop (h : IO.FS.Stream) (out : IO.FS.Stream) : IO Unit := do
  let line ← h.getLine
  if line.isEmpty then return ()
  let resp : Json :=
    match Json.parse line with
    | .error e => jObj [("driver_error", jStr s!"parse: {e}")]
    | .ok j =>
      match (do let op ← strF j "op"; dispatch op j : R Json) with
      | .ok r => r
      | .error e => jObj [("driver_error", jStr e)]
  out.putStrLn resp.compress
  loop h out

def main : IO Unit := do
  loop (← IO.getStdin) (← IO.getStdout)
