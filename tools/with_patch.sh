#!/bin/bash
# tools/with_patch.sh [-R] <patch-or-commit> -- <command…>   : apply to /repo, run, always undo
REV=""
if [ "$1" = "-R" ]; then REV="-R"; shift; fi
P="$1"; shift; [ "$1" = "--" ] && shift
if [ -f "$P" ]; then PATCH="$P"; else PATCH=$(mktemp /dev/shm/p.XXXX); git -C /repo show "$P" > "$PATCH"; fi
git -C /repo diff --quiet || { echo "/repo dirty"; exit 3; }
git -C /repo apply $REV "$PATCH" || { echo "patch does not apply"; exit 3; }
"$@"; rc=$?
git -C /repo checkout -- . 
exit $rc
