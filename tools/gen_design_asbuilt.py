#!/venv/bin/python
"""Regenerates DESIGN.md §0.6 (between the ASBUILT markers): per property the theorems as stated in lean/HapModel/Props
(first sentence of each docstring), the correspondence sections with their generation rules, trusted base and
assumptions as registered in harness/cNN.py.  Run from /verif with /venv/bin/python."""
import importlib, json, re, sys
from pathlib import Path
V = Path(__file__).resolve().parent.parent
sys.path.insert(0, str(V))
props = [json.loads(l) for l in open(V / 'properties.jsonl')]
src = {}
for f in list((V / 'lean/HapModel/Props').glob('*.lean')) + [V / 'lean/HapModel/Real/PropsReal.lean']:
    txt = f.read_text()
    ns = None
    for m in re.finditer(r'^namespace (\w+)|/--((?:(?!-/).)*?)-/\s*theorem (\w+)|^theorem (\w+)', txt, re.S | re.M):
        if m.group(1):
            ns = m.group(1)
        elif m.group(3):
            doc = re.sub(r'\s+', ' ', m.group(2)).strip()
            src[f'{ns}.{m.group(3)}'] = doc
        elif m.group(4):
            src.setdefault(f'{ns}.{m.group(4)}', '')
out = []
for p in props:
    pid = p['id']
    chk = importlib.import_module(f'harness.{pid.lower()}').CHECK
    out.append(f"#### {pid} — {p['title']}")
    out.append('')
    out.append('Theorems (restated in `lean/HapModel/Props/%s.lean`%s; each audited by `#print axioms`):' % (pid, ' and `Real/PropsReal.lean`' if 'HapReal' in chk.imports else ''))
    out.append('')
    for t in chk.theorems:
        doc = src.get(t, '')
        doc = doc[:420] + ('…' if len(doc) > 420 else '')
        out.append(f"* `{t}` — {doc or '(no docstring)'}")
    out.append('')
    out.append('Correspondence sections:')
    out.append('')
    for s in chk.sections:
        kind = 'Lean driver + oracle' if s.model_req else 'oracle only'
        out.append(f"* `{s.name}` ({kind}; theorems: {', '.join(x.split('.', 1)[1] for x in s.theorems) or '–'}): {s.rule}")
    out.append('')
    if chk.trusted:
        out.append('Trusted (beyond §4): ' + '; '.join(chk.trusted) + '.')
    if chk.assumptions:
        out.append('Assumptions: ' + '; '.join(chk.assumptions) + '.')
    if getattr(chk, 'partial', ''):
        out.append('Partial: ' + chk.partial)
    out.append('')
body = '\n'.join(out)
s = (V / 'DESIGN.md').read_text()
a, b = '<!-- BEGIN ASBUILT -->', '<!-- END ASBUILT -->'
assert a in s and b in s
s = s[:s.index(a) + len(a)] + '\n' + body + '\n' + s[s.index(b):]
(V / 'DESIGN.md').write_text(s)
print('as-built section regenerated:', len(out), 'lines')
