#!/bin/bash
# tools/leancheck.sh : re-check every compiled module of the model and proof libraries with leanchecker, the toolchain's
# independent re-checker of .olean files (replays each declaration through the kernel). Exit 0 iff all modules pass.
cd "${LEAN_DIR:-/verif/lean}" || exit 2
lake build HapModel HapReal >/dev/null 2>&1 || { echo "lake build failed"; exit 2; }
mods=$(find HapModel -name '*.lean' | sed 's/\.lean$//; s|/|.|g' | sort)
fail=0
for m in HapModel HapReal $mods; do
  out=$(lake env leanchecker "$m" 2>&1); rc=$?
  if [ $rc -ne 0 ]; then echo "FAIL $m: $(echo "$out" | tail -2)"; fail=1; fi
done
n=$(echo "$mods" | wc -l)
[ $fail -eq 0 ] && echo "leanchecker: $((n+2)) modules re-checked, all accepted"
exit $fail
