#!/bin/bash
# Runs the pinned baseline suite in /repo (or $1) and checks that every stable_pass test of
# /root/.vp/BASELINE.json passes.  Leaves no by-products behind (git clean of untracked files it created).
REPO=${1:-/repo}
OUT=$(mktemp /dev/shm/junit.XXXXXX.xml)
cd "$REPO" || exit 2
before=$(git status --porcelain --untracked-files=all | sort)
/venv/bin/python -m pytest -ra -q -p no:cacheprovider --timeout=900 --continue-on-collection-errors --junitxml="$OUT" >/dev/shm/baseline.log 2>&1
python3 - "$OUT" <<'PY'
import json,sys,xml.etree.ElementTree as ET
base=json.load(open('/root/.vp/BASELINE.json'))
t=ET.parse(sys.argv[1]).getroot()
res={}
for tc in t.iter('testcase'):
    name=tc.get('classname')+'::'+tc.get('name')
    bad=any(c.tag in('failure','error','skipped') for c in tc)
    res[name]=not bad
missing=[n for n in base['stable_pass'] if not res.get(n)]
print('passed',sum(res.values()),'failed',len(res)-sum(res.values()),'baseline_missing',len(missing))
for m in missing: print('  MISSING',m)
sys.exit(1 if missing else 0)
PY
rc=$?
after=$(git status --porcelain --untracked-files=all | sort)
comm -13 <(echo "$before") <(echo "$after") | grep '^??' | cut -c4- | while read f; do rm -f "$f"; done
rm -f "$OUT"
exit $rc
