#!/bin/bash
# tools/flaky_scan.sh <seed…> : experiment only – every seeded change (scratch worktrees, tools/try_seeded.sh) under other seeds than
# the default; prints one line per (id, seed) and marks the ones the quick check of the change's own property does not catch.
# PAR=<n> parallel jobs (default 8). Output: /tmp/flaky/<id>.log, summary on stdout.
mkdir -p /tmp/flaky
seeds="$@"
ids=$(python3 - <<'PY'
import json,glob
for f in sorted(glob.glob('/verif/seeded/C*/meta.json')):
    m=json.load(open(f))
    if m.get('obsolete') or m.get('main_assessment','').startswith('not claimed'): continue
    print(m['id'])
PY
)
echo "$ids" | xargs -P ${PAR:-8} -I{} sh -c "for s in $seeds; do r=\$(VERIF_SEED=\$s /verif/tools/try_seeded.sh {} 2>&1 | grep '^\[C' | tail -1 | cut -c1-130); echo \"{} seed=\$s \$r\"; done > /tmp/flaky/{}.log 2>&1"
cat /tmp/flaky/*.log | grep -v "violations=[1-9]" 
