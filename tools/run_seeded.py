#!/usr/bin/env python3
"""Runs the quick check of each seeded mutation's property against /repo with the mutation applied (and undone
straight afterwards); records the outcome in seeded/<id>/meta.json and seeded/RESULTS.md.
Usage: tools/run_seeded.py [ids…]        (never run two instances at once: it patches /repo in place)"""
import json, os, subprocess, sys, time
from pathlib import Path
V = Path('/verif'); S = V/'seeded'
only = sys.argv[1:]
def sh(cmd, **kw): return subprocess.run(cmd, shell=True, capture_output=True, text=True, **kw)
assert sh('git -C /repo status --porcelain --untracked-files=no').stdout.strip() == '', '/repo dirty'
rows = []
for d in sorted(S.glob('C*[abc]*')):
    if not d.is_dir(): continue
    sid = d.name
    meta = json.loads((d/'meta.json').read_text())
    if meta.get('obsolete'):
        rows.append((sid, {'error': 'obsolete: ' + meta['obsolete']})); continue
    if only and sid not in only:
        rows.append((sid, meta.get('check_result', {}))); continue
    pid = meta['property']
    extra = meta.get('also_checked_by', [])
    res = {}
    a = sh(f'git -C /repo apply {d}/patch.diff')
    if a.returncode:
        res = {'error': 'patch does not apply to the current /repo HEAD: ' + a.stderr.strip()[:200]}
    else:
        try:
            for p in [pid] + extra:
                sh(f'rm -f {V}/lean/.lake/anchors_{p}.json')
                t0 = time.time()
                r = sh(f'{V}/check {p} --tier quick', timeout=1800)
                viol = [l for l in r.stdout.splitlines() if l.startswith('VIOLATION')]
                res[p] = {'exit': r.returncode, 'violation_lines': viol[:2], 'summary': (r.stdout.strip().splitlines() or [''])[-1], 'wall_s': round(time.time()-t0, 1)}
                sh(f'rm -f {V}/lean/.lake/anchors_{p}.json')
        finally:
            sh('git -C /repo checkout -- .')
    meta['check_result'] = res
    meta['check_run_at_repo_head'] = sh('git -C /repo rev-parse --short HEAD').stdout.strip()
    (d/'meta.json').write_text(json.dumps(meta, indent=1))
    rows.append((sid, res)); print(sid, {k: (v.get('exit') if isinstance(v, dict) else v) for k, v in res.items()}, flush=True)
with open(S/'RESULTS.md', 'w') as f:
    f.write('# Seeded mutations: which check catches which change\n\nEach row: a change written by an independent sub-agent (given only the property text), confirmed by `tools/verify_seeded.py`,\nthen `./check <property> --tier quick` run on /repo with the change applied (`tools/run_seeded.py`).\n\n| id | property | what it needs to manifest | quick check | replay kind |\n|----|----------|---------------------------|-------------|-------------|\n')
    for sid, res in rows:
        meta = json.loads((S/sid/'meta.json').read_text())
        need = str(meta.get('agent_meta', {}).get('needs_to_manifest', ''))[:160].replace('\n', ' ').replace('|', '/')
        cells = []
        for p, v in res.items():
            if p == 'error': cells.append('n/a: ' + str(v)[:60]); continue
            kind = 'no-failing-input-found' if any('no-failing-input-found' in l for l in v['violation_lines']) else ('failing input' if v['violation_lines'] else '-')
            cells.append(f"{p}: {'CAUGHT' if v['exit'] == 1 else ('MISSED' if v['exit'] == 0 else 'INFRA')} ({kind}, {v['wall_s']} s)")
        f.write(f"| {sid} | {meta['property']} | {need} | {'; '.join(cells)} | |\n")
print('written', S/'RESULTS.md')
