#!/usr/bin/env python3
"""Independently confirm each sub-agent mutation in a scratch worktree (never in /repo):
demo passes on the clean tree, fails with the patch, baseline suite still passes with the patch.
Confirmed ones are copied to /verif/seeded/<id>/ (patch.diff, demo.py, meta.json)."""
import json, os, shutil, subprocess, sys
from pathlib import Path
import os as _os
SRC = Path(_os.environ.get('SEED_SRC', '/tmp/mut/out')); SUFFIX = _os.environ.get('SEED_SUFFIX', ''); DST = Path('/verif/seeded'); WT = Path(_os.environ.get('SEED_WT', '/tmp/seedchk'))
def sh(cmd, **kw): return subprocess.run(cmd, shell=True, capture_output=True, text=True, **kw)
only = sys.argv[1:]
sh(f'git -C /repo worktree remove --force {WT}'); sh(f'git -C /repo worktree add --detach {WT} HEAD')
res = {}
for pd in sorted(SRC.glob('C*/[abc]')):
    sid = pd.parent.name + pd.name + SUFFIX
    if only and sid not in only: continue
    if (DST/sid/'meta.json').exists() and not only: continue
    patch, demo = pd/'patch.diff', pd/'demo.py'
    if not patch.exists() or not demo.exists(): res[sid] = 'missing files'; continue
    sh(f'git -C {WT} checkout -- . && git -C {WT} clean -fdq')
    env = dict(os.environ, PYTHONPATH=str(WT), PYTHONDONTWRITEBYTECODE='1')
    def run_demo():
        try: return subprocess.run(['/venv/bin/python', str(demo)], cwd=WT, env=env, capture_output=True, text=True, timeout=900).returncode
        except subprocess.TimeoutExpired: return 'timeout'
    clean_rc = run_demo()
    a = sh(f'git -C {WT} apply {patch}')
    if a.returncode: res[sid] = 'patch does not apply: ' + a.stderr[:200]; continue
    mut_rc = run_demo()
    suite = sh(f'/verif/tools/run_baseline.sh {WT}').stdout.strip().splitlines()
    suite = suite[0] if suite else 'no output'
    ok = clean_rc == 0 and mut_rc not in (0, 'timeout') and 'baseline_missing 0' in suite and 'passed 208' in suite
    res[sid] = dict(clean_rc=clean_rc, mut_rc=mut_rc, suite=suite, confirmed=ok)
    if ok:
        d = DST/sid; d.mkdir(parents=True, exist_ok=True)
        shutil.copy(patch, d/'patch.diff'); shutil.copy(demo, d/'demo.py')
        meta = json.loads((pd/'meta.json').read_text()) if (pd/'meta.json').exists() else {}
        meta = dict(property=pd.parent.name, id=sid, source='independent sub-agent given only the property text and a scratch worktree', agent_meta=meta,
                    confirmed_by_main=dict(demo_exit_clean=clean_rc, demo_exit_mutated=mut_rc, suite_with_patch=suite,
                                           how='tools/verify_seeded.py in scratch worktree /tmp/seedchk (git apply patch.diff; PYTHONPATH=<worktree> /venv/bin/python demo.py; tools/run_baseline.sh <worktree>)'))
        (d/'meta.json').write_text(json.dumps(meta, indent=1))
    print(sid, res[sid], flush=True)
sh(f'git -C /repo worktree remove --force {WT}')
print(json.dumps(res, indent=1))
