#!/bin/bash
# tools/try_all_seeded.sh [seed] [id-pattern] : experiment only – EVERY seeded change under seeded/ (or those matching the grep
# pattern) against the quick check of its own property, in scratch worktrees (tools/try_seeded.sh, five at a time); /repo and the
# committed evidence stay untouched.  Prints the changes that drew no VIOLATION line.  Meant to be run after generator changes:
# it shows catches that depended on one lucky case of one seed, and patches that stopped applying after a fix: commit.
seed=${1:-1}; pat=${2:-.}
out=/tmp/try_all_$seed; rm -rf $out; mkdir -p $out
ls /verif/seeded | grep -v RESULTS | grep "$pat" | xargs -P 5 -I{} bash -c "VERIF_SEED=$seed /verif/tools/try_seeded.sh {} > $out/{}.log 2>&1"
for f in $out/*.log; do
  id=$(basename $f .log)
  if grep -q "does not apply" $f; then echo "$id: patch does not apply to the current HEAD"
  elif ! grep -q VIOLATION $f; then echo "$id: not caught by its own property's check under seed $seed ($(grep '^\[C' $f | cut -c1-90))"; fi
done
