#!/bin/bash
# tools/try_patch.sh <name> <patch.diff> [check-id…] : experiment only – every quick check (or the named ones) against a scratch
# worktree of /repo with the patch applied (HAPTOOLS_REPO override); /repo and /verif/evidence stay untouched. Parallel-safe.
# Used for the harmless-rewrite round: any VIOLATION line printed here is an alarm on code where the property holds.
name=$1; patch=$2; shift 2
checks=${@:-C01 C02 C03 C04 C05 C06 C07 C08 C09 C10 C11 C12 C13 C14 C15 C16 C17 C18 C19 C20}
wt=/tmp/tryp_$name
git -C /repo worktree remove --force $wt >/dev/null 2>&1
git -C /repo worktree add --detach $wt HEAD >/dev/null 2>&1 || { echo "$name: worktree failed"; exit 2; }
git -C $wt apply $patch || { echo "$name: patch does not apply"; git -C /repo worktree remove --force $wt; exit 2; }
for c in $checks; do
  out=$(HAPTOOLS_REPO=$wt VERIF_EVIDENCE_DIR=$wt.ev /verif/check $c --tier ${TIER:-quick} 2>&1 | grep -v "^\[E::\|^\[W::"); rc=$?
  echo "$name $c $(echo "$out" | grep "^\[C" | cut -c1-150)"
  echo "$out" | grep "VIOLATION\|INFRA\|KNOWN" | head -3 | sed "s/^/   $name $c /"
  if echo "$out" | grep -q VIOLATION; then mkdir -p /tmp/tryp_keep/$name; cp $wt.ev/replays/$c-*.json /tmp/tryp_keep/$name/ 2>/dev/null; fi
done
git -C /repo worktree remove --force $wt; rm -rf $wt.ev
