#!/usr/bin/env python3-vt
import json,sys,glob,jsonschema
jsonschema.validate(json.load(open('/verif/MANIFEST.json')),json.load(open('/root/.vp/MANIFEST.schema.json')))
s=json.load(open('/root/.vp/EVIDENCE.schema.json'))
n=0
for f in sorted(glob.glob('/verif/evidence/C*.json')):
    e=json.load(open(f)); jsonschema.validate(e,s); n+=1
    c=e['coverage']; assert c['obligations']==c['discharged'],f
print('manifest ok; evidence files valid:',n)
