#!/venv/bin/python
"""Regenerates /verif/MANIFEST.json from the check modules present in harness/ (run from /verif)."""
import importlib, json, sys
from pathlib import Path
V = Path(__file__).resolve().parent.parent
sys.path.insert(0, str(V)); sys.path.insert(0, "/repo")
props = [json.loads(l) for l in open(V / "properties.jsonl")]
checks, na = [], []
NA_REASONS = {}
for p in props:
    pid = p["id"]
    f = V / "harness" / f"{pid.lower()}.py"
    if not f.exists():
        na.append({"property_id": pid, "reason": NA_REASONS.get(pid, "check not built yet in this revision of /verif (model and proofs exist under design-prototypes; see DESIGN.md section 5); not claimed until its correspondence harness runs")})
        continue
    chk = importlib.import_module(f"harness.{pid.lower()}").CHECK
    checks.append({
        "property_id": pid,
        "quick_cmd": f"./check {pid} --tier quick",
        "thorough_cmd": f"./check {pid} --tier thorough",
        "evidence_file": f"/verif/evidence/{pid}.json",
        "replay_cmd_template": f"./check {pid} --replay {{path}}",
        "engine": "lean4-model+correspondence",
        "technique": "Lean 4 machine-checked proof (kernel-checked theorems about a hand-written model) + differential correspondence of the model's executable definitions with the real code",
        "level_claimed": {
            "category": "proof",
            "text": (f"{len(chk.theorems)} Lean 4 theorems ({', '.join(chk.theorems)}) proved for all inputs/histories about an executable model of the anchored code; "
                     "the model is tied to /repo's current working tree on every run by a correspondence check (real haptools in-process vs `lake env lean --run Driver.lean` on the same generated inputs: exhaustive small scope + seeded random), "
                     "and an independent oracle of the property statement is evaluated on the implementation's behaviour to turn any break into a concrete failing input."
                     + (f" PARTIAL: {chk.partial}" if chk.partial else "")),
            "design_ref": f"DESIGN.md section 5, {pid}",
        },
        "level_note": "Trusted: Lean 4.33.0 kernel; axioms propext, Classical.choice, Quot.sound only (audited with #print axioms on every run; no sorry/admit/native_decide/bv_decide/own axioms); the hand-written model to the extent the correspondence samples it; the harness (generators, canonicalisers, oracles); CPython/numpy and third-party library contracts: " + "; ".join(chk.trusted),
    })
m = {
    "version": 1,
    "setup_cmd": "cd /verif/lean && lake build HapModel HapReal",
    "hooks": {
        "guard": "HAPTOOLS_VERIF",
        "enable": "no source hooks are needed: the harness wraps module-level names of haptools in-process (HAPTOOLS_VERIF is reserved and unused)",
        "baseline_off_cmd": "cd /repo && /venv/bin/python -m pytest -ra -q -p no:cacheprovider --timeout=900 --continue-on-collection-errors",
        "source_commits": [],
        "add_only": True,
    },
    "engines": [{"name": "lean4-model+correspondence", "path": "/verif/lean + /verif/harness", "serves_properties": [c["property_id"] for c in checks],
                 "kind_free_text": "Lean 4 lake project HapModel (models, lemmas, Props/Cxx.lean theorems, JSON line-protocol driver) + Python harness driving real haptools in-process"}],
    "checks": checks,
    "not_applicable": na,
    "notes": "See DESIGN.md. Exit codes of ./check: 0 held, 1 VIOLATION line printed, 2 infrastructure problem. Known findings: /verif/known_findings.json.",
}
(V / "MANIFEST.json").write_text(json.dumps(m, indent=1) + "\n")
print("checks:", [c["property_id"] for c in checks], "not_applicable:", len(na))
