#!/bin/bash
# tools/try_seeded.sh <seeded-id> [check-id…] : experiment only – run quick check(s) against a scratch worktree of /repo with
# the seeded change applied (HAPTOOLS_REPO override), leaving /repo and /verif/evidence untouched. Safe to run in parallel.
# The recorded results in seeded/RESULTS.md always come from tools/run_seeded.py (change applied to /repo itself).
id=$1; shift
prop=$(python3 -c "import json;print(json.load(open('/verif/seeded/$id/meta.json'))['property'])")
checks=${@:-$prop}
wt=/tmp/try_$id
git -C /repo worktree remove --force $wt >/dev/null 2>&1
git -C /repo worktree add --detach $wt HEAD >/dev/null 2>&1 || { echo "worktree failed"; exit 2; }
git -C $wt apply /verif/seeded/$id/patch.diff || { echo "$id: patch does not apply"; git -C /repo worktree remove --force $wt; exit 2; }
rm -f /verif/lean/.lake/anchors_C??_*.json
for c in $checks; do
  out=$(HAPTOOLS_REPO=$wt VERIF_EVIDENCE_DIR=$wt.ev /verif/check $c --tier ${TIER:-quick} 2>&1 | grep -v "^\[E::\|^\[W::" | grep "VIOLATION\|^\[C" | cut -c1-400 | head -4)
  echo "== $id / $c"; echo "$out"
done
git -C /repo worktree remove --force $wt; rm -rf $wt.ev
