#!/usr/bin/env python3
"""(Re)writes /verif/known_findings.json: `fixed` entries point at the fix: commits in /repo (looked up by subject),
`known` entries carry the signature predicate implemented in the property's harness module.  Run by hand after a
fix is committed; checks never write this file."""
import json, subprocess
def sha(pat):
    r = subprocess.run(['git','-C','/repo','log','--format=%h %s','--grep',pat],capture_output=True,text=True).stdout.strip().splitlines()
    assert len(r)==1,(pat,r)
    return r[0].split()[0]
F=[
 ("F01","C01","get_segment labels the closing","parent [(1,<=100),(2,<=200),(1,<=MAX)], copy [0,150]: closing tract labelled 1 although the parent carries 2 at 101..150"),
 ("F02","C03","writes the SAMPLE field","pop_field and sample_field both requested: SAMPLE FORMAT field silently absent"),
 ("F03","C03","output_vcf ignores reference variants","reference with more chromosomes than requested: columns of other chromosomes read, trailing output genotypes uninitialised"),
 ("F04","C04","accepts ancestry labels absent","haplotype ancestry label absent from the data: OverflowError (uint8(-1)) in the set-wise ancestry transform"),
 ("F05","C04","compares against the allele index","multi-allelic site with the 2nd+ ALT as haplotype allele never matches in both ancestry transforms"),
 ("F06","C06","check_header ignores short comment","header line '#', '# ' or '#H' raises IndexError"),
 ("F07","C07","takes allele counts from the variants","PGEN write: allele counts from observed values (missing call on bi-allelic variant / unobserved middle allele make write() fail)"),
 ("F08","C07","read VCFs without an index","unindexed VCF/BCF read as empty under cyvcf2 0.34 (vcf(None) yields nothing)"),
 ("F09","C08","returns an empty matrix when no variant","PGEN read with an empty variant match raises 'range() arg 3 must not be zero'"),
 ("F10","C10","honours --seed 0","seed 0 treated as 'no seed'"),
 ("F11","C12","read() discards the ID look-up caches","read; subset; read(other); subset resolves IDs against the previous contents (genotypes, phenotypes, haplotypes, ancestry label codes)"),
 ("F12","C13","check_phase detects unphased","unphased heterozygote of two non-reference alleles (1/2) accepted and its phase flag stripped"),
 ("F13","C14","detects every overlap","used (100,200): requests (120,180) and (200,300) granted (nested / shared end point)"),
 ("F14","C16","accepts a variant target together","variant target with --from-gts raises AttributeError"),
 ("F15","C18","extends the last block of the final","chromosome-ends file: the final chromosome's extension written to block tind-1"),
 ("F16","C19","--ids-file is read as a file","-I/--ids-file raises TypeError in transform, simphenotype and ld"),
 ("F17","C20","rejects an inverted region with --only","--only_breakpoint with region start > end accepted and simulated"),
 ("F18","C11","accept haplotypes that have no variant","indexed .hap query including a haplotype without V lines raises 'could not create iterator for region'"),
 ("F19","C08","sample set matching no sample","sample set matching no sample in the file crashes the VCF and PGEN readers"),
 ("F20","C13","check_maf discards the ancestry","GenotypesAncestry.check_maf(discard_also=True) leaves the ancestry array unshrunk"),
 ("F21","C16","lists a repeated --id once","ld --from-gts with a haplotype target lists a repeated --id twice"),
 ("F22","C04","omits untransformable haplotypes when","transform: .hap with a repeat (R line) and a haplotype naming a variant absent from the genotypes crashes with AttributeError ('Repeat' has no varIDs) instead of reporting and omitting"),
 ("F24","C07","iterating over an empty PGEN","GenotypesPLINK.__iter__ on an empty .pgen/.pvar raises pgenlib's 'No variants in' RuntimeError although read() returns an empty matrix"),
 ("F25","C19","reports requested samples that are absent","requested samples absent from a PGEN file are dropped without any report (VCF reads and subset() do report them)"),
 ("F26","C15","zeroes constant columns whose mean","Phenotypes.standardize(): a constant column whose mean is not exactly representable (e.g. 0.1, 0.1, 0.1 or 5e-09 x 6) gets a tiny non-zero computed stdev and is standardised to all -1/+1 instead of all zeros"),
 ("F27","C15","gives every repeated column name a suffix","Phenotypes.write: names (a, a, a-1) were written as (a, a-1, a-1): the -k suffix scheme collided with suffixed forms that are names in their own right (formerly known finding KF2; now theorem C15.names_made_unique)"),
 ("F28","C13","check_maf takes the minor allele count","check_maf(threshold=1/6) on a variant with alternate frequency 5/6: min(f, 1-f) is computed as 0.16666666666666663 and the variant is reported / discarded although its MAF equals the threshold (found when ties at frequencies that are not exact in binary were added to the C13 generator)"),
 ("F29","C19","hold one name per line","--samples-file / --ids-file were read with str.splitlines(): a name holding one of its other separators (VT, FF, FS, GS, RS, U+0085, U+2028, U+2029), e.g. the VCF sample a<FF>b, is selected by --sample / --id but cut in two (so nothing is selected, silently) by the file form; found as the hypothesis the Lean round-trip proof needed"),
 ("F30","C19","reports and ignores requested IDs that are absent from the .hap","simphenotype with a .hap file and --id / --ids-file naming an ID the file does not hold (beside known ones): the run failed with the unrelated error 'The --repeats option must be specified when simulating a mix of both haplotypes and repeats' (absent IDs were counted as repeats) instead of reporting and ignoring the unknown ID; found when the vacuous simphenotype cases of C19/cli_vs_api (wrong genotype fixture: both entry points failed alike) were repaired"),
 ("F31","C15","standardize scales each column by a power of two","Phenotypes.standardize(): a non-constant column of extreme magnitude (1e-200, 1e-300, subnormals, 1e+200 …, all inside the stated range) was zeroed because the squares of its deviations underflow or overflow; around 1e-160 the result had variance 0.99997 (the squares are subnormal). Noted on the clean tree by a round-9 sub-agent; reproduced by C15/table_operations once columns of extreme magnitude were generated"),
 ("F32","C12","ignores the effects of variants that are missing","PhenoSimulator.run (simphenotype) with an effect whose variant the genotypes do not hold: the absent variant's beta was applied, by broadcasting, to the dosages of the variants that were found (a .snplist naming v1 (0.5) and v2 (0.25) with genotypes holding only v1 gave 0.75 * dosage(v1), exit status 0); with two of three effects found the run crashed with a shape error. Found when phenotype simulation was added to C12's histories as a by-ID query (a simulator asked again after a QC step had discarded one of its variants)"),
 ("F33","C15","standardize centres each column a second time","Phenotypes.standardize(): a column whose spread is tiny compared to its offset (adjacent doubles such as -9.0 and -9.000000000000002, or 1, 1.0000000000000002, 1) was standardised from a mean that is off by its rounding error: (0, -1.414) with mean -0.707 and variance 0.5 instead of (1, -1). Reported by the thorough generation of C15/table_operations (values next to -9, added in round 11) on the unchanged tree"),
 ("F23","C04","aligns the breakpoints with the genotype","transform --ancestry with a .bp file listing the samples in another order than the genotype file: every sample gets another sample's local ancestry"),
]
out=[dict(id=i,property=p,status="fixed",commit=sha(pat),what=w) for i,p,pat,w in F]
out += [
 dict(id="KF1",property="C08",status="known",section="restricted_reads",what="VCF region queries are overlap-based (tabix) while the PGEN path filters on POS only: a multi-base REF that starts before the region start and overlaps it is returned for VCF and not for PGEN (choosing a semantics is a maintainer decision)",
      signature=dict(kind="region_straddles_multibase_ref"), witness={'samples': ['s0', 's1'], 'variants': [{'id': 'v0', 'chrom': '1', 'pos': 10, 'alleles': ['A', 'C']}, {'id': 'v1', 'chrom': '1', 'pos': 25, 'alleles': ['ACGT', 'A']}], 'data': [[[0, 1, 1], [0, 1, 1]], [[1, 1, 1], [1, 0, 1]]], 'restrictions': [{'region': ['1', 26, 40], 'samples': None, 'ids': None, 'max': None, 'chunk': None}], 'kinds': ['vcf', 'pgen']}),
]
json.dump(out,open('/verif/known_findings.json','w'),indent=1,sort_keys=True)
print(len(out),'entries')
