#!/bin/bash
# tools/seed_sweep.sh <tier> <seed…> : every check (or $CHECKS) on the unchanged tree with several seeds; any non-zero exit is a false alarm
TIER=$1; shift
export VERIF_EVIDENCE_DIR=${VERIF_EVIDENCE_DIR:-/dev/shm/sweep_ev}   # sweeps never overwrite the committed evidence
for s in "$@"; do for c in ${CHECKS:-C01 C02 C03 C04 C05 C06 C07 C08 C09 C10 C11 C12 C13 C14 C15 C16 C17 C18 C19 C20}; do
  rm -f /verif/lean/.lake/anchors_$c.json
  out=$(VERIF_SEED=$s /verif/check $c --tier $TIER 2>&1 | grep -v "^\[E::\|^\[W::" | tail -3); rc=$?
  echo "seed=$s $(echo "$out" | tail -1)"; echo "$out" | grep -q "VIOLATION\|INFRA" && echo "   !!! $out"
done; done
