#!/usr/bin/env python3
"""Independently confirm a harmless rewrite written by a sub-agent, in a scratch worktree (never in /repo): its equiv.py prints
the same DIGEST on the unchanged tree and on the rewritten one, and the baseline suite still passes with the rewrite.
Confirmed ones are copied to /verif/seeded_harmless/<id>/ (patch.diff, equiv.py, meta.json).
Usage: tools/verify_harmless.py <id>…   (ids like C05a; source /tmp/ref6/out/<prop>/<a|b>/); parallel-safe (one worktree per id)."""
import json, os, re, shutil, subprocess, sys
from pathlib import Path
SRC = Path(os.environ.get('HARMLESS_SRC', '/tmp/ref6/out')); DST = Path('/verif/seeded_harmless'); SUFFIX = os.environ.get('HARMLESS_SUFFIX', '')
def sh(cmd, **kw): return subprocess.run(cmd, shell=True, capture_output=True, text=True, **kw)
for sid in sys.argv[1:]:
    prop, v = sid[:3], sid[3]
    pd = SRC/prop/v
    WT = Path(f'/tmp/hchk_{sid}')
    sh(f'git -C /repo worktree remove --force {WT}'); sh(f'git -C /repo worktree add --detach {WT} HEAD')
    env = dict(os.environ, PYTHONPATH=str(WT), PYTHONDONTWRITEBYTECODE='1')
    def digest():
        try:
            r = subprocess.run(['/venv/bin/python', str(pd/'equiv.py')], cwd=WT, env=env, capture_output=True, text=True, timeout=1800)
        except subprocess.TimeoutExpired:
            return 'timeout'
        m = re.findall(r'^DIGEST (\S+)', r.stdout, re.M)
        return m[-1] if m else f'no digest (rc={r.returncode}): ' + (r.stderr or r.stdout)[-200:]
    d0 = digest()
    a = sh(f'git -C {WT} apply {pd}/patch.diff')
    if a.returncode:
        res = dict(error='patch does not apply: ' + a.stderr[:200])
    else:
        d1 = digest()
        suite = (sh(f'/verif/tools/run_baseline.sh {WT}').stdout.strip().splitlines() or ['no output'])[0]
        ok = d0 == d1 and re.fullmatch(r'[0-9a-f]{64}', d0 or '') is not None and 'baseline_missing 0' in suite and 'passed 208' in suite
        res = dict(digest_clean=d0, digest_changed=d1, suite=suite, confirmed=ok)
        if ok:
            d = DST/(sid + SUFFIX); d.mkdir(parents=True, exist_ok=True)
            shutil.copy(pd/'patch.diff', d/'patch.diff'); shutil.copy(pd/'equiv.py', d/'equiv.py')
            meta = json.loads((pd/'meta.json').read_text()) if (pd/'meta.json').exists() else {}
            (d/'meta.json').write_text(json.dumps(dict(property=prop, id=sid + SUFFIX, source='independent sub-agent given only the property text and a scratch worktree; asked for a rewrite after which the property still holds', agent_meta=meta,
                confirmed_by_main=dict(digest_clean=d0, digest_changed=d1, suite_with_patch=suite, at_repo_head=sh('git -C /repo rev-parse --short HEAD').stdout.strip(),
                    how='tools/verify_harmless.py in a scratch worktree (equiv.py on the unchanged tree, git apply patch.diff, equiv.py again, tools/run_baseline.sh <worktree>)')), indent=1))
    sh(f'git -C /repo worktree remove --force {WT}')
    print(sid, res, flush=True)
