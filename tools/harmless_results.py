#!/usr/bin/env python3
"""seeded_harmless/RESULTS.md from the logs of tools/try_patch.sh (one log per rewrite, all twenty quick checks against a scratch
worktree with the rewrite applied).  Usage: tools/harmless_results.py <log-dir> <prefix>   e.g. /tmp/ref6 full2_"""
import json, re, sys
from pathlib import Path
logdir, prefix = Path(sys.argv[1]), sys.argv[2]
logdir2, prefix2 = (Path(sys.argv[3]), sys.argv[4]) if len(sys.argv) > 4 else (None, None)  # round 2: ids ending in 2, logs named after the base id, rows prefixed r8
S = Path('/verif/seeded_harmless')
rows = []
for d in sorted(S.glob('C*[ab]*')):
    sid = d.name
    log = logdir / f'{prefix}{sid}.log'
    tag = sid
    if sid.endswith('2') and logdir2 is not None:
        log = logdir2 / f'{prefix2}{sid[:-1]}.log'
        tag = 'r8' + sid[:-1]
    meta = json.loads((d/'meta.json').read_text())
    if not log.exists():
        rows.append((sid, meta, None)); continue
    txt = log.read_text()
    per = {}
    for m in re.finditer(r'^%s (C\d\d) \[C\d\d\].*?violations=(\d+)' % re.escape(tag), txt, re.M):
        per[m.group(1)] = dict(violations=int(m.group(2)), concrete=0, nfif=0)
    for m in re.finditer(r'^\s+%s (C\d\d) VIOLATION (.*)$' % re.escape(tag), txt, re.M):
        c = per.setdefault(m.group(1), dict(violations=0, concrete=0, nfif=0))
        c['nfif' if 'no-failing-input-found' in m.group(2) else 'concrete'] += 1
    infra = re.findall(r'^\s+%s (C\d\d) INFRA' % re.escape(tag), txt, re.M)
    meta['check_result'] = dict(checks_run=len(per), quiet=sorted(c for c, v in per.items() if not v['violations']), no_failing_input_found=sorted(c for c, v in per.items() if v['nfif'] and not v['concrete']), failing_input_claimed=sorted(c for c, v in per.items() if v['concrete']), infra=sorted(set(infra)))
    (d/'meta.json').write_text(json.dumps(meta, indent=1))
    rows.append((sid, meta, meta['check_result']))
with open(S/'RESULTS.md', 'w') as f:
    f.write('# Harmless rewrites: which check stays quiet\n\nEach row: a rewrite written by an independent sub-agent (given only the property text) after which the property still holds,\nconfirmed by `tools/verify_harmless.py` (equal digests of everything the statement fixes on the unchanged and the rewritten tree; baseline suite passes),\nthen ALL twenty quick checks run against a scratch worktree with the rewrite applied (`tools/try_patch.sh`).\n`no-failing-input-found` = a section that records a private function could no longer bind to it (renamed, re-signed, other data structure): the\ncorrespondence cannot be run, which the protocol asks to be reported, but no input is blamed.  A non-empty last column would be a false alarm.\n\n| id | property | kind | what was rewritten | quiet checks | no-failing-input-found | failing input claimed |\n|----|----------|------|--------------------|--------------|------------------------|-----------------------|\n')
    for sid, meta, r in rows:
        am = meta.get('agent_meta', {})
        what = str(am.get('summary', ''))[:220].replace('\n', ' ').replace('|', '/')
        if r is None:
            f.write(f"| {sid} | {meta['property']} | {am.get('kind','')} | {what} | not run | | |\n"); continue
        f.write(f"| {sid} | {meta['property']} | {am.get('kind','')} | {what} | {len(r['quiet'])} of {r['checks_run']} | {', '.join(r['no_failing_input_found']) or '-'} | {', '.join(r['failing_input_claimed'] + ['INFRA ' + x for x in r['infra']]) or '-'} |\n")
print('written', S/'RESULTS.md', len(rows), 'rows')
