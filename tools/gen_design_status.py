#!/usr/bin/env python3
"""Regenerates the machine-written tables of DESIGN.md §0 (between the STATUS markers) from evidence/, known_findings.json
and seeded/*/meta.json."""
import json, re, subprocess
from pathlib import Path
V = Path('/verif')
props = [json.loads(l) for l in open(V/'properties.jsonl')]
out = []
out.append('| id | theorems (all audited) | correspondence sections (quick tier: cases / distinct non-trivial) | partial | known findings hit |')
out.append('|----|------------------------|-------------------------------------------------------------------|---------|--------------------|')
for p in props:
    f = V/'evidence'/f"{p['id']}.json"
    if not f.exists():
        out.append(f"| {p['id']} | – | no evidence yet | | |"); continue
    e = json.loads(f.read_text()); c = e['coverage']
    secs = '; '.join(f"{s['section']} ({s['cases']}/{s['distinct_nontrivial']})" for s in c['sections'])
    out.append(f"| {p['id']} | {c['discharged']}/{c['obligations']} | {secs} | {'yes' if c.get('partial') else '–'} | {', '.join(c.get('known_findings_hit', [])) or '–'} |")
status = '\n'.join(out)
kf = json.loads((V/'known_findings.json').read_text())
rows = ['| id | property | status | commit in /repo | what fails |', '|----|----------|--------|-----------------|------------|']
def key(k):
    m = re.match(r'([A-Z]+)(\d+)', k['id']); return (m.group(1) != 'F', int(m.group(2)))
for k in sorted(kf, key=key):
    rows.append(f"| {k['id']} | {k['property']} | {k['status']} | {k.get('commit', '–')} | {k['what']} |")
findings = '\n'.join(rows)
srows = ['| seeded id | property | trigger (agent\'s words, abridged) | quick check of its property | also seen by |', '|-----------|----------|-----------------------------------|------------------------------|--------------|']
for d in sorted((V/'seeded').glob('C*')):
    if not (d/'meta.json').exists(): continue
    m = json.loads((d/'meta.json').read_text()); res = m.get('check_result', {})
    need = str(m.get('agent_meta', {}).get('needs_to_manifest', ''))[:140].replace('\n', ' ').replace('|', '/')
    own = res.get(m['property'])
    def fmt(v):
        if not isinstance(v, dict): return 'not run'
        kind = 'no-failing-input-found' if any('no-failing-input-found' in l for l in v['violation_lines']) else ('failing input' if v['violation_lines'] else '')
        return ('CAUGHT: ' + kind) if v['exit'] == 1 else ('MISSED' if v['exit'] == 0 else 'INFRA')
    others = '; '.join(f"{k}: {fmt(v)}" for k, v in res.items() if k not in (m['property'], 'error'))
    srows.append(f"| {d.name} | {m['property']} | {need} | {fmt(own) if own else res.get('error', 'not run')} | {others or '–'} |")
seeded = '\n'.join(srows)
s = (V/'DESIGN.md').read_text()
for tag, body in (('STATUS', status), ('FINDINGS', findings), ('SEEDED', seeded)):
    a, b = f'<!-- BEGIN {tag} -->', f'<!-- END {tag} -->'
    if a in s:
        s = s[:s.index(a) + len(a)] + '\n' + body + '\n' + s[s.index(b):]
(V/'DESIGN.md').write_text(s)
print('DESIGN.md tables regenerated')
