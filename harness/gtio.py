"""Shared generators / helpers for the genotype I/O properties (C07, C08)."""
from __future__ import annotations

import numpy as np

from . import simdata as SD

import itertools

BASES = ["A", "C", "G", "T", "AC", "GTT"]
MANY = [x for n in (1, 2, 3, 4) for x in map("".join, itertools.product("ACGT", repeat=n))]  # 340 distinct allele strings


def gen_content(rng, maxs=4, maxv=6, allow_half_missing=True, multibase_ref=False, min_v=0, many_alleles=0.0, medium=0.0):
    ns = rng.randint(1, maxs)
    nv = rng.randint(min_v, maxv)
    pos_pool = [5, 10, 15, 20, 25, 30, 40, 100]
    if rng.random() < medium:
        # medium sizes (17-40 samples and variants): beyond whatever small batch, buffer or width a code path assumes
        ns, nv = rng.randint(17, 40), rng.randint(17, 40)
        pos_pool = list(range(5, 405, 5))
    contigs = rng.sample(["1", "2", "chrX"], rng.randint(1, 3))
    contigs.sort()
    variants = []
    per = sorted(rng.choice(contigs) for _ in range(nv))
    used = set()
    for j, c in enumerate(per):
        while True:
            pos = rng.choice(pos_pool)
            if (c, pos) not in used:
                used.add((c, pos))
                break
        nal = rng.choice([2, 2, 3, 4])
        ref = rng.choice(["A", "C", "G", "T"]) if not (multibase_ref and rng.random() < 0.4) else rng.choice(["ACGT", "GTT", "AC"])
        alts = [b for b in BASES if b != ref][: nal - 1]
        if rng.random() < many_alleles:
            # a highly multi-allelic locus (tandem repeat / HLA-like): allele indices beyond 127 and up to 253
            nal = rng.choice([129, 130, 200, 254])
            alts = [b for b in MANY if b != ref][: nal - 1]
        variants.append({"id": f"v{j}", "chrom": c, "pos": pos, "alleles": [ref] + alts})
    variants.sort(key=lambda v: (v["chrom"], v["pos"]))
    for j, v in enumerate(variants):
        v["id"] = f"v{j}"
    data = []
    for i in range(ns):
        row = []
        for v in variants:
            nal = len(v["alleles"])
            r = rng.random()
            if r < 0.08:
                a, b = 255, 255
            elif r < 0.12 and allow_half_missing:
                a, b = (255, rng.randrange(nal)) if rng.random() < 0.5 else (rng.randrange(nal), 255)
            else:
                # any subset of the alleles may be the observed one: often skip the middle alleles
                pool = list(range(nal)) if rng.random() < 0.6 else [0, nal - 1]
                a, b = rng.choice(pool), rng.choice(pool)
            row.append([a, b, 1 if rng.random() < 0.6 else 0])
        data.append(row)
    return {"samples": [f"s{i}" for i in range(ns)], "variants": variants, "data": data}


def make_obj(cls_name, fname, content, chunk_size=None):
    from haptools import data as D

    log = SD.silent_log()
    if cls_name == "GenotypesPLINK":
        g = D.GenotypesPLINK(fname, log=log, chunk_size=chunk_size)
    else:
        g = getattr(D, cls_name)(fname, log=log)
    g.samples = tuple(content["samples"])
    if "alleles" in g.variants.dtype.names:
        g.variants = np.array([(v["id"], v["chrom"], v["pos"], tuple(v["alleles"])) for v in content["variants"]], dtype=g.variants.dtype)
    else:
        g.variants = np.array([(v["id"], v["chrom"], v["pos"]) for v in content["variants"]], dtype=g.variants.dtype)
    g.data = np.array(content["data"], dtype=np.uint8).reshape((len(content["samples"]), len(content["variants"]), 3))
    return g


def snapshot(g):
    d = np.asarray(g.data)
    names = g.variants.dtype.names
    vs = []
    for v in g.variants:
        e = {"id": str(v["id"]), "chrom": str(v["chrom"]), "pos": int(v["pos"])}
        if "alleles" in names:
            e["alleles"] = [str(a) for a in v["alleles"]]
        vs.append(e)
    data = None
    if d.ndim == 3 and d.shape[0] == len(g.samples) and d.shape[1] == len(vs):
        data = [[[int(d[i, j, 0]), int(d[i, j, 1]), int(d[i, j, 2]) if d.shape[2] > 2 else 1] for j in range(d.shape[1])] for i in range(d.shape[0])]
    elif len(vs) == 0 or len(g.samples) == 0 or 0 in d.shape:
        data = [[] for _ in g.samples]
    else:
        data = "shape:" + str(d.shape)
    return {"samples": [str(s) for s in g.samples], "variants": vs, "data": data}
