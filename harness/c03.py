"""C03 — simulated genotypes agree with the breakpoints and the reference panel."""
from __future__ import annotations

import itertools
import os

import numpy as np

from . import c19b
from . import common as C
from . import gtfiles as GF
from . import simdata as SD
from .run import Check, Section

MAX = SD.MAX
_dir = None
ALT = [x for n in (1, 2, 3) for x in map("".join, itertools.product("ACGT", repeat=n)) if x != "A"]


def setup():
    global _dir
    _dir = C.scratch_dir("c03")
    return _dir


def teardown(_):
    C.rm_tree(_dir)


def cnum(c):
    return {"X": 23, "Y": 24, "MT": 25}.get(c) or int(c)


def _chunk(case):
    """--chunk-size for PGEN panels / outputs, a function of the case: none, one, and sizes that do and do not divide the
    number of variants (in the file, on a chromosome, in the region)"""
    if "pgen" not in (case["fmt_in"], case["fmt_out"]):
        return None
    return (None, 1, 2, 3, 5)[case["seed"] % 5]


def gen(rng, tier, no_repl_only=False, region_p=0.25):
    n = 120 if tier == "quick" else 3000
    for t in range(n):
        # population labels: the classic equal-length ones, and labels of unequal length in every lexicographic arrangement
        pops = list(rng.choice([["CEU", "YRI", "AMR"], ["CEU", "YRI", "AMR"], ["European", "Yoruba", "Han"], ["P1", "POP_TWO", "Z"], ["Longest_name", "mid", "b"]]))[: rng.randint(2, 3)]
        nsim = rng.randint(1, 3)
        chroms = sorted(rng.sample(["1", "2", "3", "10", "22", "X"], rng.randint(1, 3)), key=cnum)  # 2 before 10: numeric, not textual, order
        no_repl = no_repl_only or rng.random() < 0.3
        per_pop = rng.randint(nsim if no_repl else 1, nsim + 2) if no_repl else rng.randint(1, 3)
        refs, info = [], []
        for p in pops + ["EAS"]:
            for i in range(per_pop if p != "EAS" else 1):  # EAS: a population of the sample-info file the model never uses
                refs.append(f"{p}{i}")
                info.append([f"{p}{i}", p])
        rng.shuffle(refs)
        ends_pool = [100, 200, 300, 400, 500]
        haps = []
        for h in range(2 * nsim):
            segs = []
            for c in chroms:
                k = rng.randint(0, 3)
                ends = sorted(rng.sample(ends_pool, k)) + [MAX]
                for e in ends:
                    segs.append([rng.randint(1, len(pops)), cnum(c), e, 0])
            haps.append(segs)
        # reference variants: on block ends, ends+1, position 1, beyond the last map coordinate; extra chromosome in the panel
        ref_chroms = list(chroms)
        extra = rng.random() < 0.5
        if extra:
            # the panel holds more chromosomes than requested: before, between and after the requested ones
            others = [c for c in ["1", "2", "3", "10", "22", "X", "Y", "MT"] if c not in chroms]  # Y / MT: non-numeric contigs that are never simulated
            ref_chroms = sorted(set(chroms) | set(rng.sample(others, rng.randint(1, len(others)))), key=cnum)
        prefix = "chr" if rng.random() < 0.3 else ""
        want_region = rng.random() < region_p
        if want_region:
            prefix = ""  # --region names the contig without prefix (validate_params only admits 1..22,X): a prefixed
            # panel cannot be combined with --region at all (limitation noted in DESIGN.md, not generated)
        variants = []
        for c in ref_chroms:
            poss = sorted(set(rng.sample([1, 50, 100, 101, 200, 201, 250, 300, 301, 400, 401, 500, 501, 900, 100000], rng.randint(1, 6))))
            for p in poss:
                variants.append([f"v{c}_{p}", prefix + c, p])
                if rng.random() < 0.15:
                    # a second record at the same position (a split multi-allelic site, a SNP next to an indel)
                    variants.append([f"v{c}_{p}b", prefix + c, p])
        region = None
        if want_region:
            c = rng.choice(chroms)
            a = rng.choice([1, 100, 150, 201])
            region = {"chr": c, "start": a, "end": rng.choice([a, 300, 450, 900, 100000, 100000])}
        fmt_in = rng.choice(["vcf.gz", "vcf.gz", "pgen"])
        fmt_out = rng.choice([".vcf", ".vcf.gz", ".bcf", ".pgen"])
        case = {"pops": pops, "nsim": nsim, "chroms": [region["chr"]] if region else chroms, "refs": refs, "info": info, "haps": haps, "variants": variants, "prefix": prefix, "region": region, "pop_field": rng.random() < 0.5, "sample_field": rng.random() < 0.5, "no_repl": no_repl, "fmt_in": fmt_in, "fmt_out": fmt_out, "seed": rng.randrange(2**31)}
        if region is None and len(chroms) == 3 and t % 2 == 1:
            # the breakpoints cover a chromosome that is not asked for, between two that are (a run on 1,2,3 written out for 1 and 3)
            case["chroms"] = [chroms[0], chroms[2]]
        if not kept_variants(case):
            continue  # a restriction that leaves no reference variant at all (output_vcf indexes variant 0): not generated
        yield case


_sim_haps = {}
SIM_MARKERS = [100, 200, 300, 400, 500]


def H(case):
    """the breakpoints of a case: hand-built ones are part of the case, simulated ones are what the real simulate_gt
    returned for the case's model/map/seed (recorded when the case was run)"""
    if case.get("haps") is not None:
        return case["haps"]
    return _sim_haps.get(C.jdump(case)) or []


def gen_sim(rng, tier):
    """cases whose breakpoints come from the real simulate_gt (multi-generation model, steep map, optional region)"""
    n = 50 if tier == "quick" else 1200
    for case in gen(rng, "thorough", region_p=0.5):
        model = SD.gen_model(rng, max_lines=rng.randint(2, 4), npops=len(case["pops"]), nsamples=case["nsim"])
        case["haps"] = None
        case["sim"] = {"lines": [[g, fr] for g, fr in model[2]], "slope": rng.choice([5, 40, 120]), "popsize": rng.choice([6, 10]), "seed": rng.randrange(2**31)}
        case["no_repl"] = False if rng.random() < 0.8 else case["no_repl"]
        yield case
        n -= 1
        if n <= 0:
            return


_pipeline_region = None


def simulate_bps(case, d):
    import haptools.sim_genotype as sg

    SD.write_model(d / "model.dat", (case["nsim"], case["pops"], [(g, fr) for g, fr in case["sim"]["lines"]]))
    md = d / "maps"
    md.mkdir()
    for c in case["chroms"]:
        with open(md / f"genetic_map_chr{c}.map", "w") as f:
            for i, bp in enumerate(SIM_MARKERS):
                f.write(f"{c} rs{bp} {i * case['sim']['slope']} {bp}\n")
    # the command hands one and the same region object to simulate_gt and to output_vcf: so does this pipeline – a copy of the
    # case's, so that nothing the implementation does to it can reach the oracle
    global _pipeline_region
    _pipeline_region = dict(case["region"]) if case["region"] else None
    n, pop_dict, final = sg.simulate_gt(str(d / "model.dat"), str(md), list(case["chroms"]), _pipeline_region, case["sim"]["popsize"], SD.silent_log(), case["sim"]["seed"])
    bps = sg.write_breakpoints(n, pop_dict, final, str(d / "out"), SD.silent_log())
    # the accompanying .bp file, parsed independently, is what the oracle and the model compare the genotypes with
    haps = []
    for line in open(d / "out.bp"):
        f = line.rstrip("\n").split("\t")
        if len(f) == 1:
            assert f[0] == f"Sample_{len(haps) // 2 + 1}_{len(haps) % 2 + 1}", f
            haps.append([])
        else:
            haps[-1].append([case["pops"].index(f[0]) + 1, int(f[1]), int(f[2]), 0])
    return bps, haps


def run_output_vcf(case):
    """returns (observation, recorded sources) for one output_vcf run on an identifiable panel"""
    import haptools.sim_genotype as sg
    from haptools.admix_storage import HaplotypeSegment as S

    d = _dir / "run"
    C.rm_tree(d)
    d.mkdir(parents=True)
    refs = case["refs"]
    nal = 2 * len(refs)
    alleles = ["A"] + ALT[: nal - 1]
    variants = [(v[0], v[1], v[2], alleles) for v in case["variants"]]
    # reference haplotype (i,k) carries allele (2i+k + j) mod nal at the j-th variant of the panel: every output
    # genotype identifies both its source haplotype and the reference column it was read from
    data = [[((2 * i + j) % nal, (2 * i + 1 + j) % nal, 1) for j in range(len(variants))] for i in range(len(refs))]
    if case["fmt_in"] == "pgen":
        GF.write_pgen(d / "ref", refs, variants, data)
        ref_file = str(d / "ref.pgen")
    else:
        contigs = list(dict.fromkeys(v[1] for v in variants))
        GF.write_vcf_text(d / "ref.vcf", refs, variants, data, contigs=contigs)
        GF.compress_index(d / "ref.vcf", d / "ref.vcf.gz")
        ref_file = str(d / "ref.vcf.gz")
    with open(d / "info.tab", "w") as f:
        for s, p in case["info"]:
            f.write(f"{s}\t{p}\n")
    if case.get("sim"):
        # the real pipeline: simulate_gt's own breakpoint objects go straight into output_vcf
        bps, haps = simulate_bps(case, d)
        _sim_haps[C.jdump(case)] = haps
    else:
        with open(d / "model.dat", "w") as f:
            f.write("\t".join([str(case["nsim"]), "Admixed", *case["pops"]]) + "\n")
            f.write("\t".join(["1", "0"] + [str(1 / len(case["pops"]))] * len(case["pops"])) + "\n")
        bps = [[S(p, c, e, float(m)) for p, c, e, m in h] for h in case["haps"]]
        if case["region"]:
            bps = [[s for s in h if s.get_chrom() == cnum(case["region"]["chr"])] for h in bps]
    out = str(d / ("out" + case["fmt_out"]))
    # record the per-block choices (reference sample, strand) = the random tape of this run
    rec = []
    orig_conv = sg._convert_haplotype
    rp = SD.record_random()

    def conv(*a, **k):
        with C.glue("recording _convert_haplotype (entry)"):
            haplotype, chrom, pop_dict, pop_sample, sample_dict, haps_used, no_replacement = list(C.bind_args(orig_conv, a, k).values())[:7]
            # inputs of the call, as the function sees them (lists of the population -> samples map in their current order)
            labels = sorted(pop_dict)
            pop_samples = [[int(sample_dict[x]) for x in pop_sample.get(pop_dict[l], [])] if l in pop_dict else [] for l in range(max(labels) + 1)] if labels else []
            hap_in = [SD.seg_t(s)[:3] + [0] for s in haplotype]
            frs_calls.clear()
        r = orig_conv(*a, **k)
        with C.glue("recording _convert_haplotype (exit)"):
            choices = []
            for lab, ind in zip(r[1], r[3]):
                lst = pop_samples[int(lab)] if int(lab) < len(pop_samples) else []
                choices.append(lst.index(int(ind)) if int(ind) in lst else len(lst))  # len(lst): drawn outside its population
            rec.append({"chrom": cnum(chrom), "ends": [int(x) for x in r[0]], "pops": [int(x) for x in r[1]], "names": [str(x) for x in r[2]], "inds": [int(x) for x in r[3]], "strands": [int(x) for x in r[4]], "nlog": len(rp.log), "hap_in": hap_in, "pop_samples": pop_samples, "choices": choices, "requests": [list(x) for x in frs_calls] if no_replacement else None})
        return r

    # --no_replacement: the (start, end) stretches requested from _find_random_sample during one _convert_haplotype call
    frs_calls = []
    orig_frs = sg._find_random_sample

    def frs(*a, **k):
        with C.glue("recording _find_random_sample"):
            start_coord, end_coord = list(C.bind_args(orig_frs, a, k).values())[4:6]
            frs_calls.append((int(start_coord), int(end_coord)))
        return orig_frs(*a, **k)

    sg._find_random_sample = frs

    sg._convert_haplotype = conv
    np.random.seed(case["seed"])
    try:
        with rp:
            sg.output_vcf(bps, list(case["chroms"]), str(d / "model.dat"), ref_file, str(d / "info.tab"), (_pipeline_region if case.get("sim") else (dict(case["region"]) if case["region"] else None)), case["pop_field"], case["sample_field"], case["no_repl"], out, SD.silent_log(), **({"chunk_size": _chunk(case)} if _chunk(case) else {}))
    finally:
        sg._convert_haplotype = orig_conv
        sg._find_random_sample = orig_frs
    # strands: no_replacement -> from _find_random_sample (r[4]); otherwise the randint(2,size) drawn right after
    infer = False
    try:
        if os.environ.get("VERIF_TAPES") == "calls":  # experiment: exercise the fallback on the unchanged tree
            raise ValueError("forced")
        for r in rec:
            if not case["no_repl"]:
                nxt = [e for e in rp.log[r["nlog"] :] if e[0] == "randint"]
                st = [int(x) for x in np.atleast_1d(nxt[0][3])]
                if len(st) != len(r["inds"]) or any(x not in (0, 1) for x in st):
                    raise ValueError("not the strand draw")
                r["strands"] = st
    except Exception:  # noqa: the generator log has another shape than the one read here
        infer = True
    obs = read_output(out, case)
    if infer:
        with C.glue("reading the copied strands off the written alleles"):
            _infer_strands(case, obs, rec)
    obs["tape"] = [{k: v for k, v in r.items() if k != "nlog"} for r in rec]
    # what _convert_haplotype returned per (haplotype, chromosome): block ends and per block [reference sample, label]
    obs["conv"] = [[r["ends"], [[i, p] for i, p in zip(r["inds"], r["pops"])], r["requests"]] for r in rec]
    return obs


def _infer_strands(case, obs, rec):
    """fallback when the strand draws cannot be read off the generator's log (another order or kind of draws): in the
    identifiable panels every reference haplotype carries its own allele at every variant, so the strand a block was copied from
    is read off any allele written inside the block (a block without a variant copies nothing: strand 0)"""
    kv = kept_variants(case)
    pre = len(case["prefix"])
    nal = 2 * len(case["refs"])
    shift = [case["variants"].index(v) for v in kv]
    nchrom = len(case["chroms"])
    for idx, r in enumerate(rec):
        h = idx // nchrom
        strands = []
        lo = 0
        for k, end in enumerate(r["ends"]):
            s = 0
            for j, v in enumerate(kv):
                if cnum(v[1][pre:]) == r["chrom"] and lo < v[2] <= end or (cnum(v[1][pre:]) == r["chrom"] and k == 0 and v[2] <= end):
                    a = obs["gts"][j][h // 2][h % 2]
                    s = ((a - shift[j]) % nal) % 2
                    break
            strands.append(int(s))
            lo = end
        r["strands"] = strands


def read_output(out, case):
    """independent readers: pysam for VCF/BCF, pgenlib + text for PGEN"""
    if out.endswith(".pgen"):
        import pgenlib

        pvar = [l.rstrip("\n").split("\t") for l in open(out[:-5] + ".pvar") if not l.startswith("##")]
        hdr, rows = pvar[0], pvar[1:]
        ci = {h.lstrip("#"): i for i, h in enumerate(hdr)}
        variants = [[r[ci["ID"]], r[ci["CHROM"]], int(r[ci["POS"]]), [r[ci["REF"]]] + r[ci["ALT"]].split(",")] for r in rows]
        samples = [l.rstrip("\n").split("\t")[0] for l in open(out[:-5] + ".psam") if not l.startswith("#")]
        rd = pgenlib.PgenReader(bytes(out, "utf8"), pvar=pgenlib.PvarReader(bytes(out[:-5] + ".pvar", "utf8")))
        gts = []
        for j in range(len(variants)):
            buf = np.empty(2 * len(samples), dtype=np.int32)
            rd.read_alleles(j, buf)
            gts.append([[int(buf[2 * s]), int(buf[2 * s + 1])] for s in range(len(samples))])
        return {"samples": samples, "variants": variants, "gts": gts, "pop": None, "sample": None, "fields": []}
    import pysam

    vf = pysam.VariantFile(out)
    samples = list(vf.header.samples)
    fields = sorted(k for k in vf.header.formats.keys())
    variants, gts, popf, samf = [], [], [], []
    for r in vf:
        variants.append([r.id, r.chrom, r.pos, list(r.alleles)])
        gts.append([[(-1 if a is None else a) for a in r.samples[s]["GT"]] for s in samples])
        popf.append([list(r.samples[s]["POP"]) if "POP" in r.format else None for s in samples])
        samf.append([list(r.samples[s]["SAMPLE"]) if "SAMPLE" in r.format else None for s in samples])
    phased = None
    return {"samples": samples, "variants": variants, "gts": gts, "pop": popf if "POP" in fields else None, "sample": samf if "SAMPLE" in fields else None, "fields": fields}


def impl(case):
    return run_output_vcf(case)


def kept_variants(case):
    """reference variants restricted to the simulated chromosomes (and region), in reference order"""
    want = {case["prefix"] + c for c in case["chroms"]}
    out = []
    for v in case["variants"]:
        if v[1] not in want:
            continue
        if case["region"] and not (case["region"]["start"] <= v[2] <= case["region"]["end"]):
            continue
        out.append(v)
    return out


def model_req(case):
    return {"op": "batch", "reqs": []}


_impl_cache = {}


def impl_wrap(case):
    r = C.guarded(run_output_vcf, case)
    _impl_cache[C.jdump(case)] = r
    if isinstance(r, dict) and "error" in r:
        return r
    return r


def model_req2(case):
    """the model is fed the recorded tape (per haplotype and chromosome: block ends and chosen sources)"""
    r = _impl_cache.get(C.jdump(case))
    if not isinstance(r, dict) or "tape" not in r:
        return {"op": "batch", "reqs": []}
    kv = kept_variants(case)
    nchrom = len(case["chroms"])
    tape = r["tape"]
    haps = []
    for h in range(len(tape) // nchrom if nchrom else 0):
        hb = []
        for k in range(nchrom):
            t = tape[h * nchrom + k]
            hb.append({"chrom": t["chrom"], "ends": t["ends"], "srcs": [[i, s, p] for i, s, p in zip(t["inds"], t["strands"], t["pops"])]})
        haps.append(hb)
    pre = len(case["prefix"])
    reqs = [{"op": "outputVcf", "chroms": [cnum(c) for c in case["chroms"]], "vars": [[cnum(v[1][pre:]), v[2]] for v in kv], "haps": haps}]
    # _convert_haplotype itself: from the haplotype it was given, the population -> samples map and the recorded draws
    reqs += [{"op": "convertHap", "hap": t["hap_in"], "chrom": t["chrom"], "popSamples": t["pop_samples"], "choices": t["choices"], "strands": [0] * len(t["choices"])} for t in tape]
    return {"op": "batch", "reqs": reqs}


def model_obs(case, resp):
    if "resps" not in resp or not resp["resps"]:
        return {"gts": None}
    conv = [[r["ends"], [[s[0], s[2]] for s in r["srcs"]], r["requests"] if case["no_repl"] else None] for r in resp["resps"][1:]]
    resp = resp["resps"][0]
    out = _model_obs1(case, resp)
    out["conv"] = conv
    return out


def _model_obs1(case, resp):
    if "haps" not in resp:
        return {"gts": None}
    hs = resp["haps"]
    nv = len(hs[0]) if hs else 0
    nal = 2 * len(case["refs"])
    shift = [case["variants"].index(v) for v in kept_variants(case)]
    gts = [[[(hs[2 * s][j][0] + shift[j]) % nal, (hs[2 * s + 1][j][0] + shift[j]) % nal] for s in range(len(hs) // 2)] for j in range(nv)]
    pops = [[[case["pops"][hs[2 * s + k][j][3] - 1] for k in (0, 1)] for s in range(len(hs) // 2)] for j in range(nv)]
    return {"gts": gts, "pops": pops}


def equal(a, b):
    if isinstance(a, dict) and "error" in a:
        return b.get("gts") is None  # nothing to compare (the oracle judges errors)
    if b.get("gts") is None:
        return False
    if a["gts"] != b["gts"]:
        return False
    if a.get("pop") is not None and a["pop"] != b["pops"]:
        return False
    if a.get("conv") != b.get("conv"):
        return False
    return True


def label_at(segs, c, pos):
    for s in segs:
        if s[1] == c and s[2] >= pos:
            return s[0]
    return None


def oracle(case, obs):
    if "error" in obs:
        if case["no_repl"] and obs.get("deliberate") and obs.get("error") not in ("harness_glue", "timeout"):
            return None  # the panel ran out: refusing is the required behaviour (C14)
        return f"output_vcf raised {obs}"
    kv = kept_variants(case)
    haps = H(case)
    nsim = len(haps) // 2
    if case.get("sim") and nsim != case["nsim"]:
        return f"simulate_gt returned {len(haps)} haplotypes for {case['nsim']} samples"
    if obs["samples"] != [f"Sample_{i+1}" for i in range(nsim)]:
        return f"output samples {obs['samples']}"
    nal = 2 * len(case["refs"])
    alleles = ["A"] + ALT[: nal - 1]
    want_vars = [[v[0], v[1], v[2], alleles] for v in kv]
    if obs["variants"] != want_vars:
        return f"output variants {[(v[1], v[2]) for v in obs['variants']]} differ from the reference's restricted to the simulated chromosomes/region {[(v[1], v[2]) for v in kv]} (or allele lists differ)"
    popof = {s: p for s, p in case["info"]}
    pre = len(case["prefix"])
    used = {}
    for j, v in enumerate(kv):
        c = cnum(v[1][pre:])
        shift = case["variants"].index(v)
        for s in range(nsim):
            for k in (0, 1):
                a = obs["gts"][j][s][k]
                if not (0 <= a < nal):
                    return f"genotype {a} at {v[1]}:{v[2]} sample {s} strand {k} is not an allele of any reference haplotype (stale or uninitialised value)"
                a = (a - shift) % nal  # the reference haplotype carrying that allele at this variant
                src, st = case["refs"][a // 2], a % 2
                lab = label_at(haps[2 * s + k], c, v[2])
                if lab is None:
                    return f"breakpoints give no label at {v[1]}:{v[2]}"
                if popof[src] != case["pops"][lab - 1]:
                    return f"Sample_{s+1} strand {k+1} at {v[1]}:{v[2]}: allele copied from {src} ({popof[src]}) but the breakpoints say {case['pops'][lab-1]}"
                if obs["pop"] is not None and obs["pop"][j][s][k] != case["pops"][lab - 1]:
                    return f"POP field {obs['pop'][j][s][k]} at {v[1]}:{v[2]} but the breakpoints say {case['pops'][lab-1]}"
                if obs["sample"] is not None and obs["sample"][j][s][k] != src:
                    return f"SAMPLE field {obs['sample'][j][s][k]} at {v[1]}:{v[2]} but the allele comes from {src}"
                # one source per block
                blk = next(i for i, sg_ in enumerate(x for x in haps[2 * s + k] if x[1] == c) if sg_[2] >= v[2])
                key = (s, k, c, blk)
                if used.setdefault(key, a) != a:
                    return f"Sample_{s+1} strand {k+1} chr{c} block {blk}: variants copied from two reference haplotypes ({used[key]} and {a})"
    if not case["fmt_out"].endswith(".pgen"):
        if (obs["pop"] is not None) != case["pop_field"]:
            return f"POP field present={obs['pop'] is not None}, requested={case['pop_field']}"
        if (obs["sample"] is not None) != case["sample_field"]:
            return f"SAMPLE field present={obs['sample'] is not None}, requested={case['sample_field']}"
    elif obs["pop"] is not None or obs["sample"] is not None:
        return "PGEN output carries annotations"
    if case["no_repl"]:
        seen = {}
        for j in range(len(kv)):
            for s in range(nsim):
                for k in (0, 1):
                    a = (obs["gts"][j][s][k] - case["variants"].index(kv[j])) % nal
                    if (a, j) in seen:
                        return f"--no_replacement: reference haplotype {a} supplies variant {kv[j][1]}:{kv[j][2]} to both {seen[(a, j)]} and {(s, k)}"
                    seen[(a, j)] = (s, k)
    return None


def describe(case, obs):
    tags = [f"in={case['fmt_in']}", f"out={case['fmt_out']}", f"chunk_size={_chunk(case)}", f"flags={int(case['pop_field'])}{int(case['sample_field'])}", "no_replacement" if case["no_repl"] else "replacement"]
    if case["region"]:
        tags.append("region")
    if case["prefix"]:
        tags.append("chr-prefix")
    want = {case["prefix"] + c for c in case["chroms"]}
    if any(v[1] not in want for v in case["variants"]):
        tags.append("reference-has-more-chromosomes")
    ends = {s[2] for h in H(case) for s in h}
    if any(v[2] in ends for v in case["variants"]):
        tags.append("variant-on-block-end")
    if isinstance(obs, dict) and "error" in obs:
        tags.append("refused")
    if case.get("sim"):
        tags.append(f"simulated:generation-lines={len(case['sim']['lines'])}")
        if any(len([x for x in h if x[1] == h[0][1]]) > 1 for h in H(case) if h):
            tags.append("simulated:recombined")
    if case["region"] and case["region"]["end"] > 500 and any(v[2] > 500 and v[2] <= case["region"]["end"] for v in kept_variants(case)):
        tags.append("region-end-and-variants-beyond-last-map-coordinate")
    if len({len(p) for p in case["pops"]}) > 1:
        tags.append("population-labels-of-unequal-length")
    return tags


# ------------------------------------------------------------------ panels with more than 256 reference samples
def gen_big(rng, tier, no_repl=False):
    n = 6 if tier == "quick" else 60
    for _ in range(n):
        nref = rng.choice([260, 300, 520])
        chroms = sorted(rng.sample(["1", "2", "10", "X"], rng.randint(1, 2)), key=cnum)
        haps = []
        nsim = rng.randint(2, 4)
        for h in range(2 * nsim):
            segs = []
            for c in chroms:
                for e in sorted(rng.sample([100, 200, 300, 400], rng.randint(0, 3))) + [MAX]:
                    segs.append([rng.randint(1, 2), cnum(c), e, 0])
            haps.append(segs)
        # the second population sits in the columns from 256 on (or the populations alternate)
        layout = rng.choice(["second-pop-last", "first-pop-last", "alternating", "few-used-samples-last"])
        if no_repl:
            layout = "few-used-samples-last"
        yield {"no_repl": no_repl, "nref": nref, "chroms": chroms, "haps": haps, "layout": layout, "fmt_out": rng.choice([".vcf", ".vcf.gz", ".bcf"]), "pop_field": rng.random() < 0.5, "seed": rng.randrange(2**31)}


def _big_panel(case):
    import random

    rnd = random.Random(case["seed"])
    n = case["nref"]
    if case["layout"] == "alternating":
        pops = ["P1" if i % 2 == 0 else "P2" for i in range(n)]
    elif case["layout"] == "few-used-samples-last":
        # a large panel of which the model uses a handful of samples (24, in the last columns); the rest belong to a population
        # the model does not name
        pops = ["P0" if i < n - 24 else ("P1" if i % 2 == 0 else "P2") for i in range(n)]
    else:
        first = "P1" if case["layout"] == "second-pop-last" else "P2"
        pops = [first if i < n // 2 else ("P2" if first == "P1" else "P1") for i in range(n)]
    refs = [f"R{i}" for i in range(n)]
    variants = [(f"v{c}_{p}", c, p, ["A", "C", "G", "T"]) for c in case["chroms"] for p in (50, 100, 150, 250, 301, 450, 900)]
    data = [[(rnd.randrange(4), rnd.randrange(4), 1) for _ in variants] for _ in refs]
    return refs, pops, variants, data


def impl_big(case):
    import haptools.sim_genotype as sg
    from haptools.admix_storage import HaplotypeSegment as S

    d = _dir / "big"
    C.rm_tree(d)
    d.mkdir(parents=True)
    refs, pops, variants, data = _big_panel(case)
    GF.write_vcf_text(d / "ref.vcf", refs, variants, data, contigs=case["chroms"])
    GF.compress_index(d / "ref.vcf", d / "ref.vcf.gz")
    with open(d / "model.dat", "w") as f:
        f.write(f"{len(case['haps']) // 2}\tAdmixed\tP1\tP2\n1\t0\t0.5\t0.5\n")
    with open(d / "info.tab", "w") as f:
        for r, p in zip(refs, pops):
            f.write(f"{r}\t{p}\n")
    bps = [[S(p, c, e, float(m)) for p, c, e, m in h] for h in case["haps"]]
    out = str(d / ("out" + case["fmt_out"]))
    np.random.seed(case["seed"] % 2**32)
    sg.output_vcf(bps, case["chroms"], str(d / "model.dat"), str(d / "ref.vcf.gz"), str(d / "info.tab"), None, case["pop_field"], True, bool(case.get("no_repl")), out, SD.silent_log())
    return read_output(out, {"fmt_out": case["fmt_out"]})


def oracle_big(case, obs):
    """SAMPLE names the reference sample; the allele must be one that sample carries there, the sample must belong to
    the population the breakpoints give, and within a block the sample does not change"""
    if "error" in obs and case.get("no_repl") and obs.get("deliberate"):
        return None  # without replacement a panel may run out (which stretches are taken depends on the draws): a refusal is in order
    if "error" in obs:
        return f"output_vcf raised {obs}"
    refs, pops, variants, data = _big_panel(case)
    popof = dict(zip(refs, pops))
    row = {r: i for i, r in enumerate(refs)}
    if [v[:3] for v in obs["variants"]] != [[v[0], v[1], v[2]] for v in variants]:
        return "output variants differ from the reference's"
    if obs["sample"] is None:
        return "SAMPLE field missing although requested"
    for j, v in enumerate(variants):
        c = cnum(v[1])
        for s in range(len(case["haps"]) // 2):
            for k in (0, 1):
                src = obs["sample"][j][s][k]
                lab = label_at(case["haps"][2 * s + k], c, v[2])
                want_pop = ["P1", "P2"][lab - 1]
                if src not in popof or popof[src] != want_pop:
                    return f"Sample_{s+1} strand {k+1} at {v[1]}:{v[2]}: SAMPLE {src} ({popof.get(src)}) but the breakpoints say {want_pop}"
                a = obs["gts"][j][s][k]
                if a not in data[row[src]][j][:2]:
                    return f"Sample_{s+1} strand {k+1} at {v[1]}:{v[2]}: allele {a} is not carried by {src} (column {row[src]} of {len(refs)}; it carries {data[row[src]][j][:2]})"
                if obs["pop"] is not None and obs["pop"][j][s][k] != want_pop:
                    return f"POP {obs['pop'][j][s][k]} at {v[1]}:{v[2]}, breakpoints say {want_pop}"
    return None


CHECK = Check(
    id="C03",
    title="Simulated genotypes agree with the breakpoints and the reference panel",
    theorems=["C03.assign_eq_firstGE", "C03.cell_from_panel", "C03.block_single_source", "C03.source_matches_breakpoints", "C03.simulated_blocks_cover"],
    sections=[
        Section(
            name="output_vcf",
            theorems=["C03.assign_eq_firstGE", "C03.cell_from_panel", "C03.block_single_source", "C03.source_matches_breakpoints", "C03.simulated_blocks_cover"],
            gen=gen,
            impl=impl_wrap,
            model_req=model_req2,
            model_obs=model_obs,
            equal=equal,
            oracle=oracle,
            describe=describe,
            setup=setup,
            teardown=teardown,
            nontrivial=lambda c, o: C.jdump(c) if isinstance(o, dict) and "gts" in o and len(o["gts"]) > 1 else None,
            rule="hand-built breakpoint sets (1-3 simulated samples, 1-3 chromosomes incl. X, 1-4 blocks per chromosome with ends on a grid, closed by the sentinel) over identifiable panels (reference haplotype (i,k) carries the unique allele index (2i+k+j) mod 2n at the j-th multi-allelic variant, so every output genotype identifies its source haplotype and the reference column it was read from), variants on block ends, ends+1, position 1 and far beyond the map, with/without chr prefix, panels holding more chromosomes than requested, samples of unused populations, optional region, all four POP/SAMPLE flag combinations, with and without replacement, VCF.gz or PGEN input (PGEN with --chunk-size none, 1, 2, 3, 5), VCF / VCF.gz / BCF / PGEN output read back with pysam / pgenlib; the recorded per-block choices are replayed into the Lean loop model and the whole genotype (and POP) matrix is compared; every _convert_haplotype call is also replayed from its inputs (haplotype, population -> samples map, recorded draw) into Convert.convert and its block ends, labels and chosen reference samples compared",
        ),
        Section(
            name="simulated_breakpoints",
            theorems=["C03.assign_eq_firstGE", "C03.cell_from_panel", "C03.block_single_source", "C03.source_matches_breakpoints", "C03.simulated_blocks_cover"],
            gen=gen_sim,
            impl=impl_wrap,
            model_req=model_req2,
            model_obs=model_obs,
            equal=equal,
            oracle=oracle,
            describe=describe,
            setup=setup,
            teardown=teardown,
            nontrivial=lambda c, o: C.jdump(c) if isinstance(o, dict) and "gts" in o and len(o["gts"]) > 1 else None,
            rule="the same panels, flags, regions and formats, but the breakpoints are those the real simulate_gt returns (2-4 generation lines incl. pulses, map with markers at 100..500 bp and 5/40/120 cM per marker so that tracts recombine, region ends before, inside and far beyond the last map coordinate) written by the real write_breakpoints, whose returned objects are handed to output_vcf (exactly the CLI's pipeline) while the .bp file is parsed independently; the oracle reads every output allele back to its reference haplotype and compares its population with the label the simulated breakpoints give that position",
        ),
        Section(
            name="big_panel",
            theorems=["C03.cell_from_panel"],
            gen=gen_big,
            impl=impl_big,
            oracle=oracle_big,
            setup=setup,
            teardown=teardown,
            nontrivial=lambda c, o: C.jdump(c),
            describe=lambda c, o: [f"reference-samples={c['nref']}", c["layout"], "out=" + c["fmt_out"]],
            rule="reference panels of 260-520 samples (two populations, the second one in the columns from 256 on, the first one there, or alternating; random 4-allelic genotypes), SAMPLE always requested: every output allele must be carried by the sample SAMPLE names, that sample must belong to the population the breakpoints give, POP must agree (oracle only: with more than 128 samples the panel cannot be made haplotype-identifiable within uint8 allele indices)",
        ),
        Section(
            name="simgenotype_as_typed_in_a_shell",
            theorems=["C03.source_matches_breakpoints"],
            gen=c19b.gen_simgt_shell,
            impl=lambda case: c19b.impl_simgt_shell(case, _dir),
            oracle=c19b.oracle_simgt_shell,
            describe=lambda c, o: ["out=" + c["out"], "pop_field" if c["pop"] else "no-pop_field", "sample_field" if c["sample"] else "no-sample_field"],
            setup=setup,
            teardown=teardown,
            nontrivial=lambda c, o: C.jdump(c),
            rule="`python -m haptools simgenotype` as a process of its own in a working directory whose name holds a blank, every input by relative path, --out a bare name, an upper-case spelling (SIM.VCF), a compressed or BCF name with a blank, a nested and a dotted name, with and without --pop_field / --sample_field: exit status 0, the named file exists, breakpoints and genotypes with their POP / SAMPLE annotations equal what validate_params + simulate_gt + write_breakpoints + output_vcf write for the same inputs, seed and flags",
        ),
    ],
    trusted=["numpy searchsorted/insert/diff/repeat contracts (exercised)", "pysam / pgenlib writing what they are given; cyvcf2 / pgenlib reading the panel (C07/C08)", "_convert_haplotype's recorded outputs are the tape of the run (its choices are checked against the sample-info populations by the oracle)"],
    assumptions=["the reference panel is sorted by chromosome in the order of --chroms and by position; --chroms sorted ascending, X last"],
    anchors=[("haptools/sim_genotype.py", ["output_vcf", "_convert_haplotype", "_find_random_sample", "_find_coord", "_prepare_coords"]), ("haptools/transform.py", ["GenotypesAncestry.write"])],
)
