"""C10 — a seed makes simgenotype and simphenotype reproducible."""
from __future__ import annotations

import hashlib
import os
import subprocess
import sys

import numpy as np

from . import common as C
from . import gtfiles as GF
from . import simdata as SD
from .run import Check, Section

_dir = None
SEEDS = [0, 0, 1, 7, 2**32 - 1, 12345]


def setup():
    global _dir
    _dir = C.scratch_dir("c10")
    return _dir


def teardown(_):
    C.rm_tree(_dir)


def make_inputs(d, rng_seed, nsamp=3, chroms=("1", "2"), dup_info=False):
    """model, maps, reference panel (VCF.gz), sample info, snplist, haplotype-free genotype file for simphenotype"""
    import random

    rnd = random.Random(rng_seed)
    d.mkdir(parents=True, exist_ok=True)
    with open(d / "model.dat", "w") as f:
        f.write(f"{nsamp}\tAdmixed\tCEU\tYRI\n1\t0\t0.4\t0.6\n3\t0.5\t0.25\t0.25\n")
    SD.write_maps(d / "maps", {c: [(100 * (i + 1), 20 * i) for i in range(8)] for c in chroms})
    refs, info = [], []
    for p in ("CEU", "YRI"):
        for i in range(8):
            refs.append(f"{p}{i}")
            info.append((f"{p}{i}", p))
    variants = [(f"v{c}_{pos}", c, pos, ["A", "C"]) for c in chroms for pos in (50, 150, 250, 450, 650, 900)]
    data = [[(rnd.randint(0, 1), rnd.randint(0, 1), 1) for _ in variants] for _ in refs]
    GF.write_vcf_text(d / "ref.vcf", refs, variants, data, contigs=list(chroms))
    GF.compress_index(d / "ref.vcf", d / "ref.vcf.gz")
    GF.write_pgen(d / "ref", refs, variants, data)  # the same panel as a PGEN fileset
    with open(d / "info.tab", "w") as f:
        for k, (s, p) in enumerate(info):
            f.write(f"{s}\t{p}\n")
            if dup_info and k % 5 == 1:
                f.write(f"{s}\t{p}\n")  # sample-info files assembled from several lists name some samples twice
    # simphenotype inputs
    snps = [(f"rs{j}", "1", 10 * (j + 1), ["A", "C"]) for j in range(6)]
    sdata = [[(rnd.randint(0, 1), rnd.randint(0, 1), 1) for _ in snps] for _ in range(60)]
    sdata = [row[:5] + [(0, 0, 1)] for row in sdata]  # the last SNP is monomorphic in this cohort: a constant causal variable
    GF.write_vcf_text(d / "gts.vcf", [f"s{i}" for i in range(60)], snps, sdata)
    with open(d / "eff.snplist", "w") as f:
        for j in range(6):
            f.write(f"rs{j}\t{0.1 * (j + 1):.1f}\n")


# simphenotype configurations every seeded run is repeated under: quantitative and case/control traits, with and without noise
# (no noise + few causal variables = tied liabilities at the case threshold), given environment, raw dosages
PHENO_CONFIGS = [
    dict(heritability=0.5),
    dict(heritability=1.0, prevalence=0.3, haplotype_ids=("rs1",)),
    dict(prevalence=0.4),
    dict(environment=0.0, prevalence=0.25, haplotype_ids=("rs2", "rs4")),
    dict(heritability=0.8, normalize=False),
    dict(environment=2.0),
]


def pheno_kwargs(cfg):
    k = dict(cfg)
    if "haplotype_ids" in k:
        k["haplotype_ids"] = set(k["haplotype_ids"])
    return k


def pheno_flags(cfg):
    a = []
    for key, flag in (("heritability", "--heritability"), ("prevalence", "--prevalence"), ("environment", "--environment")):
        if key in cfg:
            a += [flag, str(cfg[key])]
    if cfg.get("normalize") is False:
        a += ["--no-normalize"]
    for i in cfg.get("haplotype_ids", ()):
        a += ["--id", i]
    return a


def digest_vcf(path):
    import pysam

    h = hashlib.sha256()
    vf = pysam.VariantFile(str(path))
    h.update(",".join(vf.header.samples).encode())
    for r in vf:
        h.update(f"{r.chrom}:{r.pos}:{r.id}:{r.alleles}".encode())
        for s in r.samples.values():
            h.update(repr((s["GT"], s.phased, s.get("POP"), s.get("SAMPLE"))).encode())
    return h.hexdigest()


# ------------------------------------------------------------------ in-process histories (API and CLI runner)
def gen_inproc(rng, tier):
    n = 8 if tier == "quick" else 120
    for t in range(n):
        # between the two seeded runs something else runs in the same process: nothing, a --region run on the same maps,
        # a run on one chromosome only, the same command with another seed, or another seeded simphenotype call
        yield {"pgen_ref": t % 4 == 1, "seed": SEEDS[t % len(SEEDS)], "inputs": rng.randrange(2**31), "burn": [rng.randint(0, 50), rng.randint(51, 500)], "no_repl": t % 2 == 0, "via": "cli" if t % 3 == 0 else "api", "flags": rng.choice([[], ["--pop_field"], ["--pop_field", "--sample_field"]]), "R": rng.choice([2, 3, 3, 60]), "printopts": t % 4 == 1, "interlude": ["region", "chrom2_only", "other_seed", "none", "region_cli", "simphenotype"][t % 6], "region": {"chr": "1", "start": rng.choice([100, 150, 300]), "end": rng.choice([350, 450, 600])}}


def _interlude(case, d):
    """something unrelated that runs between the two seeded runs (its own outputs are not judged here)"""
    import haptools.sim_genotype as sg
    from click.testing import CliRunner
    from haptools.__main__ import main

    kind = case.get("interlude", "none")
    m, md, ref, info = str(d / "model.dat"), str(d / "maps"), str(d / "ref.vcf.gz"), str(d / "info.tab")
    try:
        if kind == "region":
            reg = case["region"]
            n, pd, bps = sg.simulate_gt(m, md, [reg["chr"]], reg, 30, SD.silent_log(), 4242)
            bps = sg.write_breakpoints(n, pd, bps, str(d / "inter"), SD.silent_log())
            sg.output_vcf(bps, [reg["chr"]], m, ref, info, reg, False, False, False, str(d / "inter.vcf"), SD.silent_log())
        elif kind == "region_cli":
            reg = case["region"]
            CliRunner().invoke(main, ["simgenotype", "--model", m, "--mapdir", md, "--region", f"{reg['chr']}:{reg['start']}-{reg['end']}", "--ref_vcf", ref, "--sample_info", info, "--out", str(d / "inter.vcf"), "--seed", "7"], catch_exceptions=True)
        elif kind == "chrom2_only":
            n, pd, bps = sg.simulate_gt(m, md, ["2"], None, 30, SD.silent_log(), None)
            sg.write_breakpoints(n, pd, bps, str(d / "inter"), SD.silent_log())
        elif kind == "other_seed":
            n, pd, bps = sg.simulate_gt(m, md, ["1", "2"], None, 30, SD.silent_log(), case["seed"] + 1)
            bps = sg.write_breakpoints(n, pd, bps, str(d / "inter"), SD.silent_log())
            sg.output_vcf(bps, ["1", "2"], m, ref, info, None, True, True, True, str(d / "inter.vcf"), SD.silent_log())
        elif kind == "simphenotype":
            from haptools.sim_phenotype import simulate_pt

            simulate_pt(d / "gts.vcf", d / "eff.snplist", num_replications=1, heritability=0.3, seed=99, output=d / "inter.pheno", log=SD.silent_log())
    except Exception:  # noqa: the interlude's own success is not what this section judges
        pass


def impl_inproc(case):
    """the same seeded commands twice in one process, with different amounts of global randomness consumed in between
    (and whatever the first run left behind: caches, shuffled lists, generator state)"""
    import haptools.sim_genotype as sg
    from click.testing import CliRunner
    from haptools.__main__ import main

    d = _dir / "p"
    C.rm_tree(d)
    make_inputs(d, case["inputs"])
    outs = []
    # a quarter of the histories take the panel from the PGEN fileset, read in chunks of five variants (six per chromosome)
    ref = str(d / ("ref.pgen" if case.get("pgen_ref") else "ref.vcf.gz"))
    for k in (0, 1):
        if k == 1:
            _interlude(case, d)
        np.random.random(case["burn"][k])  # arbitrary prior use of the global generator
        if case.get("pgen_ref"):
            # … and arbitrary prior use of the allocator: arrays of the sizes a panel is read into, filled and dropped
            junk = [np.full((16, 5 + j, 2), 3 + k, dtype=np.int32) for j in range(8)] + [np.full((16, 12, 3), 2 - k, dtype=np.uint8)]
            del junk
        out = d / f"run{k}.vcf"
        if case["via"] == "cli":
            args = ["simgenotype", "--model", str(d / "model.dat"), "--mapdir", str(d / "maps"), "--chroms", "1,2", "--seed", str(case["seed"]), "--ref_vcf", ref, "--sample_info", str(d / "info.tab"), "--out", str(out)] + (["--chunk-size", "5"] if case.get("pgen_ref") else []) + case["flags"] + (["--no_replacement"] if case["no_repl"] else [])
            r = CliRunner().invoke(main, args, catch_exceptions=True)
            if r.exit_code != 0:
                return {"error": "cli_exit", "msg": (str(r.exception) or r.output)[-200:]}
        else:
            popsize = sg.validate_params(str(d / "model.dat"), str(d / "maps"), ["1", "2"], 10, ref, str(d / "info.tab"), case["no_repl"], None, False)
            n, pd, bps = sg.simulate_gt(str(d / "model.dat"), str(d / "maps"), ["1", "2"], None, popsize, SD.silent_log(), case["seed"])
            bps = sg.write_breakpoints(n, pd, bps, str(d / f"run{k}"), SD.silent_log())
            sg.output_vcf(bps, ["1", "2"], str(d / "model.dat"), ref, str(d / "info.tab"), None, "--pop_field" in case["flags"], "--sample_field" in case["flags"], case["no_repl"], str(out), SD.silent_log(), **({"chunk_size": 5} if case.get("pgen_ref") else {}))
        outs.append({"bp": hashlib.sha256(open(d / f"run{k}.bp", "rb").read()).hexdigest(), "vcf": digest_vcf(out)})
    # simphenotype, twice, through the Python entry point; replications must differ from each other
    from haptools.sim_phenotype import simulate_pt

    saved = np.get_printoptions()
    differs = []
    ph0 = None
    try:
        for ci, cfg in enumerate(PHENO_CONFIGS):
            ph = []
            for k in (0, 1):
                np.random.random(case["burn"][k])
                if k == 1 and case.get("printopts"):
                    # whatever ran earlier may have changed numpy's process-wide print settings (a common notebook habit)
                    np.set_printoptions(suppress=True, precision=3, sign=" ", floatmode="fixed", linewidth=40, threshold=5)
                # … and arbitrary prior use of the allocator: matrices of the sizes a dosage matrix has, filled and dropped
                junk = [np.full((60, w), 7.5e5 * (k + 1) + w, dtype=np.float64) for w in range(1, 8)]
                del junk
                o = d / f"ph{k}.pheno"
                # the same integer, as a Python int in one run and as a numpy integer in the other (what a seed taken from an array is)
                sd = case["seed"] if k == 0 else [np.int64, np.uint32, np.uint64][ci % 3](case["seed"])
                simulate_pt(d / "gts.vcf", d / "eff.snplist", num_replications=case["R"], seed=sd, output=o, log=SD.silent_log(), **pheno_kwargs(cfg))
                ph.append(open(o, "rb").read())
                np.set_printoptions(**saved)
            if ph[0] != ph[1]:
                differs.append(ci)
            if ci == 0:
                ph0 = ph[0]
    finally:
        np.set_printoptions(**saved)
    cols = list(zip(*[l.split("\t")[1:] for l in ph0.decode().splitlines()[1:]]))
    # a mix of a haplotype and a tandem repeat as causal variables (the repository's own small TR files), twice with the same
    # seed and the same arguments – the caller's own ID set among them
    mixed = None
    tr_hap, tr_vcf = C.REPO / "tests" / "data" / "simple_tr.hap", C.REPO / "tests" / "data" / "simple_tr.vcf"
    if tr_hap.exists() and tr_vcf.exists():
        hdr = "##fileformat=VCFv4.2\n##FILTER=<ID=PASS,Description=\"All filters passed\">\n##contig=<ID=1>\n##FORMAT=<ID=GT,Number=1,Type=String,Description=\"Genotype\">\n"
        hdr += "#CHROM\tPOS\tID\tREF\tALT\tQUAL\tFILTER\tINFO\tFORMAT\tHG00096\tHG00097\tHG00099\tHG00100\tHG00101\n"
        open(d / "trh.vcf", "w").write(hdr + "1\t10114\tH1\tA\tT\t.\t.\t.\tGT\t0|1\t0|1\t1|1\t1|1\t0|0\n1\t10115\tH2\tA\tT\t.\t.\t.\tGT\t0|0\t0|1\t0|0\t1|0\t0|0\n1\t10116\tH3\tA\tT\t.\t.\t.\tGT\t0|0\t0|0\t1|0\t0|0\t0|1\n")
        ids = {"H1", "1:10114:GTT"}
        runs = []
        for k in (0, 1):
            o = d / f"mix{k}.pheno"
            simulate_pt(d / "trh.vcf", tr_hap, repeats=tr_vcf, haplotype_ids=ids, num_replications=2, heritability=0.5, seed=case["seed"], output=o, log=SD.silent_log())
            runs.append(open(o, "rb").read())
        mixed = runs[0] == runs[1]
    return {"mixed_haplotype_and_repeat_identical": mixed, "runs": outs, "pheno_identical": not differs, "pheno_differs_under": [PHENO_CONFIGS[i] for i in differs], "replication_columns_distinct": len(set(cols)) == len(cols)}


def oracle_inproc(case, obs):
    if "error" in obs:
        return f"seeded run failed: {obs}"
    a, b = obs["runs"]
    if a["bp"] != b["bp"]:
        return f"two simgenotype runs with seed {case['seed']} in one process (between them: {case.get('interlude', 'none')}) wrote different breakpoint files"
    if a["vcf"] != b["vcf"]:
        return f"two simgenotype runs with seed {case['seed']} in one process (no_replacement={case['no_repl']}, via {case['via']}) produced different genotype content"
    if not obs["pheno_identical"]:
        return f"two simphenotype runs with seed {case['seed']} wrote different phenotype files (options {obs.get('pheno_differs_under')})"
    if not obs["replication_columns_distinct"]:
        return "replications inside one simphenotype run are copies of each other"
    if obs.get("mixed_haplotype_and_repeat_identical") is False:
        return f"two simphenotype runs with seed {case['seed']} over a haplotype and a repeat (--repeats), handed the same ID set, wrote different phenotype files"
    return None


# ------------------------------------------------------------------ fresh processes, different PYTHONHASHSEED
SCRIPT = r"""
import sys, hashlib
sys.path.insert(0, {repo!r})
import numpy as np
np.random.random({burn})
from click.testing import CliRunner
from haptools.__main__ import main
d = {d!r}
tag = {tag!r}
r = CliRunner().invoke(main, ["simgenotype", "--model", d + "/model.dat", "--mapdir", d + "/maps", "--chroms", "1,2", "--seed", "{seed}", "--ref_vcf", d + "/ref.vcf.gz", "--sample_info", d + "/info.tab", "--out", d + "/fp" + tag + ".vcf", "--pop_field"], catch_exceptions=False)
assert r.exit_code == 0, r.output
r = CliRunner().invoke(main, ["simphenotype", "--seed", "{seed}", "-r", "2", "--id", "rs4", "--id", "rs1", "--id", "rs5", "--id", "rs2", "-o", d + "/fp" + tag + ".pheno", d + "/gts.vcf", d + "/eff.snplist"], catch_exceptions=False)
assert r.exit_code == 0, r.output
r = CliRunner().invoke(main, ["simphenotype", "--seed", "{seed}", "-r", "2", "--heritability", "1", "--prevalence", "0.3", "--id", "rs1", "-o", d + "/fp" + tag + ".cc.pheno", d + "/gts.vcf", d + "/eff.snplist"], catch_exceptions=False)
assert r.exit_code == 0, r.output
"""


def gen_fresh(rng, tier):
    n = 3 if tier == "quick" else 24
    for t in range(n):
        yield {"seed": SEEDS[t % len(SEEDS)], "inputs": rng.randrange(2**31), "hashseeds": [rng.randint(1, 10**6), rng.randint(1, 10**6), rng.randint(1, 10**6)], "burn": [0, rng.randint(1, 1000), rng.randint(1, 1000)], "dup_info": t % 2 == 0}


def impl_fresh(case):
    d = _dir / "f"
    C.rm_tree(d)
    make_inputs(d, case["inputs"], dup_info=case.get("dup_info", False))
    res = []
    for k, (hs, burn) in enumerate(zip(case["hashseeds"], case["burn"])):
        env = dict(os.environ, PYTHONHASHSEED=str(hs), PYTHONDONTWRITEBYTECODE="1")
        code = SCRIPT.format(repo=str(C.REPO), burn=burn, d=str(d), tag=str(k), seed=case["seed"])
        r = subprocess.run([sys.executable, "-c", code], env=env, capture_output=True, text=True, timeout=300)
        if r.returncode != 0:
            return {"error": "subprocess", "msg": r.stderr[-300:]}
        res.append({"bp": hashlib.sha256(open(d / f"fp{k}.bp", "rb").read()).hexdigest(), "vcf": digest_vcf(d / f"fp{k}.vcf"), "pheno": hashlib.sha256(open(d / f"fp{k}.pheno", "rb").read()).hexdigest(), "case_control_pheno": hashlib.sha256(open(d / f"fp{k}.cc.pheno", "rb").read()).hexdigest(), "pheno_header": open(d / f"fp{k}.pheno").readline().strip()})
    return {"runs": res}


def oracle_fresh(case, obs):
    if "error" in obs:
        return f"seeded command failed in a fresh process: {obs}"
    r0 = obs["runs"][0]
    for k, r in enumerate(obs["runs"][1:], 1):
        for what in ("bp", "vcf", "pheno", "case_control_pheno"):
            if r[what] != r0[what]:
                return f"seed {case['seed']}: {what} output differs between fresh processes (PYTHONHASHSEED {case['hashseeds'][0]} vs {case['hashseeds'][k]}; headers {r0['pheno_header']!r} vs {r['pheno_header']!r})"
    return None


# ------------------------------------------------------------------ what the commands ask of the generators
def gen_requests(rng, tier):
    n = 6 if tier == "quick" else 60
    for t in range(n):
        yield {"seed": SEEDS[t % len(SEEDS)], "inputs": rng.randrange(2**31), "burn": rng.randint(0, 300), "via": "cli" if t % 2 else "api"}


def _state_digest():
    st = np.random.get_state()
    return hashlib.sha256(repr((st[0], st[1].tobytes(), st[2], st[3], st[4])).encode()).hexdigest()


def impl_requests(case):
    """the requests simgenotype and simphenotype make to numpy's generators, recorded by handing the two modules a proxy of
    `np.random`"""
    import random as pyrandom

    import haptools.sim_genotype as sg
    import haptools.sim_phenotype as sp
    from click.testing import CliRunner
    from haptools.__main__ import main

    d = _dir / "r"
    C.rm_tree(d)
    make_inputs(d, case["inputs"])
    runs = []
    py_before = pyrandom.getstate()
    for k in (0, 1):
        np.random.random(case["burn"] + 17 * k)  # two different histories
        with SD.record_random() as rp:
            if case["via"] == "cli":
                r = CliRunner().invoke(main, ["simgenotype", "--model", str(d / "model.dat"), "--mapdir", str(d / "maps"), "--chroms", "1,2", "--seed", str(case["seed"]), "--ref_vcf", str(d / "ref.vcf.gz"), "--sample_info", str(d / "info.tab"), "--out", str(d / "q.vcf")], catch_exceptions=True)
                if r.exit_code != 0:
                    return {"error": "cli_exit", "msg": (str(r.exception) or r.output)[-200:]}
            else:
                n, pd, bps = sg.simulate_gt(str(d / "model.dat"), str(d / "maps"), ["1", "2"], None, 30, SD.silent_log(), case["seed"])
                bps = sg.write_breakpoints(n, pd, bps, str(d / "q"), SD.silent_log())
                sg.output_vcf(bps, ["1", "2"], str(d / "model.dat"), str(d / "ref.vcf.gz"), str(d / "info.tab"), None, False, False, False, str(d / "q.vcf"), SD.silent_log())
        if not rp.log:
            raise C.GlueBroken("no request of simgenotype to numpy's process-wide generator could be observed (it reaches the generator by a route the recorder does not see)")
        runs.append(rp.log)
    log = runs[0]
    seeded_first = [bool(l) and l[0][0] == "seed" and bool(l[0][1]) and l[0][1][0] is not None for l in runs]
    first = ["nothing"] if not log else (["seed"] if all(seeded_first) else ["draw"])
    obs = {"simgenotype_first": first, "seed_args": [sorted({repr(e[1]) for e in l if e[0] == "seed"}) for l in runs], "draws": sum(1 for e in log if e[0] != "seed"), "other_generators": [e[0] for l in runs for e in l if e[0] == "default_rng"], "python_random_untouched": pyrandom.getstate() == py_before}
    # simphenotype
    g_before = _state_digest()
    with SD.record_random() as rp2:
        for cfg in PHENO_CONFIGS:
            if case["via"] == "cli":
                r = CliRunner().invoke(main, ["simphenotype", "--seed", str(case["seed"]), "-r", "2", "-o", str(d / "q.pheno")] + pheno_flags(cfg) + [str(d / "gts.vcf"), str(d / "eff.snplist")], catch_exceptions=True)
                if r.exit_code != 0:
                    return {"error": "cli_exit", "msg": (str(r.exception) or r.output)[-200:]}
            else:
                sp.simulate_pt(d / "gts.vcf", d / "eff.snplist", num_replications=2, seed=case["seed"], output=d / "q.pheno", log=SD.silent_log(), **pheno_kwargs(cfg))
    obs["simphenotype_global_requests"] = sum(1 for e in rp2.log if e[0] != "default_rng")
    obs["simphenotype_private_seeds"] = [repr(e[1]) for e in rp2.log if e[0] == "default_rng"]
    obs["global_state_unchanged_by_simphenotype"] = _state_digest() == g_before
    return obs


def model_req_requests(case):
    return {"op": "seedGuard", "seed": case["seed"]}


def model_obs_requests(case, resp):
    return {"simgenotype_first": resp["simgenotype_first"][:1], "simphenotype_global_requests": resp["simphenotype_global_requests"]}


def equal_requests(a, b):
    return "error" not in a and a["simgenotype_first"] == b["simgenotype_first"] and a["simphenotype_global_requests"] == b["simphenotype_global_requests"]


def oracle_requests(case, obs):
    if "error" in obs:
        return f"seeded run failed: {obs}"
    s = case["seed"]
    if obs["simgenotype_first"] != ["seed"]:
        return f"simgenotype with seed {s} ({case['via']}): its first request to np.random is a draw, not a seeding: what it draws before seeding depends on what ran earlier"
    if obs["seed_args"][0] != obs["seed_args"][1] or len(obs["seed_args"][0]) != 1:
        return f"simgenotype with seed {s}: np.random.seed was called with {obs['seed_args'][0]} in one run and {obs['seed_args'][1]} in the next"
    if obs["draws"] == 0:
        return "simgenotype drew nothing from np.random although it simulated recombination (randomness taken from elsewhere?)"
    if obs["other_generators"] or not obs["python_random_untouched"]:
        return f"simgenotype with seed {s} uses a generator the seed does not reach ({obs['other_generators']}, python random untouched: {obs['python_random_untouched']})"
    if any("None" in x or x == "()" for x in obs["simphenotype_private_seeds"]):
        return f"simphenotype with seed {s}: a private generator was created without a seed ({obs['simphenotype_private_seeds']})"
    if obs["simphenotype_global_requests"] != 0 or not obs["global_state_unchanged_by_simphenotype"]:
        return f"simphenotype with seed {s} uses the process-wide generator ({obs['simphenotype_global_requests']} requests; state unchanged: {obs['global_state_unchanged_by_simphenotype']})"
    return None


# ------------------------------------------------------------------ replications are independent draws
def gen_indep(rng, tier):
    for t in range(2 if tier == "quick" else 8):
        yield {"seed": SEEDS[(t + 2) % len(SEEDS)], "inputs": rng.randrange(2**31), "R": 3 + t % 2, "via": "cli" if t % 2 else "api", "h2": [0.5, 0.3][t % 2]}


def impl_indep(case):
    """a cohort large enough to see dependence: the noise of every replication (phenotype minus the noise-free phenotype of the same
    cohort) must be uncorrelated with the noise of every other one and of the same size"""
    import random

    from click.testing import CliRunner
    from haptools.__main__ import main
    from haptools.data import Phenotypes
    from haptools.sim_phenotype import simulate_pt

    d = _dir / "i"
    C.rm_tree(d)
    d.mkdir(parents=True)
    rnd = random.Random(case["inputs"])
    n = 1500
    snps = [(f"rs{j}", "1", 10 * (j + 1), ["A", "C"]) for j in range(4)]
    data = [[(int(rnd.random() < 0.4), int(rnd.random() < 0.4), 1) for _ in snps] for _ in range(n)]
    GF.write_vcf_text(d / "big.vcf", [f"s{i}" for i in range(n)], snps, data)
    open(d / "eff.snplist", "w").write("".join(f"rs{j}\t{0.2 * (j + 1):.1f}\n" for j in range(4)))

    def run(out, R, h2):
        if case["via"] == "cli":
            r = CliRunner().invoke(main, ["simphenotype", "--seed", str(case["seed"]), "-r", str(R), "--heritability", str(h2), "-o", str(out), str(d / "big.vcf"), str(d / "eff.snplist")], catch_exceptions=True)
            if r.exit_code != 0:
                raise ValueError(f"simphenotype exited with {r.exit_code}: {(str(r.exception) or r.output)[-200:]}")
        else:
            simulate_pt(d / "big.vcf", d / "eff.snplist", num_replications=R, heritability=h2, seed=case["seed"], output=out, log=SD.silent_log())
        p = Phenotypes(out, log=SD.silent_log())
        p.read()
        return np.asarray(p.data, dtype=np.float64)

    y = run(d / "rep.pheno", case["R"], case["h2"])
    g = run(d / "gen.pheno", 1, 1.0)[:, 0]
    noise = y - g[:, None]
    cc = np.corrcoef(noise.T)
    sds = noise.std(axis=0)
    return {"columns": int(y.shape[1]), "max_abs_corr": float(np.max(np.abs(cc - np.eye(cc.shape[0])))), "noise_sd": [float(x) for x in sds], "documented_sd": float(np.sqrt(np.var(g) * (1 / case["h2"] - 1)))}


def oracle_indep(case, obs):
    if "error" in obs:
        return f"simphenotype failed: {obs}"
    if obs["columns"] != case["R"]:
        return f"{obs['columns']} columns for {case['R']} replications"
    # 1500 samples: the correlation of two independent noise vectors has standard deviation 0.026; sizes agree within a few per cent
    if obs["max_abs_corr"] > 0.15:
        return f"the noise terms of two replications of one run correlate with r = {obs['max_abs_corr']:.3f} over 1500 samples: not independent draws"
    if max(obs["noise_sd"]) > 1.15 * min(obs["noise_sd"]) or not (0.9 * obs["documented_sd"] <= min(obs["noise_sd"]) and max(obs["noise_sd"]) <= 1.1 * obs["documented_sd"]):
        return f"the noise of the replications has standard deviations {obs['noise_sd']}; documented (and equal for every replication): {obs['documented_sd']:.4f}"
    return None


CHECK = Check(
    id="C10",
    title="A seed makes simgenotype and simphenotype reproducible",
    theorems=["C10.simgenotype_seeded_independent_of_history", "C10.simphenotype_seeded_deterministic", "C10.replications_distinct_stream_positions", "C10.seed_zero_refuted_before_fix", "C10.seeded_adaptive_run_independent_of_history", "C10.seeded_adaptive_run_is_body_from_seed", "C10.simphenotype_leaves_global_generator_alone", "C10.seed_zero_adaptive_witness"],
    sections=[
        Section(
            name="same_process_histories",
            theorems=["C10.simgenotype_seeded_independent_of_history", "C10.simphenotype_seeded_deterministic", "C10.replications_distinct_stream_positions"],
            gen=gen_inproc,
            impl=impl_inproc,
            oracle=oracle_inproc,
            setup=setup,
            teardown=teardown,
            nontrivial=lambda c, o: C.jdump(c),
            describe=lambda c, o: [f"seed={c['seed']}", c["via"], "no_replacement" if c["no_repl"] else "replacement", "between-runs=" + c.get("interlude", "none"), f"replications={c['R']}"] + (["numpy-printoptions-changed-between-simphenotype-runs"] if c.get("printopts") else []),
            rule="each seeded command twice in ONE process (seeds 0, 1, 7, 2^32-1, 12345; API entry points and the click runner; with/without --no_replacement, POP/SAMPLE flags), with different amounts of global randomness consumed before each run, whatever the first run left behind, and between the two runs one of: nothing, a --region run on the same maps (API or CLI), a one-chromosome run, the same command with another seed and --no_replacement, another simphenotype call; in a quarter of the cases numpy's process-wide print options are changed between the two simphenotype runs (2, 3 or 60 replications); .bp bytes, parsed VCF content and .pheno bytes must be identical; replication columns must differ",
        ),
        Section(
            name="fresh_processes",
            theorems=["C10.simgenotype_seeded_independent_of_history", "C10.simphenotype_seeded_deterministic"],
            gen=gen_fresh,
            impl=impl_fresh,
            oracle=oracle_fresh,
            setup=setup,
            teardown=teardown,
            nontrivial=lambda c, o: C.jdump(c),
            describe=lambda c, o: [f"seed={c['seed']}"] + (["sample-info-names-samples-twice"] if c.get("dup_info") else []),
            rule="simgenotype and simphenotype (with an --id subset of a .snplist) through the CLI in three fresh interpreter processes per case with different PYTHONHASHSEED values and different prior use of the global generator; in half of the cases the sample-info file names some reference samples twice; .bp, VCF content and .pheno must be identical",
        ),
        Section(
            name="replications_are_independent",
            theorems=["C10.replications_distinct_stream_positions"],
            gen=gen_indep,
            impl=impl_indep,
            oracle=oracle_indep,
            setup=setup,
            teardown=teardown,
            nontrivial=lambda c, o: C.jdump(c),
            describe=lambda c, o: [f"seed={c['seed']}", c["via"], f"R={c['R']}"],
            rule="a cohort of 1500 samples, 3-4 replications with heritability 0.5 / 0.3 (API and click runner): the noise of each replication (phenotype minus the noise-free phenotype of the same cohort, obtained with heritability 1) is uncorrelated with every other replication's (|r| < 0.15, six standard deviations) and has the documented size in every replication (within 10%)",
        ),
        Section(
            name="generator_requests",
            theorems=["C10.seeded_adaptive_run_independent_of_history", "C10.seeded_adaptive_run_is_body_from_seed", "C10.simphenotype_leaves_global_generator_alone", "C10.seed_zero_adaptive_witness"],
            gen=gen_requests,
            impl=impl_requests,
            model_req=model_req_requests,
            model_obs=model_obs_requests,
            equal=equal_requests,
            oracle=oracle_requests,
            setup=setup,
            teardown=teardown,
            nontrivial=lambda c, o: C.jdump(c),
            describe=lambda c, o: [f"seed={c['seed']}", c["via"]],
            rule="the hypothesis of the adaptive theorem, observed: the functions of the numpy.random module are wrapped on the module itself while the seeded command runs (API and click runner, seeds 0, 1, 7, 2^32-1, 12345, arbitrary prior use of the global generator): simgenotype's first request must be a seeding (with the same argument after two different histories), everything else it draws comes from np.random, no other generator is created and Python's `random` is untouched; simphenotype creates no generator without a seed, asks nothing of the process-wide generator and leaves its state as it was",
        ),
    ],
    trusted=["numpy's generators are deterministic functions of their seed", "pysam reading of the compared VCFs"],
    assumptions=[],
    partial="process-level nondeterminism (hash randomisation, directory order, library internals) is exercised by experiment, not modelled",
    anchors=[("haptools/sim_genotype.py", ["simulate_gt", "_simulate", "write_breakpoints", "output_vcf", "_convert_haplotype"]), ("haptools/sim_phenotype.py", ["PhenoSimulator.__init__", "PhenoSimulator.run", "simulate_pt"])],
)
