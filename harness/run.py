"""Generic runner: `python -m harness.run <Cxx> [--tier quick|thorough] [--replay FILE]`.

A property module `harness/cxx.py` defines `CHECK = Check(...)` made of `Section`s.  A section is one
correspondence between an executable Lean definition and the real code:

    gen(rng, tier)         -> iterable of JSON-able cases        (exhaustive small scope + seeded random)
    impl(case)             -> JSON-able observation of the REAL code (errors mapped to a small enum)
    model_req(case)        -> driver request dict                  (the Lean model is run in one batch)
    model_obs(case, resp)  -> the same observation computed by the model
    oracle(case, obs)      -> None | str : the property's own statement evaluated on the implementation's
                              observation, written independently of the model (L3)
    nontrivial(case, obs)  -> hashable key or None  (what makes a case count as distinct & non-trivial)
"""
from __future__ import annotations

import argparse
import json
import os
import sys
import time
import traceback
from dataclasses import dataclass, field
from pathlib import Path
from typing import Callable, Iterable, Optional

from . import common as C


@dataclass
class Section:
    name: str
    theorems: list[str]  # Lean theorems this correspondence transfers to the code
    gen: Callable
    impl: Callable
    model_req: Optional[Callable] = None
    model_obs: Optional[Callable] = None
    oracle: Optional[Callable] = None
    nontrivial: Optional[Callable] = None
    describe: Optional[Callable] = None  # case -> histogram bucket
    variants: Optional[Callable] = None  # case -> iterable of smaller/neighbouring cases (L3 search)
    setup: Optional[Callable] = None
    teardown: Optional[Callable] = None
    rule: str = ""
    exhaustive: bool = False
    equal: Optional[Callable] = None  # (impl_obs, model_obs) -> bool ; default: canonical equality ignoring msg


@dataclass
class Check:
    id: str
    title: str
    sections: list[Section]
    theorems: list[str]  # all registered property theorems (Props/Cxx.lean)
    imports: tuple = ("HapModel",)
    build_targets: tuple = ("HapModel",)
    trusted: list[str] = field(default_factory=list)
    assumptions: list[str] = field(default_factory=list)
    known_predicates: dict = field(default_factory=dict)  # name -> fn(section, case, obs) -> bool
    anchors: list = field(default_factory=list)  # (relative file, [function names]) for drift detection
    partial: str = ""


def _glue_obs(o):
    return isinstance(o, dict) and o.get("error") == "harness_glue"


def load_known(pid):
    f = C.VERIF / "known_findings.json"
    if not f.exists():
        return []
    return [k for k in json.loads(f.read_text()) if k.get("property") == pid]


def _eq(sec, a, b):
    if sec.equal:
        try:
            return bool(sec.equal(a, b))
        except Exception:  # noqa
            # a comparison written for well-formed observations met something else (the implementation raised where it never
            # did, say): that is a disagreement for the oracle to judge, not a reason to stop the check
            return False
    return C.canon(C.strip_msg(a)) == C.canon(C.strip_msg(b))


def main(argv=None):
    ap = argparse.ArgumentParser()
    ap.add_argument("pid")
    ap.add_argument("--tier", default=os.environ.get("VERIF_TIER", "quick"))
    ap.add_argument("--replay")
    ap.add_argument("--seed", type=int, default=int(os.environ.get("VERIF_SEED", "20260926")))
    args = ap.parse_args(argv)
    pid = args.pid.upper()
    tier = "thorough" if args.tier.startswith("t") else "quick"
    t0 = time.time()
    import faulthandler, signal

    faulthandler.register(signal.SIGUSR1, all_threads=True)
    limit = int(os.environ.get("VERIF_TIMEOUT", "900" if tier == "quick" else "7200"))
    faulthandler.dump_traceback_later(limit, exit=False)

    def _alarm():
        print(f"INFRA-ERROR property={pid}: time limit of {limit}s exceeded", flush=True)
        os._exit(2)

    import threading

    wd = threading.Timer(limit + 5, _alarm)
    wd.daemon = True
    wd.start()
    try:
        rc = run(pid, tier, args.seed, args.replay, t0)
    except C.Infra as e:
        print(f"INFRA-ERROR property={pid}: {e}", flush=True)
        rc = 2
    except Exception:
        traceback.print_exc()
        print(f"INFRA-ERROR property={pid}: harness crashed", flush=True)
        rc = 2
    sys.exit(rc)


def run(pid, tier, seed, replay, t0):
    import importlib

    import warnings

    warnings.filterwarnings("ignore")
    C.import_haptools()
    mod = importlib.import_module(f"harness.{pid.lower()}")
    chk: Check = mod.CHECK
    known = load_known(pid)
    C.EVID.mkdir(exist_ok=True)
    C.REPLAYS.mkdir(exist_ok=True)
    if not replay:
        for old in C.REPLAYS.glob(f"{pid}-*.json"):
            old.unlink()

    # ---------------- L1: build + audit -------------------------------------------------------
    ok, log, bt = C.lean_build(chk.build_targets)
    l1_problems = []
    audit = {}
    recheck = None
    if not ok:
        l1_problems.append("lake build failed: " + log[-600:])
    else:
        audit = C.lean_audit(chk.theorems, chk.imports)
        for t, r in audit.items():
            if not r["ok"]:
                l1_problems.append(f"theorem {t}: axioms={r.get('axioms')} {r.get('msg','')}")
        bad = C.grep_forbidden()
        if bad:
            l1_problems.append("forbidden tokens in Lean sources: " + "; ".join(bad[:5]))
        if tier == "thorough":
            rc_ok, rc_mods, rc_msg = C.lean_recheck(pid, chk.imports)
            recheck = {"tool": "leanchecker", "modules": rc_mods, "accepted": rc_ok}
            if not rc_ok:
                l1_problems.append("leanchecker rejected a module: " + rc_msg)
    discharged = sum(1 for t in chk.theorems if audit.get(t, {}).get("ok")) if not l1_problems or audit else 0
    if any(p.startswith("forbidden") or p.startswith("lake build") or p.startswith("leanchecker") for p in l1_problems):
        discharged = 0

    # drift detection (never fails a check; escalates the tier of generation)
    drift = {}
    state_f = C.LEAN / ".lake" / (f"anchors_{pid}.json" if str(C.REPO) == "/repo" else f"anchors_{pid}_{abs(hash(str(C.REPO))) % 10**8}.json")
    try:
        old = json.loads(state_f.read_text())
    except Exception:
        old = {}
    for rel, names in chk.anchors:
        drift[rel] = C.ast_hash(C.REPO / rel, names)
    drifted = bool(old) and old != drift
    gen_tier = "thorough" if (drifted and tier == "quick") else tier

    # ---------------- L2 + L3 per section -----------------------------------------------------
    violations = []  # dicts
    glue_breaks = []  # sections whose correspondence could not be run because the harness no longer binds to the code
    known_hits = []
    sec_reports = []
    total_eval = 0
    total_nontrivial = 0
    samples = []
    disagreements_checked = 0
    for sec in chk.sections:
        rng = C.derive_rng(seed, f"{pid}:{sec.name}")
        ctx = sec.setup() if sec.setup else None
        try:
            cases = []
            if replay:
                rp = json.loads(Path(replay).read_text())
                if rp.get("section") not in (None, sec.name):
                    continue
                if rp.get("input") is not None:
                    cases.append(("replay", rp["input"]))
            else:
                for kf in known:
                    if kf.get("section") == sec.name and kf.get("witness") is not None:
                        cases.append(("known:" + kf["id"], kf["witness"]))
                cdir = C.CORPUS / pid
                if cdir.is_dir():
                    for f in sorted(cdir.glob("*.json")):
                        e = json.loads(f.read_text())
                        if e.get("section") == sec.name:
                            cases.append(("corpus:" + f.name, e["input"]))
                for c in sec.gen(rng, gen_tier):
                    cases.append(("gen", c))
            ts = time.time()
            impl_obs = [C.guarded(sec.impl, c) for _, c in cases]
            t_impl = time.time() - ts
            model_obs = [None] * len(cases)
            if sec.model_req:
                reqs = []
                for _, c in cases:
                    try:
                        reqs.append(sec.model_req(c))
                    except Exception as e:  # noqa: a request built from what the implementation left behind (recorded tapes …)
                        reqs.append({"op": "batch", "reqs": [], "harness_note": f"model request could not be built: {type(e).__name__}: {e}"[:200]})
                resps = C.run_model(reqs)
                model_obs = [C.guarded(sec.model_obs, c, r) for (_, c), r in zip(cases, resps)]
            t_model = time.time() - ts - t_impl
            hist = {}
            keys = set()
            n_dis = 0
            n_orc = 0
            glue = [(c, o) for (_, c), io, mo in zip(cases, impl_obs, model_obs) for o in (io, mo) if _glue_obs(o)]
            if glue:
                glue.sort(key=lambda co: len(C.jdump(co[0])))
                glue_breaks.append(dict(section=sec.name, theorems=sec.theorems, cases=len(glue), of=len(cases), msg=sorted({g["msg"] for _, g in glue})[:5], example_input=glue[0][0]))
            for (src, c), io, mo in zip(cases, impl_obs, model_obs):
                if _glue_obs(io) or _glue_obs(mo):
                    continue  # the harness could not observe this case: nothing to judge (reported once per section below)
                # bookkeeping for the evidence file: written for well-formed observations, must never stop a check
                if sec.describe:
                    try:
                        b = sec.describe(c, io)
                    except Exception:  # noqa
                        b = "undescribable-observation"
                    for bb in b if isinstance(b, (list, tuple)) else [b]:
                        hist[bb] = hist.get(bb, 0) + 1
                if sec.nontrivial:
                    try:
                        k = sec.nontrivial(c, io)
                    except Exception:  # noqa
                        k = None
                    if k is not None:
                        keys.add(C.jdump(k))
                why = None
                if sec.oracle:
                    try:
                        why = sec.oracle(c, io)
                    except Exception as e:  # an oracle crash on an observation is itself suspicious
                        why = f"oracle could not evaluate the observation: {type(e).__name__}: {e}"
                dis = sec.model_req is not None and not _eq(sec, io, mo)
                if why:
                    n_orc += 1
                if dis:
                    n_dis += 1
                if why or dis:
                    kf = match_known(chk, known, sec, c, io)
                    if kf is not None:
                        known_hits.append((kf, src))
                        continue
                    violations.append(dict(section=sec.name, source=src, input=c, impl_output=io, model_output=mo, oracle=why, disagree=dis))
            disagreements_checked += n_dis
            total_eval += len(cases)
            total_nontrivial += len(keys)
            if cases:
                idxs = sorted({0, len(cases) // 2, len(cases) - 1})
                for i in idxs[:2]:
                    samples.append({"section": sec.name, "case": cases[i][1], "impl_obs": C.strip_msg(impl_obs[i])})
            # L3 inside the section's setup window: the correspondence broke but the oracle is content on the
            # disagreeing inputs themselves -> search their neighbourhood for an input on which the property fails
            sec_v = [v for v in violations if v["section"] == sec.name]
            if sec_v and not any(v["oracle"] for v in sec_v) and sec.variants and sec.oracle:
                budget = 3000
                found = None
                sec_v.sort(key=lambda v: len(C.jdump(v["input"])))
                for v in sec_v[:50]:
                    for c2 in sec.variants(v["input"]):
                        budget -= 1
                        if budget < 0:
                            break
                        io2 = C.guarded(sec.impl, c2)
                        if _glue_obs(io2):
                            continue
                        try:
                            why2 = sec.oracle(c2, io2)
                        except Exception as e:
                            why2 = f"oracle crash {e}"
                        if why2 and match_known(chk, known, sec, c2, io2) is None:
                            found = dict(section=sec.name, source="variant-search", input=c2, impl_output=io2, model_output=None, oracle=why2, disagree=False, shrunk_from=v["input"])
                            break
                    if found or budget < 0:
                        break
                if found:
                    violations.append(found)
            n_err = sum(1 for io in impl_obs if isinstance(io, dict) and io.get("error"))
            sec_reports.append(dict(section=sec.name, cases=len(cases), impl_raised=n_err, distinct_nontrivial=len(keys), disagreements=n_dis, oracle_failures=n_orc, histogram=dict(sorted(hist.items(), key=lambda kv: str(kv[0]))), rule=sec.rule, exhaustive_part=sec.exhaustive, theorems=sec.theorems, impl_s=round(t_impl, 2), model_s=round(t_model, 2)))
        finally:
            if sec.teardown:
                sec.teardown(ctx)

    # ---------------- classification ----------------------------------------------------------
    out_lines = []
    n_viol = 0
    # group: report at most 3 failing inputs per section (the smallest ones), shrunk when possible
    by_sec = {}
    for v in violations:
        by_sec.setdefault(v["section"], []).append(v)
    nrep = 0
    for sname, vs in by_sec.items():
        sec = next(s for s in chk.sections if s.name == sname)
        with_input = [v for v in vs if v["oracle"]]
        only_dis = [v for v in vs if not v["oracle"]]
        if with_input:
            with_input.sort(key=lambda v: len(C.jdump(v["input"])))
            for v in with_input[:2]:
                nrep += 1
                rp = C.REPLAYS / f"{pid}-{seed}-{nrep}.json"
                rp.write_text(C.jdump(dict(property=pid, kind="failing-input", section=sname, broken=f"oracle of {pid}/{sname}" + ("; correspondence " + ",".join(sec.theorems) if v.get("disagree") else ""), input=v["input"], impl_output=v["impl_output"], model_output=v["model_output"], oracle=v["oracle"], seed=seed, shrunk_from=v.get("shrunk_from"), failing_cases_in_section=len(with_input)), indent=1))
                out_lines.append(f"VIOLATION property={pid} replay={rp}")
                n_viol += 1
        else:
            only_dis.sort(key=lambda v: len(C.jdump(v["input"])))
            v = only_dis[0]
            nrep += 1
            rp = C.REPLAYS / f"{pid}-{seed}-{nrep}.json"
            rp.write_text(C.jdump(dict(property=pid, kind="no-failing-input-found", section=sname, broken=f"correspondence model~implementation for section {sname} (transfers theorems {', '.join(sec.theorems)})", input=v["input"], impl_output=v["impl_output"], model_output=v["model_output"], oracle="the independent oracle accepted the implementation's behaviour on every disagreeing input and on their searched variants", seed=seed, disagreeing_cases=len(only_dis)), indent=1))
            out_lines.append(f"VIOLATION property={pid} replay={rp} no-failing-input-found")
            n_viol += 1
    for gb in glue_breaks:
        # the correspondence of this section can no longer be run (the harness binds to something that is not there any more):
        # not a failing input, but the section's theorems are no longer transferred to the code
        if any(v["oracle"] for v in by_sec.get(gb["section"], [])):
            continue
        nrep += 1
        rp = C.REPLAYS / f"{pid}-{seed}-{nrep}.json"
        rp.write_text(C.jdump(dict(property=pid, kind="no-failing-input-found", section=gb["section"], broken=f"correspondence model~implementation for section {gb['section']} (transfers theorems {', '.join(gb['theorems'])}) could not be run on {gb['cases']} of {gb['of']} cases: the harness no longer binds to the implementation", harness_errors=gb["msg"], input=gb["example_input"], oracle="every section that could still be run found no failing input" if not n_viol else "see the other replays of this run", seed=seed), indent=1))
        if not any(l.startswith("VIOLATION") and "no-failing-input-found" not in l for l in out_lines):
            out_lines.append(f"VIOLATION property={pid} replay={rp} no-failing-input-found")
        n_viol += 1
    if l1_problems:
        nrep += 1
        rp = C.REPLAYS / f"{pid}-{seed}-{nrep}.json"
        rp.write_text(C.jdump(dict(property=pid, kind="no-failing-input-found", broken="L1: " + " | ".join(l1_problems), input=None, seed=seed), indent=1))
        if not n_viol:
            out_lines.append(f"VIOLATION property={pid} replay={rp} no-failing-input-found")
        n_viol += 1

    seen_kf = set()
    for kf, src in known_hits:
        if kf["id"] not in seen_kf:
            seen_kf.add(kf["id"])
            print(f"KNOWN-FINDING: property={pid} {kf['id']} {kf['what']}")

    wall = time.time() - t0
    ev = dict(
        property_id=pid,
        tier=tier,
        seed=seed,
        level="proof",
        wall_s=round(wall, 2),
        violations=n_viol,
        assumptions=chk.assumptions,
        coverage=dict(
            obligations=len(chk.theorems),
            discharged=discharged,
            checker_cmd="cd /verif/lean && lake build " + " ".join(chk.build_targets) + " && lake env lean <#print axioms of each registered theorem> (harness.common.lean_audit); grep for sorry/admit/axiom/native_decide",
            trusted_base=["Lean 4.33.0 kernel", "axioms allowed: propext, Classical.choice, Quot.sound (audited per theorem on every run)", "hand-written Lean model, tied to /repo by the correspondence run below (finite sample per run)", "harness generators, canonicalisers and independent oracles", *chk.trusted],
            theorems={t: audit.get(t, {}).get("axioms") for t in chk.theorems},
            l1_problems=l1_problems,
            glue_breaks=glue_breaks,
            evaluations=total_eval,
            distinct_nontrivial=total_nontrivial,
            rule="; ".join(f"[{s.name}] {s.rule}" for s in chk.sections if s.rule),
            samples=samples[:8],
            exhaustive=all(s.exhaustive for s in chk.sections),
            disagreements_checked=disagreements_checked,
            sections=sec_reports,
            known_findings_hit=sorted(seen_kf),
            anchors_drifted=drifted,
            generation_tier=gen_tier,
            partial=chk.partial,
            lean_build_s=round(bt, 2),
            independent_recheck=recheck,
            lean_source_hash=C.lean_source_hash(),
        ),
    )
    if not replay:
        (C.EVID / f"{pid}.json").write_text(C.jdump(ev, indent=1))
        try:
            state_f.write_text(json.dumps(drift))
        except Exception:
            pass
    for ln in out_lines:
        print(ln)
    print(f"[{pid}] tier={tier} seed={seed} theorems={discharged}/{len(chk.theorems)} cases={total_eval} nontrivial={total_nontrivial} disagreements={disagreements_checked} violations={n_viol} known={sorted(seen_kf)} wall={wall:.1f}s")
    return 1 if n_viol else 0


def match_known(chk, known, sec, case, obs):
    for kf in known:
        if kf.get("status") != "known":
            continue
        pred = chk.known_predicates.get(kf.get("signature", {}).get("kind"))
        if pred is None:
            continue
        try:
            if pred(sec, case, obs):
                return kf
        except Exception:
            continue
    return None


if __name__ == "__main__":
    main()
