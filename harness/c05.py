"""C05 — ancestry lookup returns the covering block's label; .bp files round-trip."""
from __future__ import annotations

import itertools

import numpy as np

from . import common as C
from . import simdata as SD
from .run import Check, Section

LABELS = ["YRI", "CEU", "AMR", "ABCDEF", "x"]
NAMES = ["S1", "HG_2", "a_b_c", "Sample_10"]
_dir = None
_cm = {}  # case -> [(bits of the cM value, written token)…] in file order, left behind by the implementation run


def setup():
    global _dir
    _dir = C.scratch_dir("c05")
    return _dir


def teardown(_):
    _cm.clear()
    C.rm_tree(_dir)


def _bits(x):
    import struct

    return struct.unpack("<Q", struct.pack("<d", float(x)))[0]


def rand_strand(rng, chroms, ends_pool, maxb):
    s = []
    for c in chroms:
        k = rng.randint(1, maxb)
        if rng.random() < 0.03:
            k = min(len(ends_pool), rng.randint(5, 8))
        ends = sorted(rng.sample(ends_pool, k))
        if k >= 2 and rng.random() < 0.15:
            # tied block ends (a block of length zero: non-decreasing ends are all the format asks for); the earlier block answers
            i = rng.randrange(k - 1)
            ends[i + 1] = ends[i]
        for i, e in enumerate(ends):
            r = rng.random()
            if r < 0.5:
                cm = f"{(i + 1) * rng.choice([0.5, 1.25, 3.0, 10.1]):.4g}"
            elif r < 0.85:
                # what a simulation writes: interpolated map positions with every digit a float64 needs
                cm = repr((i + rng.random()) * rng.choice([1.0, 43.078123456789, 1 / 3, 1e-3]))
            else:
                cm = rng.choice(["1.5e-07", "85.10775500000001", "0.30000000000000004", "1e-300", "123456.78901234567", "5e-324"])
            s.append([rng.choice(LABELS), c, e, cm])
    return s


def gen_tables(rng, tier, n):
    for _ in range(n):
        chroms = rng.sample(["1", "2", "chr3", "X"], rng.randint(1, 3))
        tbl = []
        for name in rng.sample(NAMES, rng.randint(1, 3)):
            c1 = chroms if rng.random() < 0.85 else chroms[:-1] or chroms
            tbl.append({"name": name, "s1": rand_strand(rng, c1, list(range(1, 9)), 4), "s2": rand_strand(rng, chroms, list(range(1, 9)), 4)})
        yield chroms, tbl


def gen_lookup(rng, tier):
    # exhaustive small scope: one sample, one chromosome, block ends from 1..5 (<=3 blocks), every position 1..6
    for k in (1, 2, 3):
        for ends in itertools.combinations(range(1, 6), k):
            labs = [LABELS[i % 3] for i in range(k)]
            s = [[labs[i], "1", e, "1.0"] for i, e in enumerate(ends)]
            yield {"table": [{"name": "S1", "s1": s, "s2": s[:1] if k > 1 else s}], "vars": [["1", p] for p in range(1, 7)], "samples": None, "labels": None}
            for p in range(1, 7):
                yield {"table": [{"name": "S1", "s1": s, "s2": s}], "vars": [["1", p]], "samples": None, "labels": None}
    n = 700 if tier == "quick" else 30000
    for chroms, tbl in gen_tables(rng, tier, n):
        nv = rng.randint(1, 5)
        ends = sorted({b[2] for s in tbl for b in s["s1"] + s["s2"]})
        cand = ends + [e + 1 for e in ends] + [1]
        # mostly-valid stream: positions <= the smallest last end; a malformed stream goes beyond / uses an absent chromosome
        safe = min(max(b[2] for b in st if b[1] == c) for s in tbl for st in (s["s1"], s["s2"]) for c in {b[1] for b in st})
        if rng.random() < 0.7:
            vs = [[rng.choice(chroms), rng.choice([p for p in cand if p <= safe] or [1])] for _ in range(nv)]
        else:
            vs = [[rng.choice(chroms + ["9"]), rng.choice(cand + [50])] for _ in range(nv)]
        if len(vs) % 7 == 3:
            # a position far beyond every block, of a size only a 64-bit query array can hold (2^32 + a covered position): no block covers it
            vs[rng.randrange(len(vs))] = [rng.choice(chroms), 2**32 + rng.choice([1, 2, 5])]
        names = [s["name"] for s in tbl]
        samples = None
        r = rng.random()
        if r < 0.4:
            samples = rng.sample(names, rng.randint(1, len(names)))
        elif r < 0.45:
            samples = names[:1] + ["absent"]
        labels = None
        if rng.random() < 0.5:
            present = sorted({b[0] for s in tbl for b in s["s1"] + s["s2"]})
            extra = [l for l in LABELS + ["ZZZ"] if l not in present][: rng.randint(0, 2)]
            labels = present + extra
            rng.shuffle(labels)
            if rng.random() < 0.3:
                labels = labels[: rng.randint(0, len(labels))]
        yield {"table": tbl, "vars": vs, "samples": samples, "labels": labels}
    # many variants over few blocks (a whole chromosome's worth of variants against a handful of tracts): every position from
    # 1 to the common end in ascending order, so that every block end and its successor is among them; sometimes shuffled
    for _ in range(12 if tier == "quick" else 300):
        chroms = rng.sample(["1", "2", "chr3"], rng.randint(1, 2))
        pool = sorted(rng.sample(range(3, 400), 12))
        tbl = []
        for name in rng.sample(NAMES, rng.randint(1, 2)):
            tbl.append({"name": name, "s1": rand_strand(rng, chroms, pool, 3), "s2": rand_strand(rng, chroms, pool, 3)})
        safe = min(max(b[2] for b in st if b[1] == c) for s in tbl for st in (s["s1"], s["s2"]) for c in chroms)
        top = safe if rng.random() < 0.85 else safe + 1
        vs = [[c, p] for c in chroms for p in range(1, top + 1)]
        if rng.random() < 0.2:
            rng.shuffle(vs)
        yield {"table": tbl, "vars": vs, "samples": None, "labels": None}
    # a strand with more blocks on one chromosome than a 16-bit index can address (dense recombination over many
    # generations): queries on and around block 65535/65536 and at the very end
    for _ in range(1 if tier == "quick" else 3):
        nb = rng.choice([65600, 70000])
        big = [[LABELS[i % 3], "1", 10 * (i + 1), "1.0"] for i in range(nb)]
        small = [[LABELS[0], "1", 10 * nb, "1.0"]]
        qs = [10 * k + d for k in (1, 2, 65535, 65536, 65537, rng.randint(65538, nb - 1), nb) for d in (-1, 0)]
        yield {"table": [{"name": "S1", "s1": big, "s2": small}, {"name": "S2", "s1": small, "s2": small}], "vars": [["1", p] for p in qs], "samples": rng.choice([None, ["S2", "S1"]]), "labels": None}


def build(tbl, fname="x.bp"):
    from haptools.data import Breakpoints, HapBlock

    b = Breakpoints(fname, log=SD.silent_log())
    b.data = {s["name"]: [np.array([(x[0], x[1], x[2], float(x[3])) for x in s[k]], dtype=HapBlock) for k in ("s1", "s2")] for s in tbl}
    return b


def snapshot(b):
    return [{"name": k, "s1": [[(int(x["pop"]) if b.labels is not None else str(x["pop"])), str(x["chrom"]), int(x["bp"]), float(x["cm"])] for x in v[0]], "s2": [[(int(x["pop"]) if b.labels is not None else str(x["pop"])), str(x["chrom"]), int(x["bp"]), float(x["cm"])] for x in v[1]]} for k, v in b.data.items()]


def impl_lookup(case):
    b = build(case["table"])
    wide = any(p >= 2**32 for _, p in case["vars"])  # positions a 32-bit field cannot hold: the caller's array is 64 bits wide
    variants = np.array([(c, p) for c, p in case["vars"]], dtype=[("chrom", "U10"), ("pos", np.int64 if wide else np.uint32)])
    samples = None if case["samples"] is None else tuple(case["samples"])
    out = {}
    r = C.guarded(lambda: b.population_array(variants, samples).tolist())
    out["arr"] = r
    # encoded route
    b.encode(labels=None if case["labels"] is None else tuple(case["labels"]))
    out["labels"] = [[k, int(v)] for k, v in b.labels.items()]
    out["codes"] = [[[x[0] for x in s["s1"]], [x[0] for x in s["s2"]]] for s in snapshot(b)]
    out["enc_arr"] = C.guarded(lambda: b.population_array(variants, samples).astype(int).tolist())
    b.recode()
    out["decoded"] = [[[x[0] for x in s["s1"]], [x[0] for x in s["s2"]]] for s in snapshot(b)]
    out["labels_after_recode"] = b.labels
    # the same object asked once more after decoding: the answer is the one it gave before encoding
    out["arr_again"] = C.guarded(lambda: b.population_array(variants, samples).tolist())
    return out


def model_req_lookup(case):
    return {"op": "batch", "reqs": [{"op": "bpQuery", "table": case["table"], "vars": case["vars"], "samples": case["samples"]}, {"op": "bpEncode", "table": case["table"], "labels": case["labels"]}]}


def model_obs_lookup(case, resp):
    q, e = resp["resps"]
    out = {"arr": q["arr"] if "arr" in q else q, "labels": e["labels"], "codes": e["codes"], "decoded": e["decoded"], "labels_after_recode": None}
    code = dict((k, v) for k, v in e["labels"])
    out["enc_arr"] = [[[code[a], code[b]] for a, b in row] for row in q["arr"]] if "arr" in q else q
    out["arr_again"] = out["arr"]
    return out


def eq_lookup(a, b):
    a, b = C.canon(a), C.canon(b)
    for k in ("arr", "enc_arr", "arr_again"):
        a[k], b[k] = C.strip_msg(a.get(k)), C.strip_msg(b.get(k))
    # the order of the labels dict is not observable behaviour: compare as a mapping
    a["labels"], b["labels"] = sorted(map(tuple, a["labels"])), sorted(map(tuple, b["labels"]))
    return a == b


def first_ge(strand, chrom, pos):
    for x in strand:
        if x[1] == chrom and x[2] >= pos:
            return x[0]
    return None


def oracle_lookup(case, obs):
    if "error" in obs:
        return f"raised {obs}"
    tbl = {s["name"]: s for s in case["table"]}
    names = list(tbl) if case["samples"] is None else case["samples"]
    # expected label per (sample, variant, strand) = first block of that strand on that chromosome with end >= pos
    if any(n not in tbl for n in names):
        if not (isinstance(obs["arr"], dict) and "error" in obs["arr"]):
            return "a sample absent from the table was answered"
        return None
    exp, reject = [], False
    for n in names:
        row = []
        for c, p in case["vars"]:
            a, b = first_ge(tbl[n]["s1"], c, p), first_ge(tbl[n]["s2"], c, p)
            if a is None or b is None:
                reject = True
            row.append([a, b])
        exp.append(row)
    arr = obs["arr"]
    if reject:
        if not (isinstance(arr, dict) and "error" in arr):
            return f"a position no block covers (or an absent chromosome) was answered: {arr}"
        if not (isinstance(obs["enc_arr"], dict) and "error" in obs["enc_arr"]):
            return "the encoded query answered a position that no block covers"
    else:
        if isinstance(arr, dict):
            return f"query raised {arr} although every position is covered"
        if arr != exp:
            return f"labels {arr} differ from the first-block-with-end>=pos labels {exp} (samples in requested order {names})"
        code = {k: v for k, v in obs["labels"]}
        if isinstance(obs["enc_arr"], dict) or obs["enc_arr"] != [[[code.get(a), code.get(b)] for a, b in row] for row in exp]:
            return f"encoded query {obs['enc_arr']} is not the codes of the same labels {exp} under {obs['labels']}"
    if C.canon(C.strip_msg(obs.get("arr_again"))) != C.canon(C.strip_msg(obs["arr"])) and not (isinstance(obs.get("arr_again"), dict) and isinstance(obs["arr"], dict)):
        return f"after encode() and recode() the same query on the same object answers {obs.get('arr_again')}, before it answered {obs['arr']}"
    # encode: codes are distinct per label, given labels keep their positions, only labels in the data are listed
    code = {k: v for k, v in obs["labels"]}
    present = {x[0] for s in case["table"] for x in s["s1"] + s["s2"]}
    if set(code) != present:
        return f"labels map {obs['labels']} does not list exactly the labels in the data {sorted(present)}"
    if len(set(code.values())) != len(code):
        return f"two labels share a code: {obs['labels']}"
    if case["labels"]:
        for i, l in enumerate(case["labels"]):
            if l in code and code[l] != i:
                return f"label {l} was given position {i} but got code {code[l]}"
    orig = [[[x[0] for x in s["s1"]], [x[0] for x in s["s2"]]] for s in case["table"]]
    if obs["decoded"] != orig:
        return f"encode+recode changed the labels: {obs['decoded']} vs {orig}"
    if obs["codes"] != [[[code[l] for l in st] for st in smp] for smp in orig]:
        return "encoded data are not the codes of the original labels"
    return None


def describe_lookup(case, obs):
    tags = []
    arr = obs.get("arr") if isinstance(obs, dict) else None
    tags.append("rejected" if isinstance(arr, dict) else "answered")
    ends = {b[2] for s in case["table"] for b in s["s1"] + s["s2"]}
    if any(p in ends for _, p in case["vars"]):
        tags.append("pos-on-block-end")
    if any(p - 1 in ends for _, p in case["vars"]):
        tags.append("pos-on-end+1")
    if case["samples"] is not None:
        tags.append("sample-subset/order")
    if case["labels"] is not None:
        tags.append("encoder-label-order")
    return tags


# ------------------------------------------------------------------ file round trip
def gen_file(rng, tier):
    n = 150 if tier == "quick" else 4000
    for chroms, tbl in gen_tables(rng, tier, n):
        comments = rng.random() < 0.3
        yield {"table": tbl, "gz": rng.random() < 0.3, "comments": comments, "subset": rng.choice([None, None, [tbl[0]["name"]], [s["name"] for s in tbl][::-1]])}


def impl_file(case):
    from haptools.data import Breakpoints

    f = _dir / ("t.bp.gz" if case["gz"] else "t.bp")
    b = build(case["table"], f)
    b.write()
    import gzip

    raw = (gzip.open(f, "rt") if case["gz"] else open(f)).read()
    if case["comments"]:
        lines = raw.splitlines()
        lines.insert(0, "# a comment")
        lines.insert(len(lines) // 2, "#another\tcomment\tline")
        with (gzip.open(f, "wt") if case["gz"] else open(f, "w")) as o:
            o.write("\n".join(lines) + "\n")
    r = Breakpoints(f, log=SD.silent_log())
    r.read(samples=None if case["subset"] is None else set(case["subset"]))
    snap = snapshot(r)
    lines = [l.split("\t") for l in raw.splitlines()]
    # the cM tokens of the file beside the bits of the values they were written from (block lines have four fields and come in
    # table order): whether every correctly rounding reader gets the value back is decided in Lean (FloatText.checkTok)
    cms = [x[3] for smp in case["table"] for st in ("s1", "s2") for x in smp[st]]
    toks = [l[3] for l in lines if len(l) == 4]
    _cm[C.jdump(case)] = [[str(_bits(v)), t] for v, t in zip(cms, toks)] + [["0", t] for t in toks[len(cms) :]]
    return {"read": snap, "lines": lines, "cm_tokens": ["reads"] * len(cms)}


def model_req_file(case):
    smp = [{"name": s["name"], "s1": [[x[0], x[1], str(x[2]), repr(float(x[3]))] for x in s["s1"]], "s2": [[x[0], x[1], str(x[2]), repr(float(x[3]))] for x in s["s2"]]} for s in case["table"]]
    return {"op": "batch", "reqs": [{"op": "bpRender", "samples": smp}, {"op": "bpParse", "lines": None}], "_smp": smp}


def model_req_file2(case):
    r = model_req_file(case)
    # parse what the model itself renders (round trip inside the model) – and compare both with the real file
    return {"op": "batch", "reqs": [{"op": "bpRender", "samples": r["_smp"]}, {"op": "floatTok", "pairs": _cm.get(C.jdump(case), [])}]}


def model_obs_file(case, resp):
    lines = resp["resps"][0]["lines"]
    # parse the model-rendered lines with the model parser is theorem parse_render; the observation compared with the
    # implementation is (a) the rendered lines, (b) the table the reader must return
    want = case["subset"]
    read = [{"name": s["name"], "s1": [[x[0], x[1], x[2], float(x[3])] for x in s["s1"]], "s2": [[x[0], x[1], x[2], float(x[3])] for x in s["s2"]]} for s in case["table"] if want is None or s["name"] in want]
    return {"read": read, "lines": lines, "cm_tokens": list(resp["resps"][1]["verdicts"])}


def oracle_file(case, obs):
    if "error" in obs:
        return f"write/read raised {obs}"
    want = case["subset"]
    exp = [{"name": s["name"], "s1": [[x[0], x[1], x[2], float(x[3])] for x in s["s1"]], "s2": [[x[0], x[1], x[2], float(x[3])] for x in s["s2"]]} for s in case["table"] if want is None or s["name"] in want]
    if C.canon(obs["read"]) != C.canon(exp):
        return f"read back {obs['read']}, wrote {exp}"
    return None


CHECK = Check(
    id="C05",
    title="Ancestry lookup returns the covering block's label; .bp files round-trip",
    theorems=["C05.find_first_ge", "C05.find_rejects", "C05.absent_chromosome_rejected", "C05.population_array_cells", "C05.population_array_unknown_sample", "C05.recode_encode", "C05.encoded_codes_injective", "C05.encoder_keeps_given_order", "C05.parse_render", "C15.decimal_reads_as_at_most_one_double", "C15.checked_token_reads_back_everywhere"],
    sections=[
        Section(
            name="lookup_encode",
            theorems=["C05.find_first_ge", "C05.find_rejects", "C05.absent_chromosome_rejected", "C05.population_array_cells", "C05.population_array_unknown_sample", "C05.recode_encode", "C05.encoded_codes_injective", "C05.encoder_keeps_given_order"],
            gen=gen_lookup,
            impl=impl_lookup,
            model_req=model_req_lookup,
            model_obs=model_obs_lookup,
            equal=eq_lookup,
            oracle=oracle_lookup,
            describe=describe_lookup,
            nontrivial=lambda c, o: C.jdump([c["table"], c["vars"], c["samples"], c["labels"]]) if sum(len(s["s1"]) + len(s["s2"]) for s in c["table"]) > 2 else None,
            rule="exhaustive: one strand with <=3 blocks over ends 1..5, every query position 1..6 (single and batched); seeded random tables (1-3 samples incl. underscore names, 1-3 chromosomes incl. prefixed, 1-4 blocks, labels of 1-6 chars), queries on block ends, ends+1, 1 and beyond (70% fully covered / 30% with uncovered positions or absent chromosomes), sample subsets/orders incl. absent samples, label orders handed to the encoder (permutations, extra unused labels, partial lists); plain and encoded queries, encode+recode",
        ),
        Section(
            name="file_roundtrip",
            theorems=["C05.parse_render", "C15.decimal_reads_as_at_most_one_double", "C15.checked_token_reads_back_everywhere"],
            gen=gen_file,
            impl=impl_file,
            model_req=model_req_file2,
            model_obs=model_obs_file,
            oracle=oracle_file,
            setup=setup,
            teardown=teardown,
            nontrivial=lambda c, o: C.jdump(c["table"]),
            describe=lambda c, o: ["gzip" if c["gz"] else "plain", "comments" if c["comments"] else "no-comments", "sample-subset" if c["subset"] else "all-samples"],
            rule="seeded random tables written with Breakpoints.write (plain / gzip), optionally with comment lines inserted, read back with Breakpoints.read (all samples / subsets): file lines equal the model's rendering, the table read equals the table written (cM compared as float64 values, tokens as repr)",
        ),
    ],
    trusted=["np.searchsorted(side='left') on sorted input = number of elements < p", "csv module field splitting; float repr / parse of short decimals (bit-exactness is C15's topic)", "numpy.lib.recfunctions field shuffling in encode/recode"],
    assumptions=["block ends of a strand are non-decreasing within a chromosome (what simgenotype writes)", "labels handed to encode() are duplicate-free", "labels have at most 6 characters (the U6 field; stated in the property)"],
    anchors=[("haptools/data/breakpoints.py", ["Breakpoints._find_blocks", "Breakpoints.population_array", "Breakpoints.encode", "Breakpoints.recode", "Breakpoints.__iter__", "Breakpoints.write", "Breakpoints.read"])],
)
