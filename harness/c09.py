"""C09 — simphenotype implements the documented linear model and case/control threshold."""
from __future__ import annotations

import math
from fractions import Fraction
from pathlib import Path

import numpy as np

from . import common as C
from . import gtfiles as GF
from . import simdata as SD
from .run import Check, Section

_dir = None
BETAS = [0.0, 0.1, -0.25, 0.5, 0.75, -1.0, 1.5, 0.3]
ROOTS = [[0.5**0.5, 0.5**0.5], [3**-0.5, 3**-0.5, -(3**-0.5)], [0.6, 0.8], [0.2] * 25]  # sum beta^2 = 1 in exact arithmetic, a hair above or below in floating point
H2 = [None, None, 1.0, 0.5, 0.25, 0.8]
ENV = [None, None, 0.0, 0.5, 1.0, 2.0]
PREV = [None, None, 0.0, 0.1, 0.3, 0.5, 0.75, 0.99, 0.4999999999999, 0.999999999999]  # the last two: K*n a hair below a whole number (floor, not round)


def setup():
    global _dir
    _dir = C.scratch_dir("c09")
    return _dir


def teardown(_):
    C.rm_tree(_dir)


def gen(rng, tier):
    n = 500 if tier == "quick" else 15000
    for t in range(n):
        ns, nv = rng.randint(2, 12), rng.choice([1, 2, 3, 4, 5, 5, 7, 9])
        if rng.random() < 0.06:
            ns, nv = rng.randint(17, 40), rng.choice([3, 9, 17, 24])  # medium sizes
        many_const = rng.random() < 0.08  # six or more requested variables that are constant in the cohort
        if many_const:
            nv = rng.choice([7, 9])
        repeats = rng.random() < 0.25
        big = rng.random() < 0.4
        data = []
        for i in range(ns):
            row = []
            for j in range(nv):
                if repeats and big:
                    # long tandem repeats: copy numbers up to the largest storable allele value (253), dosages up to 506
                    row.append([rng.choice([0, 3, 127, 128, 200, 253]), rng.choice([1, 128, 129, 250, 253])])
                else:
                    row.append([rng.randint(0, 9), rng.randint(0, 9)] if repeats else [rng.randint(0, 1), rng.randint(0, 1)])
            data.append(row)
        if rng.random() < 0.3:
            # constant dosage columns (possibly heterozygous everywhere): one, or many (rare variants in a small cohort)
            for j in rng.sample(range(nv), 1 if rng.random() < 0.6 else rng.randint(1, nv)):
                for r in data:
                    r[j] = list(data[0][j])
        k = rng.randint(1, nv)
        if many_const:
            for j in rng.sample(range(nv), rng.randint(6, nv)):
                for r in data:
                    r[j] = list(data[0][j])
            k = nv
        eff_idx = rng.sample(range(nv), k)  # effects in an order that differs from the file order
        effects = [[f"v{j}", rng.choice(BETAS)] for j in eff_idx]
        roots = [r for r in ROOTS if len(r) <= nv]
        if roots and rng.random() < 0.12:
            r = rng.choice(roots)
            effects = [[f"v{j}", b] for j, b in zip(rng.sample(range(nv), len(r)), r)]
        force_default = False
        if roots and effects and any(abs(sum(b * b for _, b in effects) - 1) < 1e-9 for _ in [0]) and rng.random() < 0.8:
            force_default = True  # sum beta^2 = 1 up to rounding: mostly with the default noise (neither heritability nor environment)
        tiny = t % 10 == 5 and not force_default
        if tiny:
            # a fixed share: effects so small that the genetic component's variance is tiny (1e-8 and far below) but not zero,
            # with a heritability and no environment: the noise variance is that tiny variance times (1/h2 - 1), not a default
            effects = [[v, rng.choice([1e-5, -3e-6, 1e-4, 2e-7, 1e-12])] for v, _ in effects]
        yield {"data": data, "effects": effects, "h2": (rng.choice([x for x in H2 if x is not None]) if tiny else (None if force_default else rng.choice(H2))), "env": None if (force_default or tiny) else rng.choice(ENV), "normalize": True if many_const else rng.random() < 0.7, "K": rng.choice(PREV), "R": rng.randint(1, 3), "tape_seed": rng.randrange(2**31), "bool_matrix": (not repeats) and rng.random() < 0.35}


class FakeRng:
    """stands in for PhenoSimulator.rng (public attribute): returns a known standard-normal tape scaled by the
    requested scale and records every call"""

    def __init__(self, seed):
        self.z = np.random.default_rng(seed)
        self.calls = []

    def normal(self, loc=0.0, scale=1.0, size=None):
        n = int(np.prod(size)) if size is not None else 1
        z = self.z.standard_normal(n)
        self.calls.append({"loc": float(loc), "scale": float(scale), "n": n, "z": z.tolist()})
        return (loc + scale * z).reshape(size) if size is not None else float(loc + scale * z[0])

    def standard_normal(self, size=None, *a, **k):
        # the caller scales the draws itself: the scale is then read off the returned phenotypes (see `scale_of`)
        n = int(np.prod(size)) if size is not None else 1
        z = self.z.standard_normal(n)
        self.calls.append({"loc": 0.0, "scale": None, "n": n, "z": z.tolist()})
        return z.reshape(size) if size is not None else float(z[0])

    def __getattr__(self, name):
        raise C.GlueBroken(f"the simulator asks its generator for `{name}`, which the recording stand-in does not provide")


def scale_of(call, y, g, quantitative):
    """the standard deviation of the noise of one replication: what the generator was asked for, or – when the simulator scales
    standard-normal draws itself – the least-squares factor between the draws and phenotype minus genetic component"""
    if call["scale"] is not None:
        return call["scale"]
    if not quantitative:
        return None
    z = np.array(call["z"])
    zz = float(z @ z)
    if zz == 0 or len(z) != len(y):
        return None
    return float(((np.array(y) - g) @ z) / zz)


def build_gt(case):
    from haptools import data as D

    g = D.Genotypes(fname=None, log=SD.silent_log())
    ns, nv = len(case["data"]), len(case["data"][0])
    g.samples = tuple(f"s{i}" for i in range(ns))
    g.variants = np.array([(f"v{j}", "1", 10 * (j + 1)) for j in range(nv)], dtype=g.variants.dtype)
    g.data = np.array(case["data"], dtype=np.uint8).reshape((ns, nv, 2))
    if case.get("bool_matrix"):
        g.data = g.data.astype(np.bool_)  # what Genotypes.load() / check_biallelic() and Haplotypes.transform() hand over
    return g


def impl(case):
    from haptools.sim_phenotype import Effect, PhenoSimulator

    g = build_gt(case)
    sim = PhenoSimulator(g, output=Path(_dir / "o.pheno"), seed=1, log=SD.silent_log())
    fake = FakeRng(case["tape_seed"])
    sim.rng = fake
    effects = [Effect(id=i, beta=b) for i, b in case["effects"]]
    ys = []
    # a third of the simulators have been asked before, for the same effects under the other setting of `normalize`: what a
    # trait is made of depends on its own request, not on the requests before it (the earlier trait is the first column of
    # the archive and is left out of the observation)
    pre = 1 if case["tape_seed"] % 3 == 0 else 0
    if pre:
        sim.run(effects, heritability=case["h2"], prevalence=case["K"], normalize=not case["normalize"], environment=case["env"])
    for r in range(case["R"]):
        y = sim.run(effects, heritability=case["h2"], prevalence=case["K"], normalize=case["normalize"], environment=case["env"])
        ys.append([float(x) for x in y])
        # what the caller does with the vector it was handed (standardise it in place, say) is its own business: the archive
        # that write() saves must not follow
        try:
            y[...] = -7
        except (TypeError, ValueError):
            pass
    sim.write()
    from haptools.data import Phenotypes

    back = Phenotypes(_dir / "o.pheno", log=SD.silent_log())
    back.read()
    _, _, gcomp = genetic(case)
    calls = fake.calls[pre:]
    scales = [scale_of(c, y, gcomp, case["K"] is None) for c, y in zip(calls, ys)]
    return {"y": ys, "calls": calls, "scales": scales, "names": list(sim.phens.names)[pre:], "phens": np.asarray(sim.phens.data)[:, pre:].tolist(), "file_names": list(back.names)[pre:], "file_data": np.asarray(back.data)[:, pre:].tolist(), "file_samples": list(back.samples)}


def genetic(case):
    """independent computation of Z and the genetic component"""
    ns, nv = len(case["data"]), len(case["data"][0])
    dos = np.array([[sum(case["data"][i][j]) for j in range(nv)] for i in range(ns)], dtype=np.float64)
    cols = [int(e[0][1:]) for e in case["effects"]]
    Z = dos[:, cols]
    if case["normalize"]:
        mu, sd = Z.mean(axis=0), Z.std(axis=0)
        Zn = np.zeros_like(Z)
        for j in range(Z.shape[1]):
            if sd[j] != 0:
                Zn[:, j] = (Z[:, j] - mu[j]) / sd[j]
        Z = Zn
    betas = np.array([e[1] for e in case["effects"]])
    return Z, betas, (Z * betas).sum(axis=1)


def model_req(case):
    Z, betas, gen_ = genetic(case)
    fr = lambda x: [Fraction(x).numerator, Fraction(x).denominator]
    sumb2 = sum(Fraction(b) ** 2 for _, b in case["effects"])
    return {"op": "noiseVar", "sumB2": [sumb2.numerator, sumb2.denominator], "h2": None if case["h2"] is None else fr(case["h2"]), "env": None if case["env"] is None else fr(case["env"]), "varG": fr(float(np.var(gen_))), "K": None if case["K"] is None else [Fraction(str(case["K"])).numerator, Fraction(str(case["K"])).denominator], "n": len(case["data"])}


def model_obs(case, resp):
    return {"noise": resp["noise"][0] / resp["noise"][1], "cases": resp["cases"]}


def equal(a, b):
    if "error" in a:
        return False
    for c, sc in zip(a["calls"], a.get("scales", [])):
        if sc is None:
            continue  # case/control output of a simulator that scales the draws itself: the noise variance is not observable
        tol = 1e-9 if c["scale"] is not None else 1e-6
        if abs(sc**2 - b["noise"]) > tol * max(1.0, abs(b["noise"])):
            return False
    if b["cases"] is not None:
        for y in a["y"]:
            # the model floors the exact decimal K*n; the code floors the double product: they may differ by one when
            # K*n is an integer in decimals (0.29*100): that float artefact is outside the model (PARTIAL)
            if sum(1 for v in y if v) not in (b["cases"], b["cases"] - 1):
                return False
    return True


def oracle(case, obs):
    if "error" in obs:
        return f"PhenoSimulator.run raised {obs}"
    Z, betas, g = genetic(case)
    ns = len(case["data"])
    # documented noise variance
    sumb2 = float((betas**2).sum())
    if case["h2"] is None and case["env"] is None:
        noise = max(1 - sumb2, 0.0)
    else:
        v = case["env"] if case["env"] is not None else (float(np.var(g)) if np.var(g) != 0 else 1.0)
        h = case["h2"] if case["h2"] is not None else 0.5
        noise = v * (1 / h - 1)
    if len(obs["calls"]) != case["R"]:
        return f"{len(obs['calls'])} noise draws for {case['R']} replications"
    for r, c in enumerate(obs["calls"]):
        if c["loc"] != 0 or c["n"] != ns:
            return f"replication {r}: noise drawn with mean {c['loc']} and {c['n']} values for {ns} samples"
        sc = obs["scales"][r]
        if sc is not None and abs(sc**2 - noise) > (1e-9 if c["scale"] is not None else 1e-6) * max(1, noise):
            return f"replication {r}: noise variance {sc**2}, documented value {noise} (betas {betas.tolist()}, h2 {case['h2']}, env {case['env']}, var(genetic) {float(np.var(g))})"
        liab = g + (sc if sc is not None else math.sqrt(noise)) * np.array(c["z"])
        y = np.array(obs["y"][r])
        if case["K"] is None:
            if np.max(np.abs(y - liab)) > 1e-9 * max(1.0, float(np.max(np.abs(liab)))):
                return f"replication {r}: phenotype {y.tolist()} is not sum_j beta_j*Z_j + eps = {liab.tolist()} (effects {case['effects']}, normalize={case['normalize']})"
        else:
            k = int(math.floor(Fraction(str(case["K"])) * ns))
            cases = [i for i in range(ns) if y[i]]
            if len(cases) not in (k, int(case["K"] * ns)):
                return f"replication {r}: {len(cases)} cases, floor(K*n) = {k} (K={case['K']}, n={ns})"
            ctrl = [i for i in range(ns) if not y[i]]
            if cases and ctrl and min(liab[i] for i in cases) < max(liab[i] for i in ctrl) - 1e-9:
                return f"replication {r}: a control has a larger liability than a case"
    if case["R"] > 1 and any(obs["calls"][0]["z"] == c["z"] for c in obs["calls"][1:]):
        return "replications are copies of each other"
    names = obs["names"]
    if len(names) != case["R"] or len(set(obs["file_names"])) != case["R"]:
        return f"{case['R']} replications gave columns {names} (written as {obs['file_names']})"
    if obs["file_samples"] != [f"s{i}" for i in range(ns)]:
        return f"written samples {obs['file_samples']}"
    if obs["file_data"] != obs["phens"] or [list(c) for c in zip(*obs["phens"])] != obs["y"]:
        return "the written phenotypes do not read back exactly / differ from the returned vectors"
    return None


def describe(case, obs):
    tags = ["normalize" if case["normalize"] else "raw", "simulator-asked-before-with-the-other-normalize" if case["tape_seed"] % 3 == 0 else "fresh-simulator", f"h2={'given' if case['h2'] is not None else 'none'}", f"env={'given' if case['env'] is not None else 'none'}", "case-control" if case["K"] is not None else "quantitative", f"R={case['R']}"]
    s = sum(b * b for _, b in case["effects"])
    tags.append("sumB2>1" if s > 1 else ("sumB2=1" if s == 1 else "sumB2<1"))
    tags.append("bool-matrix" if case.get("bool_matrix") else "uint8-matrix")
    return tags


# ------------------------------------------------------------------ end to end: simulate_pt on files (zero noise)
def gen_files(rng, tier):
    n = 40 if tier == "quick" else 1200
    for t in range(n):
        big_R = t == 5 or (tier != "quick" and t % 300 == 17)  # more replications than numpy prints without summarising
        ns, nv = rng.randint(3, 10), rng.randint(2, 5)
        chunky = t % 4 == 2  # a fixed share: a PGEN file of five or seven variants, most of them causal, read in chunks of 2, 3 or 4
        if chunky:
            nv = rng.choice([5, 7])
        data = [[[rng.randint(0, 1), rng.randint(0, 1)] for _ in range(nv)] for _ in range(ns)]
        k = rng.randint(nv - 2, nv) if chunky else rng.randint(1, nv)
        idx = rng.sample(range(nv), k)
        # zero noise either through --heritability 1 or, with neither heritability nor environment given, through
        # sum beta^2 >= 1 (documented: the noise variance is 1 - sum beta^2 floored at 0); API or command line
        h2mode = rng.choice(["one", "none_bigbeta"])
        route = rng.choice(["api", "cli"])
        effects = [[f"v{j}", rng.choice([0.1, 0.5, -0.25, 1.0, 0.3])] for j in idx]
        if h2mode == "none_bigbeta":
            effects[0][1] = rng.choice([1.0, -1.0, 1.5])
        if t % 6 == 1:
            # an effect list that names a variable twice (two lines of the .snplist): both terms belong to the sum
            effects.insert(rng.randrange(1, len(effects) + 1), [effects[0][0], rng.choice([0.4, -0.2, 0.25])])
        hap_effects = None
        if rng.random() < 0.4:
            # the causal variables are haplotypes of a .hap file (1-3 variants each, REF or ALT alleles, overlapping):
            # Z is the number of the sample's strands carrying all of the haplotype's alleles
            hap_effects = []
            for h in range(rng.randint(1, 3)):
                vs = sorted(rng.sample(range(nv), rng.randint(1, min(3, nv))))
                hap_effects.append({"id": f"H{h}", "vars": [[j, rng.randint(0, 1)] for j in vs], "beta": rng.choice([0.1, 0.5, -0.25, 1.0, 0.3])})
            if h2mode == "none_bigbeta":
                hap_effects[0]["beta"] = rng.choice([1.0, -1.0, 1.5])
        yield {"hap_effects": hap_effects, "h2mode": h2mode, "route": route, "data": data, "effects": effects, "extra_lines": rng.sample([j for j in range(nv) if j not in idx], rng.randint(0, nv - k)), "ids": rng.choice([None, None, "subset"]), "samples": rng.choice([None, None, "subset"]), "normalize": rng.random() < 0.6, "K": rng.choice([None, None, 0.3, 0.5]), "R": rng.choice([1001, 1200]) if big_R else rng.randint(1, 3), "pgen": chunky or rng.random() < 0.3, "chunk": (2, 3, 4)[t // 4 % 3] if chunky else rng.choice([None, 1, 2]), "seed": rng.randrange(2**31)}


def _plan(case):
    """what the case fixes beyond its fields: the lines of the .snplist, the --id set, the sample subset"""
    import random

    ns = len(case["data"])
    rnd = random.Random(case["seed"])
    lines = [f"{i}\t{b}" for i, b in case["effects"]] + [f"v{j}\t0.9" for j in case["extra_lines"]]
    ids = None
    if case["ids"]:
        ids = {i for i, _ in case["effects"]}
    else:
        lines = lines[: len(case["effects"])]
        if case["seed"] % 4 == 0 and case.get("h2mode", "one") == "one" and not case.get("hap_effects"):
            # a fixed share: the effects file names one more variant than the genotype file holds; it has no dosage, so it adds
            # nothing (its beta must not land on another variant) – the run goes on with the effects that were found
            lines.insert(rnd.randrange(len(lines) + 1), "absentSNP\t0.37")
    want = None
    if case["samples"]:
        want = set(rnd.sample([f"s{i}" for i in range(ns)], rnd.randint(2, ns)))
    return {"rnd": rnd, "lines": lines, "ids": ids, "want": want}


def model_req_files(case):
    """raw dosages, a .snplist, a quantitative trait: the genetic component by ID, in exact rationals (Lean `PhenoSim.genetic`)"""
    if case.get("hap_effects") or case["normalize"] or case["K"] is not None:
        return {"op": "geneticRaw", "cols": [], "effects": [], "n": 0}
    plan = _plan(case)
    ns, nv = len(case["data"]), len(case["data"][0])
    keep = [i for i in range(ns) if plan["want"] is None or f"s{i}" in plan["want"]]
    cols = [[f"v{j}", [sum(case["data"][i][j]) for i in keep]] for j in range(nv)]
    effects = []
    for l in plan["lines"]:
        vid, b = l.split("\t")
        if plan["ids"] is None or vid in plan["ids"]:
            fb = Fraction(float(b))
            effects.append([vid, [fb.numerator, fb.denominator]])
    return {"op": "geneticRaw", "cols": cols, "effects": effects, "n": len(keep)}


def model_obs_files(case, resp):
    if case.get("hap_effects") or case["normalize"] or case["K"] is not None:
        return {"skipped": True}
    return {"genetic": [a / b for a, b in resp["genetic"]], "used": resp["used"]}


def equal_files(a, b):
    if b.get("skipped"):
        return True
    if "error" in a:
        return False
    if len(a["data"]) != len(b["genetic"]):
        return False
    # zero noise: every replication is the genetic component itself
    return all(abs(x - g) <= 1e-9 for row, g in zip(a["data"], b["genetic"]) for x in row)


def impl_files(case):
    import random

    from haptools.data import Phenotypes
    from haptools.sim_phenotype import simulate_pt

    d = _dir / "f"
    C.rm_tree(d)
    d.mkdir(parents=True)
    ns, nv = len(case["data"]), len(case["data"][0])
    samples = [f"s{i}" for i in range(ns)]
    variants = [(f"v{j}", "1", 10 * (j + 1), ["A", "C"]) for j in range(nv)]
    data = [[(c[0], c[1], 1) for c in r] for r in case["data"]]
    if case.get("hap_effects"):
        # simphenotype takes the haplotypes' pseudo-genotypes (what `haptools transform` writes): one record per haplotype,
        # allele 1 on the strands that carry all of its alleles – written here from the definition
        haps = case["hap_effects"]
        variants = sorted([(h["id"], "1", 10 * (min(j for j, _ in h["vars"]) + 1), ["A", "T"]) for h in haps], key=lambda v: (v[2], v[0]))
        byid = {h["id"]: h for h in haps}
        data = [[tuple(int(all(row[j][k] == a for j, a in byid[v[0]]["vars"])) for k in (0, 1)) + (1,) for v in variants] for row in case["data"]]
    if case["pgen"]:
        GF.write_pgen(d / "g", samples, variants, data)
        gf = d / "g.pgen"
    else:
        GF.write_vcf_text(d / "g.vcf", samples, variants, data)
        gf = d / "g.vcf"
    plan = _plan(case)
    rnd, lines, ids = plan["rnd"], plan["lines"], plan["ids"]
    open(d / "e.snplist", "w").write(("\n".join(lines) + ("\n" if C.plumb(case, "snplist-ending", 2) else "")))
    eff_file = d / "e.snplist"
    if case.get("hap_effects"):
        with open(d / "e.hap", "w") as f:
            f.write("#\torderH\tbeta\n#\tversion\t0.2.0\n#H\tbeta\t.2f\tEffect size in linear model\n")
            for h in case["hap_effects"]:
                ps = [10 * (j + 1) for j, _ in h["vars"]]
                f.write(f"H\t1\t{min(ps)}\t{max(ps) + 1}\t{h['id']}\t{h['beta']:.2f}\n")
            f.write("R\t1\t5\t9\tREP1\t0.77\n" if False else "")
            for h in case["hap_effects"]:
                for j, a in h["vars"]:
                    f.write(f"V\t{h['id']}\t{10 * (j + 1)}\t{10 * (j + 1) + 1}\tv{j}\t{'AC'[a]}\n")
        eff_file = d / "e.hap"
        ids = {h["id"] for h in case["hap_effects"][: max(1, len(case["hap_effects"]) - 1)]} if case["ids"] else None
    want = plan["want"]
    h2 = 1.0 if case.get("h2mode", "one") == "one" else None
    # PGEN files are read in chunks of --chunk-size variants: none, one, and sizes that do not divide the number of variants
    chunk = case.get("chunk") if case["pgen"] else None
    if case.get("route", "api") == "api":
        simulate_pt(gf, eff_file, **({"chunk_size": chunk} if chunk else {}), num_replications=case["R"], heritability=h2, prevalence=case["K"], normalize=case["normalize"], samples=want, haplotype_ids=ids, seed=case["seed"] % 2**32, output=d / "o.pheno", log=SD.silent_log())
    else:
        from click.testing import CliRunner
        from haptools.__main__ import main

        args = ["simphenotype", "--replications", str(case["R"]), "--seed", str(case["seed"] % 2**32), "--output", str(d / "o.pheno"), "--verbosity", "CRITICAL"]
        if h2 is not None:
            args += ["--heritability", str(h2)]
        if case["K"] is not None:
            args += ["--prevalence", str(case["K"])]
        args.append("--normalize" if case["normalize"] else "--no-normalize")
        if chunk:
            args += ["--chunk-size", str(chunk)]
        for x in sorted(want or []):
            args += ["--sample", x]
        for x in sorted(ids or []):
            args += ["--id", x]
        r = CliRunner().invoke(main, args + [str(gf), str(eff_file)], catch_exceptions=True)
        if r.exit_code != 0:
            return {"error": "cli_exit", "msg": (repr(r.exception) + r.output)[-300:]}
    p = Phenotypes(d / "o.pheno", log=SD.silent_log())
    p.read()
    return {"samples": list(p.samples), "names": list(p.names), "data": np.asarray(p.data).tolist(), "want": sorted(want) if want else None}


def oracle_files(case, obs):
    if "error" in obs:
        return f"simulate_pt raised {obs}"
    ns = len(case["data"])
    keep = [i for i in range(ns) if obs["want"] is None or f"s{i}" in obs["want"]]
    if obs["samples"] != [f"s{i}" for i in keep]:
        return f"samples {obs['samples']}"
    sub = {**case, "data": [case["data"][i] for i in keep]}
    if case.get("hap_effects"):
        used = case["hap_effects"][: max(1, len(case["hap_effects"]) - 1)] if case["ids"] else case["hap_effects"]
        Z = np.array([[sum(1 for k in (0, 1) if all(row[j][k] == a for j, a in h["vars"])) for h in used] for row in sub["data"]], dtype=np.float64)
        if case["normalize"]:
            mu, sd = Z.mean(axis=0), Z.std(axis=0)
            Z = np.array([[(Z[i, j] - mu[j]) / sd[j] if sd[j] != 0 else 0.0 for j in range(Z.shape[1])] for i in range(Z.shape[0])])
        g = (Z * np.array([float(f"{h['beta']:.2f}") for h in used])).sum(axis=1)
    else:
        Z, betas, g = genetic(sub)
    if len(obs["names"]) != case["R"] or len(set(obs["names"])) != case["R"]:
        return f"{case['R']} replications gave columns {obs['names']}"
    for r in range(case["R"]):
        y = np.array([row[r] for row in obs["data"]])
        if case["K"] is None:
            if np.max(np.abs(y - g)) > 1e-9:
                return f"zero-noise phenotype {y.tolist()} differs from sum_j beta_j*Z_j = {g.tolist()} (effects {case['effects']} listed in an order different from the genotype file)"
        else:
            k = int(math.floor(case["K"] * len(keep)))
            cs = [i for i in range(len(keep)) if y[i]]
            if len(cs) != k:
                return f"{len(cs)} cases for floor(K*n)={k} (liabilities {g.tolist()}, ties at the threshold)"
            ct = [i for i in range(len(keep)) if not y[i]]
            if cs and ct and min(g[i] for i in cs) < max(g[i] for i in ct) - 1e-9:
                return "a control outranks a case"
    return None


CHECK = Check(
    id="C09",
    title="simphenotype implements the documented linear model and case/control threshold",
    theorems=["C09.cases_count", "C09.cases_dominate", "C09.replications_disjoint", "C09.replications_cover", "C09.names_distinct", "C09.absent_effect_adds_nothing", "C09.found_effect_contributes_its_own_dosage", "C09.effect_order_irrelevant", "C09.variable_named_twice_adds_both_betas", "C09.absent_effect_misattributed_before_fix", "C09R.standardize_mean_zero", "C09R.standardize_var_one", "C09R.noise_default", "C09R.noise_given", "C09R.noise_zero_h1", "C09R.noise_nonneg"],
    imports=("HapModel", "HapReal"),
    build_targets=("HapModel", "HapReal"),
    sections=[
        Section(
            name="pheno_simulator_run",
            theorems=["C09R.noise_default", "C09R.noise_given", "C09.cases_count", "C09.cases_dominate", "C09.replications_disjoint", "C09.names_distinct"],
            gen=gen,
            impl=impl,
            model_req=model_req,
            model_obs=model_obs,
            equal=equal,
            oracle=oracle,
            describe=describe,
            setup=setup,
            teardown=teardown,
            nontrivial=lambda c, o: C.jdump(c),
            rule="seeded random dosage matrices (2-12 samples x 1-9 variables; uint8 or – for SNPs – boolean storage as handed over by load() and Haplotypes.transform(); SNP dosages or repeat counts (short, and long ones whose two copy numbers add up beyond 255); constant columns), effect lists in an order different from the genotype order, betas incl. 0, negative and sum beta^2 >, =, < 1, all combinations of {heritability none/1/0.5/0.25/0.8, environment none/0/0.5/1/2, normalize on/off, prevalence none/0/.../0.99}, 1-3 replications; PhenoSimulator.rng (public attribute) is replaced by a recording generator with a known tape; the recorded scale^2 is compared with the exact rational Lean noiseVar, the returned vector with sum beta*Z + eps (1e-9), case counts with floor(K n)",
        ),
        Section(
            name="simulate_pt_files",
            theorems=["C09.cases_count", "C09.absent_effect_adds_nothing", "C09.found_effect_contributes_its_own_dosage", "C09.effect_order_irrelevant", "C09.variable_named_twice_adds_both_betas", "C09.absent_effect_misattributed_before_fix"],
            gen=gen_files,
            impl=impl_files,
            model_req=model_req_files,
            model_obs=model_obs_files,
            equal=equal_files,
            oracle=oracle_files,
            setup=setup,
            teardown=teardown,
            nontrivial=lambda c, o: C.jdump(c),
            describe=lambda c, o: [("pgen-chunk-size=" + str(c.get("chunk"))) if c["pgen"] else "vcf", "id-subset" if c["ids"] else "all-ids", "sample-subset" if c["samples"] else "all-samples", "cc" if c["K"] else "quant", "route=" + c.get("route", "api"), "effects=" + ("hap-file" if c.get("hap_effects") else "snplist"), "noise-zero-by=" + ("heritability-1" if c.get("h2mode", "one") == "one" else "default-noise-with-sum-beta2>=1"), "normalize" if c["normalize"] else "no-normalize"],
            rule="simulate_pt – through the Python entry point or through `haptools simphenotype` (click CliRunner) – end to end on written VCF / PGEN files with the effects in a .snplist or – as haplotypes with a beta field – in a .hap file (the genotype file then holds the haplotypes' pseudo-genotypes, written from the definition), noise-free either by heritability 1 or by giving neither heritability nor environment with sum beta^2 >= 1 (zero noise, so the output must equal the genetic component exactly and liabilities tie), effects listed in an order different from the genotype file, --id and --sample subsets, prevalence 0.3 / 0.5, 1-3 replications; output read back with Phenotypes.read",
        ),
    ],
    trusted=["IEEE arithmetic of numpy (sums, sqrt, division) within 1e-9 of the exact value on these small inputs", "np.argpartition meets its contract", "numpy's Generator.normal scales a standard-normal stream by `scale` (quality of the stream is not examined)"],
    assumptions=["genotypes are complete (simulate_pt enforces check_missing)"],
    partial="floating-point evaluation (K*n, sqrt, normalisation) and the distribution of the PRNG are outside the model",
    anchors=[("haptools/__main__.py", ["simphenotype"]), ("haptools/sim_phenotype.py", ["PhenoSimulator.run", "PhenoSimulator.normalize_gts", "PhenoSimulator.__init__", "PhenoSimulator.write", "simulate_pt"])],
)
