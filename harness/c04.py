"""C04 — transform reports a haplotype exactly where all its alleles (and ancestry) match."""
from __future__ import annotations

import numpy as np

from . import common as C
from . import gtfiles as GF
from . import simdata as SD
from .run import Check, Section

_dir = None
ALLELES = ["A", "C", "G", "T"]
LABELS = ["YRI", "CEU", "AMR"]


def setup():
    global _dir
    _dir = C.scratch_dir("c04")
    return _dir


def teardown(_):
    C.rm_tree(_dir)


def gen_content(rng, maxs=4, maxv=5, minv=1):
    ns, nv = rng.randint(1, maxs), rng.randint(minv, maxv)
    if rng.random() < 0.04:
        ns, nv = rng.randint(17, 40), rng.randint(17, 30)  # medium sizes
    variants = []
    for j in range(nv):
        nal = rng.choice([2, 2, 3, 4])
        # three variants each on chromosomes 1 and 2, any further ones on chromosome 10 (a .bp file then lists 1, 2, 10:
        # not the lexicographic order of the names)
        variants.append({"id": f"v{j}", "chrom": "1" if j < 3 else ("2" if j < 6 else "10"), "pos": 10 * (j + 1) if j < 3 else (10 * (j - 2) if j < 6 else 10 * (j - 5)), "alleles": ALLELES[:nal]})
    data = [[[rng.randrange(len(variants[j]["alleles"])), rng.randrange(len(variants[j]["alleles"]))] for j in range(nv)] for _ in range(ns)]
    labels_in_data = rng.sample(LABELS, rng.randint(1, 2))
    # ancestry in blocks along each strand (a label change between variants of one chromosome)
    anc = [[[rng.choice(labels_in_data), rng.choice(labels_in_data)] for j in range(nv)] for _ in range(ns)]
    haps = []
    nh = rng.randint(1, 4) if rng.random() < 0.7 else rng.randint(5, 8)
    ids = [f"H{h}" for h in range(nh)] if rng.random() < 0.5 else rng.sample(["hapA", "chr21.q.3365*1", "b7", "ZNF", "h_10", "H10", "x", "LCT", "apoe4", "H2"], nh)
    for h in range(nh):
        k = rng.randint(1, min(4, nv))
        idx = sorted(rng.sample(range(nv), k))
        # mostly alleles that some strand carries (so that matches occur), sometimes any allele
        base_s, base_k = rng.randrange(ns), rng.randrange(2)
        vs = []
        for j in idx:
            if rng.random() < 0.7:
                a = variants[j]["alleles"][data[base_s][j][base_k]]
            else:
                a = rng.choice(variants[j]["alleles"])
            vs.append([variants[j]["id"], a])
        lab = rng.choice(LABELS + ["ZZZ"]) if rng.random() < 0.4 else anc[base_s][idx[0]][base_k]
        haps.append({"id": ids[h], "chrom": variants[idx[0]]["chrom"], "start": variants[idx[0]]["pos"], "end": variants[idx[-1]]["pos"] + 1, "ancestry": lab, "vars": vs})
    return {"samples": [f"s{i}" for i in range(ns)], "variants": variants, "data": data, "anc": anc, "haps": haps}


# ------------------------------------------------------------------ direct calls of the four implementations
def gen_direct(rng, tier):
    n = 500 if tier == "quick" else 20000
    for t in range(n):
        c = gen_content(rng)
        c["with_anc"] = rng.random() < 0.6
        if t % 10 == 7:
            # a fixed share: a haplotype lists an allele its variant does not have (a strand-flipped or mismatched .hap file): it can
            # be carried by no strand – refusing is fine, reporting it anywhere is not
            h = rng.choice(c["haps"])
            v = rng.choice(h["vars"])
            v[1] = rng.choice(["N", "TT", "t"])
            c["absent_allele"] = h["id"]
        yield c


def build_objects(case, with_anc):
    from haptools import data as D
    from haptools.transform import GenotypesAncestry, HaplotypeAncestry, HaplotypesAncestry

    log = SD.silent_log()
    G = GenotypesAncestry if with_anc else D.GenotypesVCF
    g = G(fname=None, log=log)
    g.samples = tuple(case["samples"])
    g.variants = np.array([(v["id"], v["chrom"], v["pos"], tuple(v["alleles"])) for v in case["variants"]], dtype=g.variants.dtype)
    g.data = np.array(case["data"], dtype=np.uint8).reshape((len(case["samples"]), len(case["variants"]), 2))
    if with_anc:
        labs = []
        for r in case["anc"]:
            for c in r:
                for x in c:
                    if x not in labs:
                        labs.append(x)
        g.ancestry_labels = {l: i for i, l in enumerate(labs)}
        g.ancestry = np.array([[[g.ancestry_labels[x] for x in c] for c in r] for r in case["anc"]], dtype=np.uint8).reshape((len(case["samples"]), len(case["variants"]), 2))
    HC = HaplotypeAncestry if with_anc else D.Haplotype
    hp = (HaplotypesAncestry if with_anc else D.Haplotypes)(fname=None, log=log)
    hp.data = {}
    for h in case["haps"]:
        kw = dict(chrom=h["chrom"], start=h["start"], end=h["end"], id=h["id"])
        if with_anc:
            kw["ancestry"] = h["ancestry"]
        o = HC(**kw)
        o.variants = tuple(D.Variant(start=0, end=1, id=v, allele=a) for v, a in h["vars"])
        hp.data[h["id"]] = o
    hp.index(force=True)
    return g, hp


def impl_direct(case):
    g, hp = build_objects(case, case["with_anc"])
    out = []
    nowhere = [[False, False] for _ in case["samples"]]
    if case.get("absent_allele"):
        # either transform may refuse (recorded as "reported nowhere", with a flag); anything it does report is judged as always
        try:
            r = hp.transform(g)
        except Exception:  # noqa
            r = None
        for hi, h in enumerate(case["haps"]):
            try:
                single = np.asarray(hp.data[h["id"]].transform(g)).astype(bool).tolist()
            except Exception:  # noqa
                if h["id"] != case["absent_allele"]:
                    raise
                single = nowhere
            out.append({"single": single, "set": nowhere if r is None else np.asarray(r.data[:, hi, :]).astype(bool).tolist()})
        return {"haps": out, "records": None, "set_refused": r is None}
    r = hp.transform(g)
    rec = {"ids": [str(x) for x in r.variants["id"]], "chroms": [str(x) for x in r.variants["chrom"]], "starts": [int(x) for x in r.variants["pos"]], "samples": list(r.samples)}
    for hi, h in enumerate(case["haps"]):
        single = hp.data[h["id"]].transform(g)
        out.append({"single": np.asarray(single).astype(bool).tolist(), "set": np.asarray(r.data[:, hi, :]).astype(bool).tolist()})
    # the same Haplotypes object asked again, for genotypes that hold the same calls under another numbering of the alleles (every
    # variant lists its alleles in reverse order, as a second file of the same cohort may): the answer is about alleles, not codes
    case2 = {**case, "variants": [{**v, "alleles": v["alleles"][::-1]} for v in case["variants"]],
             "data": [[[len(case["variants"][j]["alleles"]) - 1 - a for a in cell] for j, cell in enumerate(row)] for row in case["data"]]}
    g2, _ = build_objects(case2, case["with_anc"])
    r2 = hp.transform(g2)
    again = [np.asarray(r2.data[:, hi, :]).astype(bool).tolist() for hi in range(len(case["haps"]))]
    # a haplotype object that was edited and used in between (its variant list cut to the first variant, transformed, restored)
    # answers for the variants it lists now, as a new object with the same lines would
    edited = []
    _, hp2 = build_objects(case, case["with_anc"])  # objects that have not been asked anything yet
    for hi, h in enumerate(case["haps"]):
        obj = hp2.data[h["id"]]
        full = obj.variants
        if len(full) >= 2:
            obj.variants = full[:1]
            obj.transform(g)
            obj.variants = full
        edited.append(np.asarray(obj.transform(g)).astype(bool).tolist())
    return {"haps": out, "records": rec, "single_after_edit": edited, "set_other_allele_numbering": again}


def model_req_direct(case):
    code = None
    labs = []
    for r in case["anc"]:
        for c in r:
            for x in c:
                if x not in labs:
                    labs.append(x)
    lab2code = {l: i for i, l in enumerate(labs)}
    haps = []
    for h in case["haps"]:
        haps.append({"id": h["id"], "code": (lab2code.get(h["ancestry"], -1) if case["with_anc"] else None), "vars": h["vars"]})
    return {"op": "transform", "nsamples": len(case["samples"]), "variants": [{"id": v["id"], "alleles": v["alleles"]} for v in case["variants"]], "data": case["data"], "anc": [[[lab2code[x] for x in c] for c in r] for r in case["anc"]] if case["with_anc"] else None, "haps": haps}


def model_obs_direct(case, resp):
    if case.get("absent_allele"):
        return {"haps": resp["haps"], "records": None}
    return {"haps": resp["haps"], "records": {"ids": [h["id"] for h in case["haps"]], "chroms": [h["chrom"] for h in case["haps"]], "starts": [h["start"] for h in case["haps"]], "samples": case["samples"]}}


def equal_direct(a, b):
    if "error" in a:
        return False
    if a.get("set_refused"):
        # the whole set was refused (a haplotype lists an allele its variant does not have): the single-haplotype answers remain
        return [h["single"] for h in a["haps"]] == [h["single"] for h in b["haps"]]
    if "single_after_edit" in a and a["single_after_edit"] != [h["single"] for h in b["haps"]]:
        return False
    if "set_other_allele_numbering" in a and a["set_other_allele_numbering"] != [h["set"] for h in b["haps"]]:
        return False
    return C.canon({k: v for k, v in a.items() if k not in ("set_refused", "single_after_edit", "set_other_allele_numbering")}) == C.canon(b)


def carries(case, h, s, k, with_anc):
    col = {v["id"]: j for j, v in enumerate(case["variants"])}
    for vid, a in h["vars"]:
        j = col[vid]
        if case["variants"][j]["alleles"][case["data"][s][j][k]] != a:
            return False
        if with_anc and case["anc"][s][j][k] != h["ancestry"]:
            return False
    return True


def oracle_direct(case, obs):
    if "error" in obs:
        return f"transform raised {obs}"
    for hi, e in enumerate(obs.get("set_other_allele_numbering") or []):
        if e != obs["haps"][hi]["set"]:
            return f"haplotype {case['haps'][hi]['id']}: the same Haplotypes object, asked again for genotypes holding the same calls with every variant's alleles listed in reverse order, answers {e}; for the first genotypes it answered {obs['haps'][hi]['set']}"
    for hi, e in enumerate(obs.get("single_after_edit") or []):
        if e != obs["haps"][hi]["single"]:
            return f"haplotype {case['haps'][hi]['id']}: a new object whose variant list was cut to the first variant, transformed and restored answers {e}; the object that was never edited answers {obs['haps'][hi]['single']}"
    for hi, h in enumerate(case["haps"]):
        for s in range(len(case["samples"])):
            for k in (0, 1):
                want = carries(case, h, s, k, case["with_anc"])
                for impl_name in ("single", "set"):
                    if impl_name == "set" and obs.get("set_refused"):
                        continue  # the set as a whole was refused because of the haplotype with the absent allele
                    got = obs["haps"][hi][impl_name][s][k]
                    if got != want:
                        return f"{impl_name} transform of {h['id']} ({h['vars']}, ancestry {h['ancestry'] if case['with_anc'] else None}) reports {int(got)} for sample {s} strand {k}; the strand {'carries' if want else 'does not carry'} it"
    r = obs["records"]
    if r is None:
        return None
    if r["ids"] != [h["id"] for h in case["haps"]] or r["chroms"] != [h["chrom"] for h in case["haps"]] or r["starts"] != [h["start"] for h in case["haps"]] or r["samples"] != case["samples"]:
        return f"output records {r} do not carry the haplotypes' IDs/chromosomes/starts in .hap order with samples in input order"
    return None


def describe_direct(case, obs):
    tags = ["ancestry" if case["with_anc"] else "plain"]
    if any(len(v["alleles"]) > 2 for v in case["variants"]):
        tags.append("multiallelic")
    if case["with_anc"] and any(h["ancestry"] not in {x for r in case["anc"] for c in r for x in c} for h in case["haps"]):
        tags.append("absent-label")
    keys = [tuple(v) for h in case["haps"] for v in h["vars"]]
    ids = [v[0] for v in keys]
    if len(set(keys)) < len(keys):
        tags.append("shared-(variant,allele)")
    if len({i for i in ids}) < len(set(keys)):
        tags.append("same-variant-different-alleles")
    if isinstance(obs, dict) and "haps" in obs and any(any(any(r) for r in h["set"]) for h in obs["haps"]):
        tags.append("some-match")
    return tags


# ------------------------------------------------------------------ end to end: transform_haps on files
def gen_files(rng, tier):
    n = 80 if tier == "quick" else 2000
    for t in range(n):
        anc_source = rng.choice([None, "POP", "bp"])
        one_chrom = t % 5 == 0  # a fixed fifth: ancestry from a .bp file over several chromosomes, every haplotype on one of the later ones
        if one_chrom:
            anc_source = "bp"
        # with a .bp file often three chromosomes (1, 2, 10), so that the file's chromosome order is not lexicographic
        c = gen_content(rng, maxs=3, maxv=8, minv=7 if (anc_source == "bp" and (one_chrom or rng.random() < 0.5)) else 1)
        c["anc_source"] = anc_source
        c["fmt_in"] = "pgen" if (c["anc_source"] != "POP" and rng.random() < 0.3) else "vcf.gz"
        c["fmt_out"] = rng.choice([".vcf", ".vcf.gz", ".pgen"])
        # haplotypes with variants absent from the genotypes must be reported and omitted
        c["absent"] = []
        if rng.random() < 0.4:
            for h in rng.sample(c["haps"], rng.randint(1, len(c["haps"]))):
                h["vars"].append([f"absent{len(c['absent'])}", "A"])
                c["absent"].append(h["id"])
        if rng.random() < 0.12:
            # many haplotypes, six or more of them with a (distinct) variant the genotypes lack
            k = 0
            while len(c["haps"]) < 9:
                src = c["haps"][k % len(c["haps"])]
                c["haps"].append({**src, "id": f"extra{k}", "vars": [list(v) for v in src["vars"] if not v[0].startswith("absent")]})
                k += 1
            c["absent"] = []
            for h in c["haps"]:
                h["vars"] = [v for v in h["vars"] if not v[0].startswith("absent")]
            for h in rng.sample(c["haps"], rng.randint(6, len(c["haps"]) - 1)):
                h["vars"].append([f"absent{len(c['absent'])}", "A"])
                c["absent"].append(h["id"])
        if c["anc_source"] == "bp" and (one_chrom or rng.random() < 0.4) and len(c["variants"]) >= 4:
            # every transformed haplotype on one chromosome while the breakpoints (and the genotype file) cover two
            present = sorted({v["chrom"] for v in c["variants"]}, key=lambda x: (len(x), x))
            chrom = rng.choice(present[1:] or present) if one_chrom else rng.choice(["1", "2"])
            on = {v["id"] for v in c["variants"] if v["chrom"] == chrom}
            kept = []
            for h in c["haps"]:
                vs = [v for v in h["vars"] if v[0] in on or v[0].startswith("absent")]
                if any(v[0] in on for v in vs):
                    kept.append({**h, "chrom": chrom, "vars": vs})
            if kept:
                c["haps"] = kept
                c["absent"] = [h["id"] for h in kept if any(v[0].startswith("absent") for v in h["vars"])]
        c["region"] = None
        if rng.random() < 0.25:
            # --region: the .hap file is then sorted and indexed (haptools index) and only haplotypes lying entirely
            # inside the region are transformed; every haplotype is kept on one chromosome for these cases
            chrom_of = {v["id"]: v["chrom"] for v in c["variants"]}
            pos_of = {v["id"]: v["pos"] for v in c["variants"]}
            kept = []
            for h in c["haps"]:
                real = [v for v in h["vars"] if v[0] in chrom_of]
                if not real:
                    continue
                ch = chrom_of[real[0][0]]
                vs = [v for v in h["vars"] if v[0] not in chrom_of or chrom_of[v[0]] == ch]
                ps = [pos_of[v[0]] for v in vs if v[0] in pos_of]
                kept.append({**h, "chrom": ch, "vars": vs, "start": min(ps), "end": max(ps) + 1})
            if kept:
                c["haps"] = kept
                c["absent"] = [h["id"] for h in kept if any(v[0].startswith("absent") for v in h["vars"])]
                lo = rng.choice([1, 10, 15, 20])
                c["region"] = {"chrom": rng.choice(sorted({h["chrom"] for h in kept})), "lo": lo, "hi": rng.choice([x for x in (20, 21, 31, 40) if x >= lo])}
        c["ids"] = rng.choice([None, None, [h["id"] for h in rng.sample(c["haps"], rng.randint(1, len(c["haps"])))]])
        c["sample_subset"] = rng.choice([None, None, rng.sample(c["samples"], rng.randint(1, len(c["samples"])))])
        c["bp_order"] = rng.sample(range(len(c["samples"])), len(c["samples"]))
        # repeats interleaved in the .hap file
        c["repeat"] = rng.random() < 0.4
        if t % 7 == 3:
            # a fixed share: variant IDs of the chrom:pos:ref:alt kind, as long as the genotype classes can hold (50 characters);
            # the variants the genotypes lack are named like a variant they hold plus one more letter (an absent ID is absent,
            # however much of it some other ID shares)
            nv = len(c["variants"])
            long_id = lambda j: (f"1:{1000 + j}:" + "ACGT" * 13)[:50]
            ren = {v["id"]: long_id(j) for j, v in enumerate(c["variants"])}
            for v in c["variants"]:
                v["id"] = ren[v["id"]]
            for h in c["haps"]:
                for v in h["vars"]:
                    if v[0] in ren:
                        v[0] = ren[v[0]]
                    elif v[0].startswith("absent"):
                        k = int(v[0][6:])
                        v[0] = long_id(k % nv) + "T" * (1 + k // nv)
        yield c


def impl_files(case):
    from pathlib import Path
    from haptools.transform import transform_haps

    d = _dir / "t"
    C.rm_tree(d)
    d.mkdir(parents=True)
    variants = [(v["id"], v["chrom"], v["pos"], v["alleles"]) for v in case["variants"]]
    data = [[(c[0], c[1], 1) for c in r] for r in case["data"]]
    pops = case["anc"] if case["anc_source"] == "POP" else None
    # per-chromosome style names (g.chr1.*, with the accompanying g.chr1.bp) beside an unrelated older g.pgen / g.bp
    GF.decoy_fileset(d / "g")
    if case["fmt_in"] == "pgen":
        GF.write_pgen(d / "g.chr1", case["samples"], variants, data)
        gfile = d / "g.chr1.pgen"
    else:
        GF.write_vcf_text(d / "g.chr1.vcf", case["samples"], variants, data, pops=pops, contigs=["1", "2", "10"])
        GF.compress_index(d / "g.chr1.vcf", d / "g.chr1.vcf.gz")
        gfile = d / "g.chr1.vcf.gz"
    if case["anc_source"] == "bp":
        # breakpoints stating, for every variant position, the same labels as `anc` (block end = variant position, last = MAX)
        with open(d / "g.chr1.bp", "w") as f:
            for i in case["bp_order"]:
                s = case["samples"][i]
                for k in (0, 1):
                    f.write(f"{s}_{k+1}\n")
                    for chrom in ("1", "2", "10"):
                        vs = [(j, v) for j, v in enumerate(case["variants"]) if v["chrom"] == chrom]
                        for n_, (j, v) in enumerate(vs):
                            end = v["pos"] if n_ < len(vs) - 1 else SD.MAX
                            f.write(f"{case['anc'][i][j][k]}\t{chrom}\t{end}\t{float(n_)}\n")
    # the header in three shapes: an order line naming the ancestry column; a second extra field declared before it and the
    # order line naming both in another order than they are declared; no order line at all (the declarations' order then is
    # the columns' order) with the second field first
    hdr = C.plumb(case, "hap-header", 3) if case["anc_source"] else 0
    with open(d / "h.hap", "w") as f:
        if case["anc_source"]:
            if hdr == 0:
                f.write("#\torderH\tancestry\n#\tversion\t0.2.0\n#H\tancestry\ts\tLocal ancestry\n")
            elif hdr == 1:
                f.write("#\torderH\tancestry\tbeta\n#\tversion\t0.2.0\n#H\tbeta\t.2f\tEffect size\n#H\tancestry\ts\tLocal ancestry\n")
            else:
                f.write("#\tversion\t0.2.0\n#H\tbeta\t.2f\tEffect size\n#H\tancestry\ts\tLocal ancestry\n")
        for hi, h in enumerate(case["haps"]):
            extras = [] if not case["anc_source"] else ([h["ancestry"]] if hdr == 0 else ([h["ancestry"], "0.25"] if hdr == 1 else ["0.25", h["ancestry"]]))
            f.write("\t".join(["H", h["chrom"], str(h["start"]), str(h["end"]), h["id"]] + extras) + "\n")
            if case["repeat"] and hi == 0:
                f.write("R\t1\t5\t9\tREP1\n")
        for h in case["haps"]:
            for vid, a in h["vars"]:
                f.write(f"V\t{h['id']}\t1\t2\t{vid}\t{a}\n")
    C.end_file(case, "h.hap", d / "h.hap")
    C.end_file(case, "g.bp", d / "g.chr1.bp")
    out = d / ("out" + case["fmt_out"])
    if C.plumb(case, "stale-out", 3) == 0:
        C.stale_output(out, [str(out)[:-5] + e for e in (".pvar", ".psam")] if case["fmt_out"] == ".pgen" else [])
    hapfile, region = d / "h.hap", None
    if case.get("region"):
        from haptools.index import index_haps

        # sorted by the harness (H/R lines by contig and coordinates, then V lines by haplotype) and indexed with
        # --no-sort, which keeps the extra fields (the ancestry column) and the header
        ls = open(d / "h.hap").read().splitlines()
        head = [l for l in ls if l.startswith("#")]
        hr = sorted([l.split("\t") for l in ls if l[:2] in ("H\t", "R\t")], key=lambda f: (f[1], int(f[2]), int(f[3]), f[4]))
        vv = sorted([l.split("\t") for l in ls if l.startswith("V\t")], key=lambda f: (f[1], int(f[2]), int(f[3])))
        open(d / "hs.hap", "w").write("\n".join(head + ["\t".join(f) for f in hr + vv]) + "\n")
        index_haps(d / "hs.hap", sort=False, output=d / "hs.hap.gz", log=SD.silent_log())
        hapfile, region = d / "hs.hap.gz", f"{case['region']['chrom']}:{case['region']['lo']}-{case['region']['hi']}"
    with C.capture_logs() as cap:
        r = transform_haps(gfile, hapfile, region=region, samples=None if case["sample_subset"] is None else set(case["sample_subset"]), haplotype_ids=None if case["ids"] is None else set(case["ids"]), ancestry=bool(case["anc_source"]), output=out, log=cap.logger)
    # a report, however it is worded: a record of level WARNING or above that names an absent variant or an omitted haplotype
    # (the lists in such messages may be cut short, so any WARNING-or-above record counts when it names none of them)
    import re as _re

    loud = [m for l, m in cap.records if l in ("WARNING", "ERROR", "CRITICAL")]
    toks = [h["id"] for h in case["haps"] if h["id"] in case["absent"]] + [v for h in case["haps"] for v, _ in h["vars"]]
    warned = any(_re.search(r"(?<![\w])" + _re.escape(t) + r"(?![\w])", m) for t in toks for m in loud) or bool(loud)
    # read the written file back with an independent reader
    if case["fmt_out"] == ".pgen":
        import pgenlib

        rows = [l.rstrip("\n").split("\t") for l in open(str(out)[:-5] + ".pvar") if not l.startswith("##")]
        ci = {h.lstrip("#"): i for i, h in enumerate(rows[0])}
        recs = [[r_[ci["ID"]], r_[ci["CHROM"]], int(r_[ci["POS"]])] for r_ in rows[1:]]
        samples = [l.rstrip("\n").split("\t")[0] for l in open(str(out)[:-5] + ".psam") if not l.startswith("#")]
        rd = pgenlib.PgenReader(bytes(str(out), "utf8")) if recs else None
        gts = []
        for j in range(len(recs)):
            buf = np.empty(2 * len(samples), dtype=np.int32)
            rd.read_alleles(j, buf)
            gts.append([[int(buf[2 * s]), int(buf[2 * s + 1])] for s in range(len(samples))])
    else:
        import pysam

        vf = pysam.VariantFile(str(out))
        samples = list(vf.header.samples)
        recs, gts = [], []
        for rec in vf:
            recs.append([rec.id, rec.chrom, rec.pos])
            gts.append([[int(a) for a in rec.samples[s]["GT"]] for s in samples])
    return {"records": recs, "samples": samples, "gts": gts, "warned": warned}


def oracle_files(case, obs):
    kept_samples = [s for s in case["samples"] if case["sample_subset"] is None or s in case["sample_subset"]]
    want_h = [h for h in case["haps"] if case["ids"] is None or h["id"] in case["ids"]]
    if case.get("region"):
        rg = case["region"]
        # the indexed file is sorted by (chrom, start, end, ID); only haplotypes entirely inside the region remain
        want_h = sorted([h for h in want_h if h["chrom"] == rg["chrom"] and rg["lo"] <= h["start"] and h["end"] <= rg["hi"]], key=lambda h: (h["chrom"], h["start"], h["end"], h["id"]))
    ok_h = [h for h in want_h if h["id"] not in case["absent"]]
    if "error" in obs:
        if not ok_h and obs["error"] in ("value_error", "index_error"):
            return None  # nothing transformable is left: refusing is acceptable
        return f"transform_haps raised {obs}"
    if obs["samples"] != kept_samples:
        return f"output samples {obs['samples']}, input order gives {kept_samples}"
    exp = [[h["id"], h["chrom"], h["start"]] for h in ok_h]
    if obs["records"] != exp:
        return f"output records {obs['records']}; the transformable haplotypes in .hap order are {exp} (omitted for absent variants: {[h['id'] for h in want_h if h['id'] in case['absent']]})"
    if any(h["id"] in case["absent"] for h in want_h) and not obs["warned"]:
        return "haplotypes with variants absent from the genotypes were omitted without a report"
    for hi, h in enumerate(ok_h):
        for si, s in enumerate(kept_samples):
            i = case["samples"].index(s)
            for k in (0, 1):
                want = carries(case, h, i, k, bool(case["anc_source"]))
                if bool(obs["gts"][hi][si][k]) != want:
                    return f"written pseudo-genotype of {h['id']} for {s} strand {k} is {obs['gts'][hi][si][k]}, expected {int(want)} (ancestry source {case['anc_source']}, .bp sample order {case['bp_order']})"
    return None


def describe_files(case, obs):
    return [f"anc={case['anc_source']}", f"in={case['fmt_in']}", f"out={case['fmt_out']}", "absent-variants" if case["absent"] else "all-present", "id-subset" if case["ids"] else "all-haps", "sample-subset" if case["sample_subset"] else "all-samples", "region" if case.get("region") else "no-region"]


CHECK = Check(
    id="C04",
    title="transform reports a haplotype exactly where all its alleles (and ancestry) match",
    theorems=["C04.single_eq_spec", "C04.set_eq_spec", "C04.single_eq_set", "C04.singleAnc_eq_spec", "C04.setAnc_eq_spec", "C04.absent_label_never_matches", "C04.anc_source_irrelevant"],
    sections=[
        Section(
            name="four_implementations",
            theorems=["C04.single_eq_spec", "C04.set_eq_spec", "C04.singleAnc_eq_spec", "C04.setAnc_eq_spec", "C04.absent_label_never_matches"],
            gen=gen_direct,
            impl=impl_direct,
            model_req=model_req_direct,
            model_obs=model_obs_direct,
            equal=equal_direct,
            oracle=oracle_direct,
            describe=describe_direct,
            nontrivial=lambda c, o: C.jdump(c) if isinstance(o, dict) and "haps" in o and any(any(any(r) for r in h["set"]) for h in o["haps"]) else None,
            rule="seeded random phased matrices (1-4 samples x 1-5 variants, 2-4 alleles per variant, any allele as the haplotype allele), 1-4 haplotypes of 1-4 variants (overlapping, shared (variant, allele) keys, one variant with different alleles in different haplotypes; 70% of the alleles copied from a real strand so that matches occur), ancestry labelings with label changes between variants and labels absent from the data; Haplotype.transform, Haplotypes.transform, HaplotypeAncestry.transform and HaplotypesAncestry.transform called on the same in-memory objects; non-trivial = some strand matches some haplotype",
        ),
        Section(
            name="transform_haps_files",
            theorems=["C04.set_eq_spec", "C04.setAnc_eq_spec", "C04.anc_source_irrelevant"],
            gen=gen_files,
            impl=impl_files,
            oracle=oracle_files,
            describe=describe_files,
            setup=setup,
            teardown=teardown,
            nontrivial=lambda c, o: C.jdump(c),
            rule="the same contents end to end through transform_haps on written files: VCF.gz (with POP fields or an accompanying .bp file whose sample order is shuffled) or PGEN input, VCF / VCF.gz / PGEN output read back with pysam / pgenlib, --id and --sample subsets, repeats interleaved in the .hap file, haplotypes naming variants that are absent from the genotypes (must be reported and omitted, the others kept in .hap order)",
        ),
    ],
    trusted=["numpy broadcasting / np.all / fancy indexing", "Genotypes.subset by variant ID (C12)", "pysam / pgenlib readers used to inspect the output"],
    assumptions=["genotypes are phased and complete (transform_haps enforces it); haplotypes have at least one variant"],
    anchors=[("haptools/data/haplotypes.py", ["Haplotype.transform", "Haplotypes.transform"]), ("haptools/transform.py", ["HaplotypeAncestry.transform", "HaplotypesAncestry.transform", "transform_haps"])],
)
