"""C08 — restricted reads equal full read + subset, for VCF and PGEN alike."""
from __future__ import annotations

import numpy as np

from . import common as C
from . import gtfiles as GF
from . import gtio
from . import simdata as SD
from .run import Check, Section

_dir = None


def setup():
    global _dir
    _dir = C.scratch_dir("c08")
    return _dir


def teardown(_):
    C.rm_tree(_dir)


def gen(rng, tier):
    n = 70 if tier == "quick" else 900
    for t in range(n):
        c = gtio.gen_content(rng, maxs=4, maxv=6, allow_half_missing=False, multibase_ref=(t % 6 == 5), min_v=1, medium=0.06)
        if rng.random() < 0.2:
            # a contig whose name is longer than the 10 characters haptools keeps in its variants array
            for v in c["variants"]:
                if v["chrom"] == "chrX":
                    v["chrom"] = "chrX_KI270706v1_random"
        contigs = sorted({v["chrom"] for v in c["variants"]})
        poss = sorted({v["pos"] for v in c["variants"]})
        restrs = []
        for _ in range(10):
            r = {"region": None, "samples": None, "ids": None, "max": None, "chunk": rng.choice([None, 1, 2, 10])}
            k = rng.random()
            if k < 0.6:
                ch = rng.choice(contigs + (["9"] if rng.random() < 0.15 else []))
                if rng.random() < 0.12:
                    # the same chromosome under its other name (chr1 for 1, X for chrX): another contig as far as a file is concerned
                    ch = ch[3:] if ch.startswith("chr") else "chr" + ch
                shape = rng.choice(["c", "c:a-b", "c:a-b", "c:a-"])
                a = max(1, rng.choice(poss) + rng.choice([-1, 0, 0, 1, 2]))
                b = rng.choice([x for x in [p + d for p in poss for d in (-1, 0, 1)] if x >= a] or [a])
                r["region"] = [ch, None, None] if shape == "c" else ([ch, a, None] if shape == "c:a-" else [ch, a, b])
            if rng.random() < 0.4:
                pool = c["samples"] + ["zz"]
                r["samples"] = rng.sample(pool, rng.randint(1, len(pool)))
                if rng.random() < 0.1:
                    r["samples"] = ["zz", "yy"]
                elif rng.random() < 0.12:
                    r["samples"] = []  # the empty set (what an empty --samples-file gives): nobody, not everybody
            if rng.random() < 0.4:
                pool = [v["id"] for v in c["variants"]] + ["nosuch"]
                r["ids"] = rng.sample(pool, rng.randint(1, len(pool)))
                if rng.random() < 0.1:
                    r["ids"] = ["nosuch"]
                if rng.random() < 0.35:
                    r["max"] = rng.randint(0, len(c["variants"]) + 1)  # documented as ignored when IDs are given
            elif rng.random() < 0.3:
                r["max"] = rng.randint(0, len(c["variants"]) + 1)
            restrs.append(r)
        c["restrictions"] = restrs
        c["kinds"] = ["vcf", "pgen"]
        if len(c["variants"]) > 2 and t % 5 == 4:
            # a PGEN whose .pvar is not position-sorted and whose contigs interleave (legal for PLINK2; a VCF could not be
            # indexed like that, so these cases read the PGEN only): restricted read = full read + subset all the same
            perm = list(range(len(c["variants"])))
            while perm == sorted(perm):
                rng.shuffle(perm)
            c["variants"] = [c["variants"][j] for j in perm]
            c["data"] = [[row[j] for j in perm] for row in c["data"]]
            c["kinds"] = ["pgen"]
        yield c
        if t % 35 == 3:
            # a file that lists its samples and holds no variant at all (what a region without variants leaves behind when it
            # is written out): every load – restricted or not, bulk or streaming, VCF or PGEN – still names the file's samples
            yield {"samples": c["samples"], "variants": [], "data": [[] for _ in c["samples"]], "kinds": ["vcf", "pgen"], "restrictions": [
                {"region": None, "samples": None, "ids": None, "max": None, "chunk": None},
                {"region": None, "samples": c["samples"][:1] + ["zz"], "ids": None, "max": None, "chunk": 2},
                {"region": None, "samples": None, "ids": ["nosuch"], "max": None, "chunk": None},
                {"region": None, "samples": c["samples"][::-1], "ids": None, "max": 3, "chunk": 1}]}


def region_str(r):
    if r is None:
        return None
    c, a, b = r
    return c if a is None else (f"{c}:{a}-" if b is None else f"{c}:{a}-{b}")


def read_one(kind, path, r, streaming, shared=None):
    from haptools import data as D

    with C.capture_logs() as cap:
        if kind == "pgen":
            g = D.GenotypesPLINK(path, log=cap.logger, chunk_size=r["chunk"])
        else:
            g = D.GenotypesVCF(path, log=cap.logger)
        kw = dict(region=region_str(r["region"]), samples=None if r["samples"] is None else set(r["samples"]), variants=None if r["ids"] is None else set(r["ids"]))
        if shared is not None:
            # the caller's own set objects, used for one load after the other (bulk, streaming, the other file format)
            kw["samples"], kw["variants"] = shared["samples"], shared["variants"]
        if streaming:
            recs = list(g.__iter__(**kw))
            out = {"samples": [str(s) for s in g.samples], "variants": [{"id": str(x.variants["id"]), "chrom": str(x.variants["chrom"]), "pos": int(x.variants["pos"])} for x in recs], "cols": [[[int(v) for v in row] for row in np.asarray(x.data)] for x in recs]}
        else:
            g.read(max_variants=r["max"], **kw)
            out = gtio.snapshot(g)
    out["warned"] = any(l in ("WARNING", "ERROR") for l, _ in cap.records)
    return out


def impl(case):
    d = _dir / "r"
    C.rm_tree(d)
    d.mkdir(parents=True)
    variants = [(v["id"], v["chrom"], v["pos"], v["alleles"]) for v in case["variants"]]
    data = [[tuple(c) for c in row] for row in case["data"]]
    kinds = case.get("kinds", ["vcf", "pgen"])
    # per-chromosome style names (g.chr1.*) beside an unrelated older fileset g.*
    GF.decoy_fileset(d / "g")
    if "vcf" in kinds:
        GF.write_vcf_text(d / "g.chr1.vcf", case["samples"], variants, data, contigs=sorted({v["chrom"] for v in case["variants"]}))
        GF.compress_index(d / "g.chr1.vcf", d / "g.chr1.vcf.gz")
    GF.write_pgen(d / "g.chr1", case["samples"], variants, data)
    files = [(k, p) for k, p in (("vcf", d / "g.chr1.vcf.gz"), ("pgen", d / "g.chr1.pgen")) if k in kinds]
    out = {"full": {}, "restricted": []}
    for kind, path in files:
        out["full"][kind] = read_one(kind, path, {"region": None, "samples": None, "ids": None, "max": None, "chunk": None}, False)
    for ri, r in enumerate(case["restrictions"]):
        e = {}
        # every other restriction: one pair of set objects for all the loads of this restriction (PGEN first)
        shared = dict(samples=None if r["samples"] is None else set(r["samples"]), variants=None if r["ids"] is None else set(r["ids"])) if ri % 2 == 0 else None
        for kind, path in (files[::-1] if shared else files):
            e[kind] = C.guarded(read_one, kind, path, r, False, shared)
            if r["max"] is None:
                e[kind + "_iter"] = C.guarded(read_one, kind, path, r, True, shared)
        out["restricted"].append(e)
    return out


def model_req(case):
    reqs = []
    for r in case["restrictions"]:
        reqs.append({"op": "gtRestrict", "samples": case["samples"], "variants": [[v["id"], v["chrom"], v["pos"]] for v in case["variants"]], "region": r["region"], "req_samples": r["samples"], "ids": r["ids"], "max": r["max"],
                     # the cells of the whole file and the requested chunk size: the matrix comes out of PgenMatrix.readSel (Lean)
                     "data": [[[int(x) for x in c] for c in row] for row in case["data"]], "chunk": r["chunk"]})
    return {"op": "batch", "reqs": reqs}


def expected_from(case, rows, cols):
    return {"samples": [case["samples"][i] for i in rows], "variants": [{"id": case["variants"][j]["id"], "chrom": case["variants"][j]["chrom"][:10], "pos": case["variants"][j]["pos"], "alleles": case["variants"][j]["alleles"]} for j in cols], "data": [[pg_norm(case["data"][i][j]) for j in cols] for i in rows]}


def pg_norm(c):
    a, b, ph = c
    if a == b:
        return [a, b, 1]
    if ph:
        return [a, b, 1]
    return [min(a, b), max(a, b), 0]


def norm_read(o):
    """canonical form of a haptools read result for comparison across formats and with the model"""
    if not isinstance(o, dict) or "error" in o:
        return o
    data = o.get("data")
    if isinstance(data, list):
        data = [[pg_norm(c) for c in row] for row in data]
    empty = (not o["variants"]) or (not o["samples"]) or data in ([], None) or all(len(r) == 0 for r in data)
    if empty:
        # an empty matrix still belongs to the samples that were selected (none, when the selection matched nobody)
        return {"empty": True, "samples": list(o["samples"])}
    return {"samples": o["samples"], "variants": o["variants"], "data": data}


def model_obs(case, resp):
    out = []
    for r, m in zip(case["restrictions"], resp["resps"]):
        e = expected_from(case, m["rows"], m["cols"])
        if "data" in m:
            e["data"] = m["data"]  # the model's own matrix (chunked gather over the kept rows and columns), not the harness's
        out.append(norm_read(e))
    return {"expected": out}


def straddles(case, r):
    """KF1 signature: a multi-base REF starting before the region start and overlapping it"""
    if r["region"] is None or r["region"][1] is None:
        return False
    c, a, b = r["region"]
    return any(v["chrom"] == c and v["pos"] < a <= v["pos"] + len(v["alleles"][0]) - 1 for v in case["variants"])


def equal(a, b):
    if "error" in a:
        return False
    for e, want in zip(a["restricted"], b["expected"]):
        for kind in ("vcf", "pgen"):
            if kind not in e:
                continue
            if C.canon(norm_read(e[kind])) != C.canon(want):
                return False
    return True


def oracle(case, obs):
    if "error" in obs:
        return f"reads raised {obs}"
    full = {k: norm_read(v) for k, v in obs["full"].items()}
    kinds = [k for k in ("vcf", "pgen") if k in full]
    if len(kinds) == 2 and C.canon(full["vcf"]) != C.canon(full["pgen"]):
        return f"VCF and PGEN files with the same content load differently: {full['vcf']} vs {full['pgen']}"
    for r, e in zip(case["restrictions"], obs["restricted"]):
        # full read + subset, computed from the full read of the same format
        for kind in kinds:
            got = e[kind]
            if isinstance(got, dict) and "error" in got:
                return f"{kind} read with {r} raised {got} (a restriction matching nothing must give an empty result with a warning)"
            f = obs["full"][kind]
            rows = [i for i, s in enumerate(f["samples"]) if r["samples"] is None or s in r["samples"]]
            cols = []
            written_chrom = {v["id"]: v["chrom"] for v in case["variants"]}  # the loaded array keeps 10 characters only
            for j, v in enumerate(f["variants"]):
                if r["region"] is not None:
                    c, a, b = r["region"]
                    if written_chrom[v["id"]] != c or (a is not None and v["pos"] < a) or (b is not None and v["pos"] > b):
                        continue
                if r["ids"] is not None and v["id"] not in r["ids"]:
                    continue
                cols.append(j)
            if r["ids"] is None and r["max"] is not None:
                cols = cols[: r["max"]]
            want = norm_read({"samples": [f["samples"][i] for i in rows], "variants": [f["variants"][j] for j in cols], "data": [[f["data"][i][j] for j in cols] for i in rows]})
            g = norm_read(got)
            if C.canon(g) != C.canon(want):
                return f"{kind} read restricted by {r} returned {g}; reading everything and subsetting gives {want}"
            if want.get("empty") and not got.get("warned"):
                return f"{kind} read restricted by {r} matched nothing but no warning was issued"
            if r["max"] is None:
                it = e[kind + "_iter"]
                if isinstance(it, dict) and "error" in it:
                    return f"{kind} streaming iterator with {r} raised {it}"
                itv = [v["id"] for v in it["variants"]]
                wv = [v["id"] for v in want.get("variants", [])] if "variants" in want else []
                if not want.get("empty") and itv != wv:
                    return f"{kind} streaming iterator with {r} yielded {itv}, bulk read gives {wv}"
                if want.get("empty") and it["samples"] and itv:
                    return f"{kind} streaming iterator with {r} yielded {itv} for an empty match"
                if not want.get("empty"):
                    # the records are kept (list(...)) and looked at afterwards: each must still hold its own genotypes
                    if it["samples"] != want["samples"]:
                        return f"{kind} streaming iterator with {r} reports samples {it['samples']}, bulk read gives {want['samples']}"
                    for j, col in enumerate(it["cols"]):
                        gc = [pg_norm(list(c) + [1] if len(c) == 2 else list(c)) for c in col]
                        wc = [want["data"][i][j] for i in range(len(want["samples"]))]
                        if gc != wc:
                            return f"{kind} streaming iterator with {r}: record {itv[j]} (kept and read after the iteration) holds {gc}, bulk read gives {wc}"
        if len(kinds) == 2 and C.canon(norm_read(e["vcf"])) != C.canon(norm_read(e["pgen"])):
            return f"restriction {r}: VCF gives {norm_read(e['vcf'])}, PGEN gives {norm_read(e['pgen'])}"
    return None


def known_straddle(sec, case, obs):
    """every failing restriction of this case is explained by KF1 (multi-base REF straddling the region start)"""
    if not isinstance(obs, dict) or "restricted" not in obs:
        return False
    if not any(straddles(case, r) for r in case["restrictions"]):
        return False
    # re-evaluate the oracle with the straddling restrictions removed: nothing else may fail
    keep = [i for i, r in enumerate(case["restrictions"]) if not straddles(case, r)]
    c2 = {**case, "restrictions": [case["restrictions"][i] for i in keep]}
    o2 = {**obs, "restricted": [obs["restricted"][i] for i in keep]}
    if oracle(c2, o2) is not None:
        return False
    return True


def describe(case, obs):
    tags = []
    for r in case["restrictions"]:
        if r["region"]:
            tags.append("region:" + ("c" if r["region"][1] is None else ("c:a-" if r["region"][2] is None else "c:a-b")))
        if r["samples"]:
            tags.append("sample-subset")
        if r["ids"]:
            tags.append("id-subset")
        if r["max"] is not None:
            tags.append("max_variants")
    if any(len(v["alleles"][0]) > 1 for v in case["variants"]):
        tags.append("multi-base-REF")
    if isinstance(obs, dict) and "restricted" in obs and any(norm_read(e["vcf"]).get("empty") for e in obs["restricted"] if isinstance(e.get("vcf"), dict)):
        tags.append("empty-match")
    return sorted(set(tags))


# ------------------------------------------------------------------ subset of a loaded object
def _cell(i, j):
    """every cell of the loaded matrix is unique, so a returned cell identifies the (sample, variant) it was taken from"""
    return [i + 1, j + 1, (i + j) % 2]


def gen_subset(rng, tier):
    for _ in range(200 if tier == "quick" else 6000):
        c = gtio.gen_content(rng, maxs=4, maxv=5, min_v=1, medium=0.05)
        ns, nv = len(c["samples"]), len(c["variants"])
        c["data"] = [[_cell(i, j) for j in range(nv)] for i in range(ns)]
        c["cls"] = rng.choice(["Genotypes", "GenotypesVCF", "GenotypesPLINK"])
        ids = [v["id"] for v in c["variants"]]

        def pick(names, unknown):
            r = rng.random()
            if r < 0.3:
                return None
            if r < 0.55:
                return rng.sample(names, len(names))  # a pure re-ordering: everything kept
            return rng.sample(names + [unknown], rng.randint(1, len(names) + 1))

        ops = []
        cur_s, cur_v = list(c["samples"]), list(ids)
        for _ in range(rng.randint(1, 5)):
            if rng.random() < 0.15:
                ops.append({"k": "index", "s": rng.random() < 0.7, "v": rng.random() < 0.7})
                continue
            op = {"k": "subset", "rs": pick(cur_s, "zz") if cur_s else None, "cs": pick(cur_v, "nosuch") if cur_v else None, "inplace": rng.random() < 0.6}
            if op["inplace"]:
                if op["rs"] is not None:
                    cur_s = [x for x in op["rs"] if x in cur_s]
                if op["cs"] is not None:
                    cur_v = [x for x in op["cs"] if x in cur_v]
            ops.append(op)
        c["ops"] = ops
        yield c


def _snap(g):
    r = gtio.snapshot(g)
    return {"samples": r["samples"], "variants": [v["id"] for v in r["variants"]], "data": r["data"], "records": r["variants"]}


def impl_subset(case):
    g = gtio.make_obj(case["cls"], "x.pgen" if case["cls"] == "GenotypesPLINK" else "x.vcf", case)
    outs = []
    for op in case["ops"]:
        if op["k"] == "index":
            g.index(samples=op["s"], variants=op["v"])
            outs.append(None)
            continue
        r = g.subset(samples=None if op["rs"] is None else tuple(op["rs"]), variants=None if op["cs"] is None else tuple(op["cs"]), inplace=op["inplace"])
        if op["inplace"]:
            if r is not None:
                return {"error": "inplace_returned_object"}
            outs.append(_snap(g))
        else:
            outs.append(_snap(r))
    return {"outs": outs, "final": _snap(g)}


def model_req_subset(case):
    nv = len(case["variants"])
    return {"op": "subsetRun", "samples": case["samples"], "variants": [v["id"] for v in case["variants"]], "data": [[i * 100 + j for j in range(nv)] for i in range(len(case["samples"]))], "ops": case["ops"]}


def model_obs_subset(case, resp):
    recs = {v["id"]: v for v in case["variants"]}

    def conv(c):
        if c is None:
            return None
        return {"samples": c["samples"], "variants": c["variants"], "data": [[_cell(x // 100, x % 100) for x in row] for row in c["data"]]}

    return {"outs": [conv(c) for c in resp["outs"]], "final": conv(resp["final"])}


def equal_subset(a, b):
    if "error" in a:
        return False
    strip = lambda c: None if c is None else {k: c[k] for k in ("samples", "variants", "data")}
    fix = lambda c: c if c is None or c["samples"] and c["variants"] else {**c, "data": [[] for _ in c["samples"]]}
    return C.canon([fix(strip(x)) for x in a["outs"]] + [fix(strip(a["final"]))]) == C.canon([fix(x) for x in b["outs"]] + [fix(b["final"])])


def oracle_subset(case, obs):
    """requested ∩ held, in the requested order, every cell still the cell of that (sample, variant) – from the property text"""
    if "error" in obs:
        return f"subset raised {obs}"
    srow = {s: i for i, s in enumerate(case["samples"])}
    vcol = {v["id"]: j for j, v in enumerate(case["variants"])}
    rec = {v["id"]: v for v in case["variants"]}
    cur_s, cur_v = list(case["samples"]), [v["id"] for v in case["variants"]]
    for k, (op, out) in enumerate(zip(case["ops"], obs["outs"])):
        if op["k"] == "index":
            continue
        ws = cur_s if op["rs"] is None else [x for x in op["rs"] if x in cur_s]
        wv = cur_v if op["cs"] is None else [x for x in op["cs"] if x in cur_v]
        if out["samples"] != ws:
            return f"op {k} {op}: samples {out['samples']}, requested-and-held in requested order: {ws}"
        if out["variants"] != wv:
            return f"op {k} {op}: variants {out['variants']}, requested-and-held in requested order: {wv}"
        cls_has_alleles = case["cls"] != "Genotypes"
        for v, r in zip(wv, out["records"]):
            want = rec[v] if cls_has_alleles else {kk: vv for kk, vv in rec[v].items() if kk != "alleles"}
            if r != want:
                return f"op {k} {op}: variant record {r} under ID {v}, loaded record was {want}"
        if ws and wv:
            for a, s_ in enumerate(ws):
                for b, v in enumerate(wv):
                    if out["data"][a][b] != _cell(srow[s_], vcol[v]):
                        return f"op {k} {op}: genotype of sample {s_} at {v} is {out['data'][a][b]}, the loaded object held {_cell(srow[s_], vcol[v])} there (rows/columns mislabelled)"
        if op["inplace"]:
            cur_s, cur_v = ws, wv
    if obs["final"]["samples"] != cur_s or obs["final"]["variants"] != cur_v:
        return f"after the sequence the object holds {obs['final']['samples']} x {obs['final']['variants']}, expected {cur_s} x {cur_v}"
    return None


def describe_subset(case, obs):
    tags = [f"class={case['cls']}", f"ops={len(case['ops'])}"]
    cur_s, cur_v = list(case["samples"]), [v["id"] for v in case["variants"]]
    seen_inplace_reorder = False
    for op in case["ops"]:
        if op["k"] != "subset":
            tags.append("explicit-index")
            continue
        if seen_inplace_reorder:
            tags.append("subset-after-inplace-reordering")
        for ax, cur, unknown in (("rs", cur_s, "zz"), ("cs", cur_v, "nosuch")):
            if op[ax] is not None:
                if unknown in op[ax]:
                    tags.append("unknown-name")
                if sorted(op[ax]) == sorted(cur) and op[ax] != cur and op["inplace"]:
                    seen_inplace_reorder = True
        if op["inplace"]:
            cur_s = cur_s if op["rs"] is None else [x for x in op["rs"] if x in cur_s]
            cur_v = cur_v if op["cs"] is None else [x for x in op["cs"] if x in cur_v]
    return sorted(set(tags))


CHECK = Check(
    id="C08",
    title="Restricted reads equal full read + subset, for VCF and PGEN alike",
    theorems=["C08.id_scan_eq_filter", "C08.read_restricted_eq_filter", "C08.empty_match", "C08.samples_in_file_order", "C08.subset_sequences_refine_spec", "C08.subset_requested_order", "C08.pgen_restricted_read_is_the_selection", "C08.pgen_restricted_read_eq_full_read_subset", "C08.pgen_restricted_read_chunk_irrelevant"],
    sections=[
        Section(
            name="restricted_reads",
            theorems=["C08.id_scan_eq_filter", "C08.read_restricted_eq_filter", "C08.empty_match", "C08.samples_in_file_order", "C08.pgen_restricted_read_is_the_selection", "C08.pgen_restricted_read_eq_full_read_subset", "C08.pgen_restricted_read_chunk_irrelevant"],
            gen=gen,
            impl=impl,
            model_req=model_req,
            model_obs=model_obs,
            equal=equal,
            oracle=oracle,
            describe=describe,
            setup=setup,
            teardown=teardown,
            nontrivial=lambda c, o: C.jdump([c["variants"], c["data"]]) if len(c["variants"]) > 1 else None,
            rule="seeded random contents written independently (harness writers) as indexed vcf.gz and as PGEN; 10 restrictions per content: regions 'c', 'c:a-b', 'c:a-' with a, b on / next to variant positions, absent contigs and contig names longer than 10 characters, sample subsets incl. unknown and all-unknown, variant-ID subsets incl. unknown and empty match, max_variants 0..p+1, PGEN chunk sizes; bulk read and streaming iterator (records collected first and compared afterwards, genotypes included), both formats; compared with the Lean restriction model and with full-read-then-subset; every 6th content has multi-base REF alleles (KF1 territory); every 5th content is written as a PGEN whose .pvar is unsorted with interleaved contigs and read as PGEN only",
        ),
        Section(
            name="subset_loaded",
            theorems=["C08.subset_sequences_refine_spec", "C08.subset_requested_order"],
            gen=gen_subset,
            impl=impl_subset,
            model_req=model_req_subset,
            model_obs=model_obs_subset,
            equal=equal_subset,
            oracle=oracle_subset,
            describe=describe_subset,
            nontrivial=lambda c, o: C.jdump([c["samples"], [v["id"] for v in c["variants"]], c["ops"]]),
            rule="sequences of 1-5 index() / subset(samples, variants, inplace) calls on loaded Genotypes / GenotypesVCF / GenotypesPLINK objects whose every cell is unique: requests are None, pure re-orderings of everything held, or random selections incl. unknown names, in place or not; after every call the returned (or altered) object and finally the object itself are compared with the Lean cache machine and with requested-and-held-in-requested-order computed from the loaded content, cell by cell",
        ),
    ],
    known_predicates={"region_straddles_multibase_ref": known_straddle},
    trusted=["tabix / cyvcf2 region semantics (records overlapping the interval)", "pgenlib indexing of variants and sample subsets"],
    assumptions=["variant IDs and sample IDs are unique; region coordinates >= 1; single-base REF for cross-format equality (KF1 records the multi-base case)"],
    anchors=[("haptools/data/genotypes.py", ["Genotypes.read", "Genotypes._iterate", "Genotypes.__iter__", "Genotypes.subset", "Genotypes.index", "GenotypesPLINK.read", "GenotypesPLINK.read_variants", "GenotypesPLINK._iterate_variants", "GenotypesPLINK._check_region", "GenotypesPLINK.read_samples", "GenotypesPLINK.__iter__", "GenotypesPLINK._iterate"])],
)
