"""Writers for small genotype fixture files (VCF text / bgzip+tabix / BCF via pysam, PGEN via pgenlib)."""
from __future__ import annotations

import os
from pathlib import Path

import numpy as np


def gt_str(a, b, ph):
    f = lambda x: "." if x == 255 else str(x)
    return f"{f(a)}{'|' if ph else '/'}{f(b)}"


def write_vcf_text(path, samples, variants, data, pops=None, contigs=None):
    """variants: list of (id, chrom, pos, [alleles]); data[s][v] = (a, b, phased); pops[s][v] = (p0,p1) strings"""
    contigs = contigs or sorted({v[1] for v in variants}, key=lambda c: (len(c), c))
    with open(path, "w") as o:
        o.write("##fileformat=VCFv4.2\n")
        for c in contigs:
            o.write(f"##contig=<ID={c}>\n")
        o.write('##FORMAT=<ID=GT,Number=1,Type=String,Description="Genotype">\n')
        if pops is not None:
            o.write('##FORMAT=<ID=POP,Number=2,Type=String,Description="Origin Population of each respective allele in GT">\n')
        o.write("#CHROM\tPOS\tID\tREF\tALT\tQUAL\tFILTER\tINFO\tFORMAT" + "".join("\t" + s for s in samples) + "\n")
        for j, (vid, chrom, pos, alleles) in enumerate(variants):
            fmt = "GT" if pops is None else "GT:POP"
            cells = []
            for i in range(len(samples)):
                a, b, ph = data[i][j]
                c = gt_str(a, b, ph)
                if pops is not None:
                    c += ":" + ",".join(pops[i][j])
                cells.append(c)
            o.write(f"{chrom}\t{pos}\t{vid}\t{alleles[0]}\t{','.join(alleles[1:]) or '.'}\t.\t.\t.\t{fmt}" + "".join("\t" + c for c in cells) + "\n")


def compress_index(vcf_path, out_gz):
    import pysam

    pysam.tabix_compress(str(vcf_path), str(out_gz), force=True)
    pysam.tabix_index(str(out_gz), preset="vcf", force=True)


def to_bcf(vcf_path, out_bcf, index=False):
    import pysam

    with pysam.VariantFile(str(vcf_path)) as i, pysam.VariantFile(str(out_bcf), "wb", header=i.header) as o:
        for r in i:
            o.write(r)
    if index:
        pysam.tabix_index(str(out_bcf), preset="bcf", force=True, csi=True)


def write_pgen(prefix, samples, variants, data):
    """independent PGEN writer (pgenlib directly); calls must be fully missing or fully present"""
    import pgenlib

    from . import common as C

    prefix = str(prefix)  # may hold dots of its own (cohort.chr1): the extensions are appended, never substituted
    key = [list(samples), [list(map(str, v[:3])) for v in variants]]
    # the sample file as other tools leave it, a function of the contents: the minimal '#IID' form, a comment line before the
    # header line, or the #FID IID SEX form (PLINK2's .psam specification admits all three)
    style = C.plumb(key, "psam-style", 4)
    if style == 2:
        psam = "# cohort release 3\n#IID\n" + "".join(s + "\n" for s in samples)
    elif style == 3:
        psam = "#FID\tIID\tSEX\n" + "".join(f"fam{i % 2}\t{s}\t{i % 3}\n" for i, s in enumerate(samples))
    else:
        psam = "#IID\n" + "".join(s + "\n" for s in samples)
    with open(prefix + ".psam", "w") as f:
        f.write(C.text_ending(key, "psam", psam))
    txt = "".join(f"##contig=<ID={c}>\n" for c in sorted({v[1] for v in variants}, key=lambda c: (len(c), c)))
    txt += "#CHROM\tPOS\tID\tREF\tALT\n"
    for vid, chrom, pos, alleles in variants:
        txt += f"{chrom}\t{pos}\t{vid}\t{alleles[0]}\t{','.join(alleles[1:]) or '.'}\n"
    with open(prefix + ".pvar", "w") as f:
        f.write(C.text_ending(key, "pvar", txt))  # the minimal five-column layout, for a quarter of the files without final newline
    ns, nv = len(samples), len(variants)
    if nv == 0:
        open(prefix + ".pgen", "wb").close()
        return
    max_ct = max(len(v[3]) for v in variants)
    with pgenlib.PgenWriter(filename=bytes(prefix + ".pgen", "utf8"), sample_ct=ns, variant_ct=nv, allele_ct_limit=max(max_ct, 2), nonref_flags=False, hardcall_phase_present=True) as w:
        for j in range(nv):
            al = np.empty(2 * ns, dtype=np.int32)
            ph = np.empty(ns, dtype=np.uint8)
            for i in range(ns):
                a, b, p = data[i][j]
                al[2 * i] = -9 if a == 255 else a
                al[2 * i + 1] = -9 if b == 255 else b
                ph[i] = 1 if p else 0
            w.append_partially_phased(al, ph.astype(np.bool_), allele_ct=max(len(variants[j][3]), 2))


def decoy_fileset(prefix):
    """an unrelated, older fileset under the name that is left when the inner part of a dotted name is cut off (`g` beside
    `g.chr1`): a PGEN triple with one sample and one variant, and a breakpoints file with labels no model knows"""
    prefix = str(prefix)
    write_pgen(prefix, ["DECOY"], [("decoy_variant", "9", 999, ["T", "G"])], [[(1, 1, 1)]])
    with open(prefix + ".bp", "w") as f:
        f.write("DECOY_1\nZZZ\t9\t2147483647\t1.0\nDECOY_2\nZZZ\t9\t2147483647\t1.0\n")
