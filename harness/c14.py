"""C14 — --no_replacement never copies the same stretch of a reference haplotype twice."""
from __future__ import annotations

import itertools

from . import common as C
from .run import Check, Section


def _sg():
    import haptools.sim_genotype as sg

    return sg


def overlap(a, b):
    return a[0] == b[0] and a[1] <= b[2] and b[1] <= a[2]


# ---------------------------------------------------------------- kernel: _find_coord ------
def ivs(chroms, hi):
    return [(c, s, e) for c in chroms for s in range(hi) for e in range(s, hi)]


def gen_kernel(rng, tier):
    dom = ivs((1, 2), 4 if tier == "quick" else 5)
    kmax = 2 if tier == "quick" else 2
    for k in range(kmax + 1):
        for used in itertools.combinations(dom, k):
            for req in dom:
                yield {"used": [list(u) for u in used], "req": list(req)}
    # random longer registries with wide coordinates
    for _ in range(500 if tier == "quick" else 20000):
        n = rng.randint(1, 6)
        used = []
        for _ in range(n):
            s = rng.randint(0, 50)
            used.append([rng.choice([1, 2, 23]), s, s + rng.randint(0, 20)])
        s = rng.randint(0, 50)
        yield {"used": used, "req": [rng.choice([1, 2, 23]), s, s + rng.randint(0, 20)]}


def impl_kernel(case):
    cur = [tuple(u) for u in case["used"]]
    try:
        r = _sg()._find_coord(cur, *case["req"])
    except (AttributeError, TypeError, KeyError, IndexError) as e:
        # a private function called with the harness's own rendering of its bookkeeping: such an error means the bookkeeping has
        # another shape now, not that the function misbehaves
        raise C.GlueBroken(f"_find_coord no longer takes (list of (chrom, start, end), chrom, start, end): {type(e).__name__}: {e}")
    return {"found": bool(r), "used": [list(u) for u in cur]}


def oracle_kernel(case, obs):
    if "error" in obs:
        return f"_find_coord raised {obs}"
    want = any(overlap(case["req"], u) for u in case["used"])
    if obs["found"] != want:
        return f"interval {case['req']} vs used {case['used']}: intersects={want} but reported used={obs['found']}"
    exp = case["used"] + ([] if want else [case["req"]])
    if obs["used"] != exp:
        return f"registry after the call is {obs['used']}, expected {exp}"
    return None


def variants_kernel(case):
    for i in range(len(case["used"])):
        yield {"used": case["used"][:i] + case["used"][i + 1 :], "req": case["req"]}


# ---------------------------------------------------------------- request sequences --------
def gen_seq(rng, tier):
    n = 400 if tier == "quick" else 20000
    for _ in range(n):
        ns = rng.randint(1, 3)
        reqs = []
        for _ in range(rng.randint(1, 10)):
            order = list(range(ns))
            rng.shuffle(order)
            order = order[: rng.randint(1, ns)]
            s = rng.randint(0, 8)
            reqs.append({"order": order, "req": [rng.choice([1, 1, 2]), s, s + rng.randint(0, 5)]})
        yield {"nhaps": 2 * ns, "reqs": reqs}


def impl_seq(case):
    sg = _sg()
    nh = case["nhaps"]
    sample_dict = {f"S{i}": i for i in range(nh // 2)}
    used = [[] for _ in range(nh)]
    grants = []
    completed = True
    for r in case["reqs"]:
        samples = [f"S{i}" for i in r["order"]]
        try:
            name, hap = sg._find_random_sample(samples, sample_dict, used, *r["req"])
        except Exception as e:
            if not C.deliberate_raise(e):
                if isinstance(e, (AttributeError, TypeError, KeyError, IndexError)):
                    raise C.GlueBroken(f"_find_random_sample no longer takes (samples, sample_dict, per-haplotype lists, chrom, start, end): {type(e).__name__}: {e}")
                raise
            completed = False  # refused by a `raise` of its own: nothing is left (type and wording are not fixed)
            break
        grants.append(2 * sample_dict[name] + int(hap))
    return {"grants": grants, "used": [[list(x) for x in l] for l in used], "completed": completed}


def oracle_seq(case, obs):
    if "error" in obs:
        return f"raised {obs}"
    # (1) the property itself: pairwise disjoint per reference haplotype
    for h, l in enumerate(obs["used"]):
        for a, b in itertools.combinations(l, 2):
            if overlap(a, b):
                return f"reference haplotype {h} gave away intersecting intervals {a} and {b}"
    # (2) every granted request is registered with the haplotype it was granted to; refusal only when exhausted
    reg = [[] for _ in range(case["nhaps"])]
    for i, r in enumerate(case["reqs"]):
        cands = [2 * s + k for s in r["order"] for k in (0, 1)]
        if i < len(obs["grants"]):
            g = obs["grants"][i]
            if g not in cands:
                return f"request {i} granted to haplotype {g} outside the population's candidates {cands}"
            reg[g].append(r["req"])
        else:
            if obs["completed"]:
                return f"request {i} neither granted nor refused"
            free = [h for h in cands if not any(overlap(r["req"], x) for x in reg[h])]
            if free:
                return f"request {i} {r['req']} refused although haplotypes {free} are free"
            break
    if reg != obs["used"]:
        return f"registry {obs['used']} differs from the granted requests {reg}"
    return None


def variants_seq(case):
    rs = case["reqs"]
    for i in range(len(rs)):
        yield {"nhaps": case["nhaps"], "reqs": rs[:i] + rs[i + 1 :]}
    for k in range(1, len(rs)):
        yield {"nhaps": case["nhaps"], "reqs": rs[:k]}


def nontrivial_kernel(case, obs):
    return ("k", tuple(map(tuple, case["used"])), tuple(case["req"])) if case["used"] else None


def describe_kernel(case, obs):
    if not case["used"]:
        return "empty-registry"
    r = case["req"]
    kinds = set()
    for u in case["used"]:
        if u[0] != r[0]:
            kinds.add("other-chrom")
        elif r[1] >= u[1] and r[2] <= u[2]:
            kinds.add("nested-in-used")
        elif u[1] >= r[1] and u[2] <= r[2]:
            kinds.add("covers-used")
        elif r[1] == u[2] or r[2] == u[1]:
            kinds.add("shares-endpoint")
        elif overlap(r, u):
            kinds.add("partial-overlap")
        elif r[1] == u[2] + 1 or u[1] == r[2] + 1:
            kinds.add("abutting")
        else:
            kinds.add("apart")
    return sorted(kinds)


# ---------------------------------------------------------------- validation of the panel size
def gen_panel(rng, tier):
    from . import c20

    want = 45 if tier == "quick" else 600
    t = -1
    for case in c20.gen(rng, "thorough"):
        if case["violation"] not in (None, "tooFewSamples"):
            continue
        t += 1
        n = int(case["nsamp"])
        case["no_repl"], case["only_bp"] = True, False
        # boundary panels: exactly n-1, n, n+1 reference samples per population
        # (every population, or a single one at any position of the model header while the others have plenty);
        # the margin and the position of the short population go round in turn, so that every run holds every combination
        k = [n - 1, n, n + 1][t % 3]
        if k < 1:
            k = n
        if t % 5 < 3:
            sp = case["pops"][(t // 3) % len(case["pops"])]
            case["per_pop"] = {q: (k if q == sp else n + 2) for q in case["pops"]}
            if rng.random() < 0.5:
                # a pulse model: that population contributes nothing to the first generation and enters later (or never)
                from fractions import Fraction

                i, l = case["pops"].index(sp), case["lines"][0]
                fr = [Fraction(x) for x in l[2:]]
                o = (i + 1) % len(fr)
                fr[o] += fr[i]
                fr[i] = Fraction(0)
                l[2:] = [(f"{float(x):.3f}".rstrip("0").rstrip(".") if x else "0") for x in fr]
                case["pulse"] = True
        else:
            case["per_pop"] = k
        case["margin"] = k - n
        case["route"] = rng.choice(["api", "cli"])  # validate_params directly, or through `haptools simgenotype --no_replacement`
        case["violation"] = "tooFewSamples" if k < n else None
        yield case
        want -= 1
        if want <= 0:
            return


def _c03(name):
    from . import c03

    return getattr(c03, name)


def _c20(name):
    from . import c20

    return getattr(c20, name)


CHECK = Check(
    id="C14",
    title="--no_replacement never copies the same stretch of a reference haplotype twice",
    theorems=[
        "C14.overlap_test_exact",
        "C14.request_keeps_disjoint",
        "C14.grant_or_exhausted",
        "C14.disjoint_after_any_run",
        "C14.findCoordOld_refuted",
        "C14.validate_rejects_small_panels",
        "C14.requests_are_block_extents",
    ],
    sections=[
        Section(
            name="find_coord",
            theorems=["C14.overlap_test_exact", "C14.request_keeps_disjoint"],
            gen=gen_kernel,
            impl=impl_kernel,
            model_req=lambda c: {"op": "findCoord", **c},
            model_obs=lambda c, r: r,
            oracle=oracle_kernel,
            nontrivial=nontrivial_kernel,
            describe=describe_kernel,
            variants=variants_kernel,
            rule="all registries of <=2 intervals over chromosomes {1,2} x endpoints 0..3 (0..4 thorough) x all requests (exhaustive), plus seeded random registries of 1-6 wide intervals; non-trivial = non-empty registry, distinct (registry, request)",
            exhaustive=False,
        ),
        Section(
            name="request_sequences",
            theorems=["C14.grant_or_exhausted", "C14.disjoint_after_any_run"],
            gen=gen_seq,
            impl=impl_seq,
            model_req=lambda c: {"op": "noReplRun", **c},
            model_obs=lambda c, r: r,
            oracle=oracle_seq,
            nontrivial=lambda c, o: C.jdump(c) if len(c["reqs"]) > 1 else None,
            describe=lambda c, o: "completed" if isinstance(o, dict) and o.get("completed") else "exhausted",
            variants=variants_seq,
            rule="seeded random sequences of 1-10 requests over 1-3 reference samples with shuffled candidate orders, issued to the real _find_random_sample with one shared registry; non-trivial = more than one request",
        ),
        Section(
            name="output_vcf_no_replacement",
            theorems=["C14.disjoint_after_any_run", "C14.grant_or_exhausted", "C14.requests_are_block_extents"],
            gen=lambda rng, tier: _c03("gen")(rng, tier, True),
            impl=lambda c: _c03("impl_wrap")(c),
            model_req=lambda c: _c03("model_req2")(c),
            model_obs=lambda c, r: _c03("model_obs")(c, r),
            equal=lambda a, b: _c03("equal")(a, b),
            oracle=lambda c, o: _c03("oracle")(c, o),
            setup=lambda: _c03("setup")(),
            teardown=lambda x: _c03("teardown")(x),
            nontrivial=lambda c, o: C.jdump(c),
            describe=lambda c, o: "refused-exhausted" if isinstance(o, dict) and "error" in o else "completed",
            rule="whole output_vcf --no_replacement runs over C03's identifiable panels, replayed into the Lean model as in C03 – including, per _convert_haplotype call, the (start, end) stretches requested from _find_random_sample, which must be the blocks' extents (panels with exactly, and more than, the needed samples per population; blocks nested in, overlapping, abutting and equal to blocks of other haplotypes on a grid of ends): from the output genotypes every (reference haplotype, variant) pair is used at most once, or the run ends in the 'No available sample' error",
        ),
        Section(
            name="big_panel_no_replacement",
            theorems=["C14.disjoint_after_any_run"],
            gen=lambda rng, tier: _c03("gen_big")(rng, tier, True),
            impl=lambda c: _c03("impl_big")(c),
            oracle=lambda c, o: _c03("oracle_big")(c, o),
            setup=lambda: _c03("setup")(),
            teardown=lambda x: _c03("teardown")(x),
            nontrivial=lambda c, o: C.jdump(c),
            describe=lambda c, o: f"nref={c['nref']}",
            rule="--no_replacement over reference panels of 260-520 samples of which the model's populations hold 24 (in the last columns, beyond 256; a run that exhausts them may refuse): the stretches that the bookkeeping hands out sample by sample are the stretches copied only if every copied allele is one the named reference sample carries at that variant (oracle of C03/big_panel)",
        ),
        Section(
            name="validate_panel_size",
            theorems=["C14.validate_rejects_small_panels"],
            gen=gen_panel,
            impl=lambda c: _c20("impl_cli" if c.get("route") == "cli" else "impl")(c),
            model_req=lambda c: _c20("model_req")(c),
            model_obs=lambda c, r: _c20("model_obs")(c, r),
            equal=lambda a, b: _c20("equal")(a, b),
            oracle=lambda c, o: _c20("oracle")(c, o),
            setup=lambda: _c20("setup")(),
            teardown=lambda x: _c20("teardown")(x),
            nontrivial=lambda c, o: C.jdump(c),
            describe=lambda c, o: [f"smallest-population-minus-nsamples={c['margin']}", "one-population-short" if isinstance(c["per_pop"], dict) else "all-populations-equal", "route=" + c.get("route", "api")] + (["short-population-absent-from-first-generation"] if c.get("pulse") else []),
            rule="--no_replacement runs whose reference panel holds exactly n-1, n or n+1 samples per model population (n = simulated samples): half of the cases through the Python entry points, half through the `haptools simgenotype --no_replacement` command line; n-1 must be refused before anything is simulated, n and n+1 accepted (a later 'No available sample' is an error, never reuse)",
        ),
    ],
    trusted=["Python list/tuple semantics of haps_used"],
    assumptions=["reference-sample indices handed to _find_random_sample are inside the registry (output_vcf builds both from the same sample list)"],
    anchors=[("haptools/sim_genotype.py", ["_find_coord", "_find_random_sample", "_convert_haplotype", "validate_params"])],
)
