"""C16 — haptools ld reports the Pearson correlation of dosages."""
from __future__ import annotations

import math
from fractions import Fraction

from . import common as C
from . import gtfiles as GF
from . import simdata as SD
from .run import Check, Section

_dir = None


def setup():
    global _dir
    _dir = C.scratch_dir("c16")
    return _dir


def teardown(_):
    C.rm_tree(_dir)


def gen(rng, tier):
    n = 320 if tier == "quick" else 4000
    for t in range(n):
        ns, nv = rng.randint(2, 8), rng.randint(1, 6)
        if rng.random() < 0.06:
            ns, nv = rng.randint(17, 40), rng.randint(6, 30)  # medium sizes
        base = [[rng.randint(0, 1), rng.randint(0, 1)] for _ in range(ns)]
        data = [[None] * nv for _ in range(ns)]
        for j in range(nv):
            r = rng.random()
            for i in range(ns):
                if r < 0.35:
                    data[i][j] = list(base[i]) if rng.random() < 0.8 else [rng.randint(0, 1), rng.randint(0, 1)]
                elif r < 0.45:
                    data[i][j] = [1, 1]
                else:
                    data[i][j] = [rng.randint(0, 1), rng.randint(0, 1)]
        haps = []
        for h in range(rng.randint(1, 3)):
            # V lines in genotype order or in any other order (a .hap file need not be sorted); sometimes one haplotype
            # spans every variant that will be loaded
            idx = rng.sample(range(nv), nv if rng.random() < 0.3 else rng.randint(1, min(3, nv)))
            if rng.random() < 0.5:
                idx.sort()
            haps.append({"id": f"H{h}", "vars": [[f"v{j}", rng.choice(["A", "C"])] for j in idx]})
        if nv >= 3 and rng.random() < 0.25:
            # two haplotypes that share their first and last (variant, allele) pair and differ in between
            j1, j2, j3 = sorted(rng.sample(range(nv), 3))
            al = [rng.choice(["A", "C"]) for _ in range(3)]
            haps = [{"id": "H0", "vars": [[f"v{j1}", al[0]], [f"v{j2}", al[1]], [f"v{j3}", al[2]]]}, {"id": "H1", "vars": [[f"v{j1}", al[0]], [f"v{j2}", "A" if al[1] == "C" else "C"], [f"v{j3}", al[2]]]}] + [h for h in haps[2:]]
            for k, h in enumerate(haps):
                h["id"] = f"H{k}"
        target_is_hap = rng.random() < 0.5
        target = rng.choice(haps)["id"] if target_is_hap else f"v{rng.randrange(nv)}"
        from_gts = rng.random() < 0.5
        span = None
        if nv >= 4 and rng.random() < 0.2:
            # a target haplotype over four or more variants whose first and last V lines are in place and whose interior
            # V lines are not in genotype order; everything else that is loaded lies inside it
            idx = sorted(rng.sample(range(nv), rng.randint(4, nv)))
            inner = idx[1:-1]
            while inner == idx[1:-1]:
                rng.shuffle(inner)
            span = [idx[0]] + inner + [idx[-1]]
            haps = [{"id": "H0", "vars": [[f"v{j}", rng.choice(["A", "C"])] for j in span]}]
            for h in range(rng.randint(1, 2)):
                sub = rng.sample(span, rng.randint(1, 3))
                haps.append({"id": f"H{h + 1}", "vars": [[f"v{j}", rng.choice(["A", "C"])] for j in sub]})
            target, target_is_hap = "H0", True
        ids = None
        if rng.random() < 0.5:
            pool = [f"v{j}" for j in range(nv)] if from_gts else [h["id"] for h in haps]
            ids = [rng.choice(pool) for _ in range(rng.randint(1, len(pool) + 1))]  # duplicates allowed
            if rng.random() < 0.3:
                # unknown IDs; with a haplotype target and --from-gts sometimes exactly as many as the target has unrequested variants
                tv = next((h["vars"] for h in haps if h["id"] == target), [])
                k_un = len([v for v, _ in tv if v not in ids]) if (from_gts and rng.random() < 0.6) else rng.randint(1, 2)
                for u in range(k_un):
                    ids.insert(rng.randrange(len(ids) + 1), f"unknown{u}")
        if span is not None and from_gts and rng.random() < 0.7:
            ids = [f"v{j}" for j in sorted(span)]  # exactly the target's own variants
            rng.random() < 0.5 and rng.shuffle(ids)
        case = {"data": data, "haps": haps, "target": target, "from_gts": from_gts, "ids": ids, "pgen": rng.random() < 0.3, "samples": rng.choice([None, None, "subset"]), "seed": rng.randrange(2**31), "repeat": rng.random() < 0.4, "indexed": rng.random() < 0.3}
        if nv >= 2 and span is None and rng.random() < 0.2:
            # the variants lie on two chromosomes, every haplotype on one of them; the .hap file is what concatenating
            # per-chromosome files gives (H lines of chromosome 1, their V lines, H lines of chromosome 2, their V lines),
            # indexed as it is
            half = rng.randint(1, nv - 1)
            hs = []
            for h in range(rng.randint(2, 4)):
                pool = list(range(half)) if (h % 2 == 0) else list(range(half, nv))
                idx = rng.sample(pool, rng.randint(1, min(3, len(pool))))
                hs.append({"id": f"H{h}", "vars": [[f"v{j}", rng.choice(["A", "C"])] for j in idx]})
            case["haps"], case["two_chrom"], case["indexed"] = hs, half, "concat"
            case["target"] = rng.choice(hs)["id"] if target_is_hap else target
            if not from_gts:
                pool = [h["id"] for h in hs]
                case["ids"] = None if rng.random() < 0.3 else [rng.choice(pool) for _ in range(rng.randint(1, len(pool)))]
            elif case["ids"] is not None:
                case["ids"] = [i for i in case["ids"] if not i.startswith("unknown")] or None
        yield case


def impl(case):
    import random
    from pathlib import Path

    from haptools.ld import calc_ld

    d = _dir / "l"
    C.rm_tree(d)
    d.mkdir(parents=True)
    ns, nv = len(case["data"]), len(case["data"][0])
    samples = [f"s{i}" for i in range(ns)]
    half = case.get("two_chrom")

    def loc(j):
        return ("1", 10 * (j + 1)) if half is None or j < half else ("2", 10 * (j - half + 1))

    variants = [(f"v{j}", loc(j)[0], loc(j)[1], ["A", "C"]) for j in range(nv)]
    data = [[(c[0], c[1], 1) for c in r] for r in case["data"]]
    if case["pgen"]:
        GF.write_pgen(d / "g", samples, variants, data)
        gf = d / "g.pgen"
    else:
        GF.write_vcf_text(d / "g.vcf", samples, variants, data, contigs=["1", "2"])
        gf = d / "g.vcf"

    def hline(h):
        ps = [loc(int(v[0][1:]))[1] for v in h["vars"]]
        return f"H\t{loc(int(h['vars'][0][0][1:]))[0]}\t{min(ps)}\t{max(ps) + 1}\t{h['id']}\n"

    def vlines(h):
        return "".join(f"V\t{h['id']}\t{loc(int(vid[1:]))[1]}\t{loc(int(vid[1:]))[1] + 1}\t{vid}\t{a}\n" for vid, a in h["vars"])

    with open(d / "h.hap", "w") as f:
        if case.get("indexed") == "concat":
            for c in ("1", "2"):
                mine = sorted((h for h in case["haps"] if loc(int(h["vars"][0][0][1:]))[0] == c), key=lambda h: min(loc(int(v[0][1:]))[1] for v in h["vars"]))
                for h in mine:
                    f.write(hline(h))
                if case["repeat"] and c == "1":
                    f.write("R\t1\t99995\t99999\tREP1\n")
                for h in mine:
                    f.write("".join(sorted(vlines(h).splitlines(True), key=lambda l: int(l.split("\t")[2]))))
        elif C.plumb(case, "v-lines", 4) == 3:
            # V lines first (what the documented `sort -k2,4` gives when haplotype IDs sort before chromosome names), or each
            # haplotype's H line between its own V lines: a V line belongs to the haplotype it names wherever it stands
            if case["repeat"]:
                f.write("R\t1\t5\t9\tREP1\n")
            if C.plumb(case, "v-first-kind", 2) == 0:
                for h in case["haps"]:
                    f.write(vlines(h))
                for h in case["haps"]:
                    f.write(hline(h))
            else:
                for h in case["haps"]:
                    vl = vlines(h).splitlines(True)
                    f.write("".join(vl[: (len(vl) + 1) // 2]) + hline(h) + "".join(vl[(len(vl) + 1) // 2 :]))
        else:
            for h in case["haps"]:
                f.write(hline(h))
            if case["repeat"]:
                f.write("R\t1\t5\t9\tREP1\n")
            if C.plumb(case, "v-lines", 4) == 0:
                # the V lines of all haplotypes in one run ordered by position (what sorting a .hap file by coordinate gives): the
                # lines of one haplotype are then separated by lines of the others
                allv = [l for h in case["haps"] for l in vlines(h).splitlines(True)]
                f.write("".join(sorted(allv, key=lambda l: int(l.split("\t")[2]))))
            else:
                for h in case["haps"]:
                    f.write(vlines(h))
    C.end_file(case, "h.hap", d / "h.hap")
    want = None
    if case["samples"]:
        rnd = random.Random(case["seed"])
        want = set(rnd.sample(samples, rnd.randint(2, ns)))
    out = d / ("out.ld" if case["from_gts"] else "out.hap")
    if C.plumb(case, "stale-out", 3) == 0:
        C.stale_output(out)
    hapfile = d / "h.hap"
    if case.get("indexed"):
        # the same haplotypes as a sorted, bgzipped and tabix-indexed file (haptools' own `index`, C11)
        from haptools.index import index_haps

        index_haps(d / "h.hap", sort=case["indexed"] != "concat", output=d / "hs.hap.gz", log=SD.silent_log())
        hapfile = d / "hs.hap.gz"
    # PGEN input is read in chunks of any size: none, 1, sizes that divide the number of variants and sizes that do not, beyond it
    chunk = [None, 1, 2, 3, 4, 50][C.plumb(case, "chunk", 6)] if case["pgen"] else None
    if want and C.plumb(case, "route", 3) == 0:
        # the same request through the command line, the samples in a file (in file order of the user's choosing; half of these
        # files end without a final newline)
        from click.testing import CliRunner
        from haptools.__main__ import main

        lst = sorted(want, reverse=True)
        open(d / "keep.txt", "w").write("\n".join(lst) + ("" if C.plumb(case, "list-ending", 2) == 0 else "\n"))
        args = ["ld", "-S", str(d / "keep.txt"), "-o", str(out)] + (["--from-gts"] if case["from_gts"] else []) + (["--chunk-size", str(chunk)] if chunk is not None else [])
        for i in case["ids"] or []:
            args += ["--id", i]
        r = CliRunner().invoke(main, args + [case["target"], str(gf), str(hapfile)], catch_exceptions=True)
        if r.exit_code != 0:
            if r.exception is not None and not isinstance(r.exception, SystemExit):
                raise r.exception
            raise ValueError(f"haptools ld exited with status {r.exit_code}: {r.output[-200:]}")
    else:
        calc_ld(case["target"], gf, hapfile, samples=want, ids=None if case["ids"] is None else tuple(case["ids"]), from_gts=case["from_gts"], chunk_size=chunk, output=out, log=SD.silent_log())
    rows = []
    if case["from_gts"]:
        lines = open(out).read().splitlines()
        for l in lines[1:]:
            c, bp, snp, r = l.split("\t")
            rows.append([snp, r])
    else:
        for l in open(out):
            if l.startswith("H\t"):
                f = l.rstrip("\n").split("\t")
                rows.append([f[4], f[5]])
    return {"rows": rows, "want": sorted(want) if want else None}


def dosages(case, keep):
    nv = len(case["data"][0])
    dv = {f"v{j}": [sum(case["data"][i][j]) for i in keep] for j in range(nv)}
    dh = {}
    for h in case["haps"]:
        d = []
        for i in keep:
            n = 0
            for k in (0, 1):
                if all(["A", "C"][case["data"][i][int(v[1:])][k]] == a for v, a in h["vars"]):
                    n += 1
            d.append(n)
        dh[h["id"]] = d
    return dv, dh


def pearson(a, b):
    n = len(a)
    sa, sb = sum(a), sum(b)
    va = n * sum(x * x for x in a) - sa * sa
    vb = n * sum(x * x for x in b) - sb * sb
    if va == 0 or vb == 0:
        return None
    cov = n * sum(x * y for x, y in zip(a, b)) - sa * sb
    return cov / math.sqrt(va * vb), Fraction(cov * cov, va * vb), (cov > 0) - (cov < 0)


def _keep(case):
    """the samples the run is restricted to, as the case fixes them (the same draw as in impl)"""
    import random

    ns = len(case["data"])
    if not case["samples"]:
        return list(range(ns))
    rnd = random.Random(case["seed"])
    want = set(rnd.sample([f"s{i}" for i in range(ns)], rnd.randint(2, ns)))
    return [i for i in range(ns) if f"s{i}" in want]


TOL, TOL_K = 2, 1000000  # slack of the three-decimal window in the model: 2/(2000*10^6) = 1e-9, as in the oracle


def model_req(case):
    tgt_hap = any(h["id"] == case["target"] for h in case["haps"])
    nv = len(case["data"][0])
    mode = "hap" if not case["from_gts"] else ("gts_hap" if tgt_hap else "gts_var")
    ids = case["ids"]
    if mode == "hap" and ids is not None:
        ids = ids + [case["target"]] if tgt_hap else ids
    return {"op": "calcLd", "mode": mode, "haps": [{"id": h["id"], "vars": h["vars"]} for h in case["haps"]], "variants": [{"id": f"v{j}", "alleles": ["A", "C"]} for j in range(nv)], "data": case["data"], "keep": _keep(case), "target": case["target"], "tgtHap": tgt_hap, "ids": ids, "tol": TOL, "K": TOL_K}


def model_obs(case, resp):
    return {"listed": resp["listed"], "rows": resp["rows"]}


def _thousandths(r):
    """the printed value as an integer number of thousandths (exact: the text has three decimals), or None"""
    from decimal import Decimal, InvalidOperation

    try:
        d = Decimal(r) * 1000
    except InvalidOperation:
        return None
    return int(d) if d == d.to_integral_value() else None


def equal(a, b):
    if "error" in a:
        return False
    if sorted(r[0] for r in a["rows"]) != sorted(b["listed"]) or len(a["rows"]) != len(b["listed"]):
        return False
    # every printed value is one the model accepts for that row (LdStat.printsAs, C16R.printed_value_is_R_to_three_decimals);
    # nan exactly where the model's statistic is undefined
    want = {}
    for name, st in b["rows"]:
        want.setdefault(name, []).append(st)
    for name, r in a["rows"]:
        st = want[name].pop(0)
        if st is None:
            if r != "nan":
                return False
        elif r == "nan" or _thousandths(r) not in st["accepted"]:
            return False
    return True


def oracle(case, obs):
    if "error" in obs:
        tgt_hap = any(h["id"] == case["target"] for h in case["haps"])
        if not case["from_gts"] and tgt_hap and (len(case["haps"]) == 1 or (case["ids"] is not None and not [i for i in case["ids"] if i != case["target"]])):
            return None  # nothing but the target to correlate with: an error is acceptable
        return f"calc_ld raised {obs}"
    ns = len(case["data"])
    keep = [i for i in range(ns) if obs["want"] is None or f"s{i}" in obs["want"]]
    dv, dh = dosages(case, keep)
    tgt = dh.get(case["target"], dv.get(case["target"]))
    listed = [r[0] for r in obs["rows"]]
    if len(set(listed)) != len(listed):
        return f"{[x for x in listed if listed.count(x) > 1][0]} is listed more than once: {listed}"
    tgt_hap = case["target"] in dh
    if not case["from_gts"]:
        want = [h["id"] for h in case["haps"] if h["id"] != case["target"] and (case["ids"] is None or h["id"] in case["ids"])]
        if sorted(listed) != sorted(want):
            return f"haplotypes listed {listed}; requested (target {case['target']} excluded, repeats ignored): {want}"
    else:
        nv = len(case["data"][0])
        allv = [f"v{j}" for j in range(nv)]
        if case["ids"] is None:
            want = allv
        elif tgt_hap:
            want = [v for v in dict.fromkeys(case["ids"]) if v in allv]  # unknown IDs are ignored, never replaced
        else:
            want = [v for v in allv if v in case["ids"] or v == case["target"]]
        if sorted(listed) != sorted(want):
            return f"variants listed {listed}; requested {want}"
    for name, r in obs["rows"]:
        other = dh.get(name, dv.get(name))
        p = pearson(tgt, other)
        if p is None:
            if r != "nan":
                return f"R({case['target']},{name}) printed as {r} although one dosage vector is constant ({tgt} / {other})"
            continue
        if r == "nan":
            return f"R({case['target']},{name}) is nan although neither dosage vector is constant ({tgt} / {other})"
        if abs(float(r) - p[0]) > 0.0005 + 1e-9:
            return f"R({case['target']},{name}) printed as {r}; Pearson correlation of the dosages {tgt} and {other} is {p[0]:.6f}"
        # symmetry: LD(A,B)=LD(B,A)
        q = pearson(other, tgt)
        if q[1] != p[1] or q[2] != p[2]:
            return "Pearson correlation not symmetric"
    return None


def describe(case, obs):
    tgt_hap = any(h["id"] == case["target"] for h in case["haps"])
    return [("hap-target" if tgt_hap else "variant-target"), ("from-gts" if case["from_gts"] else "hap-output"), ("ids" if case["ids"] is not None else "no-ids"), ("pgen" if case["pgen"] else "vcf"), ("dup-ids" if case["ids"] and len(set(case["ids"])) < len(case["ids"]) else "uniq-ids"), ("sample-subset" if case["samples"] else "all-samples"), ("indexed-concatenated-hap.gz" if case.get("indexed") == "concat" else "indexed-hap.gz" if case.get("indexed") else "plain-hap"), ("target-interior-permuted" if any(h["id"] == case["target"] and len(h["vars"]) >= 4 and [int(v[0][1:]) for v in h["vars"]] != sorted(int(v[0][1:]) for v in h["vars"]) and int(h["vars"][0][0][1:]) == min(int(v[0][1:]) for v in h["vars"]) and int(h["vars"][-1][0][1:]) == max(int(v[0][1:]) for v in h["vars"]) for h in case["haps"]) else "target-other"), ("some-haplotype-unsorted" if any([int(v[0][1:]) for v in h["vars"]] != sorted(int(v[0][1:]) for v in h["vars"]) for h in case["haps"]) else "haplotypes-sorted")]


# ------------------------------------------------------------------ pearson_corr_ld kernel, incl. biobank-size cohorts
def gen_kernel(rng, tier):
    sizes = [3, 50, 1000, 100000, 150000] if tier == "quick" else [3, 50, 1000, 100000, 150000, 400000]
    for n in sizes:
        for rep in range(2 if tier == "quick" else 6):
            yield {"n": n, "seed": rng.randrange(2**31), "pa": rng.choice([0.05, 0.3, 0.5]), "flip": rng.choice([0.05, 0.3, 0.6]), "two_d": rng.random() < 0.3}


def _arrays(case):
    import numpy as np

    g = np.random.default_rng(case["seed"])
    a = g.binomial(2, case["pa"], size=case["n"]).astype(np.int64)
    noise = g.binomial(2, 0.5, size=case["n"]).astype(np.int64)
    b = np.where(g.random(case["n"]) < case["flip"], noise, a)
    return a, b


def impl_kernel(case):
    import numpy as np
    from haptools.ld import pearson_corr_ld

    a, b = _arrays(case)
    if case["two_d"]:
        r = pearson_corr_ld(a, np.stack([b, a], axis=1))
        return {"r": float(r[0]), "r_self": float(r[1]), "r_rev": float(pearson_corr_ld(b, a))}
    return {"r": float(pearson_corr_ld(a, b)), "r_self": float(pearson_corr_ld(a, a)), "r_rev": float(pearson_corr_ld(b, a))}


def model_req_kernel(case):
    if case["n"] > 1000:
        return {"op": "ldStat", "a": [], "b": [], "tol": TOL, "K": TOL_K}  # the biobank sizes are judged by the oracle alone
    a, b = _arrays(case)
    return {"op": "ldStat", "a": [int(x) for x in a], "b": [int(x) for x in b], "tol": TOL, "K": TOL_K}


def model_obs_kernel(case, resp):
    return {"skipped": True} if case["n"] > 1000 else resp


def _r_of(st):
    return None if st is None else st["num"] / math.sqrt(st["da"] * st["db"])


def equal_kernel(a, b):
    if b.get("skipped"):
        return True
    if "error" in a:
        return False
    for k, mk in (("r", "stat"), ("r_rev", "rev"), ("r_self", "self")):
        want = _r_of(b[mk])
        if want is None:
            if not math.isnan(a[k]):
                return False
        elif not abs(a[k] - want) <= 1e-9:
            return False
    return True


def oracle_kernel(case, obs):
    if "error" in obs:
        return f"pearson_corr_ld raised {obs}"
    a, b = _arrays(case)
    p = pearson([int(x) for x in a], [int(x) for x in b])
    if p is None:
        return None if math.isnan(obs["r"]) else f"constant input but R={obs['r']}"
    for k, want in (("r", p[0]), ("r_rev", p[0]), ("r_self", 1.0)):
        if not (abs(obs[k] - want) <= 1e-9):
            return f"{k}={obs[k]} for {case['n']} samples; exact Pearson correlation is {want}"
    return None


CHECK = Check(
    id="C16",
    title="haptools ld reports the Pearson correlation of dosages",
    theorems=["C16.listing_hap_mode", "C16.listing_from_gts_hap_target", "C16.listing_from_gts_var_target", "C16.hap_dosage_counts_strands", "C16.one_row_per_listed_name", "C16.rows_use_strand_dosage", "C16.ld_symmetric", "C16.ld_symmetric_as_printed", "C16R.nan_iff_a_dosage_is_constant", "C16R.printed_value_is_R_to_three_decimals", "C16R.R_abs_le_one", "C16R.R_is_pearson", "C16R.pearson_symm", "C16R.pearson_sq_le_one", "C16R.undefined_iff_constant"],
    imports=("HapModel", "HapReal"),
    build_targets=("HapModel", "HapReal"),
    sections=[
        Section(
            name="calc_ld",
            theorems=["C16.listing_hap_mode", "C16.listing_from_gts_hap_target", "C16.listing_from_gts_var_target", "C16.hap_dosage_counts_strands", "C16.one_row_per_listed_name", "C16.rows_use_strand_dosage", "C16.ld_symmetric", "C16.ld_symmetric_as_printed", "C16R.nan_iff_a_dosage_is_constant", "C16R.printed_value_is_R_to_three_decimals", "C16R.R_abs_le_one", "C16R.R_is_pearson"],
            gen=gen,
            impl=impl,
            model_req=model_req,
            model_obs=model_obs,
            equal=equal,
            oracle=oracle,
            describe=describe,
            setup=setup,
            teardown=teardown,
            nontrivial=lambda c, o: C.jdump(c) if isinstance(o, dict) and any(r[1] not in ("nan", "1.000") for r in o.get("rows", [])) else None,
            rule="seeded bi-allelic phased matrices without missing calls (2-8 samples x 1-6 variants; correlated, constant and independent columns), .hap sets of 1-3 haplotypes (plus a repeat that must be ignored), all eight combinations of {haplotype / variant target} x {--from-gts} x {--id given, with repeated IDs}, sample subsets, VCF and PGEN; calc_ld is run and its .hap / .ld output parsed: the listing is compared with the Lean plan, every printed R with the exact Pearson correlation of the dosages (|R - r| <= 0.0005 + 1e-9, 'nan' iff a dosage vector is constant); non-trivial = some R is neither nan nor 1.000",
        ),
        Section(
            name="pearson_kernel",
            theorems=["C16R.pearson_symm", "C16R.pearson_sq_le_one", "C16R.undefined_iff_constant", "C16.ld_symmetric", "C16R.R_is_pearson"],
            gen=gen_kernel,
            impl=impl_kernel,
            model_req=model_req_kernel,
            model_obs=model_obs_kernel,
            equal=equal_kernel,
            oracle=oracle_kernel,
            nontrivial=lambda c, o: C.jdump(c),
            describe=lambda c, o: f"n={c['n']}",
            rule="pearson_corr_ld on int64 dosage vectors of 3 ... 150 000 samples (400 000 thorough; 1D and 2D forms, both argument orders, self-correlation) against the exact correlation computed with Python integers (1e-9): biobank-size cohorts included",
        ),
    ],
    trusted=["np.corrcoef and the '%.3f' formatting (the printed value is compared with the exact value within half a unit in the third decimal)", "by-ID subset (C12) and transform (C04) for the haplotype dosages"],
    assumptions=["genotypes are bi-allelic, phased and complete (calc_ld enforces it); haplotype and variant IDs are unique"],
    partial="np.corrcoef and %.3f rounding are floating point",
    anchors=[("haptools/ld.py", ["pearson_corr_ld", "calc_ld"])],
)
