"""Shared plumbing of the haptools verification harness.

Layers (see DESIGN.md §1/§2):
  L1  Lean build + axiom/sorry audit of the registered property theorems
  L2  correspondence: real haptools (in-process, from /repo's working tree) vs the Lean model driver
  L3  violation search with independent oracles
"""
from __future__ import annotations

import hashlib
import json
import os
import random
import re
import subprocess
import sys
import time
import traceback
from pathlib import Path

VERIF = Path(__file__).resolve().parent.parent
LEAN = Path(os.environ.get("VERIF_LEAN_DIR", VERIF / "lean"))  # override only for developing the model in a scratch copy
EVID = Path(os.environ.get("VERIF_EVIDENCE_DIR", VERIF / "evidence"))  # override only for experiments against scratch worktrees
REPLAYS = EVID / "replays"
CORPUS = VERIF / "corpus"
REPO = Path(os.environ.get("HAPTOOLS_REPO", "/repo"))
ALLOWED_AXIOMS = {"propext", "Classical.choice", "Quot.sound"}
SCRATCH_ROOT = Path("/dev/shm") if Path("/dev/shm").is_dir() else Path("/tmp")


class Infra(Exception):
    """infrastructure problem (exit code 2): never used to hide a violation"""


def jdump(o, **kw):
    return json.dumps(o, sort_keys=True, default=_default, **kw)


def _default(o):
    try:
        import numpy as np

        if isinstance(o, np.integer):
            return int(o)
        if isinstance(o, np.floating):
            return float(o)
        if isinstance(o, np.ndarray):
            return o.tolist()
        if isinstance(o, np.bool_):
            return bool(o)
    except ImportError:
        pass
    if isinstance(o, (set, frozenset)):
        return sorted(o)
    if isinstance(o, tuple):
        return list(o)
    if isinstance(o, Path):
        return str(o)
    if isinstance(o, bytes):
        return o.decode("latin1")
    return repr(o)


def canon(o):
    """canonical JSON-able form (tuples -> lists, numpy -> python) used for comparison"""
    return json.loads(jdump(o))


def scratch_dir(tag: str) -> Path:
    # the directory name holds a blank (users keep data under "My Documents" and the like): every path the checks hand to the
    # implementation then does; the driver's own scratch directory stays plain
    blank = " run" if tag != "drv" and os.environ.get("VERIF_PLAIN_PATHS") != "1" else ""
    d = SCRATCH_ROOT / f"hapverif-{tag}-{os.getpid()}{blank}"
    d.mkdir(parents=True, exist_ok=True)
    return d


def plumb(case, tag: str, n: int) -> int:
    """a choice in range(n) that is a function of the case (and the tag) alone: how the plumbing around a case varies – final
    newline or not, an older file in the place of the output, the name of a file – without touching the generators"""
    import hashlib

    return int(hashlib.sha256((jdump(case) + "|" + tag).encode()).hexdigest()[:8], 16) % n


def text_ending(case, tag: str, text: str) -> str:
    """the same text as users' tools leave it: mostly with its final newline, for a quarter of the cases without it"""
    if text.endswith("\n") and not text.endswith("\n\n") and plumb(case, "ending:" + tag, 4) == 0:
        return text[:-1]
    return text


def end_file(case, tag: str, path):
    """like `text_ending` for a plain-text file that is already written: a quarter of the cases lose the final newline"""
    try:
        with open(path, "rb") as f:
            b = f.read()
        if b.endswith(b"\n") and not b.endswith(b"\n\n") and plumb(case, "ending:" + tag, 4) == 0:
            with open(path, "wb") as f:
                f.write(b[:-1])
    except OSError:
        pass


class as_stream:
    """`with as_stream(path) as fifo:` – the bytes of a file offered as a stream (a named pipe, as `/dev/stdin` fed by another
    program is): it can be read once, front to back, and cannot be sniffed, counted or re-opened"""

    def __init__(self, path):
        self.src = Path(path)

    def __enter__(self):
        import threading

        self.fifo = self.src.parent / (self.src.name + ".fifo")
        if self.fifo.exists():
            self.fifo.unlink()
        os.mkfifo(self.fifo)
        data = self.src.read_bytes()

        def feed():
            try:
                fd = os.open(self.fifo, os.O_WRONLY)
                try:
                    os.write(fd, data) if data else None
                finally:
                    os.close(fd)
            except OSError:
                pass

        self.t = threading.Thread(target=feed, daemon=True)
        self.t.start()
        return self.fifo

    def __exit__(self, *exc):
        # release a feeder nobody read from (the reader failed before opening the pipe)
        try:
            fd = os.open(self.fifo, os.O_RDONLY | os.O_NONBLOCK)
            os.close(fd)
        except OSError:
            pass
        self.t.join(timeout=2)
        try:
            self.fifo.unlink()
        except OSError:
            pass
        return False


def stale_output(path, sidecars=()):
    """an older, longer file already sits where the output goes (a re-run into the same name): it must not show in the result"""
    junk = ("stale line from an older run\tX\t1\t2\t3\n" * 4000).encode()
    for p in (path, *sidecars):
        try:
            Path(p).parent.mkdir(parents=True, exist_ok=True)
            with open(p, "wb") as f:
                f.write(junk)
        except OSError:
            pass


def rm_tree(d: Path):
    import shutil

    shutil.rmtree(d, ignore_errors=True)


# --------------------------------------------------------------------------------------------
# L1: Lean build and audit
# --------------------------------------------------------------------------------------------

_BAD_TOKENS = re.compile(r"\b(sorry|admit|native_decide|bv_decide|implemented_by|unsafe)\b|^\s*axiom\s|maxHeartbeats\s+0", re.M)


def _strip_comments(src: str) -> str:
    # remove nested block comments and line comments
    out = []
    i, depth, n = 0, 0, len(src)
    while i < n:
        if src.startswith("/-", i):
            depth += 1
            i += 2
        elif depth and src.startswith("-/", i):
            depth -= 1
            i += 2
        elif depth:
            i += 1
        elif src.startswith("--", i):
            j = src.find("\n", i)
            i = n if j < 0 else j
        else:
            out.append(src[i])
            i += 1
    return "".join(out)


def lean_sources():
    files = sorted(p for p in LEAN.rglob("*.lean") if ".lake" not in p.parts)
    return files


def lean_source_hash() -> str:
    h = hashlib.sha256()
    for p in lean_sources():
        h.update(str(p.relative_to(LEAN)).encode())
        h.update(p.read_bytes())
    return h.hexdigest()[:16]


def lean_build(targets=("HapModel",), timeout=1500):
    """`lake build`; no-op when up to date.  Returns (ok, log)."""
    t0 = time.time()
    try:
        r = subprocess.run(["lake", "build", *targets], cwd=LEAN, capture_output=True, text=True, timeout=timeout)
    except FileNotFoundError as e:
        raise Infra(f"lake not found: {e}")
    except subprocess.TimeoutExpired:
        raise Infra("lake build timed out")
    log = (r.stdout + r.stderr)[-4000:]
    return r.returncode == 0, log, time.time() - t0


def grep_forbidden():
    hits = []
    for p in lean_sources():
        if p.name.startswith("Scratch"):
            continue
        src = _strip_comments(p.read_text())
        for m in _BAD_TOKENS.finditer(src):
            hits.append(f"{p.relative_to(LEAN)}: {m.group(0).strip()}")
    return hits


def lean_audit(theorems: list[str], imports=("HapModel",), timeout=900):
    """#print axioms for every registered theorem.  Returns dict name -> {"ok","axioms","msg"}.
    Cached on the hash of all Lean sources (the .olean files it reads are products of those)."""
    cache_f = LEAN / ".lake" / "audit_cache.json"
    key = lean_source_hash() + ":" + hashlib.sha256(("|".join(theorems) + "|" + "|".join(imports)).encode()).hexdigest()[:12]
    try:
        cache = json.loads(cache_f.read_text())
    except Exception:
        cache = {}
    if key in cache:
        return cache[key]
    body = "".join(f"import {i}\n" for i in imports) + "".join(f"#print axioms {t}\n" for t in theorems)
    f = LEAN / f".lake/audit_{os.getpid()}.lean"
    f.parent.mkdir(exist_ok=True)
    f.write_text(body)
    try:
        r = subprocess.run(["lake", "env", "lean", str(f)], cwd=LEAN, capture_output=True, text=True, timeout=timeout)
    except subprocess.TimeoutExpired:
        raise Infra("axiom audit timed out")
    finally:
        f.unlink(missing_ok=True)
    out = r.stdout + r.stderr
    res = {}
    flat = re.sub(r"\s+", " ", out)
    for t in theorems:
        m = re.search(r"'" + re.escape(t) + r"' depends on axioms: \[([^\]]*)\]", flat)
        if m:
            ax = [a.strip() for a in m.group(1).split(",") if a.strip()]
            res[t] = {"ok": set(ax) <= ALLOWED_AXIOMS, "axioms": ax}
        elif re.search(r"'" + re.escape(t) + r"' does not depend on any axioms", flat):
            res[t] = {"ok": True, "axioms": []}
        else:
            res[t] = {"ok": False, "axioms": None, "msg": "theorem not found / did not check"}
    if r.returncode == 0 or all(v["ok"] for v in res.values()):
        cache = {k: v for k, v in cache.items() if k.startswith(lean_source_hash() + ":")}  # drop entries of older sources
        cache[key] = res
        try:
            cache_f.write_text(json.dumps(cache))
        except Exception:
            pass
    return res


def lean_modules_of(pid: str, imports=("HapModel",)) -> list[str]:
    """the property module and every HapModel.* module it (transitively) imports"""
    roots = [f"HapModel.Props.{pid}"] + (["HapModel.Real.PropsReal"] if "HapReal" in imports else [])
    seen, todo = [], list(roots)
    while todo:
        m = todo.pop()
        if m in seen:
            continue
        f = LEAN / (m.replace(".", "/") + ".lean")
        if not f.exists():
            continue
        seen.append(m)
        for line in f.read_text().splitlines():
            mm = re.match(r"import (HapModel\.[\w.]+)", line)
            if mm:
                todo.append(mm.group(1))
    return sorted(seen)


def lean_recheck(pid: str, imports=("HapModel",), timeout=3000):
    """thorough tier: leanchecker (the toolchain's independent re-checker of .olean files) replays every declaration of
    the property's modules through the kernel.  Returns (ok, modules, message); cached on the Lean source hash."""
    mods = lean_modules_of(pid, imports)
    cache_f = LEAN / ".lake" / "recheck_cache.json"
    key = lean_source_hash() + ":" + ",".join(mods)
    try:
        cache = json.loads(cache_f.read_text())
    except Exception:
        cache = {}
    if cache.get(key) is True:
        return True, mods, "cached"
    try:
        r = subprocess.run(["lake", "env", "leanchecker", *mods], cwd=LEAN, capture_output=True, text=True, timeout=timeout)
    except subprocess.TimeoutExpired:
        raise Infra("leanchecker timed out")
    ok = r.returncode == 0
    if ok:
        cache = {k: v for k, v in cache.items() if k.startswith(lean_source_hash() + ":")}
        cache[key] = True
        try:
            cache_f.write_text(json.dumps(cache))
        except Exception:
            pass
    return ok, mods, (r.stdout + r.stderr)[-400:]


# --------------------------------------------------------------------------------------------
# L2: model driver
# --------------------------------------------------------------------------------------------


def run_model(requests: list[dict], timeout=1200) -> list[dict]:
    """Feed JSON lines to the Lean driver, one response line per request."""
    if not requests:
        return []
    d = scratch_dir("drv")
    fin, fout = d / "in.jsonl", d / "out.jsonl"
    with open(fin, "w") as f:
        for r in requests:
            f.write(json.dumps(r, separators=(",", ":")) + "\n")
    try:
        with open(fin) as i, open(fout, "w") as o:
            r = subprocess.run(["lake", "env", "lean", "--run", "Driver.lean"], cwd=LEAN, stdin=i, stdout=o, stderr=subprocess.PIPE, text=True, timeout=timeout)
    except subprocess.TimeoutExpired:
        raise Infra("Lean driver timed out")
    lines = fout.read_text(encoding="utf-8").split("\n")  # not splitlines(): U+0085, U+2028 … may occur inside JSON strings
    if lines and lines[-1] == "":
        lines.pop()
    if r.returncode != 0 or len(lines) != len(requests):
        raise Infra(f"Lean driver failed (rc={r.returncode}, {len(lines)}/{len(requests)} answers): {r.stderr[-2000:]}")
    out = []
    for ln in lines:
        out.append(json.loads(ln))
    rm_tree(d)
    return out


_bp_prefix_cache: dict = {}


def model_bp_prefix(out) -> str:
    """where `simgenotype --out <out>` puts its breakpoints (without the .bp), according to the Lean model (OutPrefix.bpPrefix,
    theorem C19.breakpoints_prefix_of_out); one driver call per distinct name"""
    out = str(out)
    if out not in _bp_prefix_cache:
        _bp_prefix_cache[out] = run_model([{"op": "bpPrefix", "out": out}])[0]["prefix"]
    return _bp_prefix_cache[out]


# --------------------------------------------------------------------------------------------
# implementation side helpers
# --------------------------------------------------------------------------------------------


class capture_logs:
    """context manager: re-enable logging and collect the records emitted through `self.logger`"""

    def __init__(self, name="hapverif-capture"):
        import logging

        self.records = []
        self.logger = logging.getLogger(name + str(id(self)))
        self.logger.propagate = False
        self.logger.setLevel(logging.DEBUG)
        outer = self

        class H(logging.Handler):
            def emit(self, record):
                outer.records.append((record.levelname, record.getMessage()))

        self._h = H()
        self.logger.addHandler(self._h)

    def __enter__(self):
        import logging

        logging.disable(logging.NOTSET)
        return self

    def __exit__(self, *a):
        import logging

        logging.disable(logging.CRITICAL)
        self.logger.removeHandler(self._h)
        return False

    def has(self, level):
        return any(l == level for l, _ in self.records)


def import_haptools():
    """import haptools from REPO's working tree (never from a stale copy)"""
    import logging

    logging.disable(logging.CRITICAL)  # haptools' default loggers write to stderr; checks that observe
    # warnings use `capture_logs`
    sys.path.insert(0, str(REPO))
    import haptools  # noqa

    # GenotypesPLINK.read/write call gc.collect() per chunk; with the harness' large heap of recorded
    # traces that turns quadratic.  Memory management only: replaced by a no-op inside the harness process.
    import types
    import haptools.data.genotypes as _g

    if hasattr(_g, "gc"):
        _g.gc = types.SimpleNamespace(collect=lambda *a, **k: 0)
    got = Path(haptools.__file__).resolve().parent.parent
    if got != REPO.resolve():
        raise Infra(f"haptools imported from {got}, expected {REPO}")
    return haptools


ERR_ENUM = {
    "ValueError": "value_error",
    "IndexError": "index_error",
    "KeyError": "key_error",
    "TypeError": "type_error",
    "AssertionError": "assertion_error",
    "AttributeError": "attribute_error",
    "OverflowError": "overflow_error",
    "ZeroDivisionError": "zero_division",
    "RuntimeError": "runtime_error",
    "Exception": "exception",
    "SystemExit": "system_exit",
    "UsageError": "usage_error",
    "NameError": "name_error",
    "UnboundLocalError": "name_error",
    "StopIteration": "stop_iteration",
    "FileNotFoundError": "file_not_found",
}


def err_obs(e: BaseException):
    return {"error": ERR_ENUM.get(type(e).__name__, "other:" + type(e).__name__)}


class CaseTimeout(BaseException):
    pass


class GlueBroken(BaseException):
    """the harness could not bind to the implementation (a private function it records was renamed, re-signed or is called
    differently): the correspondence cannot be established, which is not an observation of the implementation's behaviour.
    BaseException so that the implementation's own `except Exception` cannot swallow it."""


# methods of the recording proxies for numpy's generators: a call that fails inside numpy shows the proxy as the innermost Python
# frame although the caller – the implementation – chose the arguments
_TRANSPARENT = {"randint", "rand", "choice", "shuffle", "seed", "default_rng", "normal", "random", "permutation", "__getattr__"}


def _is_glue(e: BaseException) -> bool:
    """did this exception arise in harness code (binding to a name or signature that is no longer there, or reading its own
    recordings of internals that no longer have the recorded shape) rather than inside the implementation?  A missing output
    file or an OS error is behaviour of the implementation and stays an observation."""
    import traceback

    if isinstance(e, GlueBroken):
        return True
    if not isinstance(e, Exception) or isinstance(e, (OSError, MemoryError)):
        return False
    tb = traceback.extract_tb(e.__traceback__)
    here = str(Path(__file__).resolve().parent)
    while tb and tb[-1].filename.startswith(here) and tb[-1].name in _TRANSPARENT:
        tb = tb[:-1]
    if not tb:
        return False
    return tb[-1].filename.startswith(here)


def deliberate_raise(e: BaseException) -> bool:
    """was this exception raised by a `raise` statement of the implementation itself (a refusal it words itself), as opposed to
    an accident somewhere below it (an IndexError out of numpy, a KeyError of a dict …)?  Independent of type and wording."""
    import traceback

    tb = traceback.extract_tb(e.__traceback__)
    if not tb:
        return False
    inner = tb[-1]
    return inner.filename.startswith(str(REPO / "haptools")) and (inner.line or "").lstrip().startswith("raise")


class glue:
    """`with glue("what"):` around the harness's own bookkeeping inside a recorder: anything that goes wrong there means the
    recorder no longer fits the code it records"""

    def __init__(self, what):
        self.what = what

    def __enter__(self):
        return self

    def __exit__(self, et, e, tb):
        if e is not None and isinstance(e, Exception):
            raise GlueBroken(f"{self.what}: {et.__name__}: {e}") from e
        return False


def bind_args(orig, a, k):
    """arguments of a recorded call by parameter name; raises GlueBroken when the recorded function no longer has the
    parameters the recorder was written for"""
    import inspect

    try:
        b = inspect.signature(orig).bind(*a, **k)
        b.apply_defaults()
        return b.arguments
    except TypeError as e:
        raise GlueBroken(f"cannot bind the call of {getattr(orig, '__name__', orig)}: {e}")


def find_private(mod, preferred: str, params: tuple):
    """the private function a recorder attaches to: by its name, or – when it was renamed – the one function of the module whose
    parameters include the given names; returns (attribute name, function) or raises GlueBroken"""
    import inspect

    f = getattr(mod, preferred, None)
    if callable(f):
        return preferred, f
    cands = []
    for name, g in vars(mod).items():
        if inspect.isfunction(g) and g.__module__ == mod.__name__:
            try:
                ps = set(inspect.signature(g).parameters)
            except (TypeError, ValueError):
                continue
            if set(params) <= ps:
                cands.append((name, g))
    if len(cands) == 1:
        return cands[0]
    raise GlueBroken(f"{mod.__name__}.{preferred} is gone and {len(cands)} functions take the parameters {params}")


def need(args, *names):
    try:
        return [args[n] for n in names]
    except KeyError as e:
        raise GlueBroken(f"recorded function has no parameter {e}")


CASE_TIMEOUT = float(os.environ.get("VERIF_CASE_TIMEOUT", "20"))
_timeouts = [0]


def guarded(fn, *a, **kw):
    """run one implementation/model case: exceptions are mapped to the error enum; a case that does not finish
    within CASE_TIMEOUT seconds (a hang of the real code is an observation, not an infrastructure problem)
    is reported as {"error": "timeout"}"""
    import signal

    def _raise(*_):
        raise CaseTimeout()

    old = signal.signal(signal.SIGALRM, _raise)
    # after five hangs the remaining cases get a short leash so that a hanging implementation cannot turn the
    # whole check into an infrastructure time-out
    signal.setitimer(signal.ITIMER_REAL, CASE_TIMEOUT if _timeouts[0] < 5 else min(CASE_TIMEOUT, 2.0))
    try:
        return fn(*a, **kw)
    except (KeyboardInterrupt, Infra):
        raise
    except CaseTimeout:
        _timeouts[0] += 1
        return {"error": "timeout", "msg": f"did not finish within {CASE_TIMEOUT}s"}
    except BaseException as e:  # noqa
        if _is_glue(e):
            return {"error": "harness_glue", "msg": f"{type(e).__name__}: {e}"[:300]}
        o = err_obs(e)
        o["msg"] = (str(e) or "")[:200]
        o["deliberate"] = deliberate_raise(e)
        return o
    finally:
        signal.setitimer(signal.ITIMER_REAL, 0)
        signal.signal(signal.SIGALRM, old)


def strip_msg(o):
    if isinstance(o, dict) and "error" in o:
        return {"error": o["error"]}
    return o


def ast_hash(module_file: Path, names: list[str]) -> str:
    """normalised-AST hash of the named top-level functions / Class.method of a module (drift detector)"""
    import ast

    try:
        tree = ast.parse(module_file.read_text())
    except Exception:
        return "unparsable"
    want = set(names)
    h = hashlib.sha256()
    for node in ast.walk(tree):
        if isinstance(node, ast.ClassDef):
            for sub in node.body:
                if isinstance(sub, (ast.FunctionDef,)) and f"{node.name}.{sub.name}" in want:
                    h.update(_dump_nodoc(sub).encode())
        elif isinstance(node, ast.FunctionDef) and node.name in want:
            h.update(_dump_nodoc(node).encode())
    return h.hexdigest()[:16]


def _dump_nodoc(fn):
    import ast

    body = fn.body
    if body and isinstance(body[0], ast.Expr) and isinstance(getattr(body[0], "value", None), ast.Constant) and isinstance(body[0].value.value, str):
        fn = ast.FunctionDef(name=fn.name, args=fn.args, body=body[1:] or [ast.Pass()], decorator_list=fn.decorator_list, returns=None, type_comment=None, lineno=0, col_offset=0)
    return ast.dump(fn, annotate_fields=False, include_attributes=False)


# --------------------------------------------------------------------------------------------
# misc
# --------------------------------------------------------------------------------------------


def derive_rng(seed: int, tag: str) -> random.Random:
    return random.Random(int(hashlib.sha256(f"{seed}:{tag}".encode()).hexdigest()[:16], 16))


def shrink_list(items: list, still_fails, max_steps=200):
    """greedy delta debugging over a list: drop chunks while `still_fails(candidate)`"""
    cur = list(items)
    n = 2
    steps = 0
    while len(cur) >= 2 and steps < max_steps:
        size = max(1, len(cur) // n)
        reduced = False
        for i in range(0, len(cur), size):
            cand = cur[:i] + cur[i + size :]
            steps += 1
            if cand and still_fails(cand):
                cur = cand
                n = max(n - 1, 2)
                reduced = True
                break
        if not reduced:
            if size == 1:
                break
            n = min(n * 2, len(cur))
    return cur
