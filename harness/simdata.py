"""Generators and instrumentation shared by the simgenotype properties (C01, C02, C03, C10, C14, C20)."""
from __future__ import annotations

import logging
import os
from pathlib import Path

import numpy as np

MAX = 2**31 - 1
_log = logging.getLogger("hapverif-silent")
_log.addHandler(logging.NullHandler())
_log.propagate = False
_log.setLevel(logging.CRITICAL + 1)


def silent_log():
    return _log


POPS = ["CEU", "YRI", "AMR", "EAS"]
# population labels are free text in the model file: longer than any fixed-width field, two of them sharing a long prefix
LONG_POPS = ["European_1", "European_2", "NativeAmerican", "EastAsian"]


def gen_model(rng, max_lines=4, npops=None, nsamples=None):
    """a valid admixture model as (num_samples, pops, [(generation, [fracs])]); first line has no admixed part"""
    k = npops or rng.randint(2, 4)
    pops = POPS[:k]
    n = nsamples or rng.randint(1, 5)
    lines = []
    g = 0
    nlines = rng.randint(1, max_lines)
    for li in range(nlines):
        g += rng.randint(1, 3)
        if li == 0:
            adm = 0.0
        else:
            adm = rng.choice([0.0, 0.2, 0.5, 0.8, 1.0])
        rest = 1.0 - adm
        # fractions with exact float32-friendly values, some zero
        w = [rng.choice([0, 1, 1, 2, 3]) for _ in range(k)]
        if sum(w) == 0:
            w[rng.randrange(k)] = 1
        fr = [rest * x / sum(w) for x in w]
        # make them sum to 1 after rounding to 3 decimals
        fr = [round(x, 3) for x in fr]
        fr[max(range(k), key=lambda i: fr[i])] += round(1.0 - adm - sum(fr), 3)
        fr = [round(x, 3) for x in fr]
        lines.append((g, [adm] + fr))
    if rng.random() < 0.3:
        pops = LONG_POPS[:k]
    return n, pops, lines


def write_model(path, model, sep="\t"):
    n, pops, lines = model
    with open(path, "w") as f:
        f.write(sep.join([str(n), "Admixed", *pops]) + "\n")
        for g, fr in lines:
            f.write(sep.join([str(g), *[repr(x) if x not in (0.0, 1.0) else str(int(x)) for x in fr]]) + "\n")


def gen_maps(rng, chroms=None, max_markers=10, steep=None):
    """{chrom: [(bp, cM int)]} with strictly increasing bp, non-decreasing integer cM"""
    if chroms is None:
        chroms = sorted(rng.sample(range(1, 23), rng.randint(1, 3)))
        chroms = [str(c) for c in chroms]
        if rng.random() < 0.3:
            chroms.append("X")
    maps = {}
    # cM coordinates restart at 0 on every chromosome, start at an arbitrary offset, or run on cumulatively
    style = rng.choice(["zero", "zero", "offset", "cumulative"])
    carry = 0
    for c in chroms:
        nm = rng.randint(2, max_markers)
        bps = sorted(rng.sample(range(100, 100000), nm))
        first = 0 if style == "zero" else (rng.choice([3, 50, 700]) if style == "offset" else carry + rng.choice([0, 10]))
        steps = [first] + [rng.choice([0, 5, 40, 150, 400] if steep is None else steep) for _ in range(nm - 1)]
        cms = list(np.cumsum(steps))
        carry = int(cms[-1])
        maps[c] = [(int(b), int(m)) for b, m in zip(bps, cms)]
    return chroms, maps


def write_maps(d, maps, names=None):
    os.makedirs(d, exist_ok=True)
    for c, mk in maps.items():
        fn = (names or {}).get(c, f"chr{c}.map")
        with open(Path(d) / fn, "w") as f:
            for b, m in mk:
                f.write(f"{c}\trs{b}\t{m}\t{b}\n")


def seg_t(s):
    cm = s.get_end_pos()
    icm = int(round(cm))
    return [int(s.get_pop()), int(s.get_chrom()), int(s.get_end_coord()), icm if abs(cm - icm) < 1e-9 else cm]


class _RandProxy:
    def __init__(self, real):
        self._real = real
        self.log = []

    def __getattr__(self, n):
        return getattr(self._real, n)

    def randint(self, *a, **k):
        r = self._real.randint(*a, **k)
        self.log.append(("randint", a, k, r))
        return r

    def rand(self, *a):
        r = self._real.rand(*a)
        self.log.append(("rand", a, {}, r))
        return r

    def choice(self, *a, **k):
        r = self._real.choice(*a, **k)
        self.log.append(("choice", a, k, r))
        return r

    def shuffle(self, x):
        self._real.shuffle(x)
        self.log.append(("shuffle", (), {}, list(x)))

    def seed(self, *a, **k):
        self.log.append(("seed", a, k, None))
        return self._real.seed(*a, **k)


class record_random:
    """`with record_random() as rec:` – every call of a function of numpy's process-wide generator made through the
    `numpy.random` module (`np.random.x(...)`, `from numpy import random as r; r.x(...)`, …) while the block runs is logged in
    `rec.log` as (name, args, kwargs, result).  The functions are wrapped on the module itself, so the recording does not depend
    on how the calling module imports numpy; only a name bound with `from numpy.random import x` before the block escapes it."""

    SKIP = {"get_state", "set_state", "get_bit_generator", "set_bit_generator"}

    def __init__(self):
        self.log = []

    def __enter__(self):
        import numpy.random as R

        self.R, self.saved = R, {}
        for name in dir(R):
            f = getattr(R, name)
            if name.startswith("_") or name in self.SKIP or isinstance(f, type) or not callable(f):
                continue
            self.saved[name] = f
            setattr(R, name, self._wrap(name, f))
        return self

    def _wrap(self, name, f):
        log = self.log

        def w(*a, **k):
            if name == "seed":
                log.append((name, a, k, None))
                return f(*a, **k)
            r = f(*a, **k)
            log.append((name, (), {}, list(a[0])) if name == "shuffle" else (name, a, k, r))
            return r

        w.__name__ = name
        return w

    def __exit__(self, *exc):
        for name, f in self.saved.items():
            setattr(self.R, name, f)
        return False


class _NPProxy:
    def __init__(self, rp):
        self.random = rp

    def __getattr__(self, n):
        return getattr(np, n)


def instrumented_simulate(model_file, mapdir, chroms, region, popsize, seed):
    """run the real simulate_gt with `np.random` (as seen by sim_genotype), `_simulate` and `get_segment`
    wrapped.  Returns dict(num_samples, pop_dict, final, gens=[…]) where each generation records the
    previous population (snapshot at entry and at exit), the children, the per-sample get_segment calls and
    the random tapes."""
    import haptools.sim_genotype as sg

    from . import common as C

    calls = []
    gens = []
    sim_name, orig_sim = C.find_private(sg, "_simulate", ("samples", "pops", "pop_fracs", "pop_gen", "chroms", "coords", "end_coords", "recomb_probs"))
    orig_gs = sg.get_segment

    def rec_gs(*a, **k):
        out = orig_gs(*a, **k)
        with C.glue("recording get_segment"):
            pop, hap, chrom, st, en, cm = list(C.bind_args(orig_gs, a, k).values())[:6]
            calls.append([int(pop), int(hap), int(chrom), int(st), int(en), float(cm), len(out)])
        return out

    def rec_sim(*a, **k):
        with C.glue("recording _simulate (entry)"):
            A = C.bind_args(orig_sim, a, k)
            samples, pops, pop_fracs, pop_gen, chroms_, coords, end_coords, recomb_probs = C.need(A, "samples", "pops", "pop_fracs", "pop_gen", "chroms", "coords", "end_coords", "recomb_probs")
            rest = [v for n, v in A.items() if n not in ("samples", "pops", "pop_fracs", "pop_gen", "chroms", "coords", "end_coords", "recomb_probs")]
            prev = rest[0] if rest else None  # the previous generation, whatever the parameter is called
            prev_snapshot = [[seg_t(s) for s in h] for h in (prev or [])]
            log_start = len(rp.log)
            call_start = len(calls)
        out = orig_sim(*a, **k)
        with C.glue("recording _simulate (exit)"):
            gens.append(
                dict(
                    samples=int(samples),
                    pop_gen=int(pop_gen),
                    pop_fracs=[float(x) for x in pop_fracs],
                    chroms=[int(c) if c != "X" else 23 for c in chroms_],
                    end_coords=[[int(m.get_bp_pos()), float(m.get_map_pos())] for m in end_coords],
                    prev=prev_snapshot,
                    prev_after=[[seg_t(s) for s in h] for h in (prev or [])],
                    children=[[seg_t(s) for s in h] for h in out],
                    calls=calls[call_start:],
                    rlog=rp.log[log_start:],
                    coords=coords,
                    recomb_probs=recomb_probs,
                )
            )
        return out

    sg.get_segment = rec_gs
    setattr(sg, sim_name, rec_sim)
    try:
        with record_random() as rp:
            n, pop_dict, final = sg.simulate_gt(model_file, mapdir, chroms, region, popsize, _log, seed)
    finally:
        sg.get_segment = orig_gs
        setattr(sg, sim_name, orig_sim)
    return dict(num_samples=n, pop_dict=pop_dict, final=final, gens=gens)


def decode_generation(g):
    """turn the recorded random log of one `_simulate` call into per-sample tapes:
    founding population, two parental haplotype indices, initial homolog + roll-over bits, sorted events"""
    rl = g["rlog"]
    S = g["samples"]
    i = 0
    assert rl[i][0] == "choice", rl[i][:3]
    parent_pop = [int(x) for x in rl[i][3]]
    i += 1
    assert rl[i][0] == "randint" and rl[i][2].get("size") == 2 * S, rl[i][:3]
    hap_arr = rl[i][3]  # mutated in place by the redraw loop: read at the end
    i += 1
    while i < len(rl) and rl[i][0] == "randint" and rl[i][1] == (S,) and not rl[i][2]:
        i += 1
    haplotypes = [int(x) for x in hap_arr]
    samples = []
    chroms = g["chroms"]
    coords = g["coords"]
    rp = g["recomb_probs"]
    while i < len(rl):
        assert rl[i][0] == "randint" and rl[i][1] == (2,), (i, rl[i][:3])
        b0 = int(rl[i][3])
        i += 1
        assert rl[i][0] == "rand", (i, rl[i][:3])
        prob = rl[i][3]
        i += 1
        bits = [b0]
        while i < len(rl) and rl[i][0] == "randint" and rl[i][1] == (2,) and not (i + 1 < len(rl) and rl[i + 1][0] == "rand"):
            bits.append(int(rl[i][3]))
            i += 1
        ev = []
        mask = prob < rp
        for ci in range(mask.shape[0]):
            for j in range(mask.shape[1]):
                if mask[ci, j]:
                    m = coords[ci, j]
                    pc = m.get_prev_coord()
                    ev.append((chroms.index(int(m.get_chrom())), float(m.get_map_pos()), int(pc.get_bp_pos()), float(pc.get_map_pos())))
        ev.sort(key=lambda e: (e[0], e[1]))
        samples.append(dict(bits=bits, events=[[e[0], e[2], int(round(e[3]))] for e in ev]))
    assert len(samples) == S, (len(samples), S)
    for s, smp in enumerate(samples):
        smp["pop"] = parent_pop[s]
        smp["haps"] = haplotypes[2 * s : 2 * s + 2]
    return samples


def tapes_from_calls(g):
    """the same per-haplotype tapes read off the recorded `get_segment` calls instead of the generator's log – used when the
    log no longer has the shape `decode_generation` knows (another order or kind of draws is no change of behaviour): the
    population and the two parental haplotypes are those of the calls, a recombination event is every call that ends before
    the chromosome does, the homolog bits are the homologs the calls after a chromosome end start with"""
    per_child, complete = split_calls(g)
    if not complete:
        return None
    chroms = g["chroms"]
    out = []
    for mine in per_child:
        if not mine:
            return None
        pop, a = mine[0][0], mine[0][1]
        others = [c[1] for c in mine if c[1] != a]
        b = others[0] if others else a  # one haplotype only: both homologs are it (founders may draw the same index twice)
        if any(c[0] != pop for c in mine) or any(c[1] not in (a, b) for c in mine) or any(c[2] not in chroms for c in mine):
            return None
        homs = [0 if c[1] == a else 1 for c in mine]
        events = [[chroms.index(c[2]), c[4], int(round(c[5]))] for c in mine if c[4] != MAX]
        bits = [homs[0]] + [homs[k + 1] for k, c in enumerate(mine[:-1]) if c[4] == MAX] + [0]
        out.append(dict(pop=pop, haps=[a, b], bits=bits, events=events))
    return out


def split_calls(g):
    """group the recorded get_segment calls by simulated haplotype using the children's lengths"""
    out = []
    k = 0
    calls = g["calls"]
    for child in g["children"]:
        need = len(child)
        mine = []
        got = 0
        while got < need and k < len(calls):
            mine.append(calls[k])
            got += calls[k][6]
            k += 1
        out.append(mine)
    return out, k == len(calls)


def label_at(segs, chrom, pos):
    for s in segs:
        if s[1] == chrom and pos <= s[2]:
            return s[0]
    return None
